#!/usr/bin/env python3
"""Regenerate MANIFEST.json from props.py (claimed checks) + the fixed not-applicable list."""
import json, os, subprocess, sys
sys.path.insert(0, os.path.dirname(os.path.abspath(__file__)))
from props import PROPS, NOT_APPLICABLE, PENDING

all_ids = [json.loads(l)["id"] for l in open("/verif/properties.jsonl")]
checks = []
for pid in all_ids:
    c = PROPS.get(pid)
    if not c:
        continue
    checks.append({
        "property_id": pid,
        "quick_cmd": "./check run %s --tier quick" % pid,
        "thorough_cmd": "./check run %s --tier thorough" % pid,
        "evidence_file": "evidence/%s.json" % pid,
        "replay_cmd_template": "./check replay {path}",
        "engine": "gosim",
        "level_claimed": {"category": c.get("level", "exploration"), "text": c["level_text"], "design_ref": c.get("design_ref", "DESIGN.md section 5, " + pid)},
        "level_note": c.get("level_note", "Trusted: the patched go1.26.8 runtime (only fixes unspecified choices: select order, map iteration, goroutine scheduling), testing/synctest fake clock, the harness oracles written from the property text. Sampling, not proof."),
        "technique": c.get("technique", "deterministic simulation: seeded schedules + fault injection, checked against a reference model"),
    })
na = []
for pid in all_ids:
    if pid in PROPS:
        continue
    if pid in NOT_APPLICABLE:
        na.append({"property_id": pid, "reason": NOT_APPLICABLE[pid]})
    else:
        na.append({"property_id": pid, "reason": PENDING.get(pid, "check not built yet in this session (planned in DESIGN.md section 5); not claimed until its world exists and is clean on the unchanged tree")})
hooks = subprocess.run(["git", "-C", "/repo", "log", "--format=%H %s"], stdout=subprocess.PIPE, text=True).stdout.splitlines()
hook_commits = [l.split()[0] for l in hooks if " verif:" in l or " verif hooks" in l]
m = {
    "version": 1,
    "setup_cmd": "./setup.sh",
    "hooks": {
        "guard": "verif",
        "enable": "go test -c -tags 'leveldb verif' -ldflags=-checklinkname=0 (patched go1.26.8 in /verif/.gosim/goroot); hook files are new *_verif.go / verif_hooks.go files with //go:build verif",
        "baseline_off_cmd": "cd /repo && go test -vet=off -count=1 -timeout 25m ./...",
        "source_commits": hook_commits,
        "add_only": True,
    },
    "engines": [{"name": "gosim", "path": "harness/gosim", "serves_properties": sorted(PROPS), "kind_free_text": "deterministic simulation: patched Go runtime + synctest bubble + seeded baton scheduler, simulated network/disk/clock, one run per process, driver ./check fans out seeds, minimises and replays"}],
    "checks": checks,
    "not_applicable": na,
    "notes": "See DESIGN.md. Exit 0 held / 1 VIOLATION / 2 harness or build trouble. known-findings.json lists genuine defects (open ones are reported as KNOWN-FINDING, fixed ones suppress nothing).",
}
json.dump(m, open("/verif/MANIFEST.json", "w"), indent=1)
print("checks:", len(checks), "not claimed:", len(na))
