#!/bin/sh
# Regenerate toolchain/gosim-runtime.patch from the patched copy in .gosim/goroot.
cd /verif/.gosim/goroot && diff -ruN /opt/veriftools/go1.26.8/src src \
  | sed -e 's#^--- /opt/veriftools/go1.26.8/src#--- a/src#' -e 's#^+++ src#+++ b/src#' -e 's#^diff -ruN /opt/veriftools/go1.26.8/src\(.*\) src\(.*\)#diff -ruN a/src\1 b/src\2#' \
  > /verif/toolchain/gosim-runtime.patch
cp /verif/toolchain/gosim-runtime.patch /verif/.gosim/patch.applied
wc -l /verif/toolchain/gosim-runtime.patch
