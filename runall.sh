#!/bin/bash
# Runs every claimed check's quick tier in /verif (rewrites evidence/*.json) and prints a summary.
cd /verif
for p in $(python3 -c "
import json
for c in json.load(open('MANIFEST.json'))['checks']: print(c['property_id'])"); do
  t0=$(date +%s)
  ./check run $p --tier quick > /tmp/runall-$p.log 2>&1; rc=$?
  echo "$p rc=$rc $(( $(date +%s)-t0 ))s $(grep -E "^$p:" /tmp/runall-$p.log | cut -c1-120)"
done
