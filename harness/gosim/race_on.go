//go:build race

package gosim

import "runtime"

const RaceEnabled = true

func RaceOff() { runtime.RaceDisable() }
func RaceOn()  { runtime.RaceEnable() }
