//go:build race

package gosim

import "runtime"

const RaceEnabled = true

func raceOff() { runtime.RaceDisable() }
func raceOn()  { runtime.RaceEnable() }
