// Package gosim is the deterministic simulator core: a seeded baton scheduler
// on top of the patched Go runtime (see /verif/toolchain/gosim-runtime.patch)
// and a testing/synctest bubble (fake clock, quiescence detection).
//
// One OS process executes one run: Main parses the command line, generates or
// loads the plan, enters the bubble, runs the world and leaves with os.Exit
// after printing the result as one JSON line on stdout.
package gosim

import (
	cryptorand "crypto/rand"
	"crypto/sha256"
	"encoding/hex"
	"encoding/json"
	"flag"
	"fmt"
	"io"
	"math/rand"
	randv2 "math/rand/v2"
	"os"
	"runtime"
	"runtime/pprof"
	"sort"
	"strings"
	"sync"
	"sync/atomic"
	"testing"
	"testing/cryptotest"
	"testing/synctest"
	"time"
)

// Op is one workload operation or one fault of a plan. Plans are plain data so
// that the driver can shrink them without knowing what they mean.
type Op struct {
	K string  `json:"k"`
	A []int64 `json:"a,omitempty"`
	S string  `json:"s,omitempty"`
}

func (o Op) Arg(i int) int64 {
	if i < len(o.A) {
		return o.A[i]
	}
	return 0
}

func (o Op) String() string {
	if o.S != "" {
		return fmt.Sprintf("%s%v%q", o.K, o.A, o.S)
	}
	return fmt.Sprintf("%s%v", o.K, o.A)
}

// Plan is everything that determines an execution besides the code.
type Plan struct {
	Prop   string           `json:"prop"`
	World  string           `json:"world"`
	Seed   uint64           `json:"seed"`
	Tier   string           `json:"tier"`
	Params map[string]int64 `json:"params"`
	Ops    []Op             `json:"ops"`
	Faults []Op             `json:"faults"`
	// Expect is filled in replay files: the violation class that must reproduce.
	Expect string `json:"expect,omitempty"`
}

func (p *Plan) P(name string, def int64) int64 {
	if v, ok := p.Params[name]; ok {
		return v
	}
	return def
}

type Violation struct {
	Class string `json:"class"`
	Msg   string `json:"msg"`
}

// Result is printed by the child as its last stdout line.
type Result struct {
	Prop       string           `json:"prop"`
	Seed       uint64           `json:"seed"`
	Violation  *Violation       `json:"violation"`
	Stats      map[string]int64 `json:"stats"`
	SimNs      int64            `json:"sim_ns"`
	Yields     int64            `json:"yields"`
	Picks      int64            `json:"picks"`
	Goroutines int64            `json:"goroutines"`
	EventsHash string           `json:"events_hash"`
	SchedHash  string           `json:"sched_hash"`
	Sig        string           `json:"sig"`
	Nontrivial bool             `json:"nontrivial"`
	OpsRun     int64            `json:"ops_run"`
	Plan       *Plan            `json:"plan,omitempty"`
	Trace      []string         `json:"trace,omitempty"`
}

// World is one simulated world for one property.
type World struct {
	Prop string
	// Gen builds the plan from the seed's PRNG. It must not touch anything but rng.
	Gen func(rng *rand.Rand, tier string) *Plan
	// Exec runs the plan inside the bubble and reports through r.
	Exec func(r *Run)
	// Native lists function-name prefixes whose goroutines are exempt from
	// scheduling (pure computations, e.g. BMT section workers).
	Native []string
	// Components for the evidence file.
	Real  []string
	Stubs []string
}

var registry = map[string]*World{}

func Register(w *World) { registry[w.Prop] = w }

func Worlds() map[string]*World { return registry }

// Run is the handle a world uses during execution.
type Run struct {
	Plan  *Plan
	World *World
	// Rng is for execution-time choices that are not worth putting in the plan.
	// It is derived from the plan seed only.
	Rng   *rand.Rand
	start time.Time

	mu     sync.Mutex
	stats  []statKV
	events []string
	evHash [32]byte
	nEv    int64
	keep   bool
	opsRun int64
	nontrv bool
	ntSet  bool
	done   bool
	cleanup []func()
}

type statKV struct {
	k string
	v int64
}

func (r *Run) Now() time.Duration { return time.Since(r.start) }

// Logf appends to the event log. Never draws randomness nor reads a real clock.
// The harness's own shared state is touched only in go:norace functions under
// RaceOff, so that in -race builds neither its synchronisation (which would
// order all program accesses) nor its memory accesses reach the detector.
//
//go:norace
func (r *Run) Logf(format string, a ...interface{}) {
	s := fmt.Sprintf(format, a...)
	RaceOff()
	r.mu.Lock()
	// hash on goroutine-local copies: sha256 is instrumented code and must not
	// see the shared state (race builds)
	prev := r.evHash
	h := sha256.New()
	h.Write(prev[:])
	h.Write([]byte(s))
	var sum [32]byte
	copy(sum[:], h.Sum(nil))
	r.evHash = sum
	r.nEv++
	if r.keep {
		r.events = append(r.events, fmt.Sprintf("%d t=%v g=%x %s", r.nEv, time.Since(r.start), runtime.GosimID()&0xffff, s))
	}
	r.mu.Unlock()
	RaceOn()
}

//go:norace
func (r *Run) Add(name string, n int64) {
	RaceOff()
	r.mu.Lock()
	found := false
	for i := range r.stats {
		if r.stats[i].k == name {
			r.stats[i].v += n
			found = true
			break
		}
	}
	if !found {
		r.stats = append(r.stats, statKV{name, n})
	}
	r.mu.Unlock()
	RaceOn()
}
func (r *Run) Count(name string) { r.Add(name, 1) }

//go:norace
func (r *Run) Stat(name string) int64 {
	RaceOff()
	r.mu.Lock()
	v := int64(0)
	for i := range r.stats {
		if r.stats[i].k == name {
			v = r.stats[i].v
		}
	}
	r.mu.Unlock()
	RaceOn()
	return v
}

// OpDone counts an executed workload operation.
func (r *Run) OpDone() { r.Add("_ops", 1) }

// SetNontrivial lets a world override the default non-triviality rule.
func (r *Run) SetNontrivial(b bool) { r.nontrv = b; r.ntSet = true }

// Cleanup registers a function to run just before the process exits (temp dirs).
func (r *Run) Cleanup(f func()) {
	r.mu.Lock()
	r.cleanup = append(r.cleanup, f)
	r.mu.Unlock()
}

// TempDir creates a private directory for durable state of this run; it is
// removed when the run ends. Its name never appears in the event log.
func (r *Run) TempDir() string {
	base := os.Getenv("GOSIM_TMP")
	if base == "" {
		base = os.TempDir()
	}
	d, err := os.MkdirTemp(base, fmt.Sprintf("gosim-%d-", os.Getpid()))
	if err != nil {
		fmt.Fprintln(os.Stderr, "HARNESS-ERROR tempdir:", err)
		os.Exit(2)
	}
	r.Cleanup(func() { os.RemoveAll(d) })
	return d
}

// Violate records a violation and ends the run at once.
func (r *Run) Violate(class, format string, a ...interface{}) {
	msg := fmt.Sprintf(format, a...)
	r.Logf("VIOLATION %s: %s", class, msg)
	r.finish(&Violation{Class: class, Msg: msg})
}

// Finish ends the run normally.
func (r *Run) Finish() { r.finish(nil) }

//go:norace
func (r *Run) finish(v *Violation) {
	RaceOff()
	r.mu.Lock()
	if r.done {
		r.mu.Unlock()
		RaceOn()
		// another goroutine is already finishing; block forever
		select {}
	}
	r.done = true
	stats := map[string]int64{}
	for _, kv := range r.stats {
		stats[kv.k] = kv.v
	}
	res := &Result{
		Prop: r.Plan.Prop, Seed: r.Plan.Seed, Violation: v, Stats: stats,
		SimNs: int64(time.Since(r.start)), EventsHash: hex.EncodeToString(r.evHash[:8]),
		OpsRun: stats["_ops"],
	}
	sched.mu.Lock()
	res.Yields, res.Picks, res.Goroutines = sched.nYield, sched.nPick, sched.nStart
	res.SchedHash = hex.EncodeToString(sched.tapeHash[:8])
	sched.mu.Unlock()
	// signature: what was executed (ops that ran, faults that fired, schedule)
	h := sha256.New()
	keys := make([]string, 0, len(stats))
	for k := range stats {
		keys = append(keys, k)
	}
	sort.Strings(keys)
	for _, k := range keys {
		fmt.Fprintf(h, "%s=%d;", k, stats[k])
	}
	ev, tp := r.evHash, sched.tapeHash
	h.Write(ev[:])
	h.Write(tp[:])
	res.Sig = hex.EncodeToString(h.Sum(nil)[:8])
	if r.ntSet {
		res.Nontrivial = r.nontrv
	} else {
		fired := int64(0)
		for k, v := range stats {
			if strings.HasPrefix(k, "fault_") {
				fired += v
			}
		}
		res.Nontrivial = res.OpsRun >= 1 && (len(r.Plan.Faults) == 0 || fired >= 1)
	}
	if emitPlan {
		res.Plan = r.Plan
	}
	if r.keep {
		res.Trace = r.events
	}
	r.mu.Unlock()
	b, _ := json.Marshal(res)
	os.Stdout.Write(append(append([]byte("RESULT "), b...), '\n'))
	for _, f := range r.cleanup {
		f()
	}
	if profFile != nil {
		pprof.StopCPUProfile()
		profFile.Close()
	}
	os.Exit(0)
}

// ---- scheduler ----

type gstate struct {
	id     uint64
	resume chan struct{}
	low    bool // parked by Idle(): resumed only when nothing else is parked
	kind   int
}

type scheduler struct {
	mu       sync.Mutex
	parked   []*gstate
	free     []*gstate
	wake     chan struct{}
	rng      *rand.Rand
	yieldPct uint32
	mode     int64
	sticky   uint32
	last     uint64
	nYield   int64
	nPick    int64
	nStart   int64
	tapeHash [32]byte
	tape     []uint32 // replay tape (optional)
	tapePos  int
	native   []string
	trace    bool
	disabled bool
}

var sched scheduler
var emitPlan bool
var profFile *os.File

const (
	kindPost  = 0
	kindStart = 9
	kindIdle  = 100
)

//go:norace
func hook(kind int) {
	s := &sched
	if s.disabled {
		return
	}
	if kind == kindStart {
		atomic.AddInt64(&s.nStart, 1)
	}
	if kind == kindStart && len(s.native) > 0 {
		if pc := runtime.GosimStartPC(); pc != 0 {
			if f := runtime.FuncForPC(pc); f != nil {
				name := f.Name()
				for _, p := range s.native {
					if strings.HasPrefix(name, p) {
						runtime.GosimExempt()
						return
					}
				}
			}
		}
	}
	if kind >= 1 && kind <= 8 {
		if s.yieldPct == 0 || randv2.Uint32N(100) >= s.yieldPct {
			return
		}
	}
	park(kind == kindIdle, kind)
}

//go:norace
func park(low bool, kind int) {
	s := &sched
	id := runtime.GosimID()
	RaceOff()
	s.mu.Lock()
	var st *gstate
	if n := len(s.free); n > 0 {
		st = s.free[n-1]
		s.free = s.free[:n-1]
	} else {
		st = &gstate{resume: make(chan struct{})}
	}
	st.id = id
	st.low = low
	st.kind = kind
	s.parked = append(s.parked, st)
	s.nYield++
	s.mu.Unlock()
	select {
	case s.wake <- struct{}{}:
	default:
	}
	<-st.resume
	s.mu.Lock()
	s.free = append(s.free, st)
	s.mu.Unlock()
	RaceOn()
}

// Idle parks the calling goroutine until no other managed goroutine is
// runnable (everything else is blocked or asleep). Fake time does not advance.
func Idle() {
	if sched.disabled {
		synctest.Wait()
		return
	}
	runtime.GosimHookCall(kindIdle)
}

// Yield offers the scheduler a switch unconditionally.
func Yield() {
	if sched.disabled {
		return
	}
	runtime.GosimHookCall(kindPost)
}

//go:norace
func schedLoop(ready chan struct{}) {
	runtime.GosimExempt()
	s := &sched
	close(ready)
	RaceOff()
	var cand []*gstate
	for {
		synctest.Wait()
		s.mu.Lock()
		cand = cand[:0]
		nlow := 0
		for _, x := range s.parked {
			if x.low {
				nlow++
			}
		}
		for _, x := range s.parked {
			if x.low && nlow < len(s.parked) {
				continue // low priority waits while a normal goroutine is runnable
			}
			cand = append(cand, x)
		}
		s.mu.Unlock()
		if len(cand) == 0 {
			<-s.wake
			continue
		}
		// stable order independent of arrival order
		for i := 1; i < len(cand); i++ {
			for j := i; j > 0 && cand[j-1].id > cand[j].id; j-- {
				cand[j-1], cand[j] = cand[j], cand[j-1]
			}
		}
		var st *gstate
		if s.tapePos < len(s.tape) {
			st = cand[int(s.tape[s.tapePos])%len(cand)]
			s.tapePos++
		} else {
			idx := -1
			if s.mode == 1 && s.last != 0 {
				// sticky: keep running the same goroutine with probability sticky%
				for i, x := range cand {
					if x.id == s.last {
						if uint32(s.rng.Intn(100)) < s.sticky {
							idx = i
						}
						break
					}
				}
			}
			if idx < 0 {
				idx = s.rng.Intn(len(cand))
			}
			st = cand[idx]
		}
		if s.trace {
			fmt.Fprintf(os.Stderr, "PICK %d:", s.nPick+1)
			for _, x := range cand {
				fmt.Fprintf(os.Stderr, " %x/%d", x.id&0xffff, x.kind)
			}
			fmt.Fprintf(os.Stderr, " -> %x\n", st.id&0xffff)
		}
		s.mu.Lock()
		for i, x := range s.parked {
			if x == st {
				s.parked[i] = s.parked[len(s.parked)-1]
				s.parked = s.parked[:len(s.parked)-1]
				break
			}
		}
		s.last = st.id
		s.nPick++
		// fold (number of candidates, chosen id) into the schedule hash
		var b [24]byte
		putU64(b[0:], uint64(len(cand)))
		putU64(b[8:], st.id)
		putU64(b[16:], uint64(s.nPick))
		prevTape := s.tapeHash
		h := sha256.New()
		h.Write(prevTape[:])
		h.Write(b[:])
		var sum [32]byte
		copy(sum[:], h.Sum(nil))
		s.tapeHash = sum
		s.mu.Unlock()
		st.resume <- struct{}{}
	}
}

func putU64(b []byte, v uint64) {
	for i := 0; i < 8; i++ {
		b[i] = byte(v >> (8 * i))
	}
}

// ---- entry point ----

var (
	fProp     = flag.String("prop", "", "property id")
	fSeed     = flag.Uint64("seed", 1, "seed")
	fTier     = flag.String("tier", "quick", "tier")
	fPlan     = flag.String("plan", "", "plan / replay file (JSON); overrides generation")
	fGen      = flag.Bool("gen", false, "print the generated plan and exit")
	fTrace    = flag.Bool("trace", false, "include the event log in the result")
	fEmitPlan = flag.Bool("emit-plan", false, "include the plan in the result")
	fList     = flag.Bool("list", false, "list worlds")
)

// Main is the child-process entry point; it is called from the single test of
// the world binary (synctest needs a *testing.T) and never returns normally.
func Main(t *testing.T) {
	if *fList {
		type wi struct {
			Prop  string   `json:"prop"`
			Real  []string `json:"real"`
			Stubs []string `json:"stubs"`
		}
		var out []wi
		for _, w := range registry {
			out = append(out, wi{w.Prop, w.Real, w.Stubs})
		}
		sort.Slice(out, func(i, j int) bool { return out[i].Prop < out[j].Prop })
		b, _ := json.Marshal(out)
		fmt.Println("WORLDS " + string(b))
		os.Exit(0)
	}
	emitPlan = *fEmitPlan
	prop := *fProp
	var plan *Plan
	if *fPlan != "" {
		b, err := os.ReadFile(*fPlan)
		if err != nil {
			fmt.Fprintln(os.Stderr, "HARNESS-ERROR read plan:", err)
			os.Exit(2)
		}
		plan = &Plan{}
		if err := json.Unmarshal(b, plan); err != nil {
			fmt.Fprintln(os.Stderr, "HARNESS-ERROR parse plan:", err)
			os.Exit(2)
		}
		if prop == "" {
			prop = plan.Prop
		}
	}
	w := registry[prop]
	if w == nil {
		fmt.Fprintln(os.Stderr, "HARNESS-ERROR unknown property", prop)
		os.Exit(2)
	}
	if plan == nil {
		plan = GenPlan(w, *fSeed, *fTier)
	}
	// Every plan goes through the same JSON round trip, generated or loaded, so
	// that lazily initialised package state (encoding/json caches ...) is warmed
	// identically before the bubble: a plan replayed from a file must be the
	// same execution as the plan generated from its seed.
	if b, err := json.Marshal(plan); err == nil {
		p2 := &Plan{}
		if json.Unmarshal(b, p2) == nil {
			plan = p2
		}
	}
	if *fGen {
		b, _ := json.Marshal(plan)
		fmt.Println("PLAN " + string(b))
		os.Exit(0)
	}
	if pf := os.Getenv("GOSIM_CPUPROF"); pf != "" {
		profFile, _ = os.Create(pf)
		pprof.StartCPUProfile(profFile)
	}
	runtime.GosimAllBlockingIdle()
	// crypto/rand (chunk encryption keys, key generation, kademlia random subsets)
	// becomes one seeded stream; its consumption order is the seeded schedule.
	cryptotest.SetGlobalRandom(t, mix(plan.Seed, 4))
	cryptorand.Reader = &managedOnlyReader{seeded: cryptorand.Reader, other: randv2.NewChaCha8([32]byte{1})}
	synctest.Test(t, func(t *testing.T) {
		execInBubble(w, plan, *fTrace)
	})
	// reaching here means the bubble ended without Finish.
	fmt.Fprintln(os.Stderr, "HARNESS-ERROR run ended without result")
	os.Exit(3)
}

// GenPlan generates the plan of a seed: a pure function of (world, seed, tier).
func GenPlan(w *World, seed uint64, tier string) *Plan {
	rng := rand.New(rand.NewSource(int64(mix(seed, 0x706c616e))))
	plan := w.Gen(rng, tier)
	plan.Prop = w.Prop
	plan.Seed = seed
	plan.Tier = tier
	if plan.Params == nil {
		plan.Params = map[string]int64{}
	}
	// scheduler swarm parameters, unless the world fixed them
	if _, ok := plan.Params["yield_pct"]; !ok {
		plan.Params["yield_pct"] = []int64{0, 5, 20, 50, 100}[rng.Intn(5)]
	}
	if _, ok := plan.Params["sched_mode"]; !ok {
		plan.Params["sched_mode"] = int64(rng.Intn(2))
	}
	if _, ok := plan.Params["sticky"]; !ok {
		plan.Params["sticky"] = []int64{50, 80, 95}[rng.Intn(3)]
	}
	// sync.Pool for simulated goroutines: always empty, or a LIFO stack that
	// hits whenever it can (state carried from one use to the next)
	if _, ok := plan.Params["pool_reuse"]; !ok {
		plan.Params["pool_reuse"] = int64(rng.Intn(2))
	}
	return plan
}

// managedOnlyReader serves the seeded crypto/rand stream to simulated goroutines
// only. Goroutines outside the simulation (e.g. gogf/grand's init-time producer
// loop) must not consume it, or the stream position would depend on real timing.
type managedOnlyReader struct {
	seeded io.Reader
	mu     sync.Mutex
	other  *randv2.ChaCha8
}

//go:norace
func (m *managedOnlyReader) Read(b []byte) (int, error) {
	if runtime.GosimID() != 0 {
		return m.seeded.Read(b)
	}
	RaceOff()
	m.mu.Lock()
	n, err := m.other.Read(b)
	m.mu.Unlock()
	RaceOn()
	return n, err
}

func mix(a, b uint64) uint64 {
	x := a + b*0x9e3779b97f4a7c15
	x ^= x >> 30
	x *= 0xbf58476d1ce4e5b9
	x ^= x >> 27
	x *= 0x94d049bb133111eb
	x ^= x >> 31
	return x
}

func execInBubble(w *World, plan *Plan, trace bool) {
	s := &sched
	seed := plan.Seed
	runtime.GosimSeed(mix(seed, 1) | 1)
	s.rng = rand.New(rand.NewSource(int64(mix(seed, 2))))
	s.wake = make(chan struct{}, 1)
	s.yieldPct = uint32(plan.P("yield_pct", 20))
	s.mode = plan.P("sched_mode", 0)
	s.sticky = uint32(plan.P("sticky", 80))
	s.native = w.Native
	// with unscheduled goroutines around, every blocking channel operation is a
	// scheduling point (see the runtime patch): the schedule must not depend on
	// whether a native worker was faster than its consumer
	runtime.GosimAlwaysPostChan(len(w.Native) > 0)
	runtime.GosimPoolReuse(plan.P("pool_reuse", 0) == 1)
	s.disabled = plan.P("no_sched", 0) == 1
	s.trace = os.Getenv("GOSIM_SCHEDTRACE") != ""
	r := &Run{Plan: plan, World: w, Rng: rand.New(rand.NewSource(int64(mix(seed, 3)))),
		keep: trace, start: time.Now()}
	if plan.P("pool_reuse", 0) == 1 {
		r.Add("runs_with_pool_reuse", 1)
	}
	if !s.disabled {
		ready := make(chan struct{})
		go schedLoop(ready)
		<-ready
		runtime.GosimSetHook(hook)
	}
	r.Logf("seed=%d prop=%s ops=%d faults=%d params=%v", seed, plan.Prop, len(plan.Ops), len(plan.Faults), sortedParams(plan.Params))
	w.Exec(r)
	r.Finish()
}

func sortedParams(m map[string]int64) string {
	keys := make([]string, 0, len(m))
	for k := range m {
		keys = append(keys, k)
	}
	sort.Strings(keys)
	var sb strings.Builder
	for _, k := range keys {
		fmt.Fprintf(&sb, "%s=%d ", k, m[k])
	}
	return sb.String()
}

// ---- workload helpers ----

// RunPhases splits ops at {K:"barrier"} into phases. Inside a phase the ops are
// grouped by client id (first argument) and every client runs its ops in order
// in its own goroutine, concurrently with the other clients under the seeded
// scheduler. After each phase the caller's goroutine waits for all clients and
// then for quiescence (Idle) before after(phase) is called.
func (r *Run) RunPhases(ops []Op, exec func(phase int, o Op), after func(phase int)) {
	phase := 0
	i := 0
	for i <= len(ops) {
		j := i
		for j < len(ops) && ops[j].K != "barrier" {
			j++
		}
		seg := ops[i:j]
		var clients []int64
		by := map[int64][]Op{}
		for _, o := range seg {
			c := o.Arg(0)
			if _, ok := by[c]; !ok {
				clients = append(clients, c)
			}
			by[c] = append(by[c], o)
		}
		var wg sync.WaitGroup
		for _, c := range clients {
			wg.Add(1)
			go func(list []Op) {
				defer wg.Done()
				for _, o := range list {
					exec(phase, o)
					r.OpDone()
				}
			}(by[c])
		}
		wg.Wait()
		Idle()
		if after != nil {
			after(phase)
		}
		phase++
		i = j + 1
	}
}

// Pick returns one of the values.
func Pick(rng *rand.Rand, vals ...int64) int64 { return vals[rng.Intn(len(vals))] }
