//go:build !race

package gosim

const RaceEnabled = false

func raceOff() {}
func raceOn()  {}
