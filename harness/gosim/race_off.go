//go:build !race

package gosim

const RaceEnabled = false

// RaceOff / RaceOn bracket harness-internal synchronisation (recorders, stubs,
// models) so that, in -race builds, it creates no happens-before edges between
// program goroutines. No-ops in normal builds. Pair them; put the protected
// code in a //go:norace function and avoid maps there.
func RaceOff() {}
func RaceOn()  {}
