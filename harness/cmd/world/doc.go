// Package world is compiled with `go test -c` into the child binary that
// executes exactly one simulated run per process.
package world
