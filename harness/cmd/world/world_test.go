package world

import (
	"testing"

	"verifharness/gosim"
	_ "verifharness/worlds"
)

func TestSim(t *testing.T) { gosim.Main(t) }
