module verifharness

go 1.26

require (
	github.com/anishathalye/porcupine v1.3.0
	github.com/gauss-project/aurorafs v0.0.0
)

require (
	github.com/beorn7/perks v1.0.1 // indirect
	github.com/cespare/xxhash/v2 v2.1.2 // indirect
	github.com/deckarep/golang-set v1.8.0 // indirect
	github.com/dgryski/go-rendezvous v0.0.0-20200823014737-9f7001d12a5f // indirect
	github.com/ethereum/go-ethereum v1.10.17 // indirect
	github.com/go-redis/redis/v8 v8.11.4 // indirect
	github.com/go-stack/stack v1.8.0 // indirect
	github.com/gogf/gf/v2 v2.0.3 // indirect
	github.com/golang/protobuf v1.5.2 // indirect
	github.com/gorilla/websocket v1.5.0 // indirect
	github.com/matttproud/golang_protobuf_extensions v1.0.1 // indirect
	github.com/prometheus/client_golang v1.12.1 // indirect
	github.com/prometheus/client_model v0.2.0 // indirect
	github.com/prometheus/common v0.33.0 // indirect
	github.com/prometheus/procfs v0.7.3 // indirect
	github.com/shirou/gopsutil v3.21.5+incompatible // indirect
	github.com/sirupsen/logrus v1.8.1 // indirect
	github.com/tklauser/go-sysconf v0.3.6 // indirect
	github.com/tklauser/numcpus v0.2.2 // indirect
	go.opentelemetry.io/otel v1.0.0 // indirect
	go.opentelemetry.io/otel/sdk v1.0.0 // indirect
	go.opentelemetry.io/otel/trace v1.0.0 // indirect
	golang.org/x/crypto v0.0.0-20220411220226-7b82a4e95df4 // indirect
	golang.org/x/sys v0.0.0-20220412211240-33da011f77ad // indirect
	google.golang.org/protobuf v1.28.0 // indirect
)

replace github.com/gauss-project/aurorafs => /repo
