package simnet

// nodecache.go — node-scoped, fake-time, goroutine-free replacement for the
// process-global gogf caches of pkg/routetab and pkg/multicast (installed through
// their verif hooks VerifSetCache). gcache.New() serves every simulated node of
// the process from one map (keys carry no node id) and expires entries from a
// gtimer goroutine started at package init, i.e. on REAL time outside the
// bubble. This adapter prefixes every key with the label of the calling
// goroutine's node (runtime.GosimNode, set by simnet for handler goroutines and
// by the worlds for client goroutines, inherited by child goroutines and timers)
// and expires lazily against time.Now() (fake clock inside the bubble).

import (
	"context"
	"fmt"
	"runtime"
	"sort"
	"sync"
	"time"

	"github.com/gogf/gf/v2/container/gvar"
	"github.com/gogf/gf/v2/os/gcache"
	"github.com/gogf/gf/v2/util/gconv"
)

type ncItem struct {
	v   interface{}
	exp time.Time // zero: never
}

// NodeCache implements gcache.Adapter.
type NodeCache struct {
	mu sync.Mutex
	m  map[string]ncItem
	// Unlabelled counts accesses from goroutines without a node label (a harness
	// bug: such an access cannot be attributed to a node).
	Unlabelled int
}

func NewNodeCache() *NodeCache { return &NodeCache{m: map[string]ncItem{}} }

// NewNodeScopedCache returns a *gcache.Cache over a fresh NodeCache.
func NewNodeScopedCache() (*gcache.Cache, *NodeCache) {
	a := NewNodeCache()
	return gcache.NewWithAdapter(a), a
}

var _ gcache.Adapter = (*NodeCache)(nil)

func (c *NodeCache) prefix() string {
	n := runtime.GosimNode()
	if n == 0 {
		c.Unlabelled++
	}
	return fmt.Sprintf("%d|", n)
}

func (c *NodeCache) key(k interface{}) string { return c.prefix() + gconv.String(k) }

// live returns the item if present and not expired (expired ones are deleted). mu held.
func (c *NodeCache) live(k string) (ncItem, bool) {
	it, ok := c.m[k]
	if !ok {
		return ncItem{}, false
	}
	if !it.exp.IsZero() && !time.Now().Before(it.exp) {
		delete(c.m, k)
		return ncItem{}, false
	}
	return it, true
}

func (c *NodeCache) set(k string, v interface{}, d time.Duration) {
	if v == nil || d < 0 {
		delete(c.m, k)
		return
	}
	it := ncItem{v: v}
	if d > 0 {
		it.exp = time.Now().Add(d)
	}
	c.m[k] = it
}

func (c *NodeCache) Set(ctx context.Context, key interface{}, value interface{}, duration time.Duration) error {
	c.mu.Lock()
	defer c.mu.Unlock()
	c.set(c.key(key), value, duration)
	return nil
}

func (c *NodeCache) SetMap(ctx context.Context, data map[interface{}]interface{}, duration time.Duration) error {
	c.mu.Lock()
	defer c.mu.Unlock()
	p := c.prefix()
	for k, v := range data {
		c.set(p+gconv.String(k), v, duration)
	}
	return nil
}

func (c *NodeCache) SetIfNotExist(ctx context.Context, key interface{}, value interface{}, duration time.Duration) (bool, error) {
	c.mu.Lock()
	defer c.mu.Unlock()
	k := c.key(key)
	if _, ok := c.live(k); ok {
		return false, nil
	}
	if f, ok := value.(gcache.Func); ok {
		v, err := f(ctx)
		if err != nil {
			return false, err
		}
		value = v
	}
	c.set(k, value, duration)
	return true, nil
}

func (c *NodeCache) SetIfNotExistFunc(ctx context.Context, key interface{}, f gcache.Func, duration time.Duration) (bool, error) {
	c.mu.Lock()
	defer c.mu.Unlock()
	k := c.key(key)
	if _, ok := c.live(k); ok {
		return false, nil
	}
	v, err := f(ctx)
	if err != nil {
		return false, err
	}
	c.set(k, v, duration)
	return true, nil
}

func (c *NodeCache) SetIfNotExistFuncLock(ctx context.Context, key interface{}, f gcache.Func, duration time.Duration) (bool, error) {
	return c.SetIfNotExistFunc(ctx, key, f, duration)
}

func (c *NodeCache) Get(ctx context.Context, key interface{}) (*gvar.Var, error) {
	c.mu.Lock()
	defer c.mu.Unlock()
	if it, ok := c.live(c.key(key)); ok {
		return gvar.New(it.v), nil
	}
	return nil, nil
}

func (c *NodeCache) GetOrSet(ctx context.Context, key interface{}, value interface{}, duration time.Duration) (*gvar.Var, error) {
	c.mu.Lock()
	defer c.mu.Unlock()
	k := c.key(key)
	if it, ok := c.live(k); ok {
		return gvar.New(it.v), nil
	}
	c.set(k, value, duration)
	return gvar.New(value), nil
}

func (c *NodeCache) GetOrSetFunc(ctx context.Context, key interface{}, f gcache.Func, duration time.Duration) (*gvar.Var, error) {
	c.mu.Lock()
	defer c.mu.Unlock()
	k := c.key(key)
	if it, ok := c.live(k); ok {
		return gvar.New(it.v), nil
	}
	v, err := f(ctx)
	if err != nil || v == nil {
		return nil, err
	}
	c.set(k, v, duration)
	return gvar.New(v), nil
}

func (c *NodeCache) GetOrSetFuncLock(ctx context.Context, key interface{}, f gcache.Func, duration time.Duration) (*gvar.Var, error) {
	return c.GetOrSetFunc(ctx, key, f, duration)
}

func (c *NodeCache) Contains(ctx context.Context, key interface{}) (bool, error) {
	c.mu.Lock()
	defer c.mu.Unlock()
	_, ok := c.live(c.key(key))
	return ok, nil
}

// own returns the live keys of the calling node, sorted, without the prefix. mu held.
func (c *NodeCache) own() (keys []string) {
	p := c.prefix()
	var all []string
	for k := range c.m {
		if len(k) >= len(p) && k[:len(p)] == p {
			all = append(all, k)
		}
	}
	sort.Strings(all)
	for _, k := range all {
		if _, ok := c.live(k); ok {
			keys = append(keys, k[len(p):])
		}
	}
	return keys
}

func (c *NodeCache) Size(ctx context.Context) (int, error) {
	c.mu.Lock()
	defer c.mu.Unlock()
	return len(c.own()), nil
}

func (c *NodeCache) Data(ctx context.Context) (map[interface{}]interface{}, error) {
	c.mu.Lock()
	defer c.mu.Unlock()
	p := c.prefix()
	out := map[interface{}]interface{}{}
	for _, k := range c.own() {
		out[k] = c.m[p+k].v
	}
	return out, nil
}

func (c *NodeCache) Keys(ctx context.Context) ([]interface{}, error) {
	c.mu.Lock()
	defer c.mu.Unlock()
	var out []interface{}
	for _, k := range c.own() {
		out = append(out, k)
	}
	return out, nil
}

func (c *NodeCache) Values(ctx context.Context) ([]interface{}, error) {
	c.mu.Lock()
	defer c.mu.Unlock()
	p := c.prefix()
	var out []interface{}
	for _, k := range c.own() {
		out = append(out, c.m[p+k].v)
	}
	return out, nil
}

func (c *NodeCache) Update(ctx context.Context, key interface{}, value interface{}) (*gvar.Var, bool, error) {
	c.mu.Lock()
	defer c.mu.Unlock()
	k := c.key(key)
	it, ok := c.live(k)
	if !ok {
		return nil, false, nil
	}
	if value == nil {
		delete(c.m, k)
	} else {
		c.m[k] = ncItem{v: value, exp: it.exp}
	}
	return gvar.New(it.v), true, nil
}

func (c *NodeCache) UpdateExpire(ctx context.Context, key interface{}, duration time.Duration) (time.Duration, error) {
	c.mu.Lock()
	defer c.mu.Unlock()
	k := c.key(key)
	it, ok := c.live(k)
	if !ok {
		return -1, nil
	}
	old := time.Duration(0)
	if !it.exp.IsZero() {
		old = time.Until(it.exp)
	}
	c.set(k, it.v, duration)
	return old, nil
}

func (c *NodeCache) GetExpire(ctx context.Context, key interface{}) (time.Duration, error) {
	c.mu.Lock()
	defer c.mu.Unlock()
	it, ok := c.live(c.key(key))
	if !ok {
		return -1, nil
	}
	if it.exp.IsZero() {
		return 0, nil
	}
	return time.Until(it.exp), nil
}

func (c *NodeCache) Remove(ctx context.Context, keys ...interface{}) (*gvar.Var, error) {
	c.mu.Lock()
	defer c.mu.Unlock()
	var last *gvar.Var
	p := c.prefix()
	for _, key := range keys {
		k := p + gconv.String(key)
		if it, ok := c.live(k); ok {
			last = gvar.New(it.v)
			delete(c.m, k)
		}
	}
	return last, nil
}

// Clear clears the calling node's entries.
func (c *NodeCache) Clear(ctx context.Context) error {
	c.mu.Lock()
	defer c.mu.Unlock()
	p := c.prefix()
	for _, k := range c.own() {
		delete(c.m, p+k)
	}
	return nil
}

// ClearNode drops every entry of one node (process restart of that node).
func (c *NodeCache) ClearNode(idx int) {
	c.mu.Lock()
	defer c.mu.Unlock()
	p := fmt.Sprintf("%d|", idx+1)
	for k := range c.m {
		if len(k) >= len(p) && k[:len(p)] == p {
			delete(c.m, k)
		}
	}
}

func (c *NodeCache) Close(ctx context.Context) error { return nil }

// NewNodeCacheFrom returns another *gcache.Cache over the same adapter (several
// packages' globals can share one node-scoped store; their key spaces differ).
func NewNodeCacheFrom(a *NodeCache) *gcache.Cache { return gcache.NewWithAdapter(a) }
