// Package simnet is the simulated network: it implements p2p.Streamer (and the
// parts of p2p.Service the protocols use) for N nodes living in one process.
// A stream is two unidirectional byte queues; every Write is one frame that is
// delivered after a seeded latency in simulated time. Faults: delay, stream
// reset, link partition / heal, frame mutation (byzantine link), slow nodes,
// node down. Handlers are the real protocol handlers registered through
// AddProtocol. The libp2p host itself cannot be compiled in this sandbox, so
// this package is a stub that mirrors pkg/p2p/libp2p/libp2p.go where it matters
// (handler dispatch, disconnect / blocklist on handler errors, notifier calls).
package simnet

import (
	"context"
	"errors"
	"fmt"
	"io"
	"math/rand"
	"runtime"
	"sort"
	"sync"
	"time"

	"github.com/gauss-project/aurorafs/pkg/aurora"
	"github.com/gauss-project/aurorafs/pkg/boson"
	"github.com/gauss-project/aurorafs/pkg/p2p"

	"verifharness/gosim"
)

var (
	ErrReset       = errors.New("simnet: stream reset")
	ErrNoRoute     = errors.New("simnet: peer not connected")
	ErrNoProtocol  = errors.New("simnet: protocol not supported by peer")
	ErrNodeDown    = errors.New("simnet: node down")
	ErrPartitioned = errors.New("simnet: link cut")
)

// Frame is one Write as seen by the wire tap / mutation hook.
type Frame struct {
	Seq      int64
	From, To boson.Address
	Protocol string
	Stream   string
	StreamID int64
	Dir      int // 0 = opener -> handler, 1 = handler -> opener
	Data     []byte
}

// Net is the whole simulated network of one run.
type Net struct {
	R   *gosim.Run
	rng *rand.Rand

	mu     sync.Mutex
	nodes  []*Node
	cut    map[string]bool // "a|b" with a<b
	nextID int64
	seq    int64
	everLinked map[string]bool // W-NET addition: pairs that were direct peers at some time

	MinLatency time.Duration
	Jitter     time.Duration

	// Mutate, if set, may alter or drop a frame in flight (byzantine link / peer).
	// Returning nil drops the frame; returning reset=true resets the stream.
	Mutate func(f *Frame) (out []byte, reset bool)
	// Tap, if set, observes every frame after mutation.
	Tap func(f *Frame)
	// OnPanic, if set, recovers panics of stream handlers and reports them
	// (only for the property that is about panics); otherwise a panic crashes the run.
	OnPanic func(node boson.Address, proto string, v interface{})
	// OnHandlerError observes handler return values.
	OnHandlerError func(node boson.Address, proto, stream string, err error)

	// OrderedReset (W-NET addition, opt-in): a Reset issued by one end of a stream
	// reaches the other end in order with the frames that end wrote before it
	// (as on a TCP connection: data, then RST), instead of instantly. The local
	// end and link-level resets (Unlink, ResetStreamsOf) stay immediate.
	OrderedReset bool
}

func New(r *gosim.Run, seed int64) *Net {
	return &Net{R: r, rng: rand.New(rand.NewSource(seed)), cut: map[string]bool{},
		MinLatency: time.Millisecond, Jitter: 20 * time.Millisecond}
}

func pairKey(a, b boson.Address) string {
	x, y := a.String(), b.String()
	if x > y {
		x, y = y, x
	}
	return x + "|" + y
}

func (n *Net) latency(from, to *Node) time.Duration {
	n.mu.Lock()
	d := n.MinLatency
	if n.Jitter > 0 {
		d += time.Duration(n.rng.Int63n(int64(n.Jitter) + 1))
	}
	n.mu.Unlock()
	if from.Slow > 0 {
		d += from.Slow
	}
	if to.Slow > 0 {
		d += to.Slow
	}
	return d
}

func sleepLatency(from, to *Node) { time.Sleep(from.net.latency(from, to)) }

// Node is one endpoint: it is the p2p.Streamer / p2p.Service of a simulated node.
type Node struct {
	net  *Net
	Addr boson.Address
	Mode aurora.Model
	Slow time.Duration // extra latency for all its frames

	mu        sync.Mutex
	up        bool
	protocols []p2p.ProtocolSpec
	peers     map[string]p2p.Peer
	streams   map[int64]*pipe // open streams touching this node
	notifier  p2p.PickyNotifier
	ctx       context.Context
	cancel    context.CancelFunc
	// Blocked reports whether a peer is blocklisted (set by the world).
	OnBlocklist func(peer boson.Address, d time.Duration, reason string)
	status      p2p.NetworkStatus

	// --- W-NET additions (see relay.go) ---
	// Idx is the position of the node in the network (stable over ReplaceNode);
	// Idx+1 is the runtime node label (runtime.GosimSetNode) of every goroutine
	// that runs code of this node.
	Idx   int
	relay relayState
	// --- end W-NET additions ---
}

func (n *Net) AddNode(addr boson.Address, mode aurora.Model) *Node {
	ctx, cancel := context.WithCancel(context.Background())
	nd := &Node{net: n, Addr: addr, Mode: mode, up: true, peers: map[string]p2p.Peer{}, streams: map[int64]*pipe{},
		ctx: ctx, cancel: cancel, status: p2p.NetworkStatusAvailable}
	n.mu.Lock()
	nd.Idx = len(n.nodes) // W-NET addition
	n.nodes = append(n.nodes, nd)
	n.mu.Unlock()
	return nd
}

func (n *Net) Node(addr boson.Address) *Node {
	n.mu.Lock()
	defer n.mu.Unlock()
	for _, nd := range n.nodes {
		if nd.Addr.Equal(addr) {
			return nd
		}
	}
	return nil
}

func (n *Net) Nodes() []*Node {
	n.mu.Lock()
	defer n.mu.Unlock()
	return append([]*Node(nil), n.nodes...)
}

// ReplaceNode swaps the endpoint of an address for a fresh one (node restart).
func (n *Net) ReplaceNode(old *Node) *Node {
	old.Down()
	ctx, cancel := context.WithCancel(context.Background())
	nd := &Node{net: n, Addr: old.Addr, Mode: old.Mode, up: true, peers: map[string]p2p.Peer{}, streams: map[int64]*pipe{},
		ctx: ctx, cancel: cancel, status: p2p.NetworkStatusAvailable}
	nd.Idx = old.Idx                      // W-NET addition
	nd.relay.inheritIdentity(&old.relay) // W-NET addition: underlay / signed address survive a restart
	n.mu.Lock()
	for i, x := range n.nodes {
		if x == old {
			n.nodes[i] = nd
		}
	}
	n.mu.Unlock()
	return nd
}

// ---- links ----

// Link registers a and b as directly connected peers of each other and runs the
// protocols' ConnectOut (on a) / ConnectIn (on b) callbacks, like an outbound
// dial from a to b after a successful handshake.
func (n *Net) Link(a, b *Node) error {
	if n.IsCut(a.Addr, b.Addr) {
		return ErrPartitioned
	}
	if !a.isUp() || !b.isUp() {
		return ErrNodeDown
	}
	peerA := p2p.Peer{Address: a.Addr, Mode: a.Mode}
	peerB := p2p.Peer{Address: b.Addr, Mode: b.Mode}
	// --- W-NET addition: mirrors handshake.Handle (inbound side): the picker
	// (kademlia) may refuse the peer before it is registered.
	b.mu.Lock()
	bn := b.notifier
	b.mu.Unlock()
	if bn != nil && !a.IsPeer(b.Addr) {
		var ok bool
		b.asNode(func() { ok = bn.Pick(peerA) })
		if !ok {
			return ErrPicker
		}
	}
	// --- end W-NET addition
	a.mu.Lock()
	_, had := a.peers[b.Addr.String()]
	a.peers[b.Addr.String()] = peerB
	aprot := append([]p2p.ProtocolSpec(nil), a.protocols...)
	a.mu.Unlock()
	b.mu.Lock()
	b.peers[a.Addr.String()] = peerA
	bprot := append([]p2p.ProtocolSpec(nil), b.protocols...)
	b.mu.Unlock()
	if had {
		return nil
	}
	n.noteLinked(a, b) // W-NET addition
	// --- W-NET addition: libp2p.go handleIncoming / Connect store the signed
	// address of a full node in the address book after the handshake.
	if err := b.relay.putAddress(&a.relay); err != nil {
		n.Unlink(a, b, "unable to persist peer in addressbook")
		return err
	}
	if err := a.relay.putAddress(&b.relay); err != nil {
		n.Unlink(a, b, "failed storing peer in addressbook")
		return err
	}
	// --- end W-NET addition
	var err error
	// inbound side (libp2p.go handleIncoming): ConnectIn, then notifier.Connected
	b.asNode(func() {
		for _, p := range bprot {
			if p.ConnectIn != nil {
				if err = p.ConnectIn(b.ctx, peerA); err != nil {
					return
				}
			}
		}
	})
	if err != nil {
		n.Unlink(b, a, "failed to process inbound connection notifier")
		return err
	}
	// --- W-NET addition (libp2p.go handleIncoming, lines 405-463)
	if bn != nil {
		b.asNode(func() { err = bn.Connected(b.ctx, peerA, false) })
		if err != nil {
			n.Unlink(b, a, fmt.Sprintf("unable to signal connection notifier %s", err))
			return err
		}
		b.asNode(func() {
			bn.NotifyPeerState(p2p.PeerInfo{Overlay: peerA.Address, Mode: peerA.Mode.Bv.Bytes(), State: p2p.PeerStateConnectIn})
		})
	}
	// --- end W-NET addition
	// outbound side (libp2p.go Connect): ConnectOut; the caller (kademlia
	// Connection) tells its topology about the peer (Kad.Outbound)
	a.asNode(func() {
		for _, p := range aprot {
			if p.ConnectOut != nil {
				if err = p.ConnectOut(a.ctx, peerB); err != nil {
					return
				}
			}
		}
	})
	if err != nil {
		n.Unlink(a, b, "failed to process outbound connection notifier")
		return err
	}
	return nil
}

// Unlink removes the connection: open streams between the two are reset and the
// protocols' DisconnectOut (initiator) / DisconnectIn callbacks run.
func (n *Net) Unlink(a, b *Node, reason string) {
	a.mu.Lock()
	pa, hadA := a.peers[b.Addr.String()]
	delete(a.peers, b.Addr.String())
	aprot := append([]p2p.ProtocolSpec(nil), a.protocols...)
	an := a.notifier
	a.mu.Unlock()
	b.mu.Lock()
	pb, hadB := b.peers[a.Addr.String()]
	delete(b.peers, a.Addr.String())
	bprot := append([]p2p.ProtocolSpec(nil), b.protocols...)
	bn := b.notifier
	b.mu.Unlock()
	n.resetStreamsBetween(a, b)
	if hadA {
		a.asNode(func() { // W-NET addition: callbacks run under the node's label
			for _, p := range aprot {
				if p.DisconnectOut != nil {
					_ = p.DisconnectOut(pa)
				}
			}
			if an != nil {
				an.Disconnected(pa, reason)
			}
		})
	}
	if hadB {
		b.asNode(func() {
			for _, p := range bprot {
				if p.DisconnectIn != nil {
					_ = p.DisconnectIn(pb)
				}
			}
			if bn != nil {
				bn.Disconnected(pb, "libp2p event")
			}
		})
	}
}

// asNode runs f with the calling goroutine labelled as this node (W-NET
// addition): goroutines and timers started by f inherit the label, which is
// what node-scoped replacements of process globals key on.
func (nd *Node) asNode(f func()) {
	prev := runtime.GosimNode()
	runtime.GosimSetNode(uint64(nd.Idx + 1))
	defer runtime.GosimSetNode(prev)
	f()
}

func (n *Net) resetStreamsBetween(a, b *Node) {
	a.mu.Lock()
	var ps []*pipe
	for _, p := range a.streams {
		if (p.a == a && p.b == b) || (p.a == b && p.b == a) {
			ps = append(ps, p)
		}
	}
	a.mu.Unlock()
	sort.Slice(ps, func(i, j int) bool { return ps[i].id < ps[j].id })
	for _, p := range ps {
		p.reset()
	}
}

// Cut partitions the link between two addresses: existing streams are reset, new
// ones fail, the peers are disconnected. Heal makes new connections possible.
func (n *Net) Cut(a, b *Node) {
	n.mu.Lock()
	n.cut[pairKey(a.Addr, b.Addr)] = true
	n.mu.Unlock()
	n.R.Count("fault_partition")
	n.Unlink(a, b, "partition")
}

func (n *Net) Heal(a, b *Node) {
	n.mu.Lock()
	delete(n.cut, pairKey(a.Addr, b.Addr))
	n.mu.Unlock()
}

func (n *Net) IsCut(a, b boson.Address) bool {
	n.mu.Lock()
	defer n.mu.Unlock()
	return n.cut[pairKey(a, b)]
}

// ---- node: p2p surface ----

func (nd *Node) isUp() bool {
	nd.mu.Lock()
	defer nd.mu.Unlock()
	return nd.up
}

// Down takes the node off the network: all its streams reset, peers see a disconnect.
func (nd *Node) Down() {
	nd.mu.Lock()
	if !nd.up {
		nd.mu.Unlock()
		return
	}
	nd.up = false
	var others []string
	for k := range nd.peers {
		others = append(others, k)
	}
	nd.mu.Unlock()
	sort.Strings(others)
	for _, k := range others {
		if o := nd.net.Node(boson.MustParseHexAddress(k)); o != nil && o != nd {
			nd.net.Unlink(nd, o, "node down")
		}
	}
	nd.cancel()
}

func (nd *Node) AddProtocol(p p2p.ProtocolSpec) error {
	nd.mu.Lock()
	nd.protocols = append(nd.protocols, p)
	nd.mu.Unlock()
	return nil
}

func (nd *Node) SetPickyNotifier(n p2p.PickyNotifier) {
	nd.mu.Lock()
	nd.notifier = n
	nd.mu.Unlock()
}

func (nd *Node) Peers() []p2p.Peer {
	nd.mu.Lock()
	defer nd.mu.Unlock()
	keys := make([]string, 0, len(nd.peers))
	for k := range nd.peers {
		keys = append(keys, k)
	}
	sort.Strings(keys)
	out := make([]p2p.Peer, 0, len(keys))
	for _, k := range keys {
		out = append(out, nd.peers[k])
	}
	return out
}

func (nd *Node) IsPeer(a boson.Address) bool {
	nd.mu.Lock()
	defer nd.mu.Unlock()
	_, ok := nd.peers[a.String()]
	return ok
}

func (nd *Node) NetworkStatus() p2p.NetworkStatus {
	nd.mu.Lock()
	defer nd.mu.Unlock()
	return nd.status
}

func (nd *Node) SetNetworkStatus(s p2p.NetworkStatus) {
	nd.mu.Lock()
	nd.status = s
	nd.mu.Unlock()
}

func (nd *Node) Disconnect(overlay boson.Address, reason string) error {
	o := nd.net.Node(overlay)
	if o == nil || !nd.IsPeer(overlay) {
		return p2p.ErrPeerNotFound
	}
	nd.net.Unlink(nd, o, reason)
	return nil
}

func (nd *Node) Blocklist(overlay boson.Address, d time.Duration, reason string) error {
	if nd.OnBlocklist != nil {
		nd.OnBlocklist(overlay, d, reason)
	}
	_ = nd.Disconnect(overlay, reason)
	return nil
}

func (nd *Node) handler(protocol, version, stream string) (p2p.StreamSpec, bool) {
	nd.mu.Lock()
	defer nd.mu.Unlock()
	for _, p := range nd.protocols {
		if p.Name != protocol || p.Version != version {
			continue
		}
		for _, s := range p.StreamSpecs {
			if s.Name == stream {
				return s, true
			}
		}
	}
	return p2p.StreamSpec{}, false
}

// NewStream opens a stream to a directly connected peer and starts the peer's
// real handler for it in a new (scheduled) goroutine.
func (nd *Node) NewStream(ctx context.Context, address boson.Address, h p2p.Headers, protocol, version, stream string) (p2p.Stream, error) {
	if !nd.isUp() {
		return nil, ErrNodeDown
	}
	if !nd.IsPeer(address) {
		return nil, p2p.ErrPeerNotFound
	}
	peer := nd.net.Node(address)
	if peer == nil || !peer.isUp() {
		return nil, p2p.ErrPeerNotFound
	}
	if nd.net.IsCut(nd.Addr, address) {
		return nil, ErrPartitioned
	}
	spec, ok := peer.handler(protocol, version, stream)
	if !ok {
		return nil, fmt.Errorf("%w: %s/%s/%s", ErrNoProtocol, protocol, version, stream)
	}
	if err := ctx.Err(); err != nil {
		return nil, err
	}
	// one round trip for protocol negotiation + headers
	time.Sleep(nd.net.latency(nd, peer))
	local, remote := nd.net.newPipe(nd, peer, protocol, stream, h)
	hctx, cancel := context.WithCancel(peer.ctx)
	go func() {
		runtime.GosimSetNode(uint64(peer.Idx + 1)) // W-NET addition: handler runs as the remote node
		defer cancel()
		if nd.net.OnPanic != nil {
			defer func() {
				if v := recover(); v != nil {
					nd.net.OnPanic(peer.Addr, protocol+"/"+stream, v)
					_ = remote.Reset()
				}
			}()
		}
		err := spec.Handler(hctx, p2p.Peer{Address: nd.Addr, Mode: nd.Mode}, remote)
		if err != nil {
			if nd.net.OnHandlerError != nil {
				nd.net.OnHandlerError(peer.Addr, protocol, stream, err)
			}
			var de *p2p.DisconnectError
			if errors.As(err, &de) {
				_ = remote.Reset()
				_ = peer.Disconnect(nd.Addr, de.Error())
			}
			var bpe *p2p.BlockPeerError
			if errors.As(err, &bpe) {
				_ = remote.Reset()
				_ = peer.Blocklist(nd.Addr, bpe.Duration(), bpe.Error())
			}
		}
	}()
	return local, nil
}

// NewRelayStream / NewConnChainRelayStream / CallHandler / CallHandlerWithConnChain: see relay.go.

// ---- streams ----

type frame struct {
	data []byte
	at   time.Time
}

type half struct {
	mu      sync.Mutex
	q       []frame
	buf     []byte
	closed  bool // writer closed: EOF after draining
	notify  chan struct{}
	lastAt  time.Time
	nframes int64
}

type pipe struct {
	net      *Net
	id       int64
	a, b     *Node // a opened the stream, b handles it
	protocol string
	stream   string
	ab, ba   *half
	mu       sync.Mutex
	isReset  bool
	resetBy  int // W-NET addition: side that called Reset, -1 = link level
	resetCh  chan struct{}
	headers  p2p.Headers
}

type endpoint struct {
	p    *pipe
	side int // 0 = opener (writes ab, reads ba), 1 = handler
}

func (n *Net) newPipe(a, b *Node, protocol, stream string, h p2p.Headers) (*endpoint, *endpoint) {
	n.mu.Lock()
	n.nextID++
	id := n.nextID
	n.mu.Unlock()
	p := &pipe{net: n, id: id, a: a, b: b, protocol: protocol, stream: stream,
		ab: &half{notify: make(chan struct{}, 1)}, ba: &half{notify: make(chan struct{}, 1)},
		resetCh: make(chan struct{}), headers: h}
	a.mu.Lock()
	a.streams[id] = p
	a.mu.Unlock()
	b.mu.Lock()
	b.streams[id] = p
	b.mu.Unlock()
	return &endpoint{p, 0}, &endpoint{p, 1}
}

func (p *pipe) reset() { p.resetFrom(-1) }

func (p *pipe) resetFrom(side int) {
	p.mu.Lock()
	if p.isReset {
		p.mu.Unlock()
		return
	}
	p.isReset = true
	p.resetBy = side
	close(p.resetCh)
	p.mu.Unlock()
	p.forget()
}

func (p *pipe) forget() {
	p.a.mu.Lock()
	delete(p.a.streams, p.id)
	p.a.mu.Unlock()
	p.b.mu.Lock()
	delete(p.b.streams, p.id)
	p.b.mu.Unlock()
}

func (p *pipe) wasReset() bool {
	p.mu.Lock()
	defer p.mu.Unlock()
	return p.isReset
}

// resetOrderedFor reports (W-NET addition) whether the stream was reset by the
// remote end of the given reader side and resets are delivered in order.
func (p *pipe) resetOrderedFor(side int) bool {
	p.mu.Lock()
	defer p.mu.Unlock()
	return p.isReset && p.net.OrderedReset && p.resetBy == 1-side
}

func (e *endpoint) halves() (w, r *half, from, to *Node) {
	if e.side == 0 {
		return e.p.ab, e.p.ba, e.p.a, e.p.b
	}
	return e.p.ba, e.p.ab, e.p.b, e.p.a
}

func (e *endpoint) Write(b []byte) (int, error) {
	p := e.p
	if p.wasReset() {
		return 0, ErrReset
	}
	w, _, from, to := e.halves()
	w.mu.Lock()
	if w.closed {
		w.mu.Unlock()
		return 0, io.ErrClosedPipe
	}
	w.mu.Unlock()
	data := append([]byte(nil), b...)
	net := p.net
	net.mu.Lock()
	net.seq++
	seq := net.seq
	net.mu.Unlock()
	f := &Frame{Seq: seq, From: from.Addr, To: to.Addr, Protocol: p.protocol, Stream: p.stream, StreamID: p.id, Dir: e.side, Data: data}
	if net.Mutate != nil {
		out, rst := net.Mutate(f)
		if rst {
			p.reset()
			return 0, ErrReset
		}
		if out == nil {
			return len(b), nil // dropped: the writer cannot tell
		}
		f.Data = out
	}
	if net.Tap != nil {
		net.Tap(f)
	}
	at := time.Now().Add(net.latency(from, to))
	w.mu.Lock()
	if at.Before(w.lastAt) {
		at = w.lastAt // bytes of one stream stay ordered
	}
	w.lastAt = at
	w.q = append(w.q, frame{f.Data, at})
	w.nframes++
	w.mu.Unlock()
	select {
	case w.notify <- struct{}{}:
	default:
	}
	return len(b), nil
}

func (e *endpoint) Read(b []byte) (int, error) {
	p := e.p
	_, r, _, _ := e.halves()
	for {
		ordered := false
		if p.wasReset() {
			// W-NET addition: with OrderedReset the frames the remote wrote before
			// its Reset are still delivered (at their delivery times)
			if ordered = p.resetOrderedFor(e.side); !ordered {
				return 0, ErrReset
			}
		}
		r.mu.Lock()
		now := time.Now()
		for len(r.q) > 0 && !r.q[0].at.After(now) {
			r.buf = append(r.buf, r.q[0].data...)
			r.q = r.q[1:]
		}
		if len(r.buf) > 0 {
			n := copy(b, r.buf)
			r.buf = r.buf[n:]
			r.mu.Unlock()
			return n, nil
		}
		var wait time.Duration = -1
		if len(r.q) > 0 {
			wait = r.q[0].at.Sub(now)
		} else if ordered {
			r.mu.Unlock()
			return 0, ErrReset
		} else if r.closed {
			r.mu.Unlock()
			return 0, io.EOF
		}
		r.mu.Unlock()
		if wait >= 0 {
			if ordered {
				time.Sleep(wait)
				continue
			}
			t := time.NewTimer(wait)
			select {
			case <-t.C:
			case <-p.resetCh:
				t.Stop()
			}
			continue
		}
		select {
		case <-r.notify:
		case <-p.resetCh:
		}
	}
}

// Close closes the write side (the reader sees EOF after the queued frames).
func (e *endpoint) Close() error {
	w, _, _, _ := e.halves()
	w.mu.Lock()
	already := w.closed
	w.closed = true
	w.mu.Unlock()
	if !already {
		select {
		case w.notify <- struct{}{}:
		default:
		}
	}
	e.p.mu.Lock()
	e.p.mu.Unlock()
	// forget the stream once both sides are closed
	e.p.ab.mu.Lock()
	c1 := e.p.ab.closed
	e.p.ab.mu.Unlock()
	e.p.ba.mu.Lock()
	c2 := e.p.ba.closed
	e.p.ba.mu.Unlock()
	if c1 && c2 {
		e.p.forget()
	}
	return nil
}

func (e *endpoint) FullClose() error {
	if e.p.wasReset() {
		return ErrReset
	}
	return e.Close()
}

func (e *endpoint) Reset() error {
	e.p.resetFrom(e.side)
	return nil
}

func (e *endpoint) Headers() p2p.Headers         { return e.p.headers }
func (e *endpoint) ResponseHeaders() p2p.Headers { return nil }

// ResetStreamsOf resets every open stream of a node (fault: connection loss).
func (n *Net) ResetStreamsOf(nd *Node) int {
	nd.mu.Lock()
	var ps []*pipe
	for _, p := range nd.streams {
		ps = append(ps, p)
	}
	nd.mu.Unlock()
	sort.Slice(ps, func(i, j int) bool { return ps[i].id < ps[j].id })
	for _, p := range ps {
		p.reset()
	}
	return len(ps)
}
// ---- BEGIN addition by w-hive (C34): raw stream pair ----

// RawStream creates a stream between two nodes that need not be linked and
// starts NO handler: the caller drives both ends (opener = a, handler side = b).
// It models the connection-level handshake stream, which exists before the two
// peers know each other's overlay. Frames pass through Mutate / Tap like any
// other stream (Protocol / Stream as given).
func (n *Net) RawStream(a, b *Node, protocol, stream string) (opener, handler p2p.Stream, err error) {
	if n.IsCut(a.Addr, b.Addr) {
		return nil, nil, ErrPartitioned
	}
	if !a.isUp() || !b.isUp() {
		return nil, nil, ErrNodeDown
	}
	l, r := n.newPipe(a, b, protocol, stream, nil)
	return l, r, nil
}

// ---- END addition by w-hive ----
