package simnet

// relay.go — STUB that mirrors, function by function, the relay half of the real
// libp2p host, which cannot be compiled in this sandbox (quic-go):
//
//	pkg/p2p/libp2p/libp2p.go         ApplyRoute (311), getProtocolHandler (921),
//	                                 CallHandlerWithConnChain (947), NewConnChainRelayStream (988),
//	                                 CallHandler (1032), NewRelayStream (1109),
//	                                 Connect (713, outbound dial; the inbound half
//	                                 handleIncoming (317) is in Net.Link)
//	pkg/p2p/libp2p/stream_virtual.go virtualStream
//
// The functions keep the order and the statements of the originals so that a
// reviewer can compare them side by side. Differences, all marked "simnet:":
//   - no tracing headers, no metrics, no logger;
//   - s.peers.peerID(next) + newStreamForPeerID + exchangeHeaders  ==>  IsPeer + Node.NewStream;
//   - the semver protocol matcher is an exact version comparison;
//   - Connect resolves the underlay through the Net's registry of underlays
//     instead of dialling, and the handshake is the sequence in Net.Link.
//
// Everything above the relay functions (routetab's RelayStream implementation:
// GetNextHopRandomOrFind, PackRelayReq, PackRelayResp, and the handlers onRelay /
// onRelayConnChain) is the real code.

import (
	"bytes"
	"context"
	"errors"
	"fmt"
	"net"

	"github.com/gauss-project/aurorafs/pkg/addressbook"
	"github.com/gauss-project/aurorafs/pkg/aurora"
	"github.com/gauss-project/aurorafs/pkg/boson"
	"github.com/gauss-project/aurorafs/pkg/p2p"
	"github.com/gauss-project/aurorafs/pkg/p2p/protobuf"
	"github.com/gauss-project/aurorafs/pkg/routetab"
	"github.com/gauss-project/aurorafs/pkg/routetab/pb"
	"github.com/libp2p/go-libp2p-core/network"
	libp2ppeer "github.com/libp2p/go-libp2p-core/peer"
	ma "github.com/multiformats/go-multiaddr"
	"go.uber.org/atomic"
)

var (
	// ErrPicker mirrors handshake.ErrPicker: the inbound side's topology refused the peer.
	ErrPicker = errors.New("simnet: picker rejection")
	// ErrNoRouteService is returned by the relay functions of a node without ApplyRoute.
	ErrNoRouteService = errors.New("simnet: relay stream without route service")
)

// relayState is the part of libp2p.Service the relay functions use.
type relayState struct {
	route    routetab.RelayStream // libp2p.Service.route
	self     boson.Address        // libp2p.Service.self
	nodeMode aurora.Model         // libp2p.Service.nodeMode
	// identity of the node for Connect / the address book (libp2p: host address + handshake)
	underlay ma.Multiaddr
	signed   *aurora.Address
	book     addressbook.Interface
}

func (r *relayState) inheritIdentity(old *relayState) {
	r.underlay, r.signed = old.underlay, old.signed
}

// putAddress: libp2p.go handleIncoming 374-382 / Connect 796-802
// (s.addressbook.Put(overlay, *i.Address) for full nodes).
func (r *relayState) putAddress(remote *relayState) error {
	if r.book == nil || remote.signed == nil {
		return nil
	}
	return r.book.Put(remote.signed.Overlay, *remote.signed)
}

// SetIdentity gives the node its underlay and signed aurora address (what the
// libp2p host and the handshake service hold) and its address book.
func (nd *Node) SetIdentity(signed *aurora.Address, book addressbook.Interface) {
	nd.mu.Lock()
	nd.relay.signed = signed
	if signed != nil {
		nd.relay.underlay = signed.Underlay
	}
	nd.relay.book = book
	nd.mu.Unlock()
}

// ApplyRoute mirrors libp2p.go:311.
func (nd *Node) ApplyRoute(self boson.Address, rt routetab.RelayStream, mode aurora.Model) {
	nd.relay.route = rt
	nd.relay.self = self
	nd.relay.nodeMode = mode
}

// ---- record of links (for the worlds' oracles) ----

func (n *Net) noteLinked(a, b *Node) {
	n.mu.Lock()
	if n.everLinked == nil {
		n.everLinked = map[string]bool{}
	}
	n.everLinked[pairKey(a.Addr, b.Addr)] = true
	n.mu.Unlock()
}

// EverLinked reports whether the two addresses were direct peers at some time in the run.
func (n *Net) EverLinked(a, b boson.Address) bool {
	n.mu.Lock()
	defer n.mu.Unlock()
	return n.everLinked[pairKey(a, b)]
}

// ---- libp2p.go:713 Connect (outbound) ----

// Connect mirrors libp2p.Service.Connect: dial the underlay, handshake, register
// the peer, run the protocols' ConnectOut; it does NOT notify the own topology
// (the caller, kademlia.Connection, does that with Kad.Outbound).
func (nd *Node) Connect(ctx context.Context, addr ma.Multiaddr) (peer *p2p.Peer, err error) {
	if !nd.isUp() {
		return nil, ErrNodeDown
	}
	// simnet: "Extract the peer ID from the multiaddr" + host.Connect = registry lookup
	var remote *Node
	for _, x := range nd.net.Nodes() {
		x.mu.Lock()
		u := x.relay.underlay
		x.mu.Unlock()
		if u != nil && u.Equal(addr) {
			remote = x
			break
		}
	}
	if remote == nil || remote == nd {
		return nil, fmt.Errorf("simnet: connect %s: %w", addr, &net.OpError{Op: "dial", Err: errors.New("no such underlay")})
	}
	// if peer, found := s.peers.isConnected(info.ID, remoteAddr); found { return peer, p2p.ErrAlreadyConnected }
	if nd.IsPeer(remote.Addr) {
		return &p2p.Peer{Address: remote.Addr, Mode: remote.Mode}, p2p.ErrAlreadyConnected
	}
	if err := ctx.Err(); err != nil {
		return nil, err
	}
	if !remote.isUp() || nd.net.IsCut(nd.Addr, remote.Addr) {
		return nil, fmt.Errorf("simnet: connect %s: %w", addr, &net.OpError{Op: "dial", Err: errors.New("unreachable")})
	}
	// one round trip for the handshake
	sleepLatency(nd, remote)
	// if !i.NodeMode.IsFull() { ... return nil, p2p.ErrDialLightNode }
	if !remote.Mode.IsFull() {
		return nil, p2p.ErrDialLightNode
	}
	// handshake (picker on the inbound side), peers.addIfNotExists, addressbook.Put,
	// ConnectIn / notifier.Connected on the remote, ConnectOut here: Net.Link
	if err := nd.net.Link(nd, remote); err != nil {
		return nil, fmt.Errorf("handshake: %w", err)
	}
	// if !s.peers.Exists(overlay) { ... }
	if !nd.IsPeer(remote.Addr) {
		return nil, fmt.Errorf("libp2p connect: peer %s does not exist %w", remote.Addr, p2p.ErrPeerNotFound)
	}
	return &p2p.Peer{Address: remote.Addr, Mode: remote.Mode}, nil
}

// ---- libp2p.go:921 getProtocolHandler ----

func (nd *Node) getProtocolHandler(protocolName, protocolVersion, streamName string) (hand *p2p.StreamSpec, err error) {
	id := p2p.NewAuroraStreamName(protocolName, protocolVersion, streamName)
	// simnet: matcher, err := s.protocolSemverMatcher(id)  ==>  exact version
	var spec p2p.StreamSpec
	nd.mu.Lock()
	for _, ss := range nd.protocols {
		if ss.Name == protocolName {
			for _, v := range ss.StreamSpecs {
				if ss.Version == protocolVersion && v.Name == streamName {
					spec = v
					break
				}
			}
			break
		}
	}
	nd.mu.Unlock()
	if spec.Handler == nil {
		err = fmt.Errorf("no handler match %s", id)
		return
	}
	return &spec, nil
}

// ---- libp2p.go:947 CallHandlerWithConnChain ----

func (nd *Node) CallHandlerWithConnChain(ctx context.Context, last, src p2p.Peer, stream p2p.Stream, protocolName, protocolVersion, streamName string) (err error) {
	spec, err := nd.getProtocolHandler(protocolName, protocolVersion, streamName)
	if err != nil {
		return
	}

	// simnet: tracing context from headers omitted

	_, err = stream.Write([]byte("ack"))
	if err != nil {
		return fmt.Errorf("send ack err %s", err)
	}

	err = spec.Handler(ctx, src, stream)
	if err != nil {
		var de *p2p.DisconnectError
		if errors.As(err, &de) {
			_ = stream.Reset()
			_ = nd.Disconnect(last.Address, de.Error())
		}
		if nd.net.OnHandlerError != nil { // simnet: observation only
			nd.net.OnHandlerError(nd.Addr, protocolName, streamName, err)
		}
	}
	return
}

// ---- libp2p.go:988 NewConnChainRelayStream ----

func (nd *Node) NewConnChainRelayStream(ctx context.Context, target boson.Address, headers p2p.Headers, protocolName, protocolVersion, streamName string) (p2p.Stream, error) {
	if nd.relay.route == nil { // simnet: worlds without the real routetab keep the old direct behaviour
		return nd.NewStream(ctx, target, headers, protocolName, protocolVersion, streamName)
	}
	next, err := nd.relay.route.GetNextHopRandomOrFind(ctx, target)
	if err != nil {
		return nil, err
	}

	// peerID, found := s.peers.peerID(next)
	if !nd.IsPeer(next) {
		return nil, p2p.ErrPeerNotFound
	}

	// newStreamForPeerID + exchangeHeaders
	st, err := nd.NewStream(ctx, next, headers, routetab.ProtocolName, routetab.ProtocolVersion, routetab.StreamOnRelayConnChain)
	if err != nil {
		return nil, fmt.Errorf("new stream for peerid: %w", err)
	}

	req := &pb.RouteRelayReq{
		Src:             nd.relay.self.Bytes(),
		SrcMode:         nd.relay.nodeMode.Bv.Bytes(),
		Dest:            target.Bytes(),
		ProtocolName:    []byte(protocolName),
		ProtocolVersion: []byte(protocolVersion),
		StreamName:      []byte(streamName),
	}
	w := protobuf.NewWriter(st)
	err = w.WriteMsgWithContext(ctx, req)
	if err != nil {
		_ = st.Reset()
		return nil, fmt.Errorf("send syn err %v", err)
	}
	ack := make([]byte, 3)
	_, err = st.Read(ack)
	if err != nil {
		_ = st.Reset()
		return nil, fmt.Errorf("read ack err %v", err)
	}
	return st, nil
}

// ---- libp2p.go:1032 CallHandler ----

func (nd *Node) CallHandler(ctx context.Context, last p2p.Peer, stream p2p.Stream) (relayData *pb.RouteRelayReq, w *p2p.WriterChan, r *p2p.ReaderChan, forward bool, err error) {
	defer func() {
		if relayData == nil {
			return
		}
		if bytes.Equal(relayData.Dest, nd.relay.self.Bytes()) {
			forward = false
		} else {
			if err != nil {
				forward = true
			}
		}
	}()
	reqCh := make(chan *pb.RouteRelayReq, 1)
	vst := newVirtualStream(stream)
	w = vst.writer
	r = vst.reader
	nd.relay.route.PackRelayResp(ctx, vst, reqCh)
	select {
	case relayData = <-reqCh:
		if relayData == nil {
			return
		}
		if !relayData.MidCall && !bytes.Equal(relayData.Dest, nd.relay.self.Bytes()) {
			forward = true
			return
		}
	case <-ctx.Done():
		err = ctx.Err()
		return
	}
	name := string(relayData.ProtocolName)
	version := string(relayData.ProtocolVersion)
	streamName := string(relayData.StreamName)
	md, err := aurora.NewModelFromBytes(relayData.SrcMode)
	if err != nil {
		return
	}
	src := p2p.Peer{
		Address: boson.NewAddress(relayData.Src),
		Mode:    md,
	}
	spec, err := nd.getProtocolHandler(name, version, streamName)
	if err != nil {
		return
	}

	// simnet: tracing context from headers omitted

	err = spec.Handler(ctx, src, vst)
	if err != nil {
		var de *p2p.DisconnectError
		if errors.As(err, &de) {
			_ = stream.Reset()
			_ = nd.Disconnect(last.Address, de.Error())
		}
		if nd.net.OnHandlerError != nil { // simnet: observation only
			nd.net.OnHandlerError(nd.Addr, name, streamName, err)
		}
	}
	return
}

// ---- libp2p.go:1109 NewRelayStream ----

func (nd *Node) NewRelayStream(ctx context.Context, target boson.Address, headers p2p.Headers, protocolName, protocolVersion, streamName string, midCall bool) (p2p.Stream, error) {
	if nd.relay.route == nil { // simnet: worlds without the real routetab keep the old direct behaviour
		return nd.NewStream(ctx, target, headers, protocolName, protocolVersion, streamName)
	}
	next, err := nd.relay.route.GetNextHopRandomOrFind(ctx, target)
	if err != nil {
		return nil, err
	}

	// peerID, found := s.peers.peerID(next)
	if !nd.IsPeer(next) {
		return nil, p2p.ErrPeerNotFound
	}

	// newStreamForPeerID + exchangeHeaders
	st, err := nd.NewStream(ctx, next, headers, routetab.ProtocolName, routetab.ProtocolVersion, routetab.StreamOnRelay)
	if err != nil {
		return nil, fmt.Errorf("new stream for peerid: %w", err)
	}
	relay := newVirtualStream(st)
	nd.relay.route.PackRelayReq(ctx, relay, &pb.RouteRelayReq{
		Src:             nd.relay.self.Bytes(),
		SrcMode:         nd.relay.nodeMode.Bv.Bytes(),
		Dest:            target.Bytes(),
		ProtocolName:    []byte(protocolName),
		ProtocolVersion: []byte(protocolVersion),
		StreamName:      []byte(streamName),
		Data:            nil,
		MidCall:         midCall,
	})
	return relay, nil
}

// ---- stream_virtual.go (verbatim apart from the package) ----

var _ p2p.Stream = (*virtualStream)(nil)
var _ p2p.VirtualStream = (*virtualStream)(nil)

type virtualStream struct {
	p2p.Stream
	buf              bytes.Buffer
	writer           *p2p.WriterChan
	reader           *p2p.ReaderChan
	done             chan struct{}
	realStreamClosed *atomic.Bool
}

func newVirtualStream(s p2p.Stream) *virtualStream {
	srv := &virtualStream{
		Stream: s,
		writer: &p2p.WriterChan{
			W:   make(chan []byte, 1),
			Err: make(chan error, 1),
		},
		reader: &p2p.ReaderChan{
			R:   make(chan []byte, 1),
			Err: make(chan error, 1),
		},
		done:             make(chan struct{}, 1),
		realStreamClosed: atomic.NewBool(false),
	}
	return srv
}

func (s *virtualStream) Read(p []byte) (int, error) {
	if s.buf.Len() == 0 {
		if s.realStreamClosed.Load() {
			return 0, p2p.ErrStreamClosed
		}
		select {
		case d := <-s.reader.R:
			_, err := s.buf.Write(d)
			if err != nil {
				return 0, err
			}
		case err := <-s.reader.Err:
			return 0, err
		}
	}
	return s.buf.Read(p)
}

func (s *virtualStream) Write(p []byte) (n int, err error) {
	if s.realStreamClosed.Load() {
		return 0, p2p.ErrStreamClosed
	}
	s.writer.W <- p
	err = <-s.writer.Err
	return
}

func (s *virtualStream) Reset() error {
	close(s.done)
	s.realStreamClosed.Store(true)
	return nil
}

func (s *virtualStream) FullClose() error {
	close(s.done)
	s.realStreamClosed.Store(true)
	return nil
}

func (s *virtualStream) UpdateStatRealStreamClosed() {
	s.realStreamClosed.Store(true)
}

func (s *virtualStream) Reader() *p2p.ReaderChan {
	return s.reader
}

func (s *virtualStream) Writer() *p2p.WriterChan {
	return s.writer
}

func (s *virtualStream) Done() chan struct{} {
	return s.done
}

func (s *virtualStream) RealStream() p2p.Stream {
	return s.Stream
}

// ---- the rest of p2p.Service (not used by routetab / kademlia without its manage loop) ----

func (nd *Node) PeerID(overlay boson.Address) (id libp2ppeer.ID, found bool) { return "", false }
func (nd *Node) ResourceManager() network.ResourceManager                   { return nil }
func (nd *Node) BlocklistedPeers() ([]p2p.BlockPeers, error)                { return nil, nil }
func (nd *Node) BlocklistRemove(overlay boson.Address) error                { return nil }
func (nd *Node) Addresses() ([]ma.Multiaddr, error) {
	nd.mu.Lock()
	defer nd.mu.Unlock()
	if nd.relay.underlay == nil {
		return nil, nil
	}
	return []ma.Multiaddr{nd.relay.underlay}, nil
}
func (nd *Node) NATAddresses() ([]net.Addr, error) { return nil, nil }
func (nd *Node) Halt()                             {}

var _ p2p.Service = (*Node)(nil)
var _ p2p.Streamer = (*Node)(nil)
