package worlds

import (
	"fmt"
	"math/bits"
	"math/rand"
	"sort"
	"strings"
	"sync"

	"github.com/gauss-project/aurorafs/pkg/boson"
	"github.com/gauss-project/aurorafs/pkg/topology/pslice"

	"verifharness/gosim"
)

// C21 — Proximity-indexed peer sets behave as sets (pkg/topology/pslice).
//
// Ops (first argument = client goroutine; x = index into the address alphabet
// that is derived from Params maxbins / naddr / aseed):
//   add      [c, x]
//   addb     [c, x1, x2, ...]     one batched Add call (duplicates allowed)
//   rm       [c, x]
//   exists   [c, x]
//   len      [c]
//   shallow  [c]
//   binsize  [c, bin]
//   binpeers [c, bin]
//   each     [c, rev, stopAt, yieldMod, next1, next2, ...]
//                                  rev=1: EachBinRev. The callback returns stop
//                                  at visit number stopAt (1-based, 0 = never),
//                                  jump-to-next-bin at the listed visit numbers,
//                                  and offers the scheduler a switch at every
//                                  visit whose number is a multiple of yieldMod.
//   barrier                       clients join, quiescence, exact comparison
//
// Oracle: every mutation is recorded per address with logical invoke/return
// stamps. An observation made during [s,e] of address x "present" must be
// justified by an Add(x) that may have taken effect before e and is not
// definitely undone by a Remove(x) that ran strictly after it and strictly
// before s ("possibly a member at some instant"), dually for "absent". For a
// single client (and at every barrier) possible == definite, so the comparison
// with the set-per-bin model is exact.

const c21MaxPO = 31 // boson.MaxPO: proximity is capped at this order

type c21Mut struct {
	add      bool
	inv, ret int64
}

type c21World struct {
	r       *gosim.Run
	ps      *pslice.PSlice
	maxBins int
	base    []byte
	addrs   []boson.Address
	prox    []int // uncapped-by-bins proximity to base (own computation)
	mu      sync.Mutex
	clk     int64
	hist    [][]c21Mut // per address
	inBatch []int      // >0: address was passed more than once inside one batched Add while (possibly) absent
}

// c21Prox: number of leading equal bits, capped at the maximum order (the
// property's definition of proximity; independent of boson.Proximity).
func c21Prox(a, b []byte) int {
	n := 0
	for i := 0; i < len(a) && i < len(b); i++ {
		x := a[i] ^ b[i]
		if x == 0 {
			n += 8
			continue
		}
		n += bits.LeadingZeros8(x)
		break
	}
	if n > c21MaxPO {
		n = c21MaxPO
	}
	return n
}

func c21Mix(a, b uint64) uint64 {
	x := a + b*0x9e3779b97f4a7c15
	x ^= x >> 30
	x *= 0xbf58476d1ce4e5b9
	x ^= x >> 27
	x *= 0x94d049bb133111eb
	x ^= x >> 31
	return x
}

// c21Targets: number of distinct "first differing bit" classes generated.
func c21Targets(maxBins int) int {
	t := maxBins
	if t > 32 {
		t = 32
	}
	return t + 3
}

// c21Alphabet builds base and addresses from the plan parameters only.
func c21Alphabet(maxBins, n int, aseed uint64) (base []byte, out [][]byte) {
	base = make([]byte, 32)
	for i := range base {
		base[i] = byte(c21Mix(aseed, uint64(1000+i)))
	}
	R := c21Targets(maxBins)
	hot := []int{int(c21Mix(aseed, 1) % uint64(R)), int(c21Mix(aseed, 2) % uint64(R)), R - 1 - int(c21Mix(aseed, 3)%3)}
	for i := 0; i < n; i++ {
		a := make([]byte, 32)
		if i == n-1 {
			copy(a, base) // the base itself: maximal proximity
			out = append(out, a)
			continue
		}
		t := i
		if i >= R {
			t = hot[(i-R)%len(hot)]
		}
		// equal to base before bit t, different at bit t, arbitrary afterwards;
		// t >= 32 : first difference beyond the bits proximity looks at
		bit := t
		if t >= 32 {
			bit = 32 + int(c21Mix(aseed, uint64(50+i))%200)
		}
		for k := range a {
			a[k] = byte(c21Mix(aseed, uint64(5000+i*64+k)))
		}
		for b := 0; b < bit; b++ {
			mask := byte(1) << uint(7-b%8)
			a[b/8] = a[b/8]&^mask | base[b/8]&mask
		}
		mask := byte(1) << uint(7-bit%8)
		a[bit/8] = a[bit/8]&^mask | (^base[bit/8])&mask
		out = append(out, a)
	}
	return base, out
}

func c21HasInt(l []int, v int) bool {
	for _, x := range l {
		if x == v {
			return true
		}
	}
	return false
}

func c21Has(l []int64, v int64) bool {
	for _, x := range l {
		if x == v {
			return true
		}
	}
	return false
}

func c21Gen(rng *rand.Rand, tier string) *gosim.Plan {
	p := &gosim.Plan{Params: map[string]int64{}}
	nCli := 1
	if rng.Intn(100) < 55 {
		nCli = 2 + rng.Intn(3)
	}
	maxBins := int(gosim.Pick(rng, 1, 2, 3, 4, 4, 5, 8, 8, 16, 31, 32, 32, 33, 40))
	if nCli > 1 && rng.Intn(2) == 0 {
		// few bins: many members per bin while iterations and updates overlap
		maxBins = int(gosim.Pick(rng, 1, 2, 2, 3, 4))
	}
	R := c21Targets(maxBins)
	n := R + 4 + rng.Intn(8)
	p.Params["maxbins"] = int64(maxBins)
	p.Params["naddr"] = int64(n)
	p.Params["aseed"] = int64(rng.Uint32())
	p.Params["clients"] = int64(nCli)
	// swarm: repeated addresses inside one batch only in a share of the runs
	batchDups := rng.Intn(100) < 35
	if batchDups {
		p.Params["batchdups"] = 1
	}
	// working set: most operations hit few addresses so that duplicates,
	// re-adds and removals of present members are frequent
	ws := make([]int64, 3+rng.Intn(6))
	for i := range ws {
		if rng.Intn(3) == 0 {
			ws[i] = int64(n - 1 - rng.Intn(n-R+1)) // hot-bin addresses / base
		} else {
			ws[i] = int64(rng.Intn(n))
		}
	}
	pickAddr := func() int64 {
		if rng.Intn(100) < 65 {
			return ws[rng.Intn(len(ws))]
		}
		return int64(rng.Intn(n))
	}
	pickBin := func() int64 {
		switch rng.Intn(6) {
		case 0:
			return int64(maxBins - 1)
		case 1:
			return int64(maxBins + rng.Intn(3)) // beyond the last bin
		}
		return int64(rng.Intn(maxBins))
	}
	nPhase := 1
	perPhase := 20 + rng.Intn(50)
	if tier == "thorough" {
		perPhase += rng.Intn(60)
	}
	if nCli > 1 {
		nPhase = 2 + rng.Intn(4)
		perPhase = 6 + rng.Intn(20)
	} else if rng.Intn(3) == 0 {
		nPhase = 2 + rng.Intn(3)
		perPhase = perPhase/nPhase + 1
	}
	for ph := 0; ph < nPhase; ph++ {
		for i := 0; i < perPhase; i++ {
			c := int64(rng.Intn(nCli))
			x := rng.Intn(100)
			if nCli > 1 && rng.Intn(100) < 30 {
				x = int(gosim.Pick(rng, 0, 40, 40, 90, 90)) // more add / remove / iterate when concurrent
			}
			switch {
			case x < 22:
				p.Ops = append(p.Ops, gosim.Op{K: "add", A: []int64{c, pickAddr()}})
			case x < 38:
				k := 2 + rng.Intn(5)
				if rng.Intn(8) == 0 {
					k = 0 // empty batch
				}
				a := []int64{c}
				for j := 0; j < k; j++ {
					if j > 0 && batchDups && rng.Intn(100) < 30 {
						a = append(a, a[1+rng.Intn(j)]) // duplicate inside the batch
					} else {
						v := pickAddr()
						for t := 0; !batchDups && t < 20 && c21Has(a[1:], v); t++ {
							v = int64(rng.Intn(n))
						}
						if !batchDups && c21Has(a[1:], v) {
							continue
						}
						a = append(a, v)
					}
				}
				p.Ops = append(p.Ops, gosim.Op{K: "addb", A: a})
			case x < 58:
				p.Ops = append(p.Ops, gosim.Op{K: "rm", A: []int64{c, pickAddr()}})
			case x < 66:
				p.Ops = append(p.Ops, gosim.Op{K: "exists", A: []int64{c, pickAddr()}})
			case x < 70:
				p.Ops = append(p.Ops, gosim.Op{K: "len", A: []int64{c}})
			case x < 74:
				p.Ops = append(p.Ops, gosim.Op{K: "shallow", A: []int64{c}})
			case x < 78:
				p.Ops = append(p.Ops, gosim.Op{K: "binsize", A: []int64{c, pickBin()}})
			case x < 82:
				p.Ops = append(p.Ops, gosim.Op{K: "binpeers", A: []int64{c, pickBin()}})
			default:
				a := []int64{c, int64(rng.Intn(2)), 0, 0}
				if rng.Intn(3) == 0 {
					a[2] = int64(1 + rng.Intn(8))
				}
				if nCli > 1 {
					a[3] = gosim.Pick(rng, 0, 1, 1, 1, 2, 3)
				}
				for j := rng.Intn(4); j > 0; j-- {
					a = append(a, int64(1+rng.Intn(10)))
				}
				p.Ops = append(p.Ops, gosim.Op{K: "each", A: a})
			}
		}
		p.Ops = append(p.Ops, gosim.Op{K: "barrier"})
	}
	return p
}

// dupCheck: no instant may show an address twice in a bin ("each once"). It is
// run after every batched Add and before any other mismatch is reported, so
// that a doubly stored address is always reported under the same class.
func (w *c21World) dupCheck() {
	for b := 0; b < w.maxBins; b++ {
		cnt := map[int]int{}
		for _, a := range w.ps.BinPeers(uint8(b)) {
			cnt[w.index(a)]++
		}
		for x := range w.addrs {
			if cnt[x] > 1 {
				ib := w.wasInBatch(x)
				how := "it was never repeated inside one batched Add while absent"
				if ib {
					how = "it was repeated inside one batched Add while not a member"
				}
				w.r.Violate("duplicate-member", "address %d is stored %d times in bin %d; %s", x, cnt[x], b, how)
			}
		}
	}
}

// violate reports a mismatch. If an address was passed twice in one batched Add
// while it was not a member (which stores it twice, see dupCheck) the structure
// is corrupt from then on and every later mismatch of the run is a follow-up
// symptom of that duplicate; it is reported under the same class.
func (w *c21World) violate(class, format string, a ...interface{}) {
	w.dupCheck()
	for x := range w.addrs {
		if w.wasInBatch(x) {
			w.r.Violate("duplicate-member", "address %d was stored by a batched Add in which it was repeated inside one batched Add while not a member; follow-up symptom [%s]: %s",
				x, class, fmt.Sprintf(format, a...))
		}
	}
	w.r.Violate(class, format, a...)
}

// The recorder below is shared by the client goroutines. Its synchronisation
// is hidden from the race detector (norace functions, RaceOff/RaceOn, slices
// only) so that it adds no happens-before edge between program goroutines.

//go:norace
func (w *c21World) tick() int64 {
	gosim.RaceOff()
	w.mu.Lock()
	w.clk++
	t := w.clk
	w.mu.Unlock()
	gosim.RaceOn()
	return t
}

// begin stamps the invocation of a mutation of the addresses xs.
//
//go:norace
func (w *c21World) begin(xs []int, add bool) int64 {
	gosim.RaceOff()
	w.mu.Lock()
	w.clk++
	t := w.clk
	for _, x := range xs {
		w.hist[x] = append(w.hist[x], c21Mut{add, t, 0})
	}
	w.mu.Unlock()
	gosim.RaceOn()
	return t
}

// end stamps the return of the mutation begun at inv.
//
//go:norace
func (w *c21World) end(xs []int, inv int64) int64 {
	gosim.RaceOff()
	w.mu.Lock()
	w.clk++
	t := w.clk
	for _, x := range xs {
		for k := range w.hist[x] {
			if w.hist[x][k].inv == inv && w.hist[x][k].ret == 0 {
				w.hist[x][k].ret = t
			}
		}
	}
	w.mu.Unlock()
	gosim.RaceOn()
	return t
}

//go:norace
func (w *c21World) record(x int, add bool, inv, ret int64) {
	gosim.RaceOff()
	w.mu.Lock()
	w.hist[x] = append(w.hist[x], c21Mut{add, inv, ret})
	w.mu.Unlock()
	gosim.RaceOn()
}

//go:norace
func (w *c21World) snapshot(x int) []c21Mut {
	gosim.RaceOff()
	w.mu.Lock()
	h := make([]c21Mut, len(w.hist[x]))
	copy(h, w.hist[x])
	w.mu.Unlock()
	gosim.RaceOn()
	return h
}

//go:norace
func (w *c21World) markInBatch(x int, d int) {
	gosim.RaceOff()
	w.mu.Lock()
	w.inBatch[x] += d
	w.mu.Unlock()
	gosim.RaceOn()
}

//go:norace
func (w *c21World) wasInBatch(x int) bool {
	gosim.RaceOff()
	w.mu.Lock()
	v := w.inBatch[x] > 0
	w.mu.Unlock()
	gosim.RaceOn()
	return v
}

// possibly(x, present, s, e): could x have been present (absent) at some
// instant of [s,e] in some linearisation of the recorded mutations?
func (w *c21World) possibly(x int, present bool, s, e int64) bool {
	h := w.snapshot(x)
	killed := func(srcRet int64) bool {
		for _, m := range h {
			if m.add != present && m.ret != 0 && m.inv > srcRet && m.ret < s {
				return true
			}
		}
		return false
	}
	if !present && !killed(-1) { // initially absent
		return true
	}
	for _, m := range h {
		if m.add == present && m.inv <= e {
			ret := m.ret
			if ret == 0 { // still running
				ret = 1 << 62
			}
			if !killed(ret) {
				return true
			}
		}
	}
	return false
}

func (w *c21World) bin(x int) int {
	b := w.prox[x]
	if b > w.maxBins-1 {
		b = w.maxBins - 1
	}
	return b
}

func (w *c21World) index(a boson.Address) int {
	for i, b := range w.addrs {
		if a.Equal(b) {
			return i
		}
	}
	return -1
}

// bounds per bin over [s,e]: lo = members present during the whole interval,
// hi = addresses possibly present at some instant.
func (w *c21World) bounds(s, e int64) (lo, hi []int) {
	lo = make([]int, w.maxBins)
	hi = make([]int, w.maxBins)
	for x := range w.addrs {
		if w.possibly(x, true, s, e) {
			hi[w.bin(x)]++
			if !w.possibly(x, false, s, e) {
				lo[w.bin(x)]++
			}
		}
	}
	return
}

type c21Visit struct {
	x  int
	po int
}

func c21Fmt(v []c21Visit) string {
	var sb strings.Builder
	for _, e := range v {
		fmt.Fprintf(&sb, "%d@%d ", e.x, e.po)
	}
	return sb.String()
}

// iterate runs EachBin / EachBinRev with the scripted callback and checks it.
func (w *c21World) iterate(rev bool, stopAt, yieldMod int64, nexts map[int64]bool) {
	r := w.r
	var visits []c21Visit
	var acts []string
	n := int64(0)
	ended := false
	s := w.tick()
	f := func(a boson.Address, po uint8) (bool, bool, error) {
		if ended {
			w.violate("iter-after-stop", "callback invoked after it returned stop")
		}
		n++
		visits = append(visits, c21Visit{w.index(a), int(po)})
		if yieldMod > 0 && n%yieldMod == 0 {
			gosim.Yield()
		}
		if stopAt > 0 && n == stopAt {
			ended = true
			acts = append(acts, "stop")
			return true, false, nil
		}
		if nexts[n] {
			acts = append(acts, "next")
			return false, true, nil
		}
		acts = append(acts, "")
		return false, false, nil
	}
	var err error
	if rev {
		err = w.ps.EachBinRev(f)
	} else {
		err = w.ps.EachBin(f)
	}
	e := w.tick()
	r.Logf("each rev=%v stop=%d -> %s err=%v", rev, stopAt, c21Fmt(visits), err)
	if err != nil {
		w.violate("iter-error", "iteration returned %v although the callback never fails", err)
	}
	seen := map[int]bool{}
	for i, v := range visits {
		if v.x < 0 {
			w.violate("iter-unknown", "iteration visited an address that was never added")
		}
		if seen[v.x] {
			w.violate("iter-duplicate", "address %d visited twice in one iteration: %s", v.x, c21Fmt(visits))
		}
		seen[v.x] = true
		if v.po != w.bin(v.x) {
			w.violate("iter-bin", "address %d (proximity %d, %d bins) reported in bin %d, want %d", v.x, w.prox[v.x], w.maxBins, v.po, w.bin(v.x))
		}
		if !w.possibly(v.x, true, s, e) {
			w.violate("iter-nonmember", "address %d visited but it was not a member at any instant of the iteration: %s", v.x, c21Fmt(visits))
		}
		if i > 0 {
			p := visits[i-1].po
			if (!rev && v.po > p) || (rev && v.po < p) {
				w.violate("iter-order", "bins out of order (rev=%v): %s", rev, c21Fmt(visits))
			}
			if acts[i-1] == "next" && v.po == p {
				w.violate("iter-next", "visit %d asked for the next bin but bin %d was continued: %s", i, p, c21Fmt(visits))
			}
		}
	}
	lo, hi := w.bounds(s, e)
	exact := true
	for b := range lo {
		if lo[b] != hi[b] {
			exact = false
		}
	}
	if exact {
		// the visit sequence per bin is determined by the sizes
		r.Count("probe_iter_exact")
		var want []int
		cnt := int64(0)
		stopped := false
		for k := 0; k < w.maxBins && !stopped; k++ {
			b := k
			if !rev {
				b = w.maxBins - 1 - k
			}
			for j := 0; j < lo[b]; j++ {
				cnt++
				want = append(want, b)
				if stopAt > 0 && cnt == stopAt {
					stopped = true
					break
				}
				if nexts[cnt] {
					break
				}
			}
		}
		got := make([]int, len(visits))
		for i, v := range visits {
			got[i] = v.po
		}
		if fmt.Sprint(got) != fmt.Sprint(want) {
			w.violate("iter-shape", "rev=%v stopAt=%d nexts=%v: visited bins %v, the set demands %v (bin sizes %v)", rev, stopAt, c21Keys(nexts), got, want, lo)
		}
		if stopped {
			r.Count("probe_iter_stop")
		}
		inBin := map[int]int{}
		for _, b := range want {
			inBin[b]++
		}
		for i, a := range acts {
			if a == "next" && i < len(want) && inBin[want[i]] < lo[want[i]] {
				r.Count("probe_iter_next_skips")
				break
			}
		}
	} else {
		r.Count("probe_iter_concurrent")
		// without stop/next every address present throughout must be visited
		plain := stopAt == 0 || int64(len(visits)) < stopAt
		for k := range nexts {
			if k <= int64(len(visits)) {
				plain = false
			}
		}
		if plain {
			for x := range w.addrs {
				if !w.possibly(x, false, s, e) && !seen[x] {
					w.violate("iter-missing", "address %d was a member during the whole iteration but was not visited: %s", x, c21Fmt(visits))
				}
			}
		}
	}
}

func c21Keys(m map[int64]bool) []int64 {
	var k []int64
	for x := range m {
		k = append(k, x)
	}
	sort.Slice(k, func(i, j int) bool { return k[i] < k[j] })
	return k
}

// fullCheck compares the quiescent structure with the model exactly.
func (w *c21World) fullCheck(resolve bool) {
	r := w.r
	s := w.tick()
	member := make([]bool, len(w.addrs))
	for x := range w.addrs {
		pp, pa := w.possibly(x, true, s, s), w.possibly(x, false, s, s)
		got := w.ps.Exists(w.addrs[x])
		switch {
		case pp && pa:
			// concurrent Add and Remove of x: either order is a legal outcome
			if !resolve {
				r.Violate("harness-c21", "ambiguous state outside a barrier")
			}
			r.Count("probe_ambiguous_resolved")
			w.record(x, got, s, s)
			member[x] = got
		case pp:
			if !got {
				w.violate("lost", "address %d was added and not removed but Exists is false", x)
			}
			member[x] = true
		default:
			if got {
				w.violate("ghost", "address %d is not in the set (never added, or removed) but Exists is true", x)
			}
		}
	}
	sizes := make([]int, w.maxBins)
	total := 0
	for x, m := range member {
		if m {
			sizes[w.bin(x)]++
			total++
		}
	}
	if l := w.ps.Length(); l != total {
		w.violate("length", "Length()=%d, the set has %d members (per bin %v)", l, total, sizes)
	}
	wantSE, wantFull := 0, true
	for b, n := range sizes {
		if n == 0 {
			wantSE, wantFull = b, false
			break
		}
	}
	if b, full := w.ps.ShallowestEmpty(); int(b) != wantSE || full != wantFull {
		w.violate("shallowest-empty", "ShallowestEmpty()=(%d,%v), want (%d,%v); bin sizes %v", b, full, wantSE, wantFull, sizes)
	}
	for b := 0; b < w.maxBins+2; b++ {
		want := 0
		if b < w.maxBins {
			want = sizes[b]
		}
		if n := w.ps.BinSize(uint8(b)); n != want {
			w.violate("binsize", "BinSize(%d)=%d, want %d", b, n, want)
		}
		peers := w.ps.BinPeers(uint8(b))
		if len(peers) != want {
			w.violate("binpeers", "BinPeers(%d) has %d entries, want %d", b, len(peers), want)
		}
		seen := map[int]bool{}
		for _, a := range peers {
			x := w.index(a)
			if x < 0 || !member[x] || w.bin(x) != b || seen[x] {
				w.violate("binpeers", "BinPeers(%d) contains address %d (member=%v, bin %d, repeated=%v)", b, x, x >= 0 && member[x], w.bin(max(x, 0)), seen[x])
			}
			seen[x] = true
		}
	}
	// both iterations visit the set exactly once, in bin order
	w.iterate(false, 0, 0, nil)
	w.iterate(true, 0, 0, nil)
	if total > 0 && sizes[w.maxBins-1] > 0 {
		for x, m := range member {
			if m && w.prox[x] > w.maxBins-1 {
				r.Count("probe_capped_bin_member")
				break
			}
		}
	}
}

func c21Exec(r *gosim.Run) {
	maxBins := int(r.Plan.P("maxbins", 4))
	n := int(r.Plan.P("naddr", 8))
	if maxBins < 1 || maxBins > 64 || n < 1 || n > 200 {
		return
	}
	base, raw := c21Alphabet(maxBins, n, uint64(r.Plan.P("aseed", 1)))
	w := &c21World{r: r, maxBins: maxBins, base: base, hist: make([][]c21Mut, n), inBatch: make([]int, n)}
	for _, a := range raw {
		w.addrs = append(w.addrs, boson.NewAddress(a))
		w.prox = append(w.prox, c21Prox(base, a))
	}
	w.ps = pslice.New(maxBins, boson.NewAddress(base))
	r.Logf("bins=%d prox=%v", maxBins, w.prox)

	// number of clients per phase: a lone client is checked exactly after every op
	var solo []bool
	{
		cl := map[int64]bool{}
		for _, o := range r.Plan.Ops {
			if o.K == "barrier" {
				solo = append(solo, len(cl) <= 1)
				cl = map[int64]bool{}
				continue
			}
			cl[o.Arg(0)] = true
		}
		solo = append(solo, len(cl) <= 1)
	}
	ax := func(v int64) int { return int(((v % int64(n)) + int64(n)) % int64(n)) }

	r.RunPhases(r.Plan.Ops, func(phase int, o gosim.Op) {
		seq := phase < len(solo) && solo[phase]
		switch o.K {
		case "add":
			x := ax(o.Arg(1))
			s := w.begin([]int{x}, true)
			w.ps.Add(w.addrs[x])
			w.end([]int{x}, s)
			r.Logf("add %d", x)
		case "addb":
			var xs []int
			var as []boson.Address
			dup := false
			for _, v := range o.A[min(1, len(o.A)):] {
				x := ax(v)
				for _, y := range xs {
					if y == x {
						dup = true
					}
				}
				xs = append(xs, x)
				as = append(as, w.addrs[x])
			}
			if dup {
				r.Count("probe_batch_with_duplicate")
			}
			// An address repeated inside the batch is stored twice if it is absent
			// when the call takes effect. Mark it before the call (an overlapping
			// observer may see the duplicate first) and withdraw the mark if the
			// address turns out to have been a member during the whole call.
			var rep []int
			for i, x := range xs {
				for _, y := range xs[:i] {
					if x == y && !c21HasInt(rep, x) {
						rep = append(rep, x)
					}
				}
			}
			for _, x := range rep {
				w.markInBatch(x, 1)
			}
			s := w.begin(xs, true)
			w.ps.Add(as...)
			e := w.end(xs, s)
			for _, x := range rep {
				if !w.possibly(x, false, s, e) {
					w.markInBatch(x, -1)
				}
			}
			r.Logf("addb %v", xs)
			w.dupCheck()
		case "rm":
			x := ax(o.Arg(1))
			if t := w.tick(); seq && w.possibly(x, true, t, t) {
				r.Count("probe_remove_member")
			}
			s := w.begin([]int{x}, false)
			w.ps.Remove(w.addrs[x])
			w.end([]int{x}, s)
			r.Logf("rm %d", x)
		case "exists":
			x := ax(o.Arg(1))
			s := w.tick()
			got := w.ps.Exists(w.addrs[x])
			e := w.tick()
			r.Logf("exists %d -> %v", x, got)
			if !w.possibly(x, got, s, e) {
				w.violate("exists", "Exists(%d)=%v but the address was %s during the whole call", x, got, map[bool]string{true: "absent", false: "a member"}[got])
			}
		case "len":
			s := w.tick()
			got := w.ps.Length()
			e := w.tick()
			r.Logf("len -> %d", got)
			lo, hi := w.bounds(s, e)
			l, h := 0, 0
			for b := range lo {
				l += lo[b]
				h += hi[b]
			}
			if got < l || got > h {
				w.violate("length", "Length()=%d, the set has between %d and %d members", got, l, h)
			}
		case "shallow":
			s := w.tick()
			b, full := w.ps.ShallowestEmpty()
			e := w.tick()
			r.Logf("shallow -> %d %v", b, full)
			lo, hi := w.bounds(s, e)
			if full {
				for i := range hi {
					if hi[i] == 0 {
						w.violate("shallowest-empty", "ShallowestEmpty reports no empty bin but bin %d is empty", i)
					}
				}
			} else {
				if int(b) >= maxBins || lo[b] > 0 {
					w.violate("shallowest-empty", "ShallowestEmpty()=%d but that bin has members (sizes %v)", b, lo)
				}
				for i := 0; i < int(b); i++ {
					if hi[i] == 0 {
						w.violate("shallowest-empty", "ShallowestEmpty()=%d but bin %d is empty too", b, i)
					}
				}
			}
		case "binsize":
			b := int(o.Arg(1))
			if b < 0 || b > 255 {
				return
			}
			s := w.tick()
			got := w.ps.BinSize(uint8(b))
			e := w.tick()
			r.Logf("binsize %d -> %d", b, got)
			lo, hi := w.bounds(s, e)
			l, h := 0, 0
			if b < maxBins {
				l, h = lo[b], hi[b]
			}
			if got < l || got > h {
				w.violate("binsize", "BinSize(%d)=%d, the bin has between %d and %d members", b, got, l, h)
			}
		case "binpeers":
			b := int(o.Arg(1))
			if b < 0 || b > 255 {
				return
			}
			s := w.tick()
			got := w.ps.BinPeers(uint8(b))
			e := w.tick()
			var xs []int
			seen := map[int]bool{}
			for _, a := range got {
				x := w.index(a)
				xs = append(xs, x)
				if x < 0 || seen[x] || w.bin(x) != b || !w.possibly(x, true, s, e) {
					w.violate("binpeers", "BinPeers(%d) returned address %d (bin %d, repeated=%v) which is not a member of that bin", b, x, w.bin(max(x, 0)), seen[x])
				}
				seen[x] = true
			}
			r.Logf("binpeers %d -> %v", b, xs)
			for x := range w.addrs {
				if w.bin(x) == b && !seen[x] && !w.possibly(x, false, s, e) {
					w.violate("binpeers", "BinPeers(%d) misses member %d", b, x)
				}
			}
		case "each":
			nexts := map[int64]bool{}
			if len(o.A) > 4 {
				for _, v := range o.A[4:] {
					nexts[v] = true
				}
			}
			w.iterate(o.Arg(1) == 1, o.Arg(2), o.Arg(3), nexts)
		default:
			return
		}
		if seq {
			w.fullCheck(false)
		}
	}, func(phase int) {
		w.fullCheck(true)
	})
}

func init() {
	gosim.Register(&gosim.World{
		Prop: "C21", Gen: c21Gen, Exec: c21Exec,
		Real:  []string{"pkg/topology/pslice (PSlice: Add, Remove, Exists, Length, BinSize, BinPeers, ShallowestEmpty, EachBin, EachBinRev)", "pkg/boson (Address, Proximity)"},
		Stubs: []string{},
	})
}
