package worlds

// C22 — Neighbourhood depth is consistent with the peer set.
//
// A real, not started Kad is fed topology events one at a time; after every
// event the predicates of the statement are evaluated on a set model. The same
// event executor (c22Topo) also serves the sequential runs of C23.
//
// Ops:
//   conn   [peer, kind]      kind 0 inbound unforced, 1 inbound forced, 2 Outbound
//   disc   [peer]            Disconnected notification
//   dforce [peer]            DisconnectForce
//   reach  [peer, status]    Reachable(status): 0 unknown, 1 public, 2 private
//   radius [r]               SetRadius
//   self   [status]          UpdateReachability (own status; matters for C23)
//   check  [seed]            order independence against a fresh Kad
//   q1/qn  ...               C23 queries (ignored unless the C23 oracle is on)

import (
	"context"
	"fmt"
	"math/rand"
	"sort"
	"sync"

	"github.com/gauss-project/aurorafs/pkg/boson"
	"github.com/gauss-project/aurorafs/pkg/topology/kademlia"

	"verifharness/gosim"
)

type c22Topo struct {
	r       *gosim.Run
	al      *c24Alphabet
	node    *c24Node
	binMax  int64
	quick   int
	conn    map[int]bool
	reach   map[int]int64 // last reported status per peer
	radius  int           // -1: never set
	self    int64         // last reported own status, -1 never
	depthOn bool
	c23On   bool
	after   string     // suffix of violation classes: the kind of event just executed
	mu      sync.Mutex // guards the model maps in concurrent phases
}

func c22Options(binMax int64) kademlia.Options {
	return kademlia.Options{BinMaxPeers: int(binMax), NodeMode: c24Model(c24ModeFull)}
}

func c22NewTopo(r *gosim.Run, depthOn, c23On bool) *c22Topo {
	t := &c22Topo{r: r, conn: map[int]bool{}, reach: map[int]int64{}, radius: -1, self: -1, depthOn: depthOn, c23On: c23On}
	t.binMax = r.Plan.P("binmax", 0)
	t.quick = c24Quick(t.binMax)
	t.al = c24NewAlphabet(r.Plan.P("addr_seed", 1))
	t.node = c24NewNode(r, t.al, t.options(), false)
	return t
}

// options of both Kads of a run. With yield_filter the reachability callback is
// the harness's: same meaning as the default one (reachable = last reported
// status is public), answered from the model, plus a scheduling point.
func (t *c22Topo) options() kademlia.Options {
	o := c22Options(t.binMax)
	if t.r.Plan.P("yield_filter", 0) == 1 {
		o.ReachabilityFunc = func(a boson.Address) bool {
			gosim.Yield()
			id, ok := t.al.idOf(a)
			t.mu.Lock()
			defer t.mu.Unlock()
			return !ok || t.reach[id] != 1
		}
	}
	return o
}

func (t *c22Topo) reachable(id int) bool { return t.reach[id] == 1 }

func (t *c22Topo) connected() []int {
	out := make([]int, 0, len(t.conn))
	for id := range t.conn {
		out = append(out, id)
	}
	sort.Ints(out)
	return out
}

// checkDepth evaluates the statement's predicates for depth d of Kad `who`.
func (t *c22Topo) checkDepth(who string, d int) {
	r := t.r
	ids := t.connected()
	if t.radius >= 0 && d > t.radius {
		r.Violate("depth-exceeds-radius"+t.after, "%s: depth %d > radius %d", who, d, t.radius)
	}
	if len(ids) <= 3 && d != 0 {
		r.Violate("depth-with-few-peers"+t.after, "%s: depth %d with only %d connected peers", who, d, len(ids))
	}
	var binAll, binReach [32]int
	for _, id := range ids {
		b := t.al.bin(id)
		binAll[b]++
		if t.reachable(id) {
			binReach[b]++
		}
	}
	if d > 0 {
		r.Count("probe_positive_depth")
		n := 0
		for b := d; b < 32; b++ {
			n += binReach[b]
		}
		if n < 3 {
			r.Violate("too-few-in-neighbourhood"+t.after, "%s: depth %d leaves %d reachable peers at or beyond it (bins reach=%v all=%v)", who, d, n, binReach, binAll)
		}
	}
	for b := 0; b < 32; b++ {
		if binAll[b] == 0 {
			if d > b {
				r.Violate("depth-beyond-empty-bin"+t.after, "%s: depth %d exceeds the shallowest empty bin %d", who, d, b)
			}
			break
		}
	}
	for b := 0; b < d && b < 32; b++ {
		if binReach[b] < t.quick {
			if binAll[b] >= t.quick {
				r.Count("probe_unreachable_made_bin_thin")
			}
			r.Violate("shallow-bin-unsaturated"+t.after, "%s: depth %d but bin %d holds %d reachable peers (< quick saturation %d; bins reach=%v all=%v)",
				who, d, b, binReach[b], t.quick, binReach, binAll)
		}
	}
	if d >= 8 {
		r.Count("probe_depth_ge_8")
	}
}

// orderCheck feeds the current set to a fresh Kad in a seeded order.
func (t *c22Topo) orderCheck(seed int64) {
	r := t.r
	rng := rand.New(rand.NewSource(seed))
	fresh := c24NewNode(r, t.al, t.options(), false)
	type ev struct {
		kind int // 0 connect, 1 reach
		id   int
	}
	var evs []ev
	for id := range t.conn {
		evs = append(evs, ev{0, id})
	}
	for id := range t.reach {
		evs = append(evs, ev{1, id})
	}
	sort.Slice(evs, func(i, j int) bool {
		if evs[i].id != evs[j].id {
			return evs[i].id < evs[j].id
		}
		return evs[i].kind < evs[j].kind
	})
	rng.Shuffle(len(evs), func(i, j int) { evs[i], evs[j] = evs[j], evs[i] })
	radiusAt := -1
	if t.radius >= 0 {
		radiusAt = rng.Intn(len(evs) + 1)
	}
	for i := 0; i <= len(evs); i++ {
		if i == radiusAt {
			fresh.kad.SetRadius(uint8(t.radius))
		}
		if i == len(evs) {
			break
		}
		e := evs[i]
		if e.kind == 1 {
			fresh.kad.Reachable(t.al.addr(e.id), c24Status(t.reach[e.id]))
			continue
		}
		p := fresh.p2p.peer(e.id, c24ModeFull)
		fresh.p2p.mu.Lock()
		fresh.p2p.reg[e.id] = &c24Conn{mode: c24ModeFull}
		fresh.p2p.mu.Unlock()
		if rng.Intn(2) == 0 {
			fresh.kad.Outbound(p)
		} else if err := fresh.kad.Connected(context.Background(), p, true); err != nil {
			r.Violate("forced-connect-refused", "fresh Kad refused forced inbound p%d: %v", e.id, err)
		}
	}
	d1 := int(t.node.kad.NeighborhoodDepth())
	d2 := int(fresh.kad.NeighborhoodDepth())
	r.Logf("check: depth=%d fresh=%d", d1, d2)
	r.Count("probe_order_checked")
	t.checkDepth("fresh", d2)
	if d1 != d2 {
		var binAll, binReach [32]int
		for id := range t.conn {
			binAll[t.al.bin(id)]++
			if t.reachable(id) {
				binReach[t.al.bin(id)]++
			}
		}
		r.Violate("depth-order-dependent"+t.after, "same set (radius %d, bins reach=%v all=%v): depth %d after this history, %d when fed in another order",
			t.radius, binReach, binAll, d1, d2)
	}
}

func (t *c22Topo) isConn(id int) bool {
	t.mu.Lock()
	defer t.mu.Unlock()
	return t.conn[id]
}

func (t *c22Topo) setConn(id int, on bool) {
	t.mu.Lock()
	if on {
		t.conn[id] = true
	} else {
		delete(t.conn, id)
	}
	t.mu.Unlock()
}

// exec runs one op of a sequential history and checks the oracle after it.
func (t *c22Topo) exec(o gosim.Op) {
	switch o.K {
	case "conn", "disc", "dforce", "reach", "radius", "self":
		t.after = ""
	}
	if t.apply(o) {
		t.afterEvent(o)
	}
}

// apply performs one op on the Kad and the model; it reports whether the op was
// a topology event (false: no-op or an observer op). Safe for concurrent use as
// long as no two goroutines touch the same peer.
func (t *c22Topo) apply(o gosim.Op) bool {
	r := t.r
	k := t.node.kad
	id := int(o.Arg(0))
	switch o.K {
	case "conn":
		if !t.al.validID(o.Arg(0)) || id >= c24BootBase {
			return false
		}
		kind := o.Arg(1)
		p := t.node.p2p.peer(id, c24ModeFull)
		if kind == 2 {
			t.node.p2p.mu.Lock()
			if t.node.p2p.reg[id] == nil {
				t.node.p2p.reg[id] = &c24Conn{mode: c24ModeFull, outbound: true}
			}
			t.node.p2p.mu.Unlock()
			k.Outbound(p)
			t.setConn(id, true)
			r.Logf("outbound p%d (bin %d)", id, t.al.bin(id))
			break
		}
		if t.isConn(id) {
			return false // the p2p layer never announces an existing connection again
		}
		t.node.p2p.mu.Lock()
		t.node.p2p.reg[id] = &c24Conn{mode: c24ModeFull}
		t.node.p2p.mu.Unlock()
		err := k.Connected(context.Background(), p, kind == 1)
		r.Logf("inbound p%d (bin %d) force=%v -> %v", id, t.al.bin(id), kind == 1, err)
		if err != nil {
			r.Count("probe_inbound_refused")
			_ = t.node.p2p.Disconnect(p.Address, "refused")
		} else {
			t.setConn(id, true)
		}
	case "disc":
		if !t.al.validID(o.Arg(0)) {
			return false
		}
		t.node.p2p.mu.Lock()
		delete(t.node.p2p.reg, id)
		t.node.p2p.mu.Unlock()
		k.Disconnected(t.node.p2p.peer(id, c24ModeFull), "gone")
		t.setConn(id, false)
		r.Logf("disconnected p%d", id)
	case "dforce":
		if !t.al.validID(o.Arg(0)) {
			return false
		}
		err := k.DisconnectForce(t.al.addr(id), "forced")
		r.Logf("disconnect-force p%d -> %v", id, err)
		if err == nil {
			if !t.isConn(id) {
				r.Violate("force-disconnect-unknown", "DisconnectForce of unconnected p%d succeeded", id)
			}
			t.setConn(id, false)
		} else if t.isConn(id) {
			r.Violate("force-disconnect-failed", "DisconnectForce of connected p%d: %v", id, err)
		}
	case "reach":
		if !t.al.validID(o.Arg(0)) {
			return false
		}
		t.mu.Lock()
		t.reach[id] = o.Arg(1) % 3 // first: a harness reachability callback answers from the model
		t.mu.Unlock()
		k.Reachable(t.al.addr(id), c24Status(o.Arg(1)))
		if t.isConn(id) && o.Arg(1)%3 != 1 {
			r.Count("probe_connected_peer_turned_nonpublic")
		}
		r.Logf("reachable p%d status=%d", id, o.Arg(1)%3)
		if o.Arg(1)%3 != 1 {
			t.after = "@nonpublic-report"
		}
	case "radius":
		rad := int(o.Arg(0)) & 31
		k.SetRadius(uint8(rad))
		t.radius = rad
		r.Logf("radius %d", rad)
	case "self":
		k.UpdateReachability(c24Status(o.Arg(0)))
		t.self = o.Arg(0) % 3
		r.Logf("own reachability %d", t.self)
	case "check":
		if t.depthOn {
			t.orderCheck(o.Arg(0))
		}
		return false
	case "q1", "qn":
		if t.c23On {
			c23Query(t.r, t.c23Env(), o)
		}
		return false
	default:
		return false
	}
	return true
}

// afterEvent: the oracle after one event of a sequential history.
func (t *c22Topo) afterEvent(o gosim.Op) {
	r := t.r
	k := t.node.kad
	d := int(k.NeighborhoodDepth())
	r.Logf("  depth=%d connected=%d", d, len(t.conn))
	if t.depthOn {
		t.checkDepth("kad", d)
	}
	// the set itself (sequential runs: exact at every step)
	got := t.node.connectedIDs(r)
	want := t.connected()
	if fmt.Sprint(got) != fmt.Sprint(want) {
		r.Violate("connected-set", "after %v: topology reports %v, connected are %v", o, got, want)
	}
}

func (t *c22Topo) c23Env() *c23Env {
	return &c23Env{al: t.al, kad: t.node.kad, connected: t.connected(), reachable: t.reachable, selfPublic: t.self == 1}
}

// ---- generation ----

type c22Gen struct {
	rng   *rand.Rand
	p     *gosim.Plan
	conn  map[int]bool
	reach map[int]int64
	mode  int // 0 public at connect and for ever, 1 only ever turns public, 2 free
	q     int
	depth int
	query func(g *c22Gen) // emits C23 queries after an event (nil for C22)
}

func (g *c22Gen) emit(o gosim.Op) {
	g.p.Ops = append(g.p.Ops, o)
	if g.query != nil {
		g.query(g)
	}
}

func (g *c22Gen) pickConnected() (int, bool) {
	if len(g.conn) == 0 {
		return 0, false
	}
	ids := make([]int, 0, len(g.conn))
	for id := range g.conn {
		ids = append(ids, id)
	}
	sort.Ints(ids)
	return ids[g.rng.Intn(len(ids))], true
}

func (g *c22Gen) freshIn(bin int) int {
	for try := 0; try < 8; try++ {
		id := bin*c24PerBin + g.rng.Intn(c24PerBin)
		if !g.conn[id] {
			return id
		}
	}
	return bin*c24PerBin + g.rng.Intn(c24PerBin)
}

func (g *c22Gen) connect(id int) {
	rng := g.rng
	kind := int64(rng.Intn(3))
	if rng.Intn(3) == 0 {
		kind = 1
	}
	var st int64 = -1
	switch g.mode {
	case 0:
		st = 1
	case 1:
		if rng.Intn(5) > 0 {
			st = 1
		} else if _, seen := g.reach[id]; !seen && rng.Intn(2) == 0 {
			st = int64(rng.Intn(2)) * 2 // unknown or private, before any public report
		}
		if g.reach[id] == 1 {
			st = -1
		}
	default:
		if rng.Intn(6) > 0 {
			st = []int64{1, 1, 1, 1, 2, 0}[rng.Intn(6)]
		}
	}
	before := rng.Intn(2) == 0
	if st >= 0 && before {
		g.emit(gosim.Op{K: "reach", A: []int64{int64(id), st}})
		g.reach[id] = st
	}
	g.emit(gosim.Op{K: "conn", A: []int64{int64(id), kind}})
	g.conn[id] = true
	if st >= 0 && !before {
		g.emit(gosim.Op{K: "reach", A: []int64{int64(id), st}})
		g.reach[id] = st
	}
}

func c22GenEvents(rng *rand.Rand, tier string, p *gosim.Plan, query func(g *c22Gen)) {
	g := &c22Gen{rng: rng, p: p, conn: map[int]bool{}, reach: map[int]int64{}, query: query}
	binMax := gosim.Pick(rng, 0, 5, 5, 5, 7, 10, 15)
	p.Params["binmax"] = binMax
	p.Params["addr_seed"] = int64(rng.Intn(1 << 30))
	g.q = c24Quick(binMax)
	g.mode = []int{0, 1, 2, 2}[rng.Intn(4)]
	p.Params["reach_mode"] = int64(g.mode)
	maxD := 8
	if tier == "thorough" {
		maxD = 14
	}
	g.depth = rng.Intn(maxD + 1)
	if rng.Intn(8) == 0 && g.q <= 2 {
		g.depth = rng.Intn(32)
	}
	if rng.Intn(4) == 0 {
		g.emit(gosim.Op{K: "radius", A: []int64{int64(rng.Intn(32))}})
	}
	if query != nil && rng.Intn(2) == 0 {
		g.emit(gosim.Op{K: "self", A: []int64{gosim.Pick(rng, 1, 1, 2, 0)}})
	}
	// build: bins below the target depth get about the quick-saturation number
	var build []int
	for b := 0; b < g.depth; b++ {
		n := g.q + rng.Intn(3)
		if rng.Intn(10) == 0 {
			n = g.q - 1
		}
		for i := 0; i < n; i++ {
			build = append(build, b)
		}
	}
	for i, n := 0, 1+rng.Intn(6); i < n; i++ {
		b := g.depth + rng.Intn(4)
		if rng.Intn(4) == 0 {
			b = rng.Intn(32)
		}
		if b > 31 {
			b = 31
		}
		build = append(build, b)
	}
	if rng.Intn(2) == 0 {
		rng.Shuffle(len(build), func(i, j int) { build[i], build[j] = build[j], build[i] })
	}
	if g.depth > 1 && binMax > 0 && binMax <= 10 && rng.Intn(3) == 0 {
		// a crowded shallow bin: unforced inbound peers get refused eventually
		b := rng.Intn(g.depth - 1)
		for i := 0; i < c24OverSat(binMax)+2; i++ {
			build = append(build, b)
		}
	}
	for _, b := range build {
		g.connect(g.freshIn(b))
	}
	// churn
	n := 8 + rng.Intn(30)
	if tier == "thorough" {
		n = 20 + rng.Intn(80)
	}
	nearBin := func() int {
		b := rng.Intn(g.depth + 3)
		if rng.Intn(5) == 0 {
			b = rng.Intn(32)
		}
		if b > 31 {
			b = 31
		}
		return b
	}
	for i := 0; i < n; i++ {
		switch x := rng.Intn(100); {
		case x < 28:
			if id, ok := g.pickConnected(); ok {
				g.emit(gosim.Op{K: "disc", A: []int64{int64(id)}})
				delete(g.conn, id)
			}
		case x < 50:
			g.connect(g.freshIn(nearBin()))
		case x < 75:
			id, ok := g.pickConnected()
			if !ok || rng.Intn(6) == 0 {
				id = g.freshIn(nearBin())
			}
			var st int64
			switch g.mode {
			case 0:
				continue
			case 1:
				st = 1
			default:
				st = gosim.Pick(rng, 1, 1, 2, 2, 0)
			}
			g.emit(gosim.Op{K: "reach", A: []int64{int64(id), st}})
			g.reach[id] = st
		case x < 85:
			rad := g.depth + rng.Intn(5) - 2
			if rng.Intn(3) == 0 || rad < 0 {
				rad = rng.Intn(32)
			}
			g.emit(gosim.Op{K: "radius", A: []int64{int64(rad & 31)}})
		case x < 90:
			id, ok := g.pickConnected()
			if !ok || rng.Intn(5) == 0 {
				id = g.freshIn(nearBin())
			}
			g.emit(gosim.Op{K: "dforce", A: []int64{int64(id)}})
			delete(g.conn, id)
		case x < 94:
			if query != nil {
				g.emit(gosim.Op{K: "self", A: []int64{gosim.Pick(rng, 1, 1, 2, 0)}})
			}
		default:
			g.emit(gosim.Op{K: "check", A: []int64{int64(rng.Intn(1 << 30))}})
		}
	}
	p.Params["final_shuffle"] = int64(rng.Intn(1 << 30))
}

func c22GenPlan(rng *rand.Rand, tier string) *gosim.Plan {
	p := &gosim.Plan{Params: map[string]int64{}}
	if rng.Intn(2) == 0 {
		c22GenConcurrent(rng, tier, p)
		return p
	}
	c22GenEvents(rng, tier, p, nil)
	// one goroutine drives the Kad: schedules do not matter here
	p.Params["yield_pct"] = gosim.Pick(rng, 0, 5)
	return p
}

// ---- concurrent mode ----
//
// Barrier-separated phases; inside a phase 2-3 client goroutines issue their
// events concurrently. The client of an event is a function of the event (peer
// id modulo the number of clients; radius changes belong to client 0), so no
// two goroutines ever touch the same peer or the radius concurrently and the
// final set of a phase does not depend on the interleaving - for any sub-list
// of the plan. At the barrier (system quiescent) the stored depth must satisfy
// the statement for that set and equal the depth of a fresh Kad fed the set
// sequentially.

func c22Client(o gosim.Op, n int) int {
	if o.K == "radius" || n <= 1 {
		return 0
	}
	return int(uint64(o.Arg(0)) % uint64(n))
}

func c22GenConcurrent(rng *rand.Rand, tier string, p *gosim.Plan) {
	g := &c22Gen{rng: rng, p: p, conn: map[int]bool{}, reach: map[int]int64{}}
	binMax := gosim.Pick(rng, 5, 5, 5, 7, 10)
	p.Params["binmax"] = binMax
	p.Params["addr_seed"] = int64(rng.Intn(1 << 30))
	p.Params["conc"] = 1
	nCli := 2 + rng.Intn(3)
	p.Params["clients"] = int64(nCli)
	p.Params["yield_pct"] = gosim.Pick(rng, 20, 50, 100, 100)
	if rng.Intn(3) > 0 {
		p.Params["sched_mode"] = 0 // no sticky scheduling: more interleavings
	}
	// half of the concurrent runs install a reachability callback (an option of
	// the Kad) that answers from the model and offers a switch each time the
	// depth walk asks it
	p.Params["yield_filter"] = int64(rng.Intn(2))
	p.Params["reach_mode"] = 0
	g.q = c24Quick(binMax)
	g.mode = 0 // public at connect: the depth follows the connections
	if rng.Intn(3) == 0 {
		g.mode = 2
		p.Params["reach_mode"] = 2
	}
	g.depth = 1 + rng.Intn(6)
	barrier := func() { p.Ops = append(p.Ops, gosim.Op{K: "barrier"}) }
	// phase 0: the set around the target depth, built concurrently
	for b := 0; b < g.depth; b++ {
		for i, n := 0, g.q+rng.Intn(2); i < n; i++ {
			g.connect(g.freshIn(b))
		}
	}
	for i, n := 0, 2+rng.Intn(4); i < n; i++ {
		g.connect(g.freshIn(min(g.depth+rng.Intn(3), 31)))
	}
	barrier()
	nPhase := 4 + rng.Intn(8)
	if tier == "thorough" {
		nPhase = 8 + rng.Intn(20)
	}
	for ph := 0; ph < nPhase; ph++ {
		// few events per phase, close to the bins that decide the depth, so that
		// overlapping notifications compute different depths
		for i, n := 0, 2+rng.Intn(7); i < n; i++ {
			b := rng.Intn(g.depth + 2)
			if b > 31 {
				b = 31
			}
			// the generator's estimate of the current depth: first bin with
			// fewer than the quick-saturation number of connected peers
			var cnt [32]int
			for id := range g.conn {
				cnt[id/c24PerBin]++
			}
			est := 0
			for est < 31 && cnt[est] >= g.q {
				est++
			}
			x := rng.Intn(100)
			if crit := rng.Intn(100); crit < 60 {
				// an event that moves the depth: fill the first thin bin, or
				// thin out a bin below it that is only just saturated
				var just []int
				for id := range g.conn {
					if b := id / c24PerBin; b < est && cnt[b] == g.q {
						just = append(just, id)
					}
				}
				sort.Ints(just)
				if len(just) > 0 && crit < 30 {
					id := just[rng.Intn(len(just))]
					g.emit(gosim.Op{K: "disc", A: []int64{int64(id)}})
					delete(g.conn, id)
				} else {
					g.connect(g.freshIn(est))
				}
				continue
			}
			switch {
			case x < 40:
				// disconnect a peer of a shallow bin
				var cands []int
				for id := range g.conn {
					if id/c24PerBin <= g.depth+1 {
						cands = append(cands, id)
					}
				}
				if len(cands) == 0 {
					continue
				}
				sort.Ints(cands)
				id := cands[rng.Intn(len(cands))]
				g.emit(gosim.Op{K: "disc", A: []int64{int64(id)}})
				delete(g.conn, id)
			case x < 80:
				g.connect(g.freshIn(b))
			case x < 90:
				g.emit(gosim.Op{K: "radius", A: []int64{int64(max(0, g.depth+rng.Intn(5)-2) & 31)}})
			default:
				if g.mode == 2 {
					if id, ok := g.pickConnected(); ok {
						st := gosim.Pick(rng, 1, 2, 0)
						g.emit(gosim.Op{K: "reach", A: []int64{int64(id), st}})
						g.reach[id] = st
					}
				} else if id, ok := g.pickConnected(); ok {
					g.emit(gosim.Op{K: "dforce", A: []int64{int64(id)}})
					delete(g.conn, id)
				}
			}
		}
		barrier()
	}
	p.Params["final_shuffle"] = int64(rng.Intn(1 << 30))
}

func c22ExecConcurrent(r *gosim.Run, t *c22Topo) {
	nCli := int(r.Plan.P("clients", 2))
	if nCli < 1 || nCli > 8 {
		nCli = 2
	}
	ops := r.Plan.Ops
	phase := 0
	for i := 0; i <= len(ops); {
		j := i
		for j < len(ops) && ops[j].K != "barrier" {
			j++
		}
		by := make([][]gosim.Op, nCli)
		for _, o := range ops[i:j] {
			switch o.K {
			case "conn", "disc", "dforce", "reach", "radius":
				c := c22Client(o, nCli)
				by[c] = append(by[c], o)
			}
		}
		busy := 0
		var wg sync.WaitGroup
		for _, list := range by {
			if len(list) == 0 {
				continue
			}
			busy++
			wg.Add(1)
			go func(list []gosim.Op) {
				defer wg.Done()
				for _, o := range list {
					t.apply(o)
					r.OpDone()
				}
			}(list)
		}
		wg.Wait()
		gosim.Idle()
		if busy >= 2 {
			r.Count("probe_concurrent_phase")
		}
		// quiescent: the stored depth must be the depth of the current set
		d := int(t.node.kad.NeighborhoodDepth())
		r.Logf("barrier %d: depth=%d connected=%v radius=%d", phase, d, t.connected(), t.radius)
		t.after = ""
		t.checkDepth("kad(quiescent)", d)
		got := t.node.connectedIDs(r)
		want := t.connected()
		if fmt.Sprint(got) != fmt.Sprint(want) {
			r.Violate("connected-set", "barrier %d: topology reports %v, connected are %v", phase, got, want)
		}
		t.orderCheck(r.Plan.P("final_shuffle", 7) + int64(phase))
		phase++
		i = j + 1
	}
	r.Add("final_connected", int64(len(t.conn)))
}

func c22Exec(r *gosim.Run) {
	t := c22NewTopo(r, true, false)
	// sanity of the alphabet (harness self-check, not a property)
	for _, id := range []int{0, 17, 5*c24PerBin + 3, 31*c24PerBin + 2, 31*c24PerBin + 3} {
		if int(boson.Proximity(t.al.base.Bytes(), t.al.addr(id).Bytes())) != t.al.bin(id) {
			panic(fmt.Sprintf("HARNESS-ERROR alphabet: p%d not in bin %d", id, t.al.bin(id)))
		}
	}
	if r.Plan.P("conc", 0) == 1 {
		c22ExecConcurrent(r, t)
		return
	}
	for _, o := range r.Plan.Ops {
		t.exec(o)
		r.OpDone()
	}
	t.orderCheck(r.Plan.P("final_shuffle", 7))
	r.Add("final_connected", int64(len(t.conn)))
}

func init() {
	gosim.Register(&gosim.World{
		Prop: "C22", Gen: c22GenPlan, Exec: c22Exec,
		Real: []string{"pkg/topology/kademlia (Kad, not started: Connected, Outbound, Disconnected, DisconnectForce, Reachable, SetRadius, recalcDepth, peerUnreachable)",
			"pkg/topology/pslice", "pkg/topology/kademlia/internal/metrics (collector on in-memory shed/leveldb)", "pkg/addressbook over statestore/mock", "pkg/blocker", "pkg/subscribe"},
		Stubs: []string{"p2p service (registry only)", "discovery (not started)", "pinger (unused)"},
	})
}
