package worlds

import (
	"context"
	"errors"
	"math/big"
	"math/rand"
	"time"

	"github.com/gauss-project/aurorafs/pkg/settlement/traffic"

	"verifharness/gosim"
)

// C31 — Issued cheques never inflate the available balance.
//
// One node (real traffic.Service, cheque store, signer, protocol) and 2-3
// registered peers; the chain and the cash-out service are stubs holding the
// "truth". Histories are sequential (the statement quantifies over histories);
// after every step the node's reported figures are compared with a model.
//
// Ops:
//   traffic  [peer, amount]          PutRetrieveTraffic: the node owes the peer more
//   pay      [peer, threshold, fail] Pay; fail=1: the cheque stream cannot be opened
//   recv     [peer, amount]          the peer pays the node (cheque over the real protocol)
//   peercash [peer]                  on chain, the peer cashes the last cheque it holds
//   topup    [amount]                on chain, the node's balance grows
//   refresh  [mode, peer]            let the 24 h refresh fire; mode 1: address lists fail,
//                                    2: TransAmount(node,peer) fails, 3: BalanceOf fails
//   cashout  [peer, mode, chainfail] CashCheque; mode 0 receipt 1, 1 receipt 0, 2 receipt
//                                    error, 3 transaction rejected; chainfail=1: TransAmount
//                                    (node,peer) fails during the post-cash-out update
//   restart                          new Service + Init over the same store and chain

func c31Gen(rng *rand.Rand, tier string) *gosim.Plan {
	p := &gosim.Plan{Params: map[string]int64{}}
	n := 2 + rng.Intn(2)
	p.Params["peers"] = int64(n)
	p.Params["keyseed"] = int64(rng.Intn(1 << 20))
	p.Params["balance"] = gosim.Pick(rng, 0, 150, 1000, 5000, 1000000, 1000000)
	p.Params["yield_pct"] = gosim.Pick(rng, 0, 5, 20)
	refresh := rng.Intn(100) < 60
	restart := rng.Intn(100) < 50
	faults := rng.Intn(100) < 60 // 40 % of the runs: no delivery / chain / receipt failures
	cash := rng.Intn(100) < 60
	chainFail := faults && rng.Intn(100) < 50
	bool01 := func(b bool) int64 {
		if b {
			return 1
		}
		return 0
	}
	p.Params["en_refresh"], p.Params["en_restart"], p.Params["en_faults"], p.Params["en_cash"], p.Params["en_chainfail"] =
		bool01(refresh), bool01(restart), bool01(faults), bool01(cash), bool01(chainFail)
	nOps := 6 + rng.Intn(20)
	if tier == "thorough" {
		nOps += rng.Intn(40)
	}
	paid := make([]bool, n)  // generator's guess: a cheque was probably sent to peer i
	recvd := make([]bool, n) // peer i paid the node
	for i := 0; i < nOps; i++ {
		peer := int64(rng.Intn(n))
		switch x := rng.Intn(100); {
		case x < 25:
			p.Ops = append(p.Ops, gosim.Op{K: "traffic", A: []int64{peer, 1 + rng.Int63n(120)}})
		case x < 50:
			fail := int64(0)
			if faults && rng.Intn(100) < 30 {
				fail = 1
			}
			p.Ops = append(p.Ops, gosim.Op{K: "traffic", A: []int64{peer, 1 + rng.Int63n(120)}})
			p.Ops = append(p.Ops, gosim.Op{K: "pay", A: []int64{peer, gosim.Pick(rng, 1, 1, 10, 50, 100), fail}})
			if fail == 0 {
				paid[peer] = true
			}
		case x < 56:
			p.Ops = append(p.Ops, gosim.Op{K: "pay", A: []int64{peer, gosim.Pick(rng, 1, 1, 10, 50), 0}})
		case x < 62:
			p.Ops = append(p.Ops, gosim.Op{K: "recv", A: []int64{peer, 1 + rng.Int63n(80)}})
			recvd[peer] = true
		case x < 72:
			for j := 0; j < n && !paid[peer]; j++ {
				peer = (peer + 1) % int64(n)
			}
			p.Ops = append(p.Ops, gosim.Op{K: "peercash", A: []int64{peer}})
		case x < 75:
			p.Ops = append(p.Ops, gosim.Op{K: "topup", A: []int64{1 + rng.Int63n(500)}})
		case x < 85:
			if !refresh {
				continue
			}
			mode := int64(0)
			if chainFail && rng.Intn(100) < 40 {
				mode = 1 + int64(rng.Intn(3))
			}
			p.Ops = append(p.Ops, gosim.Op{K: "refresh", A: []int64{mode, peer}})
		case x < 94:
			if !cash {
				continue
			}
			if !recvd[peer] || rng.Intn(100) < 40 {
				p.Ops = append(p.Ops, gosim.Op{K: "recv", A: []int64{peer, 1 + rng.Int63n(80)}})
				recvd[peer] = true
			}
			mode := int64(0)
			if faults && rng.Intn(100) < 40 {
				mode = 1 + int64(rng.Intn(3))
			}
			cf := int64(0)
			if chainFail && rng.Intn(100) < 50 {
				cf = 1
			}
			p.Ops = append(p.Ops, gosim.Op{K: "cashout", A: []int64{peer, mode, cf}})
		default:
			if !restart {
				continue
			}
			p.Ops = append(p.Ops, gosim.Op{K: "restart"})
		}
	}
	return p
}

func c31Exec(r *gosim.Run) {
	n := int(r.Plan.P("peers", 2))
	if n < 1 {
		n = 1
	}
	if n > 8 {
		n = 8
	}
	env := c30NewEnv(r, r.Plan.P("keyseed", 1), n)
	self := env.self.addr
	env.chain.setBalance(self, r.Plan.P("balance", 1000))
	for _, p := range env.peers {
		env.chain.setBalance(p.addr, 1_000_000)
	}
	node, err := env.start()
	if err != nil {
		r.Violate("init-error", "Init on an empty store failed: %v", err)
	}
	started := time.Now()
	for i, p := range env.peers {
		c30Guard(r, "handshake", func() {
			if err := node.register(p); err != nil {
				r.Violate("handshake-error", "init handshake of peer %d failed: %v", i, err)
			}
		})
	}
	gosim.Idle()

	// ---- model ----
	zero := func() *big.Int { return big.NewInt(0) }
	owed := make([]*big.Int, n)       // traffic the node owes peer i (sum of credited traffic)
	view := make([]*big.Int, n)       // what the node should believe peer i has cashed
	delivered := make([]*big.Int, n)  // highest cumulative payout peer i holds
	recvCum := make([]*big.Int, n)    // cheques of peer i accepted by the node
	seen := make([]int, n)            // cheques of peer i's inbox already examined
	for i := range owed {
		owed[i], view[i], delivered[i], recvCum[i] = zero(), zero(), zero(), zero()
	}
	viewBal := env.chain.truthBalance(self)
	sum := func(v []*big.Int) *big.Int {
		s := zero()
		for _, x := range v {
			s.Add(s, x)
		}
		return s
	}
	truth := func(i int) *big.Int { return env.chain.truthCashed(self, env.peers[i].addr) }

	type obsT struct{ cashed, avail, bal *big.Int }
	observe := func() obsT {
		info, err := node.svc.TrafficInfo()
		if err != nil {
			r.Violate("api-error", "TrafficInfo: %v", err)
		}
		av, err := node.svc.AvailableBalance()
		if err != nil {
			r.Violate("api-error", "AvailableBalance: %v", err)
		}
		// TrafficInfo: available = balance + cashed - sent  =>  cashed = available - balance + sent
		c := new(big.Int).Sub(info.AvailableBalance, info.Balance)
		c.Add(c, info.TotalSendTraffic)
		return obsT{c, av, new(big.Int).Set(info.Balance)}
	}
	prev := observe()

	// cheques that reached the peers since the last look
	checkInboxes := func(op gosim.Op) {
		for i, p := range env.peers {
			got := p.tr.snapshot()
			for _, g := range got[seen[i]:] {
				c := g.cheque
				if op.K != "pay" || int(op.Arg(0))%n != i {
					r.Violate("unexpected-cheque", "peer %d received a cheque (payout %s) during %v", i, c30Big(c.CumulativePayout), op)
				}
				if g.sigErr != nil || g.issuer != self || c.Beneficiary != self || c.Recipient != p.addr {
					r.Violate("bad-cheque", "peer %d received a cheque it cannot cash: issuer %s (err %v) beneficiary %s recipient %s", i, g.issuer.Hex(), g.sigErr, c.Beneficiary.Hex(), c.Recipient.Hex())
				}
				r.Count("probe_cheque_delivered")
				r.Logf("peer %d got cheque payout=%s (held %s, owed %s)", i, c.CumulativePayout, delivered[i], owed[i])
				if c.CumulativePayout.Cmp(delivered[i]) <= 0 {
					r.Violate("payout-not-increasing", "peer %d: cheque with cumulative payout %s sent after %s", i, c.CumulativePayout, delivered[i])
				}
				if c.CumulativePayout.Cmp(owed[i]) > 0 {
					r.Violate("payout-exceeds-owed", "peer %d: cheque with cumulative payout %s but only %s traffic is owed to it", i, c.CumulativePayout, owed[i])
				}
				delivered[i] = new(big.Int).Set(c.CumulativePayout)
			}
			seen[i] = len(got)
		}
	}

	// after every step: figures vs model
	check := func(op gosim.Op, cashedMayChange bool) {
		gosim.Idle()
		checkInboxes(op)
		o := observe()
		r.Logf("after %v: cashed=%s available=%s balance=%s | model cashed=%s owed=%s balance=%s", op, o.cashed, o.avail, o.bal, sum(view), sum(owed), viewBal)
		if !cashedMayChange && o.cashed.Cmp(prev.cashed) != 0 {
			if op.K == "pay" {
				r.Violate("issue-changed-cashed", "the node's record of what peers have cashed went from %s to %s during %v (chain says %s)", prev.cashed, o.cashed, op, sum(view))
			}
			r.Violate("cashed-changed", "the node's record of what peers have cashed went from %s to %s during %v", prev.cashed, o.cashed, op)
		}
		if o.cashed.Cmp(sum(view)) != 0 {
			r.Violate("cashed-wrong", "after %v the node believes peers cashed %s in total, the chain (as of the node's last successful read) says %s", op, o.cashed, sum(view))
		}
		if o.bal.Cmp(viewBal) != 0 {
			r.Violate("balance-wrong", "after %v the node reports chain balance %s, chain said %s at its last read", op, o.bal, viewBal)
		}
		want := new(big.Int).Add(viewBal, sum(view))
		want.Sub(want, sum(owed))
		if o.avail.Cmp(want) != 0 {
			r.Violate("available-balance", "after %v AvailableBalance=%s, want balance %s + cashed %s - owed %s = %s", op, o.avail, viewBal, sum(view), sum(owed), want)
		}
		prev = o
	}

	nextTick := func() time.Duration {
		el := time.Since(started)
		k := el/(24*time.Hour) + 1
		return time.Duration(k)*24*time.Hour - el
	}
	sinceRefresh := false

	for _, op := range r.Plan.Ops {
		pi := int(op.Arg(0))
		if pi < 0 {
			pi = -pi
		}
		pi %= n
		peer := env.peers[pi]
		switch op.K {
		case "traffic":
			amt := op.Arg(1)
			if amt <= 0 {
				amt = 1
			}
			c30Guard(r, "PutRetrieveTraffic", func() {
				if err := node.svc.PutRetrieveTraffic(peer.overlay, big.NewInt(amt)); err != nil {
					r.Violate("api-error", "PutRetrieveTraffic: %v", err)
				}
			})
			owed[pi].Add(owed[pi], big.NewInt(amt))
			check(op, false)
		case "pay":
			thr := op.Arg(1)
			if thr < 1 {
				thr = 1
			}
			if op.Arg(2) == 1 {
				env.mu.Lock()
				env.failSend[peer.overlay.String()] = 1
				env.mu.Unlock()
			}
			var perr error
			c30Guard(r, "Pay", func() { perr = node.svc.Pay(context.Background(), peer.overlay, big.NewInt(thr)) })
			env.mu.Lock()
			env.failSend[peer.overlay.String()] = 0
			env.mu.Unlock()
			r.Logf("pay peer=%d thr=%d fail=%d -> %v", pi, thr, op.Arg(2), perr)
			if errors.Is(perr, traffic.ErrInsufficientFunds) {
				r.Count("probe_insufficient_funds")
			} else if perr != nil {
				r.Count("probe_pay_failed_delivery")
			}
			if sinceRefresh {
				r.Count("probe_pay_after_refresh")
			}
			check(op, false)
		case "recv":
			amt := op.Arg(1)
			if amt <= 0 {
				amt = 1
			}
			cum := new(big.Int).Add(recvCum[pi], big.NewInt(amt))
			ch := peer.sign(self, peer.addr, cum.Int64())
			var acc bool
			var herr error
			c30Guard(r, "deliver", func() { acc, herr = node.deliver(peer.overlay, peer.addr, ch) })
			r.Logf("recv peer=%d cum=%s -> %v %v", pi, cum, acc, herr)
			if acc {
				recvCum[pi] = cum
			}
			check(op, false)
		case "peercash":
			if delivered[pi].Sign() > 0 {
				d := env.chain.cash(self, peer.addr, delivered[pi])
				r.Logf("peercash peer=%d cum=%s paid=%s", pi, delivered[pi], d)
				r.Count("probe_peer_cashed")
			}
			check(op, false)
		case "topup":
			a := op.Arg(0)
			if a < 0 {
				a = -a
			}
			b := env.chain.truthBalance(self)
			env.chain.mu.Lock()
			env.chain.balance[self] = b.Add(b, big.NewInt(a))
			env.chain.mu.Unlock()
			check(op, false)
		case "refresh":
			mode := op.Arg(0)
			fp := int(op.Arg(1))
			if fp < 0 {
				fp = -fp
			}
			fp %= n
			env.chain.mu.Lock()
			switch mode {
			case 1:
				env.chain.failLists = true
			case 2:
				env.chain.failTrans[c30Pair{self, env.peers[fp].addr}] = true
			case 3:
				env.chain.failBalance = true
			}
			env.chain.mu.Unlock()
			if mode >= 1 && mode <= 3 {
				r.Count("fault_chain_rpc")
			}
			time.Sleep(nextTick() + time.Minute)
			gosim.Idle()
			env.chain.mu.Lock()
			env.chain.failLists, env.chain.failBalance = false, false
			env.chain.failTrans = map[c30Pair]bool{}
			env.chain.mu.Unlock()
			r.Count("probe_refresh")
			sinceRefresh = true
			o := observe()
			switch mode {
			case 1: // nothing could be read: nothing changes
			case 2:
				others := zero()
				for i := range view {
					if i != fp {
						view[i] = truth(i)
						others.Add(others, view[i])
					}
				}
				got := new(big.Int).Sub(o.cashed, others)
				if got.Cmp(view[fp]) != 0 && got.Cmp(truth(fp)) != 0 {
					r.Violate("cashed-wrong", "refresh with TransAmount failing for peer %d: the node now believes it cashed %s; before %s, chain %s", fp, got, view[fp], truth(fp))
				}
				view[fp] = got
				viewBal = env.chain.truthBalance(self)
			case 3:
				for i := range view {
					view[i] = truth(i)
				}
				if o.bal.Cmp(viewBal) != 0 && o.bal.Cmp(env.chain.truthBalance(self)) != 0 {
					r.Violate("balance-wrong", "refresh with BalanceOf failing: node reports balance %s; before %s, chain %s", o.bal, viewBal, env.chain.truthBalance(self))
				}
				viewBal = o.bal
			default:
				for i := range view {
					view[i] = truth(i)
				}
				viewBal = env.chain.truthBalance(self)
			}
			check(op, true)
		case "cashout":
			mode := op.Arg(1)
			if mode < 0 || mode > 3 {
				mode = 0
			}
			node.cash.mu.Lock()
			node.cash.nextFail = mode == 3
			node.cash.nextStat = map[int64]int64{0: 1, 1: 0, 2: 2, 3: 0}[mode]
			node.cash.mu.Unlock()
			if op.Arg(2) == 1 {
				env.chain.mu.Lock()
				env.chain.failTrans[c30Pair{self, peer.addr}] = true
				env.chain.mu.Unlock()
			}
			var cerr error
			c30Guard(r, "CashCheque", func() { _, cerr = node.svc.CashCheque(context.Background(), peer.overlay) })
			time.Sleep(30 * time.Second)
			gosim.Idle()
			env.chain.mu.Lock()
			env.chain.failTrans = map[c30Pair]bool{}
			env.chain.mu.Unlock()
			r.Logf("cashout peer=%d mode=%d chainfail=%d -> %v", pi, mode, op.Arg(2), cerr)
			if mode != 0 && cerr == nil {
				r.Count("fault_cashout_receipt")
			}
			if cerr == nil && mode == 0 {
				r.Count("probe_cashout_ok")
				// receipt 1: the node re-reads its balance and this peer's chain totals
				viewBal = env.chain.truthBalance(self)
				if op.Arg(2) == 1 {
					r.Count("fault_chain_rpc")
					o := observe()
					others := zero()
					for i := range view {
						if i != pi {
							others.Add(others, view[i])
						}
					}
					got := new(big.Int).Sub(o.cashed, others)
					if got.Cmp(view[pi]) != 0 && got.Cmp(truth(pi)) != 0 {
						r.Violate("cashed-wrong-after-cashout", "cash-out of peer %d's cheque with TransAmount failing: the node now believes the peer cashed %s from it; before %s, chain %s (cheques sent: %s)",
							pi, got, view[pi], truth(pi), delivered[pi])
					}
					view[pi] = got
				} else {
					view[pi] = truth(pi)
				}
				check(op, true)
			} else {
				check(op, false)
			}
		case "restart":
			node.stop()
			nn, err := env.start()
			if err != nil {
				r.Violate("init-error", "Init after restart failed: %v", err)
			}
			node = nn
			started = time.Now()
			for i := range view {
				view[i] = truth(i)
			}
			viewBal = env.chain.truthBalance(self)
			r.Count("probe_restart")
			sinceRefresh = true
			r.Logf("restart")
			check(op, true)
		default:
			continue
		}
		r.OpDone()
	}
}

func init() {
	gosim.Register(&gosim.World{
		Prop: "C31", Gen: c31Gen, Exec: c31Exec,
		Real: []string{
			"pkg/settlement/traffic (Service: Init/24h refresh, PutRetrieveTraffic, Pay/issue, ReceiveCheque, CashCheque + receipt loop, AvailableBalance, TrafficInfo, address book)",
			"pkg/settlement/traffic/cheque (cheque store, EIP-712 signer/recovery, real keys)",
			"pkg/settlement/traffic/trafficprotocol (both ends over p2p/streamtest stream pairs)",
			"pkg/subscribe, pkg/statestore/mock",
		},
		Stubs: []string{"chain.Traffic (scripted truth, RPC failures from the plan)", "cheque.CashoutService (scripted receipts 0/1/error)", "p2p.Service (repository mock)", "remote peers' traffic logic (recording)", "streams: p2p/streamtest"},
	})
}
