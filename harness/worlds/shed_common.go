package worlds

import "runtime/debug"

// shedTuneGC: every leveldb open allocates its 32 MiB write buffer (twice), which
// triggers a collection each time; collections are slow under the baton
// scheduler (100-500 ms real time per reopen). The runs are short, so the
// collector is switched off below a 3 GiB soft limit. No semantic effect.
func shedTuneGC() {
	debug.SetGCPercent(-1)
	debug.SetMemoryLimit(3 << 30)
}
