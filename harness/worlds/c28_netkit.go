package worlds

// c28_netkit: W-NET node kit shared by C28 and C38 — nodes made of the REAL
// kademlia (constructed and fed by the p2p notifier calls, manage loop not
// started so that the topology is the one the world builds), the REAL routetab
// service and the REAL address book on simnet (+ simnet/relay.go, the mirror of
// the libp2p relay functions).

import (
	"context"
	"crypto/ecdsa"
	"fmt"
	"io"
	"runtime"
	"sync"
	"sync/atomic"

	"github.com/gauss-project/aurorafs/pkg/addressbook"
	"github.com/gauss-project/aurorafs/pkg/aurora"
	"github.com/gauss-project/aurorafs/pkg/boson"
	"github.com/gauss-project/aurorafs/pkg/crypto"
	discmock "github.com/gauss-project/aurorafs/pkg/discovery/mock"
	"github.com/gauss-project/aurorafs/pkg/logging"
	"github.com/gauss-project/aurorafs/pkg/p2p"
	"github.com/gauss-project/aurorafs/pkg/routetab"
	"github.com/gauss-project/aurorafs/pkg/shed"
	ldbstate "github.com/gauss-project/aurorafs/pkg/statestore/leveldb"
	"github.com/gauss-project/aurorafs/pkg/storage"
	"github.com/gauss-project/aurorafs/pkg/subscribe"
	"github.com/gauss-project/aurorafs/pkg/topology/kademlia"
	"github.com/gauss-project/aurorafs/pkg/topology/lightnode"
	ma "github.com/multiformats/go-multiaddr"

	"verifharness/gosim"
	"verifharness/simnet"
)

const c28NetworkID uint64 = 7

// c28Discovery: the discovery driver of kademlia, switched off (IsStart false):
// no hive gossip, so nobody learns peers behind the world's back.
type c28Discovery struct{ *discmock.Discovery }

func (c28Discovery) IsStart() bool { return false }

// c28Node is one simulated node. Durable state (state store with the persisted
// routes, address book store, key) survives Restart; everything else is rebuilt.
type c28Node struct {
	c       *c28Cluster
	idx     int
	key     *ecdsa.PrivateKey
	Addr    boson.Address
	Signed  *aurora.Address
	Mode    aurora.Model
	State   storage.StateStorer
	bookSt  storage.StateStorer
	Book    addressbook.Interface
	logger  logging.Logger
	mu      sync.Mutex
	Net     *simnet.Node
	Kad     *kademlia.Kad
	Route   *routetab.Service
	SubPub  subscribe.SubPub
	Light   *lightnode.Container
	cancel  context.CancelFunc
	gen     int // incarnation
	onBuild func(n *c28Node) error
}

type c28Cluster struct {
	r      *gosim.Run
	Net    *simnet.Net
	Nodes  []*c28Node
	Cache  *simnet.NodeCache
	alpha  int32
	byAddr map[string]int
}

// c28NewCluster installs the node-scoped cache into pkg/routetab and sets the
// package-level knobs (process globals, constant during the run).
func c28NewCluster(r *gosim.Run, alpha, maxTTL int32) *c28Cluster {
	gc, ad := simnet.NewNodeScopedCache()
	routetab.VerifSetCache(gc)
	atomic.StoreInt32(&routetab.MaxTTL, maxTTL)
	routetab.NeighborAlpha = alpha
	c := &c28Cluster{r: r, Net: simnet.New(r, int64(r.Plan.Seed)^0x6e6574), Cache: ad, alpha: alpha, byAddr: map[string]int{}}
	return c
}

// asNode labels the calling goroutine as node idx for the duration of f.
func c28AsNode(idx int, f func()) {
	prev := runtime.GosimNode()
	runtime.GosimSetNode(uint64(idx + 1))
	defer runtime.GosimSetNode(prev)
	f()
}

func (c *c28Cluster) Index(a boson.Address) int {
	if i, ok := c.byAddr[a.String()]; ok {
		return i
	}
	return -1
}

// Name renders an address as the node's index (or a short hex for unknown ones).
func (c *c28Cluster) Name(a boson.Address) string {
	if i := c.Index(a); i >= 0 {
		return fmt.Sprintf("n%d", i)
	}
	s := a.String()
	if len(s) > 8 {
		s = s[:8]
	}
	return "?" + s
}

func (c *c28Cluster) Names(as []boson.Address) string {
	s := "["
	for i, a := range as {
		if i > 0 {
			s += " "
		}
		s += c.Name(a)
	}
	return s + "]"
}

// AddNode creates a node with a fresh key; onBuild (optional) adds further
// services after every (re)build.
func (c *c28Cluster) AddNode(onBuild func(n *c28Node) error) (*c28Node, error) {
	idx := len(c.Nodes)
	n := &c28Node{c: c, idx: idx, logger: logging.New(io.Discard, 0), onBuild: onBuild,
		Mode: aurora.NewModel().SetMode(aurora.FullNode)}
	var err error
	c28AsNode(idx, func() {
		n.key, err = crypto.GenerateSecp256k1Key()
		if err != nil {
			return
		}
		signer := crypto.NewDefaultSigner(n.key)
		n.Addr, err = crypto.NewOverlayAddress(n.key.PublicKey, c28NetworkID)
		if err != nil {
			return
		}
		var under ma.Multiaddr
		under, err = ma.NewMultiaddr(fmt.Sprintf("/ip4/10.0.%d.%d/tcp/1634", idx/200, idx%200+1))
		if err != nil {
			return
		}
		n.Signed, err = aurora.NewAddress(signer, under, n.Addr, c28NetworkID)
		if err != nil {
			return
		}
		if n.State, err = ldbstate.NewInMemoryStateStore(n.logger); err != nil {
			return
		}
		if n.bookSt, err = ldbstate.NewInMemoryStateStore(n.logger); err != nil {
			return
		}
		n.Book = addressbook.New(n.bookSt)
		n.Net = c.Net.AddNode(n.Addr, n.Mode)
		err = n.build()
	})
	if err != nil {
		return nil, err
	}
	c.byAddr[n.Addr.String()] = idx
	c.Nodes = append(c.Nodes, n)
	return n, nil
}

// build creates kademlia + routetab (+ onBuild services) of one incarnation.
// Must run under the node's label.
func (n *c28Node) build() error {
	metricsDB, err := shed.NewDB("", &shed.Options{Driver: "leveldb"})
	if err != nil {
		return err
	}
	n.SubPub = subscribe.NewSubPub()
	n.Light = lightnode.NewContainer(n.Addr)
	n.Net.SetIdentity(n.Signed, n.Book)
	kad, err := kademlia.New(n.Addr, n.Book, c28Discovery{discmock.NewDiscovery()}, n.Net, nil, n.Light, nil,
		metricsDB, n.logger, n.SubPub, kademlia.Options{NodeMode: n.Mode})
	if err != nil {
		return err
	}
	n.Net.SetPickyNotifier(kad)
	ctx, cancel := context.WithCancel(context.Background())
	rt := routetab.New(n.Addr, ctx, n.Net, n.Net, n.Book, c28NetworkID, n.Light, kad, n.State, n.logger, routetab.Options{Alpha: n.c.alpha})
	if err := n.Net.AddProtocol(rt.Protocol()); err != nil {
		cancel()
		return err
	}
	n.Net.ApplyRoute(n.Addr, rt, n.Mode)
	n.mu.Lock()
	n.Kad, n.Route, n.cancel = kad, rt, cancel
	n.gen++
	n.mu.Unlock()
	if n.onBuild != nil {
		return n.onBuild(n)
	}
	return nil
}

func (n *c28Node) services() (*kademlia.Kad, *routetab.Service, *simnet.Node) {
	n.mu.Lock()
	defer n.mu.Unlock()
	return n.Kad, n.Route, n.Net
}

// Dial connects n to peer the way the node does it: kademlia.Connection ->
// p2p.Connect (simnet: handshake incl. picker, ConnectIn + notifier.Connected
// on the remote, ConnectOut here) -> Kad.Outbound.
func (n *c28Node) Dial(ctx context.Context, peer *c28Node) (err error) {
	kad, _, _ := n.services()
	c28AsNode(n.idx, func() { err = kad.Connection(ctx, peer.Signed) })
	return err
}

// Restart models a process restart: the endpoint goes down (peers see the
// disconnect), volatile state incl. the node's entries of the process-global
// caches is dropped, services are rebuilt over the durable stores.
func (n *c28Node) Restart() error {
	n.mu.Lock()
	old, cancel := n.Net, n.cancel
	n.mu.Unlock()
	nn := n.c.Net.ReplaceNode(old) // old.Down(): unlinks, resets streams, cancels handler contexts
	cancel()
	n.c.Cache.ClearNode(n.idx)
	n.mu.Lock()
	n.Net = nn
	n.mu.Unlock()
	var err error
	c28AsNode(n.idx, func() { err = n.build() })
	return err
}

// Neighbours returns the indexes of the node's current direct peers.
func (n *c28Node) Neighbours() []int {
	_, _, nd := n.services()
	var out []int
	for _, p := range nd.Peers() {
		if i := n.c.Index(p.Address); i >= 0 {
			out = append(out, i)
		}
	}
	return out
}

var _ p2p.Service = (*simnet.Node)(nil)
