package worlds

import (
	"encoding/json"
	"testing"
	"time"

	"github.com/ethereum/go-ethereum/common"
	"github.com/gauss-project/aurorafs/pkg/boson"
	"github.com/gauss-project/aurorafs/pkg/routetab"
)

// The hand-written encoder of the state-store stub must produce exactly what
// encoding/json produces for the persisted route table values.
func TestC27Encode(t *testing.T) {
	now := time.Date(2000, 1, 1, 0, 0, 1, 5000000, time.UTC)
	vals := []interface{}{
		routetab.Path{Items: []boson.Address{c27Addr(0), c27Addr(3)}, CreateTime: now, UsedTime: now.Add(time.Second)},
		routetab.Path{Sign: []byte{1, 2}, Bodys: [][]byte{{3}, nil}, Items: nil, CreateTime: now, UsedTime: now},
		[]routetab.TargetRoute{{Neighbor: c27Addr(1), PathKey: common.Hash{1, 2, 3}}, {Neighbor: c27Addr(2)}},
		[]routetab.TargetRoute{},
		[]routetab.TargetRoute(nil),
	}
	for i, v := range vals {
		want, err := json.Marshal(v)
		if err != nil {
			t.Fatal(err)
		}
		got, ok := c27Encode(v)
		if !ok || string(got) != string(want) {
			t.Fatalf("value %d: got %s want %s", i, got, want)
		}
	}
}
