package worlds

// simdisk — a fault-injecting, crash-replayable in-memory "disk" for pkg/shed.
//
// What it is
//   A shed driver registered as "sim" (shed.Register("sim", ...), done in this
//   file's init). Every *disk* is a named object in a process-global registry; its
//   durable content is a WRITE LOG: one entry per driver-level mutation that was
//   applied (Put, Delete, one atomic entry per batch Commit, one entry per schema
//   change made by InitSchema/CreateField/CreateIndex/RenameIndex). An open handle
//   serves reads and writes from a real pkg/shed/leveldb driver instance opened on
//   goleveldb MemStorage (leveldb.Driver{}.Open("", cfg)) into which the log is
//   replayed at Open. Closing the handle closes that leveldb; the log stays.
//
// Addressing (path / id scheme)
//   The shed *path* is the disk id, the driver name is "sim":
//       db, err := shed.NewDB(id, &shed.Options{Driver: "sim"})
//       localstore.New(id, addr, &localstore.Options{Driver: "sim", ...}, logger)
//   Text after "sim:" in Options.Driver is handed to the inner leveldb driver as its
//   JSON option string (default simdiskDefaultCfg, a small write buffer).
//   Open(id) on an unknown id creates an empty disk. Open(id) on a known id replays
//   the disk's current log into a fresh in-memory leveldb (this is what a restart
//   is). A disk admits one open handle at a time (second Open fails, like the
//   leveldb LOCK file) — except that a crashed disk releases the dead handle.
//   Ids are chosen by the world (e.g. "c19-0"); simdiskReopen derives new ids
//   "<id>@<k>#<n>" (n = registry-wide sequence number, deterministic).
//
// Write indexes
//   Every disk counts write ATTEMPTS (Put, Delete, Commit — also of an empty batch —
//   and schema changes), starting at 0 when the disk is created. An attempt that
//   is applied appends exactly one entry to the log, so len(log) <= attempts.
//   Fault plans (simdiskFaults) are expressed in attempt indexes RELATIVE to the
//   attempt counter at the moment simdiskSetFaults is called (index 0 = the next
//   write).
//
// Faults (per disk; simdiskSetFaults(id, plan))
//   FailAt     attempts that return simdiskErrInjected and are not applied.
//   FullFrom/FullLen  attempts in [FullFrom, FullFrom+FullLen) return
//              simdiskErrDiskFull and are not applied.
//   CrashAt    (>= 0) the disk crashes at this attempt. Variant A (CrashKeep=false):
//              the write is lost (not applied, not logged) and returns
//              simdiskErrCrashed. Variant B (CrashKeep=true): the write is the last
//              one applied and logged; it returns nil. After the crash point every
//              further write (and schema call) returns simdiskErrCrashed and nothing
//              is applied; reads still work on the dead handle. Open(id) on the
//              crashed disk = restart from the log.
//   Delay      fake-time sleep before every write attempt.
//   Schema changes consume an attempt index and obey CrashAt, but are exempt from
//   FailAt / disk-full (the shed leveldb driver writes its schema through its own
//   Put, below the seam; the change is detected by comparing the schema record
//   before/after the call).
//
// Crash exploration
//   simdiskLogLen(id)         number of log entries (crash points are 0..len).
//   simdiskReopen(id, k)      registers a NEW disk whose log is a copy of log[0:k]
//                             (k < 0 or k > len: whole log) and returns its id; the
//                             original is untouched, so all prefixes of one history
//                             can be opened one after the other.
//   simdiskStats(id)          attempts, applied (= log length), faults fired by kind.
//   simdiskOnFault(id, fn)    callback when a fault fires ("fail","full","crash",
//                             "delay", "dead" = write on a crashed disk); use it for
//                             r.Count("fault_"+kind).
//   simdiskDrop(id)           forget a disk (closes a live handle).
//
// Everything is created lazily inside the run (inside the synctest bubble); no
// channels, timers or goroutines exist at package init.

import (
	"bytes"
	"errors"
	"fmt"
	"sync"
	"time"

	"github.com/gauss-project/aurorafs/pkg/shed"
	"github.com/gauss-project/aurorafs/pkg/shed/driver"
	shedldb "github.com/gauss-project/aurorafs/pkg/shed/leveldb"
)

const simdiskDriverName = "sim"

// small write buffer: the default of the shed leveldb driver (32 MiB) is allocated
// per open, which is wasteful when hundreds of crash points are reopened.
const simdiskDefaultCfg = `{"WriteBuffer":2097152}`

var (
	simdiskErrInjected = errors.New("simdisk: injected write error")
	simdiskErrDiskFull = errors.New("simdisk: no space left on device")
	simdiskErrCrashed  = errors.New("simdisk: disk crashed")
	simdiskErrLocked   = errors.New("simdisk: disk is already open")
	simdiskErrClosed   = errors.New("simdisk: handle closed")
)

// key of the schema record of the shed leveldb driver (pkg/shed/leveldb/schema.go).
var simdiskSchemaKey = []byte{0}

type simdiskKV struct {
	Del      bool
	Key, Val []byte
}

// simdiskEntry is one atomic, applied mutation.
type simdiskEntry struct {
	Ops    []simdiskKV
	Batch  bool // came from a batch Commit
	Schema bool // schema record change
}

type simdiskFaults struct {
	FailAt    []int
	FullFrom  int
	FullLen   int
	CrashAt   int // < 0: never
	CrashKeep bool
	Delay     time.Duration
}

func simdiskNoFaults() simdiskFaults { return simdiskFaults{CrashAt: -1} }

type simdiskStat struct {
	Attempts int
	Applied  int
	Fired    map[string]int
	Crashed  bool
}

type simdiskDisk struct {
	id string

	mu       sync.Mutex
	log      []simdiskEntry
	attempts int
	faults   simdiskFaults
	base     int // attempt counter when the fault plan was installed
	crashed  bool
	fired    map[string]int
	onFault  func(kind string)
	handle   *simdiskDB // live handle, nil when closed
}

var simdiskReg struct {
	mu    sync.Mutex
	disks map[string]*simdiskDisk
	seq   int
}

func simdiskLookup(id string, create bool) *simdiskDisk {
	simdiskReg.mu.Lock()
	defer simdiskReg.mu.Unlock()
	if simdiskReg.disks == nil {
		simdiskReg.disks = map[string]*simdiskDisk{}
	}
	d := simdiskReg.disks[id]
	if d == nil && create {
		d = &simdiskDisk{id: id, faults: simdiskNoFaults(), fired: map[string]int{}}
		simdiskReg.disks[id] = d
	}
	return d
}

// simdiskSetFaults installs a fault plan; indexes count from the next write.
func simdiskSetFaults(id string, f simdiskFaults) {
	d := simdiskLookup(id, true)
	d.mu.Lock()
	d.faults = f
	d.base = d.attempts
	d.mu.Unlock()
}

func simdiskOnFault(id string, fn func(kind string)) {
	d := simdiskLookup(id, true)
	d.mu.Lock()
	d.onFault = fn
	d.mu.Unlock()
}

func simdiskStats(id string) simdiskStat {
	d := simdiskLookup(id, false)
	if d == nil {
		return simdiskStat{Fired: map[string]int{}}
	}
	d.mu.Lock()
	defer d.mu.Unlock()
	st := simdiskStat{Attempts: d.attempts, Applied: len(d.log), Fired: map[string]int{}, Crashed: d.crashed}
	for k, v := range d.fired {
		st.Fired[k] = v
	}
	return st
}

func simdiskLogLen(id string) int { return simdiskStats(id).Applied }

// simdiskLog returns a deep copy of the write log.
func simdiskLog(id string) []simdiskEntry {
	d := simdiskLookup(id, false)
	if d == nil {
		return nil
	}
	d.mu.Lock()
	defer d.mu.Unlock()
	return simdiskCopyLog(d.log)
}

func simdiskCopyLog(in []simdiskEntry) []simdiskEntry {
	out := make([]simdiskEntry, len(in))
	for i, e := range in {
		ne := simdiskEntry{Batch: e.Batch, Schema: e.Schema, Ops: make([]simdiskKV, len(e.Ops))}
		for j, kv := range e.Ops {
			ne.Ops[j] = simdiskKV{Del: kv.Del, Key: append([]byte(nil), kv.Key...), Val: append([]byte(nil), kv.Val...)}
		}
		out[i] = ne
	}
	return out
}

// simdiskReopen registers a new disk holding log[0:k] of disk id and returns the
// new id. Open it with shed.NewDB(newID, &shed.Options{Driver: "sim"}).
func simdiskReopen(id string, k int) string {
	src := simdiskLookup(id, false)
	var log []simdiskEntry
	if src != nil {
		src.mu.Lock()
		if k < 0 || k > len(src.log) {
			k = len(src.log)
		}
		log = simdiskCopyLog(src.log[:k])
		src.mu.Unlock()
	} else {
		k = 0
	}
	simdiskReg.mu.Lock()
	simdiskReg.seq++
	nid := fmt.Sprintf("%s@%d#%d", id, k, simdiskReg.seq)
	simdiskReg.mu.Unlock()
	nd := simdiskLookup(nid, true)
	nd.mu.Lock()
	nd.log = log
	nd.attempts = len(log)
	nd.mu.Unlock()
	return nid
}

// simdiskDrop forgets a disk; a live handle is closed.
func simdiskDrop(id string) {
	simdiskReg.mu.Lock()
	d := simdiskReg.disks[id]
	delete(simdiskReg.disks, id)
	simdiskReg.mu.Unlock()
	if d == nil {
		return
	}
	d.mu.Lock()
	h := d.handle
	d.handle = nil
	d.mu.Unlock()
	if h != nil {
		_ = h.inner.Close()
	}
}

// ---- driver ----

type simdiskDriver struct{}

func (simdiskDriver) Open(dsn, options string) (driver.DB, error) {
	d := simdiskLookup(dsn, true)
	d.mu.Lock()
	defer d.mu.Unlock()
	if d.handle != nil {
		if !d.crashed {
			return nil, simdiskErrLocked
		}
		// the process that held the handle is dead
		_ = d.handle.inner.Close()
		d.handle.closed = true
		d.handle = nil
	}
	if options == "" {
		options = simdiskDefaultCfg
	}
	in, err := shedldb.Driver{}.Open("", options)
	if err != nil {
		return nil, err
	}
	inner, ok := in.(driver.BatchDB)
	if !ok {
		_ = in.Close()
		return nil, errors.New("simdisk: inner driver has no batches")
	}
	for _, e := range d.log {
		if err := simdiskApply(inner, e); err != nil {
			_ = inner.Close()
			return nil, fmt.Errorf("simdisk: replay: %w", err)
		}
	}
	d.crashed = false
	h := &simdiskDB{d: d, inner: inner}
	d.handle = h
	return h, nil
}

func simdiskApply(inner driver.BatchDB, e simdiskEntry) error {
	if len(e.Ops) == 0 {
		return nil
	}
	if !e.Batch && len(e.Ops) == 1 {
		kv := e.Ops[0]
		if kv.Del {
			return inner.Delete(driver.Key{Data: kv.Key})
		}
		return inner.Put(driver.Key{Data: kv.Key}, driver.Value{Data: kv.Val})
	}
	b := inner.NewBatch()
	for _, kv := range e.Ops {
		var err error
		if kv.Del {
			err = b.Delete(driver.Key{Data: kv.Key})
		} else {
			err = b.Put(driver.Key{Data: kv.Key}, driver.Value{Data: kv.Val})
		}
		if err != nil {
			return err
		}
	}
	return b.Commit()
}

type simdiskDB struct {
	d      *simdiskDisk
	inner  driver.BatchDB
	closed bool // guarded by d.mu
}

var _ driver.BatchDB = (*simdiskDB)(nil)

// fire records a fired fault. d.mu is held.
func (d *simdiskDisk) fire(kind string) {
	d.fired[kind]++
	if d.onFault != nil {
		d.onFault(kind)
	}
}

// write performs one write attempt: fault decision, application to the inner
// leveldb and logging are one critical section, so log order = apply order.
func (h *simdiskDB) write(e simdiskEntry) error {
	d := h.d
	d.mu.Lock()
	dl := d.faults.Delay
	if dl > 0 {
		d.fire("delay")
	}
	d.mu.Unlock()
	if dl > 0 {
		time.Sleep(dl)
	}
	d.mu.Lock()
	defer d.mu.Unlock()
	if h.closed {
		return simdiskErrClosed
	}
	if d.crashed {
		d.fire("dead")
		return simdiskErrCrashed
	}
	rel := d.attempts - d.base
	d.attempts++
	f := &d.faults
	if f.CrashAt >= 0 && rel == f.CrashAt {
		d.crashed = true
		d.fire("crash")
		if !f.CrashKeep {
			return simdiskErrCrashed
		}
		if err := simdiskApply(h.inner, e); err != nil {
			return err
		}
		d.log = append(d.log, e)
		return nil
	}
	for _, k := range f.FailAt {
		if k == rel {
			d.fire("fail")
			return simdiskErrInjected
		}
	}
	if f.FullLen > 0 && rel >= f.FullFrom && rel < f.FullFrom+f.FullLen {
		d.fire("full")
		return simdiskErrDiskFull
	}
	if err := simdiskApply(h.inner, e); err != nil {
		return err
	}
	d.log = append(d.log, e)
	return nil
}

func (h *simdiskDB) Put(key driver.Key, value driver.Value) error {
	return h.write(simdiskEntry{Ops: []simdiskKV{{Key: append([]byte(nil), key.Data...), Val: append([]byte(nil), value.Data...)}}})
}

func (h *simdiskDB) Delete(key driver.Key) error {
	return h.write(simdiskEntry{Ops: []simdiskKV{{Del: true, Key: append([]byte(nil), key.Data...)}}})
}

func (h *simdiskDB) Get(key driver.Key) ([]byte, error)        { return h.inner.Get(key) }
func (h *simdiskDB) Has(key driver.Key) (bool, error)          { return h.inner.Has(key) }
func (h *simdiskDB) Search(q driver.Query) driver.Cursor       { return h.inner.Search(q) }
func (h *simdiskDB) GetSnapshot() (driver.Snapshot, error)     { return h.inner.GetSnapshot() }
func (h *simdiskDB) DefaultFieldKey() []byte                   { return h.inner.DefaultFieldKey() }
func (h *simdiskDB) DefaultIndexKey() []byte                   { return h.inner.DefaultIndexKey() }
func (h *simdiskDB) GetSchemaSpec() (driver.SchemaSpec, error) { return h.inner.GetSchemaSpec() }

func (h *simdiskDB) Close() error {
	d := h.d
	d.mu.Lock()
	if h.closed {
		d.mu.Unlock()
		return simdiskErrClosed
	}
	h.closed = true
	if d.handle == h {
		d.handle = nil
	}
	d.mu.Unlock()
	return h.inner.Close()
}

// schema runs a schema call of the inner driver and logs the schema record if
// the call changed it.
func (h *simdiskDB) schema(call func() error) error {
	d := h.d
	d.mu.Lock()
	defer d.mu.Unlock()
	if h.closed {
		return simdiskErrClosed
	}
	if d.crashed {
		d.fire("dead")
		return simdiskErrCrashed
	}
	before, _ := h.inner.Get(driver.Key{Data: simdiskSchemaKey})
	err := call()
	after, gerr := h.inner.Get(driver.Key{Data: simdiskSchemaKey})
	if gerr != nil || bytes.Equal(before, after) {
		return err
	}
	rel := d.attempts - d.base
	d.attempts++
	if d.faults.CrashAt >= 0 && rel == d.faults.CrashAt {
		d.crashed = true
		d.fire("crash")
		if !d.faults.CrashKeep {
			return simdiskErrCrashed
		}
	}
	d.log = append(d.log, simdiskEntry{Schema: true, Ops: []simdiskKV{{Key: append([]byte(nil), simdiskSchemaKey...), Val: append([]byte(nil), after...)}}})
	return err
}

func (h *simdiskDB) InitSchema() error {
	return h.schema(func() error { return h.inner.InitSchema() })
}

func (h *simdiskDB) CreateField(spec driver.FieldSpec) (key []byte, err error) {
	err = h.schema(func() (e error) { key, e = h.inner.CreateField(spec); return })
	if err != nil {
		return nil, err
	}
	return key, nil
}

func (h *simdiskDB) CreateIndex(spec driver.IndexSpec) (prefix []byte, err error) {
	err = h.schema(func() (e error) { prefix, e = h.inner.CreateIndex(spec); return })
	if err != nil {
		return nil, err
	}
	return prefix, nil
}

func (h *simdiskDB) RenameIndex(oldName, newName string) (ok bool, err error) {
	err = h.schema(func() (e error) { ok, e = h.inner.RenameIndex(oldName, newName); return })
	if err != nil {
		return false, err
	}
	return ok, nil
}

// ---- batch ----

type simdiskBatch struct {
	h   *simdiskDB
	mu  sync.Mutex
	ops []simdiskKV
}

func (h *simdiskDB) NewBatch() driver.Batching { return &simdiskBatch{h: h} }

func (b *simdiskBatch) Put(key driver.Key, value driver.Value) error {
	b.mu.Lock()
	b.ops = append(b.ops, simdiskKV{Key: append([]byte(nil), key.Data...), Val: append([]byte(nil), value.Data...)})
	b.mu.Unlock()
	return nil
}

func (b *simdiskBatch) Delete(key driver.Key) error {
	b.mu.Lock()
	b.ops = append(b.ops, simdiskKV{Del: true, Key: append([]byte(nil), key.Data...)})
	b.mu.Unlock()
	return nil
}

// Commit applies the batch as one atomic log entry. Like a goleveldb batch it
// is not reset by Commit.
func (b *simdiskBatch) Commit() error {
	b.mu.Lock()
	ops := append([]simdiskKV(nil), b.ops...)
	b.mu.Unlock()
	return b.h.write(simdiskEntry{Batch: true, Ops: ops})
}

func init() {
	shed.Register(simdiskDriverName, simdiskDriver{})
}
