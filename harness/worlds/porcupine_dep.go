package worlds

import _ "github.com/anishathalye/porcupine"
