//go:build g_heavy

package worlds

// W-NODE: a node under test (node 0: real api, netstore, localstore, chunkinfo,
// traversal, pinning, retrieval) plus a provider node (node 1) on the simulated
// network. One executor, several oracles (C12, C13, C15, C16, C17), each
// property registers its own world with its own oracle enabled.
//
// Ops (first argument = client goroutine id):
//   file    [f, tail, c1, c2, ...]  defines file f as chunks c1.. of the chunk alphabet + tail bytes (no effect on the node)
//   upload  [cl, f, pin]            node 0 uploads f through POST /aurora (Aurora-Pin header if pin=1)
//   cache   [cl, f]                 node 1 uploads f (once); node 0 downloads it through GET /aurora/... (real discovery + retrieval)
//   read    [cl, f]                 node 0 GET of a locally known file
//   get     [cl, f, k]              node 0 localstore Get(ModeGetRequest) of the k-th chunk of f under the file's root context
//   pin     [cl, f] / unpin [cl, f] POST / DELETE /pins/{ref}
//   delete  [cl, f]                 DELETE /aurora/{ref}
//   gc      [cl]                    one synchronous collection run on node 0 (concurrent with the other clients)
//   sleep   [cl, ms]
//   restart                         (between phases) clean restart of node 0
//   barrier                         join clients, quiesce, wait for the collection worker, run the oracles

import (
	"bytes"
	"context"
	"fmt"
	"math/rand"
	"sort"
	"sync"
	"time"

	"github.com/gauss-project/aurorafs/pkg/boson"
	"github.com/gauss-project/aurorafs/pkg/localstore"
	"github.com/gauss-project/aurorafs/pkg/storage"

	"verifharness/gosim"
	"verifharness/simnet"
)

const wnChunk = 256 * 1024

func wnChunkData(id int64) []byte {
	b := make([]byte, wnChunk)
	x := uint64(id)*0x9e3779b97f4a7c15 + 12345
	for i := 0; i < len(b); i += 8 {
		x ^= x << 13
		x ^= x >> 7
		x ^= x << 17
		b[i] = byte(x)
		b[i+1] = byte(x >> 8)
		b[i+2] = byte(x >> 16)
		b[i+3] = byte(x >> 24)
		b[i+4] = byte(x >> 32)
		b[i+5] = byte(x >> 40)
		b[i+6] = byte(x >> 48)
		b[i+7] = byte(x >> 56)
	}
	return b
}

type wnFile struct {
	id      int64
	name    string
	content []byte
	ref     boson.Address // manifest reference
	chunks  []string      // addresses written by the upload (data + intermediate + manifest)
	hasRef  bool

	local    bool // uploaded on node 0 and not deleted since
	cached   bool // downloaded to node 0 and not deleted since (may have been evicted)
	pinned   bool // last pin-API operation on it was a successful pin
	remote   bool // uploaded on node 1
	deleted  bool
	uploadPin bool
	uncertain bool // an operation on it was abandoned: no assertion about it
	everCached bool // node 0 downloaded it at some point (it had a gc-index entry)
	everUnpinned bool // it was unpinned at some point (unpinning enters a file into the gc index)
	// have: the chunks of the file the node held when the file became known (a
	// download only fetches the chunks it needs to serve the content; an upload
	// writes all of them). "Stays readable" means these chunks stay.
	have map[string]bool
	pinDelta map[string]int64 // effect of the file's last effective pin on the pin counts (C15)
	order    []string         // data chunks in protocol order (C17)
	apiDeleted bool           // deleted through the delete operation (not evicted)
	partial    bool           // single chunks of it were fetched (it is not a complete known file)
	members    []nkMember     // non-empty: the file is a directory (tar collection) with these members
	pinComplete    bool       // every chunk of the file was stored when it was pinned (a pin skips chunks that are not stored)
	delWhilePinned bool       // deleted through the API while pinned: its pin counters went with the chunks, the reference stayed listed
	upEpoch    int            // barrier epoch in which the last local upload of it ran
}

type wnWorld struct {
	r     *gosim.Run
	c     *nkCluster
	n0    *nkNode
	n1    *nkNode
	prop  string
	mu    sync.Mutex
	files map[int64]*wnFile
	upMu  sync.Mutex // uploads are exclusive (chunk-set recording)
	cap   uint64
	// uploadedChunks: chunk address -> number of live local uploads containing it
	faultFree bool
	cut       bool
	epoch     int // number of barriers passed
	collected int64 // chunks removed by collection runs since the last barrier (worker + explicit)
	delEpoch  map[int64]int // file -> epoch of its last API deletion
}

func (w *wnWorld) file(id int64) *wnFile {
	w.mu.Lock()
	defer w.mu.Unlock()
	return w.files[id]
}

func (w *wnWorld) sortedFiles() []*wnFile {
	w.mu.Lock()
	defer w.mu.Unlock()
	ids := make([]int64, 0, len(w.files))
	for id := range w.files {
		ids = append(ids, id)
	}
	sort.Slice(ids, func(i, j int) bool { return ids[i] < ids[j] })
	out := make([]*wnFile, 0, len(ids))
	for _, id := range ids {
		out = append(out, w.files[id])
	}
	return out
}

func (w *wnWorld) uploadOn(n *nkNode, f *wnFile, pin bool) error {
	w.upMu.Lock()
	defer w.upMu.Unlock()
	n.Rec.start()
	var ref boson.Address
	var err error
	if len(f.members) > 0 {
		ref, err = n.UploadDir(f.members, pin)
	} else {
		ref, err = n.Upload(f.name, f.content, pin)
	}
	chunks := n.Rec.stop()
	if err != nil {
		return err
	}
	w.mu.Lock()
	if f.hasRef && !f.ref.Equal(ref) {
		w.mu.Unlock()
		w.r.Violate("ref-mismatch", "file %d uploaded twice with different references %s / %s", f.id, f.ref, ref)
	}
	f.ref, f.hasRef = ref, true
	if len(chunks) > len(f.chunks) {
		f.chunks = chunks
	}
	w.mu.Unlock()
	return nil
}

// fetch downloads a file on node 0: the file itself, or for a directory the
// member selected by sel. It returns the status, the body and the expected bytes.
func (w *wnWorld) fetch(f *wnFile, sel int64) (int, []byte, []byte) {
	if len(f.members) > 0 {
		if sel < 0 {
			sel = -sel
		}
		m := f.members[int(sel)%len(f.members)]
		code, body := w.n0.Download(f.ref, m.Name)
		return code, body, m.Content
	}
	code, body := w.n0.Download(f.ref, f.name)
	return code, body, f.content
}

// exec runs one operation under a simulated-time watchdog: an operation that
// does not return within 90 simulated seconds is abandoned (counted, not a
// violation of these properties) and the files it touched become "uncertain".
func (w *wnWorld) exec(phase int, o gosim.Op) {
	done := make(chan struct{})
	go func() {
		defer close(done)
		w.exec1(phase, o)
	}()
	select {
	case <-done:
		if w.r.Plan.P("dbg", 0) == 1 {
			if d, err := w.n0.Dump(); err == nil {
				w.r.Logf("   after %s: gcSize=%d sum=%d gc=[%s] data=%d pins=%d", o, d.GCSize, d.GCSum, wnFmtGC(d), len(d.Data), len(d.Pin))
			}
		}
	case <-time.After(90 * time.Second):
		w.r.Logf("op %s abandoned after 90 simulated seconds", o)
		w.r.Count("op_abandoned")
		if f := w.file(o.Arg(1)); f != nil && o.K != "sleep" && o.K != "gc" {
			w.mu.Lock()
			f.uncertain = true
			w.mu.Unlock()
		}
	}
}

func (w *wnWorld) exec1(phase int, o gosim.Op) {
	if w.prop == "C15" {
		w.exec15(phase, o)
		return
	}
	w.exec0(phase, o)
}

func (w *wnWorld) exec0(phase int, o gosim.Op) {
	r := w.r
	switch o.K {
	case "file", "dir":
		// definitions are processed before the run starts
	case "upload":
		f := w.file(o.Arg(1))
		if f == nil {
			return
		}
		pin := o.Arg(2) == 1
		r.Logf("upload f=%d pin=%v", f.id, pin)
		if err := w.uploadOn(w.n0, f, pin); err != nil {
			// not what these properties are about: the file becomes uncertain
			r.Logf("upload f=%d failed: %v", f.id, err)
			r.Count("upload_failed")
			w.mu.Lock()
			f.uncertain = true
			w.mu.Unlock()
			return
		}
		w.mu.Lock()
		f.local, f.deleted = true, false
		f.upEpoch = w.epoch
		f.apiDeleted = false
		f.have = map[string]bool{}
		for _, c := range f.chunks {
			f.have[c] = true
		}
		if pin {
			f.pinned = true
			f.uploadPin = true
		}
		w.mu.Unlock()
		r.Logf("uploaded f=%d ref=%s chunks=%d", f.id, f.ref, len(f.chunks))
	case "cache":
		f := w.file(o.Arg(1))
		if f == nil {
			return
		}
		w.mu.Lock()
		needRemote := !f.remote
		w.mu.Unlock()
		if needRemote {
			if err := w.uploadOn(w.n1, f, false); err != nil {
				r.Violate("upload-failed", "provider upload of file %d failed: %v", f.id, err)
			}
			w.mu.Lock()
			f.remote = true
			w.mu.Unlock()
			w.c.Oracle.set(f.ref, w.n1.Addr)
		}
		r.Logf("cache f=%d ref=%s", f.id, f.ref)
		w.mu.Lock()
		f.everCached = true // even a failing download may leave chunks cached under the root
		f.apiDeleted = false // ... and makes the node track the file again
		w.mu.Unlock()
		code, body, want := w.fetch(f, o.Arg(2))
		r.Logf("cache f=%d -> %d len=%d", f.id, code, len(body))
		if code == 200 && len(body) < len(want) && bytes.Equal(body, want[:len(body)]) {
			// the link was lost while the body was streamed: a truncated (prefix)
			// response is all HTTP can do after the status line went out
			r.Count("download_truncated")
			code = 0
		}
		if code == 200 && !bytes.Equal(body, want) {
			r.Violate("wrong-content", "download of file %d returned %d bytes that differ from the uploaded content (%d bytes)", f.id, len(body), len(want))
		}
		if code == 200 && len(f.members) > 1 {
			r.Count("probe_dir_member_downloaded")
		}
		// what the node holds of the file now is the new baseline: the file may have
		// been evicted and (partly) fetched again since the last successful download
		have := map[string]bool{}
		for _, c := range f.chunks {
			if ok, _ := w.n0.LS.Has(context.Background(), storage.ModeHasChunk, boson.MustParseHexAddress(c)); ok {
				have[c] = true
			}
		}
		w.mu.Lock()
		if f.have == nil || !f.local {
			f.have = have
		}
		if code == 200 {
			f.cached, f.deleted = true, false
		} else if f.deleted {
			// a failed re-download of a deleted file leaves some of its chunks
			// cached again: neither "deleted" nor "known" describes it any more
			f.uncertain = true
		}
		w.mu.Unlock()
		if code == 200 {
			r.Count("probe_cached")
		} else {
			r.Count("download_failed")
		}
	case "read":
		f := w.file(o.Arg(1))
		if f == nil || !f.hasRef {
			return
		}
		w.mu.Lock()
		known := (f.local || f.cached) && !f.deleted
		w.mu.Unlock()
		if !known {
			return
		}
		code, body, want := w.fetch(f, o.Arg(2))
		r.Logf("read f=%d -> %d len=%d", f.id, code, len(body))
		if code == 200 && len(body) < len(want) && bytes.Equal(body, want[:len(body)]) {
			code = 0
		}
		if code == 200 && !bytes.Equal(body, want) {
			r.Violate("wrong-content", "read of file %d returned different bytes", f.id)
		}
	case "get":
		f := w.file(o.Arg(1))
		if f == nil || !f.hasRef || len(f.chunks) == 0 {
			return
		}
		addr := boson.MustParseHexAddress(f.chunks[int(o.Arg(2)&0xffff)%len(f.chunks)])
		if o.Arg(2) < 0 {
			addr = f.ref // the file's root chunk
		}
		_, err := w.n0.LS.Get(nkRootCtx(f.ref), storage.ModeGetRequest, addr)
		r.Logf("get f=%d chunk=%s err=%v", f.id, addr.String()[:8], err)
	case "nsget":
		// read one chunk (data, intermediate or manifest) of a file through the
		// netstore under the file's root context, as the download path does:
		// fetched from the provider if it is not stored locally. With the 4th
		// argument set the provider uploads the file first if nobody has it.
		f := w.file(o.Arg(1))
		if f == nil {
			return
		}
		if o.Arg(3) == 1 {
			w.mu.Lock()
			needRemote := !f.remote
			w.mu.Unlock()
			if needRemote {
				if err := w.uploadOn(w.n1, f, false); err == nil {
					w.mu.Lock()
					f.remote = true
					w.mu.Unlock()
					w.c.Oracle.set(f.ref, w.n1.Addr)
				}
			}
		}
		if !f.hasRef || len(f.chunks) == 0 {
			return
		}
		addr := boson.MustParseHexAddress(f.chunks[int(o.Arg(2))%len(f.chunks)])
		ctx, cancel := context.WithTimeout(nkRootCtx(f.ref), 20*time.Second)
		_, err := w.n0.NS.Get(ctx, storage.ModeGetRequest, addr)
		cancel()
		r.Logf("nsget f=%d chunk=%s err=%v", f.id, addr.String()[:8], err)
		if err == nil {
			r.Count("probe_nsget_ok")
			w.mu.Lock()
			if !f.local && !f.cached {
				f.everCached = true // chunks may now be cached under its root
				f.partial = true
			}
			w.mu.Unlock()
		}
		w.mu.Lock()
		f.apiDeleted = false // any read under the root may make the node track the file again
		w.mu.Unlock()
	case "pin":
		f := w.file(o.Arg(1))
		if f == nil || !f.hasRef {
			return
		}
		code := w.n0.PinAPI(f.ref)
		r.Logf("pin f=%d -> %d", f.id, code)
		if code == 200 || code == 201 {
			w.mu.Lock()
			f.pinned = true
			w.mu.Unlock()
		}
	case "unpin":
		f := w.file(o.Arg(1))
		if f == nil || !f.hasRef {
			return
		}
		// even a failing unpin may have unpinned part of the file
		w.mu.Lock()
		f.everUnpinned = true
		w.mu.Unlock()
		code := w.n0.UnpinAPI(f.ref)
		r.Logf("unpin f=%d -> %d", f.id, code)
		if code == 200 {
			w.mu.Lock()
			f.pinned = false
			w.mu.Unlock()
		}
	case "delete":
		f := w.file(o.Arg(1))
		if f == nil || !f.hasRef {
			return
		}
		code := w.n0.Delete(f.ref)
		r.Logf("delete f=%d -> %d", f.id, code)
		if code == 200 {
			w.mu.Lock()
			f.local, f.cached, f.deleted = false, false, true
			if w.delEpoch == nil {
				w.delEpoch = map[int64]int{}
			}
			w.delEpoch[f.id] = w.epoch
			f.apiDeleted = true
			// (deleting a file does not unpin its reference: f.pinned stays)
			if f.pinned {
				f.delWhilePinned = true
			}
			w.mu.Unlock()
			r.Count("probe_deleted")
		}
	case "gc":
		n, done, err := w.n0.LS.VerifCollectGarbage()
		w.mu.Lock()
		w.collected += int64(n)
		w.mu.Unlock()
		r.Logf("gc -> collected=%d done=%v err=%v", n, done, err)
		if n > 0 {
			r.Count("probe_gc_collected")
		}
	case "sleep":
		time.Sleep(time.Duration(o.Arg(1)) * time.Millisecond)
	}
}

// quiesce waits until the system is quiescent and the collection worker is idle
// with no pending trigger (bounded liveness: 10 simulated seconds).
func (w *wnWorld) quiesce() {
	deadline := time.Now().Add(10 * time.Second)
	for {
		gosim.Idle()
		if !w.n0.LS.VerifGCRunning() && !w.n0.LS.VerifGCPending() {
			return
		}
		if time.Now().After(deadline) {
			w.r.Violate("gc-not-quiescent", "collection worker still busy 10 simulated seconds after the last operation")
		}
		time.Sleep(50 * time.Millisecond)
	}
}

func wnGen(prop string) func(rng *rand.Rand, tier string) *gosim.Plan {
	return func(rng *rand.Rand, tier string) *gosim.Plan {
		p := &gosim.Plan{Params: map[string]int64{}}
		nfiles := 2 + rng.Intn(3)
		alpha := int64(3 + rng.Intn(4)) // chunk alphabet size: small => shared chunks
		// a family of files around one hot chunk (shared between files and
		// repeated inside files): always for two thirds of the C16 runs, for one
		// third of the C12 / C17 runs
		hot := (prop == "C16" && rng.Intn(3) > 0) || ((prop == "C12" || prop == "C17" || prop == "C15") && rng.Intn(3) == 0)
		if hot {
			nfiles = 3 + rng.Intn(3)
		}
		for f := 0; f < nfiles; f++ {
			n := 1 + rng.Intn(3)
			if rng.Intn(4) == 0 && !hot {
				n = 0
			}
			a := []int64{int64(f), int64(rng.Intn(3)) * int64(1+rng.Intn(5000))}
			for i := 0; i < n; i++ {
				if hot && rng.Intn(2) == 0 {
					a = append(a, 0) // the hot chunk, possibly several times in one file
				} else {
					a = append(a, rng.Int63n(alpha))
				}
			}
			if n == 0 && a[1] == 0 {
				a[1] = 1 + rng.Int63n(3000)
			}
			p.Ops = append(p.Ops, gosim.Op{K: "file", A: a})
		}
		// C17: in a third of the runs one or two files are directories with 2-3
		// members (positions in the availability vector run over all members);
		// downloads then fetch single members
		dirs := prop == "C17" && rng.Intn(3) == 0
		if dirs {
			for f, n := 0, 1+rng.Intn(2); f < n && f < nfiles; f++ {
				m := 2 + rng.Intn(2)
				a := []int64{int64(f), int64(m), int64(rng.Intn(2)) * int64(1+rng.Intn(5000))}
				for i, k := 0, m+rng.Intn(3); i < k; i++ {
					a = append(a, rng.Int63n(alpha+3))
				}
				p.Ops[f] = gosim.Op{K: "dir", A: a}
			}
		}
		p.Params["capacity"] = gosim.Pick(rng, 4, 6, 8, 8, 12, 12, 20)
		if prop == "C15" || prop == "C17" {
			p.Params["capacity"] = gosim.Pick(rng, 12, 50, 200)
		}
		ncli := 1 + rng.Intn(2)
		if prop == "C15" {
			ncli = 1
		}
		if prop == "C13" {
			ncli = 1 + rng.Intn(3)
		}
		nphase := 2 + rng.Intn(3)
		p.Params["gc_pause_ms"] = gosim.Pick(rng, 0, 1, 20, 200)
		if hot && prop == "C12" && rng.Intn(2) == 0 {
			// scripted eviction chain: one file of the family is uploaded (pinned or
			// not) and stays; the others are downloaded one after the other into a
			// cache that holds about one of them, so that each download evicts the
			// previous file: the chunks they share with the upload must survive
			p.Params["capacity"] = gosim.Pick(rng, 6, 8, 10)
			keep := int64(rng.Intn(nfiles))
			p.Ops = append(p.Ops, gosim.Op{K: "upload", A: []int64{0, keep, int64(rng.Intn(2))}}, gosim.Op{K: "barrier"})
			for _, f := range rng.Perm(nfiles) {
				if int64(f) == keep {
					continue
				}
				p.Ops = append(p.Ops, gosim.Op{K: "cache", A: []int64{0, int64(f)}}, gosim.Op{K: "barrier"})
			}
			return p
		}
		if hot && prop != "C15" && rng.Intn(2) == 0 {
			// scripted family history: make all files known (uploaded, some
			// downloaded), then delete them one after the other in a random order;
			// the oracle runs after every deletion
			p.Params["capacity"] = 100
			for f := 0; f < nfiles; f++ {
				switch {
				case rng.Intn(4) == 0 || (prop != "C16" && rng.Intn(2) == 0):
					p.Ops = append(p.Ops, gosim.Op{K: "cache", A: []int64{0, int64(f)}})
				case prop == "C12" && rng.Intn(2) == 0:
					p.Ops = append(p.Ops, gosim.Op{K: "upload", A: []int64{0, int64(f), 1}}) // pinned upload
				default:
					p.Ops = append(p.Ops, gosim.Op{K: "upload", A: []int64{0, int64(f), 0}})
				}
			}
			if prop == "C12" {
				p.Params["capacity"] = gosim.Pick(rng, 8, 12, 20)
			}
			p.Ops = append(p.Ops, gosim.Op{K: "barrier"})
			for _, f := range rng.Perm(nfiles)[:nfiles-1] {
				if prop == "C12" && rng.Intn(2) == 0 {
					// eviction instead of deletion: download something else, collect
					p.Ops = append(p.Ops, gosim.Op{K: "gc", A: []int64{0}}, gosim.Op{K: "barrier"})
					continue
				}
				p.Ops = append(p.Ops, gosim.Op{K: "delete", A: []int64{0, int64(f)}}, gosim.Op{K: "barrier"})
			}
			return p
		}
		if dirs && rng.Intn(3) > 0 {
			// a user opens one file of a directory: only that member is fetched,
			// and the record is checked before anything else happens
			p.Ops = append(p.Ops, gosim.Op{K: "cache", A: []int64{0, 0, int64(rng.Intn(6))}}, gosim.Op{K: "barrier"})
		}
		for ph := 0; ph < nphase; ph++ {
			if (prop == "C12" || prop == "C13" || prop == "C16") && ph > 0 && rng.Intn(3) == 0 {
				// race phase: one client collects (explicitly, or by downloading one
				// more file so that the worker starts) while another works on files
				// the collector may be evicting - mostly the one cached first, which
				// is the first candidate (reads of its chunks, pins, unpins, re-downloads)
				if rng.Intn(2) == 0 {
					p.Ops = append(p.Ops, gosim.Op{K: "gc", A: []int64{0}})
				} else {
					p.Ops = append(p.Ops, gosim.Op{K: "cache", A: []int64{0, int64(rng.Intn(nfiles))}})
				}
				oldest := int64(-1)
				for _, o := range p.Ops {
					if o.K == "cache" {
						oldest = o.Arg(1)
						break
					}
				}
				for i, n := 0, 1+rng.Intn(3); i < n; i++ {
					f := int64(rng.Intn(nfiles))
					if oldest >= 0 && rng.Intn(3) > 0 {
						f = oldest
					}
					switch rng.Intn(5) {
					case 0:
						k := int64(rng.Intn(8))
						if rng.Intn(2) == 0 {
							k = -1 // the root chunk: marks the whole file as in use
						}
						p.Ops = append(p.Ops, gosim.Op{K: "get", A: []int64{1, f, k}})
					case 1:
						p.Ops = append(p.Ops, gosim.Op{K: "nsget", A: []int64{1, f, int64(rng.Intn(8)), 1}})
					case 2:
						p.Ops = append(p.Ops, gosim.Op{K: "pin", A: []int64{1, f}})
					case 3:
						p.Ops = append(p.Ops, gosim.Op{K: "unpin", A: []int64{1, f}})
					default:
						p.Ops = append(p.Ops, gosim.Op{K: "cache", A: []int64{1, f}})
					}
				}
				p.Ops = append(p.Ops, gosim.Op{K: "barrier"})
				if prop == "C16" && rng.Intn(2) == 0 {
					// ... and then another file goes: whatever the collection left
					// inconsistent about shared chunks shows now
					p.Ops = append(p.Ops, gosim.Op{K: "delete", A: []int64{0, int64(rng.Intn(nfiles))}}, gosim.Op{K: "barrier"})
				}
				continue
			}
			nops := 1 + rng.Intn(4)
			if prop == "C15" {
				nops = 3 + rng.Intn(6)
				if ph == 0 {
					for f := 0; f < nfiles; f++ {
						if rng.Intn(4) == 0 {
							p.Ops = append(p.Ops, gosim.Op{K: "cache", A: []int64{0, int64(f)}})
						} else {
							p.Ops = append(p.Ops, gosim.Op{K: "upload", A: []int64{0, int64(f), 0}})
						}
					}
				}
			}
			for i := 0; i < nops; i++ {
				cl := int64(rng.Intn(ncli))
				f := int64(rng.Intn(nfiles))
				x := rng.Intn(100)
				if prop == "C15" {
					// this property is about pins: mostly pin / unpin (also repeated),
					// alone and two files at a time, over files made known first
					switch y := rng.Intn(100); {
					case y < 14:
						p.Ops = append(p.Ops, gosim.Op{K: "upload", A: []int64{cl, f, int64(rng.Intn(3) / 2)}})
					case y < 24:
						p.Ops = append(p.Ops, gosim.Op{K: "cache", A: []int64{cl, f}})
					case y < 44:
						p.Ops = append(p.Ops, gosim.Op{K: "pin", A: []int64{cl, f}})
					case y < 64:
						p.Ops = append(p.Ops, gosim.Op{K: "unpin", A: []int64{cl, f}})
					case y < 82:
						// two files pinned at the same time, then unpinned
						g := int64(rng.Intn(nfiles))
						if g == f {
							g = (f + 1) % int64(nfiles)
						}
						p.Ops = append(p.Ops, gosim.Op{K: "cpin", A: []int64{cl, f, g, int64(rng.Intn(2))}})
					case y < 87:
						p.Ops = append(p.Ops, gosim.Op{K: "delete", A: []int64{cl, f}})
					case y < 91:
						p.Ops = append(p.Ops, gosim.Op{K: "gc", A: []int64{cl}})
					case y < 96:
						p.Ops = append(p.Ops, gosim.Op{K: "read", A: []int64{cl, f}})
					default:
						p.Ops = append(p.Ops, gosim.Op{K: "sleep", A: []int64{cl, int64(rng.Intn(3000))}})
					}
					continue
				}
				if hot && prop != "C15" {
					// more uploads and deletes: deletions of files that share chunks
					switch y := rng.Intn(100); {
					case y < 40:
						x = 0 // upload
					case y < 75:
						x = 85 // delete
					}
				}
				switch {
				case x < 22:
					p.Ops = append(p.Ops, gosim.Op{K: "upload", A: []int64{cl, f, int64(rng.Intn(3) / 2)}})
				case x < 47:
					if dirs {
						p.Ops = append(p.Ops, gosim.Op{K: "cache", A: []int64{cl, f, int64(rng.Intn(6))}})
					} else {
						p.Ops = append(p.Ops, gosim.Op{K: "cache", A: []int64{cl, f}})
					}
				case x < 55:
					if prop == "C17" && x >= 50 {
						p.Ops = append(p.Ops, gosim.Op{K: "nsget", A: []int64{cl, f, int64(rng.Intn(8)), 1}})
					} else {
						p.Ops = append(p.Ops, gosim.Op{K: "read", A: []int64{cl, f}})
					}
				case x < 59:
					p.Ops = append(p.Ops, gosim.Op{K: "get", A: []int64{cl, f, int64(rng.Intn(8))}})
				case x < 63:
					p.Ops = append(p.Ops, gosim.Op{K: "nsget", A: []int64{cl, f, int64(rng.Intn(8)), int64(rng.Intn(2))}})
				case x < 73:
					p.Ops = append(p.Ops, gosim.Op{K: "pin", A: []int64{cl, f}})
				case x < 81:
					p.Ops = append(p.Ops, gosim.Op{K: "unpin", A: []int64{cl, f}})
				case x < 90:
					p.Ops = append(p.Ops, gosim.Op{K: "delete", A: []int64{cl, f}})
				case x < 96:
					p.Ops = append(p.Ops, gosim.Op{K: "gc", A: []int64{cl}})
				default:
					p.Ops = append(p.Ops, gosim.Op{K: "sleep", A: []int64{cl, int64(rng.Intn(3000))}})
				}
			}
			if rng.Intn(6) == 0 {
				p.Ops = append(p.Ops, gosim.Op{K: "barrier"}, gosim.Op{K: "restart"})
			}
			p.Ops = append(p.Ops, gosim.Op{K: "barrier"})
		}
		// 40 % of the plans lose the link to the provider in the middle of a download
		if rng.Intn(10) < 4 {
			n := 1 + rng.Intn(2)
			for i := 0; i < n; i++ {
				p.Faults = append(p.Faults, gosim.Op{K: "cut", A: []int64{int64(1 + rng.Intn(8))}})
			}
		}
		return p
	}
}

func wnExec(prop string) func(r *gosim.Run) {
	return func(r *gosim.Run) {
		w := &wnWorld{r: r, prop: prop, files: map[int64]*wnFile{}, cap: uint64(r.Plan.P("capacity", 10))}
		for _, o := range r.Plan.Ops {
			if o.K == "dir" && len(o.A) >= 3 {
				// dir [f, m, tail, c1, ..., ck]: directory f with m members; the chunk
				// list is dealt out to the members in contiguous groups, the tail
				// bytes go to the last member
				f := &wnFile{id: o.A[0]}
				m := int(o.A[1])
				if m < 1 {
					m = 1
				}
				cs := o.A[3:]
				for i := 0; i < m; i++ {
					mem := nkMember{Name: fmt.Sprintf("m%d.bin", i)}
					lo, hi := i*len(cs)/m, (i+1)*len(cs)/m
					for _, c := range cs[lo:hi] {
						mem.Content = append(mem.Content, wnChunkData(c)...)
					}
					if i == m-1 && o.A[2] > 0 {
						mem.Content = append(mem.Content, wnChunkData(1000 + o.A[0])[:o.A[2]%wnChunk]...)
					}
					if len(mem.Content) == 0 {
						mem.Content = []byte{byte(o.A[0]), byte(i)}
					}
					f.members = append(f.members, mem)
				}
				w.files[f.id] = f
				continue
			}
			if o.K != "file" || len(o.A) < 2 {
				continue
			}
			f := &wnFile{id: o.A[0], name: fmt.Sprintf("f%d.bin", o.A[0])}
			for _, c := range o.A[2:] {
				f.content = append(f.content, wnChunkData(c)...)
			}
			if o.A[1] > 0 {
				f.content = append(f.content, wnChunkData(1000 + o.A[0])[:o.A[1]%wnChunk]...)
			}
			if len(f.content) == 0 {
				f.content = []byte{byte(o.A[0])}
			}
			w.files[f.id] = f
		}
		w.c = nkNewCluster(r)
		// scheduling point between the collector's candidate selection and the
		// eviction (the package's own test hook): other clients get to touch the
		// file that is about to be evicted
		pause := time.Duration(r.Plan.P("gc_pause_ms", 0)) * time.Millisecond
		localstore.VerifSetHooks(func(n uint64) {
			w.mu.Lock()
			w.collected += int64(n)
			w.mu.Unlock()
		}, func() {
			r.Count("probe_gc_candidates_selected")
			gosim.Yield()
			if pause > 0 {
				time.Sleep(pause)
			}
		}, nil)
		var err error
		if w.n0, err = w.c.AddNode(nkOpts{Capacity: w.cap, Persistent: wnHasOp(r.Plan.Ops, "restart")}); err != nil {
			r.Violate("setup", "%v", err)
		}
		if w.n1, err = w.c.AddNode(nkOpts{Capacity: 100000}); err != nil {
			r.Violate("setup", "%v", err)
		}
		if err := w.c.Net.Link(w.n0.Net, w.n1.Net); err != nil {
			r.Violate("setup", "link: %v", err)
		}
		var cutAt []int64
		for _, ft := range r.Plan.Faults {
			if ft.K == "cut" {
				cutAt = append(cutAt, ft.Arg(0))
			}
		}
		if len(cutAt) > 0 {
			var deliveries int64
			w.c.Net.Tap = func(f *simnet.Frame) {
				if f.Protocol != "retrieval" || f.Dir != 1 {
					return
				}
				deliveries++
				for _, k := range cutAt {
					if deliveries == k {
						r.Logf("fault: link cut after %d chunk deliveries", k)
						r.Count("fault_cut")
						w.cut = true
						go w.c.Net.Cut(w.n0.Net, w.n1.Net)
					}
				}
			}
		}
		if r.Plan.P("tap", 0) == 1 {
			w.c.Net.Tap = func(f *simnet.Frame) {
				r.Logf("frame #%d %s->%s %s/%s sid=%d dir=%d len=%d", f.Seq, f.From.String()[:4], f.To.String()[:4], f.Protocol, f.Stream, f.StreamID, f.Dir, len(f.Data))
			}
		}
		// split the op list at "restart" markers (they are executed between phases)
		var seg []gosim.Op
		flush := func() {
			if len(seg) == 0 {
				return
			}
			r.RunPhases(seg, w.exec, func(int) { w.barrier() })
			seg = nil
		}
		for _, o := range r.Plan.Ops {
			if o.K == "restart" {
				flush()
				w.quiesce()
				r.Logf("restart node 0")
				if err := w.c.Restart(w.n0, true); err != nil {
					r.Violate("restart-failed", "clean restart failed: %v", err)
				}
				if err := w.c.Net.Link(w.n0.Net, w.n1.Net); err != nil {
					r.Violate("setup", "relink: %v", err)
				}
				r.Count("probe_restart")
				w.barrier()
				continue
			}
			seg = append(seg, o)
		}
		flush()
	}
}

// barrier runs the oracles of the world's property at a quiescent point.
func (w *wnWorld) barrier() {
	defer func() { w.epoch++ }()
	if w.cut {
		w.cut = false
		w.c.Net.Heal(w.n0.Net, w.n1.Net)
		if err := w.c.Net.Link(w.n0.Net, w.n1.Net); err != nil {
			w.r.Violate("setup", "relink after heal: %v", err)
		}
	}
	w.quiesce()
	switch w.prop {
	case "C17":
		w.oracleC17()
	case "C12":
		w.oracleC12()
	case "C13":
		w.oracleC13()
	case "C16":
		w.oracleC16()
	}
}

func (w *wnWorld) dump() *nkDump {
	d, err := w.n0.Dump()
	if err != nil {
		w.r.Violate("dump-failed", "%v", err)
	}
	return d
}

// ---- C13: cache accounting ----

func (w *wnWorld) oracleC13() {
	d := w.dump()
	w.r.Logf("C13 check: gcSize=%d sum=%d cap=%d gc=%v", d.GCSize, d.GCSum, w.cap, len(d.GC))
	w.r.Count("probe_c13_checked")
	if d.GCSum > 0 {
		w.r.Count("probe_c13_nonzero")
	}
	if d.GCSize != d.GCSum {
		w.r.Violate("counter-mismatch", "outside a collection run the persisted cached-chunk counter is %d but the per-file cached counts total %d (files: %v)", d.GCSize, d.GCSum, wnFmtGC(d))
	}
	if d.GCSum > w.cap {
		w.r.Violate("over-capacity", "collection has quiesced but the recorded cached-chunk total %d exceeds the capacity %d", d.GCSum, w.cap)
	}
}

func wnFmtGC(d *nkDump) string {
	s := ""
	for _, k := range nkSortedKeys(d.GC) {
		s += fmt.Sprintf("%s:%d ", k[:8], d.GC[k])
	}
	return s
}

// ---- C12: GC never deletes pinned or uploaded chunks, never changes a pin count ----

// liveUploadedChunks: chunk -> a live local upload containing it. A chunk that
// also belongs to a file the node downloaded (cached) at some point is tagged:
// the known defect family "eviction of a cached file removes chunks that were
// uploaded/pinned since" is kept apart from every other way to lose a chunk.
func (w *wnWorld) liveUploadedChunks() (map[string]int64, map[string]string) {
	out := map[string]int64{}
	tag := map[string]string{}
	files := w.sortedFiles()
	for _, f := range files {
		if f.local && !f.deleted && !f.uncertain {
			for _, c := range f.chunks {
				out[c] = f.id
			}
		}
	}
	// The known defect family: a file that is collectable (it was downloaded, or
	// it was unpinned) is evicted as a whole, together with those of its chunks
	// that no OTHER registered file contains. A chunk that is also owned by a live
	// upload or pinned file which itself never was collectable is shared in the
	// node's reference counting, and its loss is NOT that family.
	collectable := map[string]string{}
	for _, f := range files {
		if f.everUnpinned {
			for _, c := range f.chunks {
				collectable[c] = "@chunk-of-unpinned-file"
			}
		}
	}
	for _, f := range files {
		if f.everCached || f.uncertain {
			for _, c := range f.chunks {
				collectable[c] = "@chunk-of-cached-file"
			}
		}
	}
	protected := map[string]bool{}
	for _, f := range files {
		if (f.local || f.pinned) && !f.deleted && !f.uncertain && !f.everCached && !f.everUnpinned {
			for _, c := range f.chunks {
				protected[c] = true
			}
		}
	}
	for c, t := range collectable {
		if !protected[c] {
			tag[c] = t
		}
	}
	return out, tag
}

// wnTag keeps the two known ways a file becomes collectable (it was downloaded,
// or it was unpinned) apart from every other way to lose a chunk.
func wnTag(class string, tag string) string { return class + tag }

func (w *wnWorld) oracleC12() {
	// (a) whatever collections ran so far: chunks of live local uploads are present
	d1 := w.dump()
	up, cachedToo := w.liveUploadedChunks()
	w.mu.Lock()
	collectedNow := w.collected
	w.collected = 0
	w.mu.Unlock()
	for _, c := range nkSortedKeys(up) {
		if collectedNow == 0 {
			break // no collection run removed anything since the last barrier: a loss would not be the collector's
		}
		if _, ok := d1.Data[c]; !ok {
			w.r.Violate(wnTag("uploaded-chunk-lost", cachedToo[c]), "chunk %s of locally uploaded file %d (not deleted) is no longer stored", c[:8], up[c])
		}
	}
	// (b) one exclusive collection run with all clients paused
	n, _, err := w.n0.LS.VerifCollectGarbage()
	w.quiesce()
	d2 := w.dump()
	w.r.Logf("C12 exclusive gc: collected=%d err=%v pins=%d->%d data=%d->%d", n, err, len(d1.Pin), len(d2.Pin), len(d1.Data), len(d2.Data))
	w.r.Count("probe_c12_gc_runs")
	if len(d2.Data) < len(d1.Data) {
		w.r.Count("probe_c12_gc_deleted")
	}
	for _, a := range nkSortedKeys(d1.Pin) {
		cnt := d1.Pin[a]
		if cnt == 0 {
			continue
		}
		w.r.Count("probe_c12_pinned_seen")
		if _, ok := d2.Data[a]; !ok {
			if _, was := d1.Data[a]; was {
				w.r.Violate(wnTag("pinned-chunk-deleted", cachedToo[a]), "collection run deleted chunk %s whose pin count was %d", a[:8], cnt)
			}
		}
		if d2.Pin[a] != cnt {
			w.r.Violate(wnTag("pin-count-changed", cachedToo[a]), "collection run changed the pin count of chunk %s from %d to %d", a[:8], cnt, d2.Pin[a])
		}
	}
	for _, a := range nkSortedKeys(d2.Pin) {
		if _, ok := d1.Pin[a]; !ok {
			w.r.Violate(wnTag("pin-count-changed", cachedToo[a]), "collection run created a pin entry for chunk %s (count %d)", a[:8], d2.Pin[a])
		}
	}
	for _, c := range nkSortedKeys(up) {
		if _, was := d1.Data[c]; !was {
			continue // not there before this run: not this run's doing
		}
		if _, ok := d2.Data[c]; !ok {
			w.r.Violate(wnTag("uploaded-chunk-deleted", cachedToo[c]), "collection run deleted chunk %s of locally uploaded file %d", c[:8], up[c])
		}
	}
}

// ---- C16: deleting one file never breaks another ----

func (w *wnWorld) oracleC16() {
	d1 := w.dump()
	w.checkC16(d1, "after operations")
	// eviction: one exclusive collection run, then the same conditions
	n, _, _ := w.n0.LS.VerifCollectGarbage()
	w.quiesce()
	d2 := w.dump()
	if n > 0 {
		w.r.Count("probe_c16_evicted")
	}
	w.checkC16(d2, "after eviction")
}

// checkC16: a file that can be collected (it was downloaded, or it was unpinned)
// and whose root chunk is gone has been evicted: it is then "the deleted file".
// Every other known file must be complete; nothing unpinned that only deleted
// files used may remain.
func (w *wnWorld) checkC16(d *nkDump, when string) {
	files := w.sortedFiles()
	evictedNow := map[string]bool{} // chunks of files found evicted at this barrier
	for _, f := range files {
		if !f.hasRef || f.uncertain || f.deleted || !(f.local || f.cached) {
			continue
		}
		if _, rootPresent := d.Data[f.ref.String()]; !rootPresent && (f.everCached || f.everUnpinned) {
			for _, c := range f.chunks {
				evictedNow[c] = true
			}
			w.r.Logf("file %d was evicted", f.id)
			w.r.Count("probe_c16_eviction_seen")
			w.mu.Lock()
			f.local, f.cached, f.deleted = false, false, true
			w.mu.Unlock()
		}
	}
	deletedNow := map[string]bool{} // chunks of files deleted through the API since the last barrier
	for _, f := range files {
		if ep, ok := w.delEpoch[f.id]; ok && ep == w.epoch {
			for _, c := range f.chunks {
				deletedNow[c] = true
			}
		}
	}
	needed := map[string]int64{}
	for _, f := range files {
		// (also a file whose download did not complete: the store tracks it as a
		// cached file of its own and it holds the chunks it did fetch)
		_, tracked := d.GC[f.ref.String()]
		if f.uncertain || ((f.local || f.cached) && !f.deleted) || (f.hasRef && tracked && !f.deleted) {
			for _, c := range f.chunks {
				needed[c] = f.id
			}
		}
	}
	for _, f := range files {
		if !f.hasRef || f.uncertain {
			continue
		}
		if !f.deleted && (f.local || f.cached) {
			for _, c := range f.chunks {
				if !f.have[c] {
					continue
				}
				if _, ok := d.Data[c]; !ok {
					cls := "other-file-broken"
					if f.local && f.upEpoch == w.epoch && (evictedNow[c] || deletedNow[c]) {
						// known family: the upload ran concurrently with the eviction of a
						// cached file sharing this chunk (the upload registers its chunks
						// with the reference counting only after storing them)
						cls += "@upload-raced-removal"
					}
					w.r.Violate(cls, "%s: chunk %s needed by file %d (local=%v cached=%v pinned=%v), which was neither deleted nor evicted, is missing", when, c[:8], f.id, f.local, f.cached, f.pinned)
				}
			}
			w.r.Count("probe_c16_complete_checked")
		}
		if f.deleted {
			for _, c := range f.chunks {
				if _, ok := d.Data[c]; !ok {
					continue
				}
				if _, n := needed[c]; n {
					w.r.Count("probe_c16_shared_chunk_kept")
					continue
				}
				if d.Pin[c] > 0 {
					continue
				}
				w.r.Violate("leftover-chunk", "%s: chunk %s used only by deleted/evicted file %d is still stored and not pinned", when, c[:8], f.id)
			}
			w.r.Count("probe_c16_deleted_checked")
		}
	}
}

// ---- C15: pin and unpin are idempotent inverses ----
//
// Single client, capacity far above reach (no collection interferes). Around
// every pin / unpin / pinned upload the pin index is dumped. The pin's effect
// on the pin counts (its delta) is measured, not predicted; the oracle demands:
// after a pin every stored chunk of the file has a positive pin count and the
// reference is listed; a repeated pin changes nothing; an unpin subtracts
// exactly the delta its pin added; a repeated unpin changes nothing; the
// reference is listed iff the last operation on it was a pin.

func wnPinDiff(a, b map[string]uint64) map[string]int64 {
	d := map[string]int64{}
	for k, v := range a {
		if b[k] != v {
			d[k] = int64(b[k]) - int64(v)
		}
	}
	for k, v := range b {
		if _, ok := a[k]; !ok && v != 0 {
			d[k] = int64(v)
		}
	}
	return d
}

func wnFmtDiff(d map[string]int64) string {
	s := ""
	for _, k := range nkSortedKeys(d) {
		s += fmt.Sprintf("%s:%+d ", k[:8], d[k])
	}
	return s
}

func (w *wnWorld) listed(f *wnFile) bool {
	pins, err := w.n0.Pin.Pins()
	if err != nil {
		w.r.Violate("pins-error", "Pins(): %v", err)
	}
	for _, p := range pins {
		if p.Equal(f.ref) {
			return true
		}
	}
	return false
}

// cpin [cl, a, b, order]: two files that are stored and not pinned are pinned
// concurrently, then unpinned one after the other: every stored chunk of both is
// pinned in between, and at the end every pin count is back at its value from
// before the pins and neither reference is listed.
func (w *wnWorld) cpin(o gosim.Op) {
	r := w.r
	a, b := w.file(o.Arg(1)), w.file(o.Arg(2))
	if a == nil || b == nil || a == b {
		return
	}
	w.quiesce()
	before := w.dump()
	usable := func(f *wnFile) bool {
		if !f.hasRef || f.uncertain || f.pinned || f.deleted || !(f.local || f.cached) || len(f.chunks) == 0 {
			return false
		}
		for _, c := range f.chunks {
			if _, ok := before.Data[c]; !ok {
				return false
			}
		}
		return !w.listed(f)
	}
	if !usable(a) || !usable(b) {
		return
	}
	w.mu.Lock()
	collected0 := w.collected
	w.mu.Unlock()
	r.Logf("cpin f=%d || f=%d", a.id, b.id)
	var ca, cb int
	done := make(chan struct{}, 2)
	go func() { ca = w.n0.PinAPI(a.ref); done <- struct{}{} }()
	go func() { cb = w.n0.PinAPI(b.ref); done <- struct{}{} }()
	<-done
	<-done
	gosim.Idle()
	okPin := func(c int) bool { return c == 200 || c == 201 }
	r.Logf("cpin f=%d -> %d, f=%d -> %d", a.id, ca, b.id, cb)
	if !okPin(ca) || !okPin(cb) {
		// two pins of stored, unpinned references: nothing for them to fail on
		r.Violate("concurrent-pin-failed", "concurrent pins of the stored files %d and %d returned %d and %d", a.id, b.id, ca, cb)
	}
	r.Count("probe_c15_concurrent_pins")
	mid := w.dump()
	for _, f := range []*wnFile{a, b} {
		for _, c := range f.chunks {
			if _, stored := mid.Data[c]; stored && mid.Pin[c] == 0 {
				r.Violate("chunk-not-pinned", "files %d and %d pinned concurrently: stored chunk %s of file %d has pin count 0", a.id, b.id, c[:8], f.id)
			}
		}
		if !w.listed(f) {
			r.Violate("pinned-not-listed", "file %d was pinned last (concurrently with %d) but is not in the list of pinned references", f.id, b.id)
		}
	}
	first, second := a, b
	if o.Arg(3)%2 == 1 {
		first, second = b, a
	}
	dbg := r.Plan.P("dbg", 0) == 1
	if dbg {
		r.Logf("   pins before %s", wnFmtDiff(wnPinDiff(nil, before.Pin)))
		r.Logf("   pins mid    %s", wnFmtDiff(wnPinDiff(nil, mid.Pin)))
		for _, g := range []*wnFile{a, b} {
			cs := ""
			for _, c := range g.chunks {
				cs += c[:8] + " "
			}
			r.Logf("   file %d chunks %s", g.id, cs)
		}
	}
	for _, f := range []*wnFile{first, second} {
		if code := w.n0.UnpinAPI(f.ref); code != 200 {
			if dbg {
				r.Logf("   pins now    %s", wnFmtDiff(wnPinDiff(nil, w.dump().Pin)))
			}
			// unless a collection ran meanwhile (unpinning the first file made it
			// collectable; what an eviction does to shared chunks is C12's subject)
			w.quiesce()
			w.mu.Lock()
			ran := w.collected != collected0
			a.uncertain, b.uncertain = true, true
			w.mu.Unlock()
			if ran {
				r.Count("c15_unpin_failed_after_collection")
				return
			}
			r.Violate("unpin-failed", "unpin of file %d (pinned concurrently with another file, all its chunks stored) returned %d", f.id, code)
		}
	}
	w.quiesce()
	after := w.dump()
	w.mu.Lock()
	ran := w.collected != collected0
	a.everUnpinned, b.everUnpinned = true, true
	w.mu.Unlock()
	if ran {
		return // a collection ran meanwhile: evictions change pin state on their own
	}
	if d := wnPinDiff(before.Pin, after.Pin); len(d) != 0 {
		r.Violate("unpin-not-inverse", "files %d and %d pinned concurrently and unpinned again: pin counts differ from before the pins by [%s]", a.id, b.id, wnFmtDiff(d))
	}
	for _, f := range []*wnFile{a, b} {
		if w.listed(f) {
			r.Violate("unpinned-still-listed", "file %d was unpinned last but is still in the list of pinned references", f.id)
		}
	}
}

func (w *wnWorld) exec15(phase int, o gosim.Op) {
	r := w.r
	if o.K == "cpin" {
		w.cpin(o)
		return
	}
	f := w.file(o.Arg(1))
	interesting := f != nil && (o.K == "pin" || o.K == "unpin" || (o.K == "upload" && o.Arg(2) == 1))
	if !interesting {
		w.exec0(phase, o)
		return
	}
	w.quiesce()
	before := w.dump()
	wasPinned, hadRef := f.pinned, f.hasRef
	w.mu.Lock()
	collected0 := w.collected
	w.mu.Unlock()
	w.exec0(phase, o)
	w.quiesce()
	after := w.dump()
	if !f.hasRef || f.uncertain {
		return
	}
	w.mu.Lock()
	ran := w.collected != collected0
	w.mu.Unlock()
	if ran {
		// the operation set off a collection run (unpinning enters a file into the
		// gc index): evictions change pin counts on their own (see C12), so the
		// counts before and after do not show the effect of this operation alone
		r.Count("c15_op_overlapped_collection")
		if o.K == "unpin" && wasPinned && !f.pinned {
			f.pinDelta = nil
		}
		if o.K != "unpin" && f.pinned && !wasPinned {
			f.pinDelta = nil
			f.uncertain = true // its pin delta is unknown
		}
		return
	}
	diff := wnPinDiff(before.Pin, after.Pin)
	switch o.K {
	case "pin", "upload":
		ok := f.pinned && (o.K == "upload" || hadRef)
		if !ok {
			return // the pin did not happen (e.g. unknown reference)
		}
		if wasPinned {
			r.Count("probe_c15_repeat_pin")
			if len(diff) != 0 {
				cls := "repeated-pin-changed-counts"
				if o.K == "upload" {
					// known family: re-uploading an already pinned file with the pin header
					cls += "@pinned-upload"
				}
				r.Violate(cls, "file %d was already pinned; pinning it again (%s) changed pin counts: %s", f.id, o.K, wnFmtDiff(diff))
			}
		} else {
			r.Count("probe_c15_first_pin")
			f.pinDelta = diff
			f.pinComplete = len(f.chunks) > 0
			for _, c := range f.chunks {
				if _, ok := before.Data[c]; !ok && o.K == "pin" {
					f.pinComplete = false
				}
			}
			for _, c := range f.chunks {
				if _, stored := after.Data[c]; stored && after.Pin[c] == 0 {
					r.Violate("chunk-not-pinned", "file %d pinned (%s) but its stored chunk %s has pin count 0", f.id, o.K, c[:8])
				}
			}
			for c, dv := range diff {
				if dv < 0 {
					r.Violate("pin-decreased-count", "pinning file %d decreased the pin count of chunk %s by %d", f.id, c[:8], -dv)
				}
			}
		}
		if !w.listed(f) {
			r.Violate("pinned-not-listed", "file %d was pinned last but is not in the list of pinned references", f.id)
		}
	case "unpin":
		if wasPinned && !f.pinned {
			dwp := f.delWhilePinned
			f.delWhilePinned = false
			r.Count("probe_c15_unpin")
			// must subtract exactly what the pin added (unless a deletion of the
			// file took pin counters away in between)
			want := map[string]int64{}
			for c, dv := range f.pinDelta {
				want[c] = -dv
			}
			if !dwp && wnFmtDiff(want) != wnFmtDiff(diff) {
				if w.r.Plan.P("dbg", 0) == 1 {
					for _, g := range w.sortedFiles() {
						r.Logf("   file %d local=%v cached=%v deleted=%v pinned=%v chunks=%v", g.id, g.local, g.cached, g.deleted, g.pinned, g.chunks)
					}
					r.Logf("   pins before: %v", before.Pin)
				}
				r.Violate("unpin-not-inverse", "file %d: its pin changed the counts by [%s], the unpin by [%s]", f.id, wnFmtDiff(f.pinDelta), wnFmtDiff(diff))
			}
			f.pinDelta = nil
		} else if !wasPinned {
			r.Count("probe_c15_repeat_unpin")
			if len(diff) != 0 {
				r.Violate("repeated-unpin-changed-counts", "file %d is not pinned; unpinning it changed pin counts: %s", f.id, wnFmtDiff(diff))
			}
		} else {
			// the unpin failed while the file was pinned. With every chunk of the
			// file stored there is nothing for it to fail on; otherwise (chunks
			// deleted or evicted underneath the pin) the statement is silent
			r.Count("unpin_failed")
			complete := len(f.chunks) > 0
			for _, c := range f.chunks {
				if _, ok := before.Data[c]; !ok {
					complete = false
				}
			}
			if complete && f.pinComplete && !w.cut && !f.delWhilePinned {
				r.Violate("unpin-failed", "unpin of the pinned file %d failed although all its chunks are stored; pin counts changed by [%s]", f.id, wnFmtDiff(diff))
			}
			f.uncertain = true
			return
		}
		if w.listed(f) {
			r.Violate("unpinned-still-listed", "file %d was unpinned last but is still in the list of pinned references", f.id)
		}
	}
}

// ---- C17: availability records never overclaim ----

func (w *wnWorld) dataOrder(f *wnFile) []string {
	if f.order != nil {
		return f.order
	}
	// the protocol's chunk order: first occurrence in GetChunkHashes, computed on
	// a node that holds the whole file
	src := w.n1
	if !f.remote {
		src = w.n0
	}
	hashes, _, err := src.Trav.GetChunkHashes(context.Background(), f.ref, nil)
	if err != nil {
		return nil
	}
	seen := map[string]bool{}
	var order []string
	for _, l := range hashes {
		for _, h := range l {
			a := boson.NewAddress(h).String()
			if !seen[a] {
				seen[a] = true
				order = append(order, a)
			}
		}
	}
	if f.remote || (f.local && !f.deleted) {
		f.order = order
	}
	return order
}

func (w *wnWorld) oracleC17() {
	d := w.dump()
	self := w.n0.Addr.String()
	for _, f := range w.sortedFiles() {
		if !f.hasRef || f.uncertain {
			continue
		}
		recs := w.n0.CI.GetChunkInfoServerOverlays(f.ref)
		for _, rec := range recs {
			if rec.Overlay != self {
				continue
			}
			order := w.dataOrder(f)
			if order == nil {
				continue
			}
			w.r.Count("probe_c17_record_checked")
			all := true
			for i := 0; i < rec.Bit.Len; i++ {
				set := i/8 < len(rec.Bit.B) && rec.Bit.B[i/8]&(1<<uint(i%8)) != 0
				if !set {
					all = false
					continue
				}
				if i >= len(order) {
					w.r.Violate("bit-beyond-file", "file %d: own availability record has bit %d set but the file has only %d data chunks", f.id, i, len(order))
				}
				w.r.Count("probe_c17_bit_checked")
				if _, ok := d.Data[order[i]]; !ok {
					cls := "overclaim"
					if f.local && f.upEpoch == w.epoch {
						// known family (see C16): the upload ran concurrently with the API
						// deletion of another file holding this chunk; the upload registers
						// its chunks with the reference counting only after storing them
						for _, g := range w.sortedFiles() {
							if ep, ok := w.delEpoch[g.id]; ok && ep == w.epoch && g != f {
								for _, c := range g.chunks {
									if c == order[i] {
										cls = "overclaim@upload-raced-removal"
									}
								}
							}
						}
					}
					w.r.Violate(cls, "file %d (local=%v cached=%v deleted=%v): own availability record marks data chunk %d (%s) present but it is not stored", f.id, f.local, f.cached, f.deleted, i, order[i][:8])
				}
			}
			if all && rec.Bit.Len > 0 {
				w.r.Count("probe_c17_full")
				for i, c := range order {
					if _, ok := d.Data[c]; !ok {
						w.r.Violate("overclaim-full", "file %d reported fully downloaded but data chunk %d (%s) is not stored", f.id, i, c[:8])
					}
				}
			}
		}
		if f.deleted && !f.local && !f.cached && f.apiDeleted {
			w.r.Count("probe_c17_deleted_checked")
			if len(recs) != 0 {
				w.r.Violate("record-after-delete", "file %d was deleted but %d availability record(s) remain in memory", f.id, len(recs))
			}
			if n := len(w.n0.CI.GetChunkInfoDiscoverOverlays(f.ref)); n != 0 {
				w.r.Violate("record-after-delete", "file %d was deleted but %d discovery record(s) remain in memory", f.id, n)
			}
			src := w.n0.CI.GetChunkInfoSource(f.ref)
			if src.PyramidSource != "" || len(src.ChunkSource) != 0 {
				w.r.Violate("record-after-delete", "file %d was deleted but source records remain in memory (pyramid source %q, %d chunk sources)", f.id, src.PyramidSource, len(src.ChunkSource))
			}
			for _, prefix := range []string{"chunk-", "discover-", "sourceChunk-", "sourcePyramid-"} {
				left := 0
				_ = w.n0.State.Iterate(prefix+f.ref.String(), func(k, v []byte) (bool, error) {
					left++
					return false, nil
				})
				if left != 0 {
					w.r.Violate("persisted-record-after-delete", "file %d was deleted but %d persisted %q record(s) remain", f.id, left, prefix)
				}
			}
		}
	}
}

func init() {
	real := []string{"pkg/api (upload/download/delete/pin handlers via ServeHTTP)", "pkg/netstore", "pkg/localstore (+gc worker)", "pkg/shed + shed/leveldb (memory)", "pkg/chunkinfo", "pkg/retrieval", "pkg/traversal", "pkg/pinning", "pkg/file pipeline/joiner", "pkg/manifest", "pkg/subscribe", "pkg/statestore/mock"}
	stubs := []string{"libp2p host (simnet direct streams)", "routetab (every linked peer is a neighbour)", "chain oracle (scripted)", "accounting (accept all)", "tracer off, auth off"}
	for _, p := range []string{"C12", "C13", "C15", "C16", "C17"} {
		gosim.Register(&gosim.World{Prop: p, Gen: wnGen(p), Exec: wnExec(p),
			Native: []string{"github.com/gauss-project/aurorafs/pkg/bmt."}, Real: real, Stubs: stubs})
	}
	_ = context.Background
}

func wnHasOp(ops []gosim.Op, k string) bool {
	for _, o := range ops {
		if o.K == k {
			return true
		}
	}
	return false
}
