//go:build g_heavy

package worlds

// C37 — Malformed peer messages never crash the node (world W-NET).
//
// Nodes: H0, H1 = honest full nodes (node kit: api, netstore, localstore,
// chunkinfo, retrieval, traversal, pinning) extended with the REAL pingpong,
// hive2 (+ kademlia, address book), trafficprotocol (+ traffic service, cheque
// store), multicast, routetab service and handshake service. B = byzantine
// endpoint: a bare simnet node that (client role) opens streams to every handler
// of H0/H1 and writes arbitrary bytes, and (server role) serves, under the real
// protocol / stream names, scripted replies to the client calls of H0/H1.
//
// Ops (first argument = client goroutine):
//   inj     [cl, h, stream, mode, variant, seed, which, end]   B opens `stream` on H<h> and writes the template
//                                                         message(s) of `variant`; frame `which` is encoded with `mode`
//                                                         (see c37Encode); end: 0 close, 1 reset, 2 leave open
//   srv     [cl, h, call, stage, mode, variant, seed, which]   H<h> performs client call `call` against B; B's reply at
//                                                         reply point `stage` of that call is encoded with `mode`
//   craft   [cl, h, file, kind, seed]                     B announces a root whose pyramid is BMT-consistent but whose
//                                                         chunk contents are malformed (rehash cascade); H<h> downloads it
//   dl      [cl, h, file]                                 normal download from the other honest node
//   local   [cl, h]                                       the local getters that consume peer-created state
//   restart [cl, h]                                       clean restart of H<h> (reloads persisted chunkinfo / route state)
//   sleep   [cl, ms]
// After every inj / srv / craft: >= 30 simulated seconds pass, then `local`.
//
// Oracle: no panic in any stream handler (simnet OnPanic), in any client call or
// local call made by the world (recover in c37Guard), nor anywhere else (process
// crash = class `crash`, reported by the driver).

import (
	"bytes"
	"context"
	"crypto/sha256"
	"encoding/json"
	"errors"
	"fmt"
	"io"
	"math/big"
	"math/rand"
	"net"
	"net/http"
	"runtime/debug"
	"sort"
	"sync"
	"time"

	"github.com/ethereum/go-ethereum/common"
	"github.com/ethereum/go-ethereum/core/types"
	"github.com/gauss-project/aurorafs/pkg/addressbook"
	"github.com/gauss-project/aurorafs/pkg/aurora"
	"github.com/gauss-project/aurorafs/pkg/boson"
	cipb "github.com/gauss-project/aurorafs/pkg/chunkinfo/pb"
	"github.com/gauss-project/aurorafs/pkg/crypto"
	"github.com/gauss-project/aurorafs/pkg/hive2"
	hivepb "github.com/gauss-project/aurorafs/pkg/hive2/pb"
	"github.com/gauss-project/aurorafs/pkg/multicast"
	mcmodel "github.com/gauss-project/aurorafs/pkg/multicast/model"
	mcpb "github.com/gauss-project/aurorafs/pkg/multicast/pb"
	"github.com/gauss-project/aurorafs/pkg/p2p"
	"github.com/gauss-project/aurorafs/pkg/p2p/libp2p/verifx"
	p2pmock "github.com/gauss-project/aurorafs/pkg/p2p/mock"
	"github.com/gauss-project/aurorafs/pkg/pingpong"
	pingpb "github.com/gauss-project/aurorafs/pkg/pingpong/pb"
	rpb "github.com/gauss-project/aurorafs/pkg/retrieval/pb"
	"github.com/gauss-project/aurorafs/pkg/routetab"
	rtpb "github.com/gauss-project/aurorafs/pkg/routetab/pb"
	"github.com/gauss-project/aurorafs/pkg/sctx"
	"github.com/gauss-project/aurorafs/pkg/settlement/traffic"
	chequePkg "github.com/gauss-project/aurorafs/pkg/settlement/traffic/cheque"
	"github.com/gauss-project/aurorafs/pkg/settlement/traffic/trafficprotocol"
	trpb "github.com/gauss-project/aurorafs/pkg/settlement/traffic/trafficprotocol/pb"
	"github.com/gauss-project/aurorafs/pkg/shed"
	"github.com/gauss-project/aurorafs/pkg/storage"
	"github.com/gauss-project/aurorafs/pkg/topology/bootnode"
	"github.com/gauss-project/aurorafs/pkg/topology/kademlia"
	"github.com/gauss-project/aurorafs/pkg/topology/lightnode"
	"github.com/gauss-project/aurorafs/pkg/tracing"
	libp2pcrypto "github.com/libp2p/go-libp2p-core/crypto"
	"github.com/libp2p/go-libp2p-core/network"
	libp2ppeer "github.com/libp2p/go-libp2p-core/peer"
	ma "github.com/multiformats/go-multiaddr"

	"verifharness/gosim"
	"verifharness/simnet"
)

const (
	c37NetworkID uint64 = 7
	c37ChainID   int64  = 7
)

// ---- identities ----

type c37Ident struct {
	key     []byte
	signer  crypto.Signer
	eth     common.Address
	cheques chequePkg.ChequeSigner
	peerID  libp2ppeer.ID
	under   ma.Multiaddr // full underlay incl. /p2p/<id>
	overlay boson.Address
	record  *aurora.Address
}

func c37NewIdent(seed uint64, idx int, overlay *boson.Address) (*c37Ident, error) {
	h := sha256.Sum256([]byte(fmt.Sprintf("c37-key-%d-%d", seed, idx)))
	key := crypto.Secp256k1PrivateKeyFromBytes(h[:])
	signer := crypto.NewDefaultSigner(key)
	eth, err := signer.EthereumAddress()
	if err != nil {
		return nil, err
	}
	h2 := sha256.Sum256([]byte(fmt.Sprintf("c37-p2p-%d-%d", seed, idx)))
	pk, err := libp2pcrypto.UnmarshalSecp256k1PrivateKey(h2[:])
	if err != nil {
		return nil, err
	}
	pid, err := libp2ppeer.IDFromPrivateKey(pk)
	if err != nil {
		return nil, err
	}
	under, err := ma.NewMultiaddr(fmt.Sprintf("/ip4/10.0.0.%d/tcp/1634/p2p/%s", idx+1, pid.Pretty()))
	if err != nil {
		return nil, err
	}
	id := &c37Ident{key: h[:], signer: signer, eth: eth, cheques: chequePkg.NewChequeSigner(signer, c37ChainID), peerID: pid, under: under}
	if overlay != nil {
		id.overlay = *overlay
	} else {
		id.overlay, err = crypto.NewOverlayAddress(key.PublicKey, c37NetworkID)
		if err != nil {
			return nil, err
		}
	}
	id.record, err = aurora.NewAddress(signer, under, id.overlay, c37NetworkID)
	return id, err
}

func (id *c37Ident) sign(recipient, beneficiary common.Address, cum int64) *chequePkg.SignedCheque {
	c := chequePkg.Cheque{Recipient: recipient, Beneficiary: beneficiary, CumulativePayout: big.NewInt(cum)}
	sig, err := id.cheques.Sign(&c)
	if err != nil {
		panic(err)
	}
	return &chequePkg.SignedCheque{Cheque: c, Signature: sig}
}

// ---- p2p.Service facade over a simnet node ----

type c37P2P struct{ *simnet.Node }

var errC37NotSimulated = errors.New("c37: not simulated")

func (p *c37P2P) CallHandlerWithConnChain(context.Context, p2p.Peer, p2p.Peer, p2p.Stream, string, string, string) error {
	return errC37NotSimulated
}
func (p *c37P2P) CallHandler(context.Context, p2p.Peer, p2p.Stream) (*rtpb.RouteRelayReq, *p2p.WriterChan, *p2p.ReaderChan, bool, error) {
	return nil, nil, nil, false, errC37NotSimulated
}
func (p *c37P2P) Connect(context.Context, ma.Multiaddr) (*p2p.Peer, error) {
	return nil, errC37NotSimulated
}
func (p *c37P2P) PeerID(boson.Address) (libp2ppeer.ID, bool)  { return "", false }
func (p *c37P2P) ResourceManager() network.ResourceManager    { return network.NullResourceManager }
func (p *c37P2P) BlocklistedPeers() ([]p2p.BlockPeers, error) { return nil, nil }
func (p *c37P2P) BlocklistRemove(boson.Address) error         { return nil }
func (p *c37P2P) Addresses() ([]ma.Multiaddr, error)          { return nil, nil }
func (p *c37P2P) NATAddresses() ([]net.Addr, error)           { return nil, nil }
func (p *c37P2P) Halt()                                       {}
func (p *c37P2P) Ping(ctx context.Context, addr ma.Multiaddr) (time.Duration, error) {
	time.Sleep(2 * time.Millisecond)
	return 2 * time.Millisecond, nil
}

var _ p2p.Service = (*c37P2P)(nil)
var _ p2p.StreamerPinger = (*c37P2P)(nil)

type c37Disc struct{}

func (c37Disc) BroadcastPeers(context.Context, boson.Address, ...boson.Address) error { return nil }
func (c37Disc) DoFindNode(context.Context, boson.Address, boson.Address, []int32, int32) (chan boson.Address, error) {
	return nil, errC37NotSimulated
}
func (c37Disc) IsStart() bool                       { return false }
func (c37Disc) IsHive2() bool                       { return true }
func (c37Disc) NotifyDiscoverWork(...boson.Address) {}

// ---- chain / cashout stubs of the traffic service ----

type c37Chain struct{}

func (c37Chain) TransferredAddress(common.Address) ([]common.Address, error) { return nil, nil }
func (c37Chain) RetrievedAddress(common.Address) ([]common.Address, error)   { return nil, nil }
func (c37Chain) BalanceOf(common.Address) (*big.Int, error)                  { return big.NewInt(1000000), nil }
func (c37Chain) RetrievedTotal(common.Address) (*big.Int, error)             { return big.NewInt(0), nil }
func (c37Chain) TransferredTotal(common.Address) (*big.Int, error)           { return big.NewInt(0), nil }
func (c37Chain) TransAmount(common.Address, common.Address) (*big.Int, error) {
	return big.NewInt(0), nil
}
func (c37Chain) CashChequeBeneficiary(context.Context, boson.Address, common.Address, common.Address, *big.Int, []byte) (*types.Transaction, error) {
	return nil, errC37NotSimulated
}

type c37Cashout struct{}

func (c37Cashout) CashCheque(context.Context, boson.Address, common.Address, common.Address) (common.Hash, error) {
	return common.Hash{}, errC37NotSimulated
}
func (c37Cashout) WaitForReceipt(context.Context, common.Hash) (uint64, error) {
	return 0, errC37NotSimulated
}

type c37Resolver struct{}

func (c37Resolver) Resolve(m ma.Multiaddr) (ma.Multiaddr, error) { return m, nil }

// ---- honest node with all protocols ----

type c37Extras struct {
	id      *c37Ident
	p2p     *c37P2P
	book    addressbook.Interface
	kad     *kademlia.Kad
	rt      *routetab.Service
	ping    *pingpong.Service
	hive    *hive2.Service
	tproto  *trafficprotocol.Service
	traffic *traffic.Service
	mc      *multicast.Service
	hs      *verifx.HandshakeService
	cancel  context.CancelFunc
	specs   []p2p.ProtocolSpec
}

type c37Node struct {
	*nkNode
	x *c37Extras
}

type c37File struct {
	id      int
	name    string
	content []byte
	ref     boson.Address
	chunks  []string
	pyramid map[string][]byte // as the uploader's traversal reports it
	pyrKeys []string
}

type c37Stream struct{ proto, version, stream string }

func (s c37Stream) key() string { return s.proto + "/" + s.stream }

type c37Script struct {
	out   [][]byte // raw byte blocks written one Write each
	end   int64    // 0 close, 1 reset, 2 leave open
	what  string
	fired bool
	follow func() // the reply travels on a stream B opens itself
}

type c37World struct {
	r       *gosim.Run
	c       *nkCluster
	h       []*c37Node
	pend    map[int]*c37Extras
	b       *simnet.Node
	bid     *c37Ident
	files   []*c37File
	streams []c37Stream
	mu      sync.Mutex
	scripts map[string]*c37Script
	pool    map[string][]byte
	byzRoot map[string]map[string][]byte // roots B serves -> pyramid
	roots   []boson.Address              // every root ever mentioned (for the local getters)
	addrs   []boson.Address              // address alphabet used in templates
	keep    bool
	gid     boson.Address
	nSettle int
}

const c37HandshakeKey = "handshake/handshake"

var c37FileSizes = []int{300000, 70000, 4096, 31, 262144 + 5, 100}

// panic reporting ------------------------------------------------------------

func (w *c37World) report(where string, v interface{}, stack string) {
	site := c37Site(stack)
	msg := fmt.Sprintf("%s: panic: %v @ %s", where, v, c37Frames2(stack, 6))
	if len(msg) > 900 {
		msg = msg[:900]
	}
	if w.keep {
		w.r.Logf("PANIC(kept going) panic@%s %s", site, msg)
		w.r.Count("kept_panics")
		return
	}
	w.r.Violate("panic@"+site, "%s", msg)
}

// guard runs a world-initiated call into real code; a panic is a violation.
func (w *c37World) guard(where string, f func()) {
	defer func() {
		if v := recover(); v != nil {
			w.report(where, v, string(debug.Stack()))
		}
	}()
	f()
}

// guardT = guard under a simulated-time watchdog (the call may hang: not what C37 is about).
func (w *c37World) guardT(where string, d time.Duration, f func()) {
	done := make(chan struct{})
	go func() {
		defer close(done)
		w.guard(where, f)
	}()
	select {
	case <-done:
	case <-time.After(d):
		w.r.Count("call_abandoned")
		w.r.Logf("%s: abandoned after %v", where, d)
	}
}

// construction ---------------------------------------------------------------

func (w *c37World) routeHook(n *nkNode) routetab.RouteTab {
	id, err := c37NewIdent(w.r.Plan.Seed, n.idx, &n.Addr)
	if err != nil {
		w.r.Violate("setup", "ident: %v", err)
	}
	x := &c37Extras{id: id, p2p: &c37P2P{n.Net}}
	bookSt := n.State // same durable store as the node's other state
	x.book = addressbook.New(bookSt)
	tracer, _, _ := tracing.NewTracer(&tracing.Options{Enabled: false})
	x.ping = pingpong.New(n.Net, n.logger, tracer)
	db, err := shed.NewDB("", nil)
	if err != nil {
		w.r.Violate("setup", "shed: %v", err)
	}
	mode := aurora.NewModel().SetMode(aurora.FullNode)
	x.kad, err = kademlia.New(n.Addr, x.book, c37Disc{}, x.p2p, x.ping, lightnode.NewContainer(n.Addr), bootnode.NewContainer(n.Addr),
		db, n.logger, n.SubPub, kademlia.Options{NodeMode: mode})
	if err != nil {
		w.r.Violate("setup", "kademlia: %v", err)
	}
	ctx, cancel := context.WithCancel(context.Background())
	x.cancel = cancel
	x.rt = routetab.New(n.Addr, ctx, x.p2p, n.Net, x.book, c37NetworkID, lightnode.NewContainer(n.Addr), x.kad, n.State, n.logger, routetab.Options{})
	w.pend[n.idx] = x
	return x.rt
}

// attach adds the remaining protocols to a freshly (re)built kit node.
func (w *c37World) attach(n *nkNode) *c37Node {
	x := w.pend[n.idx]
	delete(w.pend, n.idx)
	mode := aurora.NewModel().SetMode(aurora.FullNode)
	n.Net.SetPickyNotifier(x.kad)
	x.hive = hive2.New(x.p2p, x.book, c37NetworkID, n.logger)
	x.hive.SetConfig(hive2.Config{Kad: x.kad, Base: n.Addr, AllowPrivateCIDRs: true})
	x.hive.SetAddPeersHandler(x.kad.AddPeers)
	x.tproto = trafficprotocol.New(n.Net, n.logger, x.id.eth)
	cs := chequePkg.NewChequeStore(n.State, x.id.eth, chequePkg.RecoverCheque, c37ChainID)
	p2ps := p2pmock.New(p2pmock.WithDisconnectFunc(func(boson.Address, string) error { return nil }))
	x.traffic = traffic.New(n.logger, x.id.eth, n.State, c37Chain{}, cs, c37Cashout{}, p2ps, traffic.NewAddressBook(n.State),
		x.id.cheques, x.tproto, c37ChainID, n.SubPub)
	x.tproto.SetTraffic(x.traffic)
	if err := x.traffic.Init(); err != nil {
		w.r.Violate("setup", "traffic.Init: %v", err)
	}
	x.mc = multicast.NewService(n.Addr, mode, x.p2p, n.Net, x.kad, x.rt, n.logger, n.SubPub, multicast.Option{Dev: true})
	x.mc.Start()
	var err error
	x.hs, err = verifx.NewHandshake(x.id.signer, c37Resolver{}, n.Addr, c37NetworkID, mode, "hello", x.id.peerID, n.logger, lightnode.NewContainer(n.Addr), 10)
	if err != nil {
		w.r.Violate("setup", "handshake: %v", err)
	}
	hsSpec := p2p.ProtocolSpec{Name: verifx.HandshakeProtocolName, Version: verifx.HandshakeProtocolVersion,
		StreamSpecs: []p2p.StreamSpec{{Name: verifx.HandshakeStreamName, Handler: func(ctx context.Context, p p2p.Peer, s p2p.Stream) error {
			// what libp2p.go's handshake stream handler does: Handle with the remote's transport address and peer id
			_, err := x.hs.Handle(ctx, s, w.bid.under.Decapsulate(ma.StringCast("/p2p/"+w.bid.peerID.Pretty())), w.bid.peerID)
			if err != nil {
				_ = s.Reset()
			} else {
				_ = s.FullClose()
			}
			return err
		}}}}
	x.specs = []p2p.ProtocolSpec{n.Retr.Protocol(), n.CI.Protocol(), x.ping.Protocol(), x.hive.Protocol(), x.tproto.Protocol(),
		x.mc.Protocol(), x.rt.Protocol(), hsSpec}
	for _, s := range x.specs[2:] { // retrieval and chunkinfo are added by the kit
		if err := n.Net.AddProtocol(s); err != nil {
			w.r.Violate("setup", "AddProtocol: %v", err)
		}
	}
	return &c37Node{nkNode: n, x: x}
}

func (w *c37World) link(h *c37Node) {
	// B dials H: no ConnectOut on B's side, H's kademlia learns the peer
	if h.Net.IsPeer(w.b.Addr) {
		return
	}
	if err := w.c.Net.Link(w.b, h.Net); err != nil {
		w.r.Logf("link B-H%d failed: %v", h.idx, err)
		return
	}
	mode := aurora.NewModel().SetMode(aurora.FullNode)
	w.guard("kademlia.Connected", func() { h.x.kad.Outbound(p2p.Peer{Address: w.b.Addr, Mode: mode}) })
}

// byzantine endpoint -------------------------------------------------------

// readFrame reads one varint-delimited message (best effort, bounded wait).
func c37ReadFrame(s io.Reader, d time.Duration) []byte {
	type res struct{ b []byte }
	ch := make(chan res, 1)
	go func() {
		var buf []byte
		tmp := make([]byte, 64*1024)
		for {
			if l, n := c37Uvarint(buf); n > 0 && uint64(len(buf)-n) >= l {
				ch <- res{buf[n : n+int(l)]}
				return
			}
			k, err := s.Read(tmp)
			buf = append(buf, tmp[:k]...)
			if err != nil {
				if l, n := c37Uvarint(buf); n > 0 && uint64(len(buf)-n) >= l {
					ch <- res{buf[n : n+int(l)]}
				} else {
					ch <- res{nil}
				}
				return
			}
		}
	}()
	select {
	case r := <-ch:
		return r.b
	case <-time.After(d):
		return nil
	}
}

func c37Uvarint(b []byte) (uint64, int) {
	var x uint64
	var s uint
	for i, c := range b {
		if i == 10 {
			return 0, -1
		}
		if c < 0x80 {
			return x | uint64(c)<<s, i + 1
		}
		x |= uint64(c&0x7f) << s
		s += 7
	}
	return 0, 0
}

func (w *c37World) setScript(key string, sc *c37Script) {
	w.mu.Lock()
	w.scripts[key] = sc
	w.mu.Unlock()
}

func (w *c37World) takeScript(key string) *c37Script {
	w.mu.Lock()
	defer w.mu.Unlock()
	sc := w.scripts[key]
	if sc != nil && !sc.fired {
		sc.fired = true
		delete(w.scripts, key)
		return sc
	}
	return nil
}

func (w *c37World) clearScripts() {
	w.mu.Lock()
	w.scripts = map[string]*c37Script{}
	w.mu.Unlock()
}

func c37WriteAll(s p2p.Stream, blocks [][]byte, end int64) {
	for _, b := range blocks {
		if _, err := s.Write(b); err != nil {
			break
		}
	}
	switch end {
	case 0:
		_ = s.Close()
	case 1:
		time.Sleep(50 * time.Millisecond)
		_ = s.Reset()
	}
}

func c37Frames(bodies ...[]byte) [][]byte {
	var out [][]byte
	for _, b := range bodies {
		out = append(out, c06Frame(b))
	}
	return out
}

func c37Marshal(m interface{ Marshal() ([]byte, error) }) []byte {
	b, err := m.Marshal()
	if err != nil {
		panic(err)
	}
	return b
}

// byzHandler serves one stream name on B.
func (w *c37World) byzHandler(st c37Stream) p2p.HandlerFunc {
	key := st.key()
	return func(ctx context.Context, peer p2p.Peer, s p2p.Stream) error {
		req := c37ReadFrame(s, 2*time.Second)
		w.r.Count("byz_served")
		if sc := w.takeScript(key); sc != nil {
			w.r.Count("fault_reply_" + sc.what)
			w.r.Logf("B serves %s to %s: scripted reply (%s, %d blocks)", key, w.name(peer.Address), sc.what, len(sc.out))
			c37WriteAll(s, sc.out, sc.end)
			if sc.follow != nil {
				go sc.follow()
			}
			return nil
		}
		// default: the well-behaved reply, so that multi-stage client flows reach their later stages
		bodies, follow := w.validReply(key, peer.Address, req)
		if w.r.Plan.P("dbg", 0) == 1 {
			w.r.Logf("B serves %s to %s: default reply (%d bodies, req %d bytes)", key, w.name(peer.Address), len(bodies), len(req))
		}
		c37WriteAll(s, c37Frames(bodies...), 0)
		if follow != nil {
			go follow()
		}
		return nil
	}
}

func (w *c37World) name(a boson.Address) string {
	for _, h := range w.h {
		if h.Addr.Equal(a) {
			return fmt.Sprintf("H%d", h.idx)
		}
	}
	if w.b != nil && w.b.Addr.Equal(a) {
		return "B"
	}
	s := a.String()
	if len(s) > 8 {
		s = s[:8]
	}
	return "?" + s
}

// openFromB: B as a client: opens key on dst and writes blocks.
func (w *c37World) openFromB(dst *c37Node, st c37Stream, blocks [][]byte, end int64, readReply bool) {
	w.link(dst)
	ctx, cancel := context.WithTimeout(context.Background(), 20*time.Second)
	defer cancel()
	s, err := w.b.NewStream(ctx, dst.Addr, nil, st.proto, st.version, st.stream)
	if err != nil {
		w.r.Logf("B -> H%d %s: no stream: %v", dst.idx, st.key(), err)
		return
	}
	w.r.Count("byz_streams")
	for _, b := range blocks {
		if _, err := s.Write(b); err != nil {
			break
		}
	}
	if readReply {
		_ = c37ReadFrame(s, 3*time.Second)
	}
	switch end {
	case 0:
		_ = s.Close()
		_ = c37ReadFrame(s, 2*time.Second)
	case 1:
		_ = s.Reset()
	}
}

// bitvector bytes claiming every chunk.
func c37AllOnes(n int) []byte {
	if n <= 0 {
		n = 1
	}
	b := make([]byte, (n+7)/8)
	for i := range b {
		b[i] = 0xff
	}
	return b
}

// validReply: what a well-behaved peer would answer on B's side.
func (w *c37World) validReply(key string, peer boson.Address, req []byte) (bodies [][]byte, follow func()) {
	switch key {
	case "retrieval/retrieval":
		var m rpb.RequestChunk
		if m.Unmarshal(req) == nil {
			w.mu.Lock()
			d, ok := w.pool[boson.NewAddress(m.ChunkAddr).String()]
			w.mu.Unlock()
			if ok {
				return [][]byte{c37Marshal(&rpb.Delivery{Data: d})}, nil
			}
		}
	case "chunkinfo/chunkpyramid":
		var m cipb.ChunkPyramidReq
		if m.Unmarshal(req) == nil {
			w.mu.Lock()
			pyr := w.byzRoot[boson.NewAddress(m.RootCid).String()]
			w.mu.Unlock()
			if pyr != nil {
				return w.pyramidBodies(pyr), nil
			}
		}
	case "chunkinfo/chunkinforeq":
		var m cipb.ChunkInfoReq
		if m.Unmarshal(req) == nil {
			resp := &cipb.ChunkInfoResp{RootCid: m.RootCid, Target: w.b.Addr.Bytes(), Req: m.Req,
				Presence: map[string][]byte{w.b.Addr.String(): c37AllOnes(w.chunkCount(m.RootCid))}}
			body := c37Marshal(resp)
			return nil, func() {
				if h := w.node(peer); h != nil {
					w.openFromB(h, w.stream("chunkinfo/chunkinforesp"), c37Frames(body), 0, false)
				}
			}
		}
	case "pingpong/pingpong":
		return [][]byte{c37Marshal(&pingpb.Pong{Response: "{hi}"})}, nil
	case "hive2/findNode":
		return [][]byte{c37Marshal(w.tmplPeers())}, nil
	case "multicast/handshake":
		// B claims membership of every group the asking node has joined
		gids := [][]byte{w.gid.Bytes()}
		var m mcpb.GIDs
		if m.Unmarshal(req) == nil {
			for _, g := range m.Gid {
				if !bytes.Equal(g, w.gid.Bytes()) && len(gids) < 16 {
					gids = append(gids, g)
				}
			}
		}
		return [][]byte{c37Marshal(&mcpb.GIDs{Gid: gids})}, nil
	case "multicast/findGroup":
		return [][]byte{c37Marshal(&mcpb.FindGroupResp{Addresses: [][]byte{w.b.Addr.Bytes(), w.addrs[0].Bytes()}})}, nil
	case "router/onFindUnderlay":
		return [][]byte{c37Marshal(&rtpb.UnderlayResp{Dest: w.bid.overlay.Bytes(), Underlay: w.bid.record.Underlay.Bytes(), Signature: w.bid.record.Signature})}, nil
	case "router/onRouteReq":
		var m rtpb.RouteReq
		if m.Unmarshal(req) == nil {
			body := c37Marshal(w.tmplRouteResp(m.Dest))
			return nil, func() {
				if h := w.node(peer); h != nil {
					w.openFromB(h, w.stream("router/onRouteResp"), c37Frames(body), 0, false)
				}
			}
		}
	case "pseudosettle/init":
		if h := w.node(peer); h != nil {
			return [][]byte{c37Marshal(w.tmplCheque(h, 0))}, nil
		}
	case c37HandshakeKey:
		if h := w.node(peer); h != nil {
			return [][]byte{c37Marshal(w.tmplSynAck(h))}, nil
		}
	}
	return nil, nil
}

func (w *c37World) node(a boson.Address) *c37Node {
	for _, h := range w.h {
		if h.Addr.Equal(a) {
			return h
		}
	}
	return nil
}

func (w *c37World) stream(key string) c37Stream {
	for _, s := range w.streams {
		if s.key() == key {
			return s
		}
	}
	w.r.Violate("setup", "unknown stream %s", key)
	return c37Stream{}
}

func (w *c37World) chunkCount(root []byte) int {
	for _, f := range w.files {
		if bytes.Equal(f.ref.Bytes(), root) {
			n := (len(f.content) + 262143) / 262144
			if n < 1 {
				n = 1
			}
			return n
		}
	}
	return 1
}

func (w *c37World) pyramidBodies(pyr map[string][]byte) [][]byte {
	var out [][]byte
	for _, k := range nkSortedKeys(pyr) {
		out = append(out, c37Marshal(&cipb.ChunkPyramidResp{Hash: boson.MustParseHexAddress(k).Bytes(), Chunk: pyr[k]}))
	}
	return append(out, c37Marshal(&cipb.ChunkPyramidResp{Ok: true}))
}

// templates ------------------------------------------------------------------

func (w *c37World) pickAddr(v int64) boson.Address {
	return w.addrs[int(c06Abs(v))%len(w.addrs)]
}

func (w *c37World) pickFile(v int64) *c37File {
	return w.files[int(c06Abs(v))%len(w.files)]
}

func (w *c37World) tmplPeers() *hivepb.Peers {
	ps := &hivepb.Peers{}
	ps.Peers = append(ps.Peers, &hivepb.AuroraAddress{Underlay: w.bid.record.Underlay.Bytes(), Signature: w.bid.record.Signature, Overlay: w.bid.overlay.Bytes()})
	for _, h := range w.h {
		ps.Peers = append(ps.Peers, &hivepb.AuroraAddress{Underlay: h.x.id.record.Underlay.Bytes(), Signature: h.x.id.record.Signature, Overlay: h.Addr.Bytes()})
	}
	return ps
}

func (w *c37World) tmplRouteResp(dest []byte) *rtpb.RouteResp {
	return &rtpb.RouteResp{Dest: dest, UType: 1,
		Paths: []*rtpb.Path{{Sign: c06Keccak([]byte("sig")), Bodys: [][]byte{[]byte("946684800")}, Items: [][]byte{dest, w.addrs[1].Bytes(), w.b.Addr.Bytes()}}},
		UList: []*rtpb.UnderlayResp{{Dest: w.bid.overlay.Bytes(), Underlay: w.bid.record.Underlay.Bytes(), Signature: w.bid.record.Signature}}}
}

func (w *c37World) tmplCheque(h *c37Node, variant int64) *trpb.EmitCheque {
	var sc *chequePkg.SignedCheque
	switch c06Abs(variant) % 4 {
	case 0: // B pays H: signed by B, recipient... as the protocol uses it
		sc = w.bid.sign(h.x.id.eth, w.bid.eth, 1000+variant)
	case 1: // a cheque H once issued to B (what an init reply carries)
		sc = h.x.id.sign(w.bid.eth, h.x.id.eth, 500)
	case 2:
		sc = w.bid.sign(w.bid.eth, h.x.id.eth, 7)
	default:
		sc = &chequePkg.SignedCheque{}
	}
	js, _ := json.Marshal(sc)
	return &trpb.EmitCheque{Address: w.bid.eth.Bytes(), SignedCheque: js}
}

func (w *c37World) tmplSynAck(h *c37Node) *verifx.SynAck {
	return &verifx.SynAck{
		Syn: &verifx.Syn{ObservedUnderlay: h.x.id.under.Bytes()},
		Ack: &verifx.Ack{Address: &verifx.BzzAddress{Underlay: w.bid.record.Underlay.Bytes(), Overlay: w.bid.overlay.Bytes(), Signature: w.bid.record.Signature},
			NetworkID: c37NetworkID, NodeMode: aurora.NewModel().SetMode(aurora.FullNode).Bv.Bytes(), WelcomeMessage: "hi"},
	}
}

// clientTemplate: the message sequence a well-behaved client would write on the stream.
func (w *c37World) clientTemplate(key string, h *c37Node, v int64) [][]byte {
	f := w.pickFile(v)
	if c06Abs(v)%2 == 0 {
		f = w.files[0] // the file with discovery state (queues, bit vectors) on H0
	}
	other := w.pickAddr(v / 7)
	root := f.ref
	if c06Abs(v)%10 == 9 {
		root = other // a root the node has never heard of
	}
	var cid boson.Address = root
	if len(f.chunks) > 0 {
		cid = boson.MustParseHexAddress(f.chunks[int(c06Abs(v/3))%len(f.chunks)])
	}
	self := h.Addr
	tgt := []boson.Address{self, w.b.Addr, other, w.h[(h.idx+1)%len(w.h)].Addr}[int(c06Abs(v/11))%4]
	switch key {
	case "retrieval/retrieval":
		return [][]byte{c37Marshal(&rpb.RequestChunk{TargetAddr: tgt.Bytes(), RootAddr: root.Bytes(), ChunkAddr: cid.Bytes()})}
	case "chunkinfo/chunkinforeq":
		return [][]byte{c37Marshal(&cipb.ChunkInfoReq{RootCid: root.Bytes(), Target: tgt.Bytes(), Req: w.b.Addr.Bytes()})}
	case "chunkinfo/chunkinforesp":
		req := []boson.Address{self, self, self, w.b.Addr, other}[int(c06Abs(v/13))%5]
		pres := map[string][]byte{w.b.Addr.String(): c37AllOnes(w.chunkCount(root.Bytes()))}
		if c06Abs(v)%3 == 1 {
			pres[w.h[(h.idx+1)%len(w.h)].Addr.String()] = c37AllOnes(w.chunkCount(root.Bytes()))
		}
		return [][]byte{c37Marshal(&cipb.ChunkInfoResp{RootCid: root.Bytes(), Target: w.b.Addr.Bytes(), Req: req.Bytes(), Presence: pres})}
	case "chunkinfo/chunkpyramid":
		return [][]byte{c37Marshal(&cipb.ChunkPyramidReq{RootCid: root.Bytes(), Target: tgt.Bytes()})}
	case "pingpong/pingpong":
		return [][]byte{c37Marshal(&pingpb.Ping{Greeting: "hey"}), c37Marshal(&pingpb.Ping{Greeting: "again"})}
	case "hive2/findNode":
		return [][]byte{c37Marshal(&hivepb.FindNodeReq{Target: tgt.Bytes(), Pos: []int32{0, 1, 2, 3, int32(v % 32)}, Limit: int32(c06Abs(v) % 40)})}
	case "pseudosettle/traffic", "pseudosettle/init":
		return [][]byte{c37Marshal(w.tmplCheque(h, v))}
	case "multicast/handshake":
		return [][]byte{c37Marshal(&mcpb.GIDs{Gid: [][]byte{w.gid.Bytes(), other.Bytes()}})}
	case "multicast/findGroup":
		return [][]byte{c37Marshal(&mcpb.FindGroupReq{Gid: w.gid.Bytes(), Limit: int32(1 + c06Abs(v)%5), Ttl: int32(c06Abs(v) % 3), Paths: [][]byte{w.b.Addr.Bytes()}})}
	case "multicast/multicast":
		return [][]byte{c37Marshal(&mcpb.MulticastMsg{Id: uint64(c06Abs(v)), CreateTime: 946684800000, Origin: w.b.Addr.Bytes(), Gid: w.gid.Bytes(), Data: []byte("data")})}
	case "multicast/notify":
		return [][]byte{c37Marshal(&mcpb.Notify{Status: int32(1 + c06Abs(v)%2), Gids: [][]byte{w.gid.Bytes(), other.Bytes()}})}
	case "multicast/message":
		return [][]byte{c37Marshal(&mcpb.GroupMsg{Gid: w.gid.Bytes(), Data: []byte("msg"), Type: int32(c06Abs(v) % 3)})}
	case "router/onRouteReq":
		return [][]byte{c37Marshal(&rtpb.RouteReq{Dest: tgt.Bytes(), Alpha: int32(c06Abs(v) % 4), UType: int32(c06Abs(v) % 2),
			Paths: []*rtpb.Path{{Sign: c06Keccak([]byte("s")), Bodys: [][]byte{[]byte("946684800")}, Items: [][]byte{other.Bytes(), w.b.Addr.Bytes()}}},
			UList: []*rtpb.UnderlayResp{{Dest: w.bid.overlay.Bytes(), Underlay: w.bid.record.Underlay.Bytes(), Signature: w.bid.record.Signature}}})}
	case "router/onRouteResp":
		return [][]byte{c37Marshal(w.tmplRouteResp(other.Bytes()))}
	case "router/onFindUnderlay":
		return [][]byte{c37Marshal(&rtpb.UnderlayReq{Dest: tgt.Bytes()})}
	case "router/relay", "router/relayConnChain":
		return [][]byte{c37Marshal(&rtpb.RouteRelayReq{Src: w.b.Addr.Bytes(), SrcMode: aurora.NewModel().SetMode(aurora.FullNode).Bv.Bytes(), Dest: tgt.Bytes(),
			ProtocolName: []byte("pingpong"), ProtocolVersion: []byte("1.0.0"), StreamName: []byte("pingpong"), Data: c06Frame(c37Marshal(&pingpb.Ping{Greeting: "x"})), Paths: [][]byte{w.b.Addr.Bytes()}})}
	case c37HandshakeKey:
		return [][]byte{c37Marshal(&verifx.Syn{ObservedUnderlay: h.x.id.under.Bytes()}), c37Marshal(w.tmplSynAck(h).Ack)}
	}
	return [][]byte{c37Rand(rand.New(rand.NewSource(v)), 20)}
}

// ops ------------------------------------------------------------------------

func (w *c37World) host(i int64) *c37Node { return w.h[int(c06Abs(i))%len(w.h)] }

func (w *c37World) opInj(o gosim.Op) {
	h := w.host(o.Arg(1))
	st := w.streams[int(c06Abs(o.Arg(2)))%len(w.streams)]
	mode, variant, seed, which, end := o.Arg(3), o.Arg(4), o.Arg(5), o.Arg(6), c06Abs(o.Arg(7))%3
	bodies := w.clientTemplate(st.key(), h, variant)
	var blocks [][]byte
	what := "valid"
	for i, b := range bodies {
		if int64(i) == c06Abs(which)%int64(len(bodies)) {
			enc, wh := c37Encode(c06Abs(mode)%10, seed, b)
			blocks, what = append(blocks, enc), wh
		} else {
			blocks = append(blocks, c06Frame(b))
		}
	}
	w.r.Logf("inj H%d %s variant=%d frame=%d/%d %s end=%d", h.idx, st.key(), variant, c06Abs(which)%int64(len(bodies)), len(bodies), what, end)
	w.r.Count("fault_inj_" + what)
	w.openFromB(h, st, blocks, end, true)
	w.settle(h, w.pickFile(variant).ref, w.files[0].ref, w.pickAddr(variant/7))
}

// settle: >= 30 simulated seconds, then the local consumers of the state.
func (w *c37World) settle(h *c37Node, focus ...boson.Address) {
	time.Sleep(31 * time.Second)
	w.nSettle++
	if w.nSettle%12 == 0 {
		w.localUse(h, false)
		return
	}
	w.localUse(h, false, append(focus, w.addrs[0])...)
}

type c37Call struct {
	name   string
	points []string // reply points on B, in the order the flow reaches them
}

var c37Calls = []c37Call{
	{"retrieve", []string{"retrieval/retrieval", "chunkinfo/chunkpyramid"}},
	{"download", []string{"chunkinfo/chunkpyramid", "chunkinfo/chunkinforeq", "retrieval/retrieval"}},
	{"ping", []string{"pingpong/pingpong"}},
	{"findnode", []string{"hive2/findNode"}},
	{"trafficinit", []string{"pseudosettle/init"}},
	{"mchandshake", []string{"multicast/handshake"}},
	{"mcfind", []string{"multicast/findGroup", "multicast/handshake"}},
	{"findunderlay", []string{"router/onFindUnderlay"}},
	{"findroute", []string{"router/onRouteReq"}},
	{"handshake", []string{c37HandshakeKey}},
}

// replyScript builds the scripted reply of one reply point.
func (w *c37World) replyScript(h *c37Node, point string, f *c37File, mode, variant, seed, which, end int64) *c37Script {
	var bodies [][]byte
	follow := ""
	switch point {
	case "retrieval/retrieval":
		cid := f.chunks[int(c06Abs(variant))%len(f.chunks)]
		w.mu.Lock()
		d := w.pool[cid]
		w.mu.Unlock()
		bodies = [][]byte{c37Marshal(&rpb.Delivery{Data: d})}
	case "chunkinfo/chunkpyramid":
		bodies = w.pyramidBodies(f.pyramid)
	case "chunkinfo/chunkinforeq":
		// the reply travels on a stream B opens: handled by the caller
		follow = "chunkinfo/chunkinforesp"
		bodies = [][]byte{c37Marshal(&cipb.ChunkInfoResp{RootCid: f.ref.Bytes(), Target: w.b.Addr.Bytes(), Req: h.Addr.Bytes(),
			Presence: map[string][]byte{w.b.Addr.String(): c37AllOnes(w.chunkCount(f.ref.Bytes())), w.pickAddr(variant).String(): c37AllOnes(w.chunkCount(f.ref.Bytes()))}})}
	case "router/onRouteReq":
		follow = "router/onRouteResp"
		bodies = [][]byte{c37Marshal(w.tmplRouteResp(w.pickAddr(variant).Bytes()))}
	default:
		bodies, _ = w.validReply(point, h.Addr, nil)
		if point == "pseudosettle/init" {
			bodies = [][]byte{c37Marshal(w.tmplCheque(h, variant))}
		}
	}
	if len(bodies) == 0 {
		bodies = [][]byte{{}}
	}
	sc := &c37Script{end: end}
	idx := int(c06Abs(which)) % len(bodies)
	for i, b := range bodies {
		if i == idx {
			enc, wh := c37Encode(c06Abs(mode)%10, seed, b)
			sc.out, sc.what = append(sc.out, enc), wh
		} else {
			sc.out = append(sc.out, c06Frame(b))
		}
	}
	if follow != "" {
		// B "replies" by opening the response stream itself
		blocks, st := sc.out, w.stream(follow)
		return &c37Script{what: sc.what + "-via-" + st.stream, follow: func() { w.openFromB(h, st, blocks, end, false) }}
	}
	return sc
}

func (w *c37World) opSrv(o gosim.Op) {
	h := w.host(o.Arg(1))
	call := c37Calls[int(c06Abs(o.Arg(2)))%len(c37Calls)]
	point := call.points[int(c06Abs(o.Arg(3)))%len(call.points)]
	mode, variant, seed, which := o.Arg(4), o.Arg(5), o.Arg(6), o.Arg(7)
	// B pretends to own one of the small files
	f := w.files[1+int(c06Abs(variant))%(len(w.files)-1)]
	w.link(h)
	w.clearScripts()
	w.mu.Lock()
	w.byzRoot[f.ref.String()] = f.pyramid
	w.mu.Unlock()
	sc := w.replyScript(h, point, f, mode, variant, seed, which, c06Abs(seed)%3)
	w.setScript(point, sc)
	w.r.Logf("srv H%d call=%s point=%s file=%d %s", h.idx, call.name, point, f.id, sc.what)
	w.doCall(h, call.name, f, variant)
	w.clearScripts()
	w.settle(h, f.ref, w.pickAddr(variant))
}

func (w *c37World) doCall(h *c37Node, call string, f *c37File, variant int64) {
	ctx, cancel := context.WithTimeout(context.Background(), 60*time.Second)
	defer cancel()
	bAddr := w.b.Addr
	switch call {
	case "retrieve":
		w.guardT("DELETE /aurora", 60*time.Second, func() { _ = h.Delete(f.ref) })
		cid := boson.MustParseHexAddress(f.chunks[int(c06Abs(variant))%len(f.chunks)])
		w.guardT("netstore.Get (retrieval from B)", 90*time.Second, func() {
			c := sctx.SetTargets(nkRootCtx(f.ref), bAddr.String())
			c, cancel := context.WithTimeout(c, 60*time.Second)
			defer cancel()
			_, err := h.NS.Get(c, storage.ModeGetRequest, cid)
			w.r.Logf("  retrieve -> err=%v", err)
		})
	case "download":
		// forget the file first, so that the whole flow (pyramid, discovery, retrieval) runs against B
		w.guardT("DELETE /aurora", 60*time.Second, func() { _ = h.Delete(f.ref) })
		w.c.Oracle.set(f.ref, bAddr)
		w.guardT("GET /aurora (download from B)", 120*time.Second, func() {
			code, body := h.Download(f.ref, f.name)
			w.r.Logf("  download -> %d len=%d", code, len(body))
		})
	case "ping":
		w.guardT("pingpong.Ping", 60*time.Second, func() {
			_, err := h.x.ping.Ping(ctx, bAddr, "a", "b")
			w.r.Logf("  ping -> err=%v", err)
		})
	case "findnode":
		w.guardT("hive2.DoFindNode", 60*time.Second, func() {
			res, err := h.x.hive.DoFindNode(ctx, w.pickAddr(variant), bAddr, []int32{0, 1, 2, 3, 4, 5}, 10)
			n := 0
			if err == nil && res != nil {
				for range res {
					n++
				}
			}
			w.r.Logf("  findnode -> peers=%d err=%v", n, err)
		})
	case "trafficinit":
		w.guardT("trafficprotocol init (ConnectOut)", 60*time.Second, func() {
			err := h.x.tproto.Protocol().ConnectOut(ctx, p2p.Peer{Address: bAddr, Mode: aurora.NewModel().SetMode(aurora.FullNode)})
			w.r.Logf("  trafficinit -> err=%v", err)
		})
	case "mchandshake":
		w.guardT("multicast.Handshake", 60*time.Second, func() {
			err := h.x.mc.Handshake(ctx, bAddr)
			w.r.Logf("  mchandshake -> err=%v", err)
		})
	case "mcfind":
		w.guardT("multicast group discovery", 90*time.Second, func() {
			// joining a group: handshakes (B answers that it is a member), then discovery asks the member B
			grp := []mcmodel.ConfigNodeGroup{{Name: fmt.Sprintf("c37g%d", c06Abs(variant)%3), GType: mcmodel.GTypeJoin, KeepConnectedPeers: 3, KeepPingPeers: 3, Nodes: []boson.Address{bAddr}}}
			err := h.x.mc.AddGroup(grp)
			time.Sleep(3 * time.Second)
			grp[0].Nodes = nil
			err2 := h.x.mc.AddGroup(grp)
			time.Sleep(5 * time.Second)
			gid := w.pickAddr(variant)
			err3 := h.x.mc.Multicast(&mcpb.MulticastMsg{Gid: gid.Bytes(), Data: []byte("x")})
			gp, gerr := h.x.mc.GetGroupPeers(grp[0].Name)
			nc, nk := -1, -1
			if gp != nil {
				nc, nk = len(gp.Connected), len(gp.Keep)
			}
			w.r.Logf("  mcfind -> err=%v,%v,%v group peers: connected=%d keep=%d (%v)", err, err2, err3, nc, nk, gerr)
		})
	case "findunderlay":
		w.guardT("routetab.FindUnderlay", 60*time.Second, func() {
			_, err := h.x.rt.FindUnderlay(ctx, bAddr)
			w.r.Logf("  findunderlay -> err=%v", err)
		})
	case "findroute":
		w.guardT("routetab.FindRoute", 60*time.Second, func() {
			_, err := h.x.rt.FindRoute(ctx, w.pickAddr(variant), 5*time.Second)
			w.r.Logf("  findroute -> err=%v", err)
		})
	case "handshake":
		w.guardT("handshake.Handshake", 60*time.Second, func() {
			s, err := h.Net.NewStream(ctx, bAddr, nil, verifx.HandshakeProtocolName, verifx.HandshakeProtocolVersion, verifx.HandshakeStreamName)
			if err != nil {
				w.r.Logf("  handshake -> no stream: %v", err)
				return
			}
			_, err = h.x.hs.Handshake(ctx, s, w.bid.under.Decapsulate(ma.StringCast("/p2p/"+w.bid.peerID.Pretty())), w.bid.peerID)
			_ = s.Reset()
			w.r.Logf("  handshake -> err=%v", err)
		})
	}
}

// crafted pyramids -------------------------------------------------------------

// c37Rehash replaces entry old by data nd and propagates the new address into
// every entry that mentions the old one (manifest nodes, intermediate chunks).
func c37Rehash(pyr map[string][]byte, old string, nd []byte, root string) (out map[string][]byte, newRoot string, ok bool) {
	out = map[string][]byte{}
	for k, v := range pyr {
		out[k] = append([]byte(nil), v...)
	}
	newRoot = root
	cur, data := old, nd
	for step := 0; step < 8; step++ {
		a, valid := c06Address(data)
		if !valid {
			// not hashable (too short/long): keep it under its old address; the receiver must reject it
			out[cur] = data
			return out, newRoot, true
		}
		na := boson.NewAddress(a).String()
		delete(out, cur)
		out[na] = data
		if cur == newRoot {
			return out, na, true
		}
		oldB, newB := boson.MustParseHexAddress(cur).Bytes(), a
		oldHex, newHex := []byte(cur), []byte(na)
		parent := ""
		for _, k := range nkSortedKeys(out) {
			if k == na {
				continue
			}
			if bytes.Contains(out[k], oldB) || bytes.Contains(out[k], oldHex) {
				parent = k
				break
			}
		}
		if parent == "" {
			return out, newRoot, true // orphan: the tree no longer references it
		}
		data = bytes.ReplaceAll(bytes.ReplaceAll(out[parent], oldB, newB), oldHex, newHex)
		cur = parent
	}
	return out, newRoot, false
}

func (w *c37World) opCraft(o gosim.Op) {
	h := w.host(o.Arg(1))
	f := w.pickFile(o.Arg(2))
	kind, seed := c06Abs(o.Arg(3))%12, o.Arg(4)
	rng := rand.New(rand.NewSource(seed))
	keys := f.pyrKeys
	if len(keys) == 0 {
		return
	}
	target := keys[rng.Intn(len(keys))]
	if kind%3 == 0 {
		target = f.ref.String() // the manifest root node itself
	}
	d := append([]byte(nil), f.pyramid[target]...)
	what := ""
	switch kind {
	case 0, 1: // content bytes altered (span kept)
		if len(d) > 8 {
			n := 1 + rng.Intn(4)
			for i := 0; i < n; i++ {
				d[8+rng.Intn(len(d)-8)] ^= byte(1 << uint(rng.Intn(8)))
			}
		}
		what = "content-flip"
	case 2: // span claims more than the payload: the chunk is read as an intermediate chunk
		span := []uint64{uint64(len(d)-8) + 1, 262145, 1 << 20, 1 << 40, 1<<63 - 1, 1 << 63, ^uint64(0)}[rng.Intn(7)]
		c37PutU64(d[:8], span)
		what = fmt.Sprintf("span=%d", span)
	case 3, 4: // payload length not a multiple of the reference size + large span
		c37PutU64(d[:8], uint64(600000+rng.Intn(1<<30)))
		d = append(d[:8], c37Rand(rng, []int{1, 31, 33, 40, 63, 65, 100}[rng.Intn(7)])...)
		what = "odd-intermediate"
	case 5: // payload truncated
		if len(d) > 9 {
			d = d[:8+rng.Intn(len(d)-8)]
		}
		what = "payload-truncated"
	case 6: // span zero
		c37PutU64(d[:8], 0)
		what = "span=0"
	case 7: // empty payload
		d = d[:8]
		what = "empty-payload"
	case 8: // random payload, small span
		d = append(d[:8], c37Rand(rng, 1+rng.Intn(200))...)
		c37PutU64(d[:8], uint64(len(d)-8))
		what = "random-payload"
	case 9: // prefix / fork bytes of a manifest node overwritten with 0xff
		for i := 8; i < len(d) && i < 8+64+rng.Intn(64); i++ {
			if rng.Intn(3) == 0 {
				d[i] = 0xff
			}
		}
		what = "ff-run"
	case 10: // random slice replaced
		if len(d) > 16 {
			at := 8 + rng.Intn(len(d)-8)
			n := rng.Intn(len(d) - at)
			copy(d[at:at+n], c37Rand(rng, n))
		}
		what = "random-slice"
	default: // payload extended with random bytes, span covering it
		d = append(d, c37Rand(rng, 1+rng.Intn(100))...)
		c37PutU64(d[:8], uint64(len(d)-8))
		what = "extended"
	}
	pyr, root, ok := c37Rehash(f.pyramid, target, d, f.ref.String())
	if !ok {
		return
	}
	ra := boson.MustParseHexAddress(root)
	w.mu.Lock()
	w.byzRoot[root] = pyr
	w.roots = append(w.roots, ra)
	w.mu.Unlock()
	w.c.Oracle.set(ra, w.b.Addr)
	w.link(h)
	w.clearScripts()
	w.r.Count("fault_craft_" + what[:c37MinInt(len(what), 5)])
	w.r.Logf("craft H%d file=%d entry=%s.. %s -> root %s (%d entries)", h.idx, f.id, target[:8], what, root[:8], len(pyr))
	w.guardT("GET /aurora (crafted pyramid from B)", 120*time.Second, func() {
		code, body := h.Download(ra, f.name)
		w.r.Logf("  crafted download -> %d len=%d", code, len(body))
	})
	w.guardT("GET /manifest (crafted)", 60*time.Second, func() {
		rec := h.do(http.MethodGet, "/manifest/"+root, nil, nil)
		w.r.Logf("  crafted manifest view -> %d", rec.Code)
	})
	w.settle(h, ra, f.ref)
}

func c37PutU64(b []byte, v uint64) {
	for i := 0; i < 8; i++ {
		b[i] = byte(v >> (8 * uint(i)))
	}
}

func c37MinInt(a, b int) int {
	if a < b {
		return a
	}
	return b
}

// local consumers of peer-created state -----------------------------------------

func (w *c37World) allRoots() []boson.Address {
	w.mu.Lock()
	defer w.mu.Unlock()
	out := append([]boson.Address(nil), w.roots...)
	if len(out) > 24 {
		out = append(out[:8:8], out[len(out)-16:]...)
	}
	return out
}

func (w *c37World) localUse(h *c37Node, full bool, focus ...boson.Address) {
	w.r.Count("probe_local_use")
	ctx, cancel := context.WithTimeout(context.Background(), 30*time.Second)
	defer cancel()
	roots := focus
	if len(roots) == 0 {
		roots = w.allRoots()
	}
	w.guardT("chunkinfo getters", 60*time.Second, func() {
		for _, rt := range roots {
			_ = h.CI.GetChunkInfoServerOverlays(rt)
			_ = h.CI.GetChunkInfoDiscoverOverlays(rt)
			_ = h.CI.IsDiscover(rt)
			_ = h.CI.GetChunkInfoSource(rt)
			_ = h.CI.GetChunkPyramid(rt)
			for _, f := range w.files {
				if f.ref.Equal(rt) && len(f.chunks) > 0 {
					_ = h.CI.GetChunkInfo(rt, boson.MustParseHexAddress(f.chunks[0]))
					_ = h.CI.GetChunkInfo(rt, boson.MustParseHexAddress(f.chunks[len(f.chunks)-1]))
				}
			}
			_ = h.CI.GetChunkInfo(rt, w.addrs[0])
		}
		for _, a := range []boson.Address{h.Addr, w.b.Addr, w.addrs[0]} {
			_, _ = h.CI.GetFileList(a)
		}
	})
	w.guardT("GET /aurora (file list)", 60*time.Second, func() {
		_ = h.do(http.MethodGet, "/aurora?page={\"pageNum\":1,\"pageSize\":20}", nil, nil)
	})
	w.guardT("routetab getters", 60*time.Second, func() {
		for _, a := range w.addrs {
			_, _ = h.x.rt.GetRoute(ctx, a)
			_, _ = h.x.rt.GetTargetNeighbor(ctx, a, 3)
			_ = h.x.rt.IsNeighbor(a)
		}
		_, _ = h.x.rt.GetRoute(ctx, w.b.Addr)
	})
	w.guardT("kademlia / multicast snapshots", 60*time.Second, func() {
		_ = h.x.kad.Snapshot()
		_ = h.x.mc.Snapshot()
		_, _ = h.x.mc.GetGroupPeers("c37group")
		_, _ = h.x.mc.GetOptimumPeer("c37group")
	})
	w.guardT("address book", 60*time.Second, func() {
		_, _ = h.x.book.Overlays()
		_, _ = h.x.book.Addresses()
		for _, a := range append([]boson.Address{w.b.Addr, w.bid.overlay}, w.addrs...) {
			_, _ = h.x.book.Get(a)
		}
	})
	w.guardT("traffic getters", 60*time.Second, func() {
		_, _ = h.x.traffic.TrafficInfo()
		_, _ = h.x.traffic.TrafficCheques()
		_, _ = h.x.traffic.LastReceivedCheque(w.b.Addr)
		_, _ = h.x.traffic.GetPeerBalance(w.b.Addr)
		_, _ = h.x.traffic.GetUnPaidBalance(w.b.Addr)
		_ = h.x.traffic.TrafficInit()
	})
	w.guardT("hive2 serving known peers", 60*time.Second, func() {
		// an honest neighbour asks this node for peers: serves what the byzantine peer made it store
		o := w.h[(h.idx+1)%len(w.h)]
		if o != h && o.Net.IsPeer(h.Addr) {
			res, err := o.x.hive.DoFindNode(ctx, w.b.Addr, h.Addr, []int32{0, 1, 2, 3, 4, 5, 6, 7}, 16)
			if err == nil && res != nil {
				for range res {
				}
			}
		}
	})
	if full {
		w.guardT("localstore dump", 60*time.Second, func() {
			if _, err := h.LS.VerifDump(); err != nil {
				w.r.Logf("dump H%d: %v", h.idx, err)
			}
		})
	}
}

func (w *c37World) opRestart(o gosim.Op) {
	h := w.host(o.Arg(1))
	w.r.Logf("restart H%d", h.idx)
	h.x.cancel()
	var err error
	w.guardT("restart (reload persisted state)", 120*time.Second, func() {
		err = w.c.Restart(h.nkNode, true)
	})
	if err != nil {
		w.r.Violate("restart-failed", "H%d does not come up again over its own persisted state: %v", h.idx, err)
	}
	if w.pend[h.idx] == nil {
		// build did not get as far as the route hook
		w.r.Violate("restart-failed", "H%d restart did not complete", h.idx)
	}
	nn := w.attach(h.nkNode)
	w.h[h.idx] = nn
	w.relinkHonest()
	w.r.Count("probe_restart")
	w.localUse(nn, true)
}

func (w *c37World) relinkHonest() {
	mode := aurora.NewModel().SetMode(aurora.FullNode)
	if len(w.h) == 2 && !w.h[0].Net.IsPeer(w.h[1].Addr) {
		w.guardT("link H0-H1", 60*time.Second, func() {
			if err := w.c.Net.Link(w.h[0].Net, w.h[1].Net); err != nil {
				w.r.Logf("link H0-H1: %v", err)
				return
			}
			w.h[0].x.kad.Outbound(p2p.Peer{Address: w.h[1].Addr, Mode: mode})
			w.h[1].x.kad.Outbound(p2p.Peer{Address: w.h[0].Addr, Mode: mode})
		})
	}
}

func (w *c37World) exec(phase int, o gosim.Op) {
	switch o.K {
	case "inj":
		w.opInj(o)
	case "srv":
		w.opSrv(o)
	case "craft":
		w.opCraft(o)
	case "dl":
		h := w.host(o.Arg(1))
		f := w.pickFile(o.Arg(2))
		w.relinkHonest()
		w.c.Oracle.set(f.ref, w.h[1].Addr)
		w.guardT("GET /aurora (honest download)", 120*time.Second, func() {
			code, body := h.Download(f.ref, f.name)
			w.r.Logf("dl H%d file=%d -> %d len=%d", h.idx, f.id, code, len(body))
			if code == 200 && len(body) == len(f.content) {
				w.r.Count("probe_honest_download")
			}
		})
	case "local":
		w.localUse(w.host(o.Arg(1)), true)
	case "restart":
		w.opRestart(o)
	case "sleep":
		time.Sleep(time.Duration(c06Abs(o.Arg(1))%600000) * time.Millisecond)
	}
}

func c37Exec(r *gosim.Run) {
	w := &c37World{r: r, pend: map[int]*c37Extras{}, scripts: map[string]*c37Script{}, pool: map[string][]byte{},
		byzRoot: map[string]map[string][]byte{}, keep: r.Plan.P("keep_going", 0) == 1}
	w.c = nkNewCluster(r)
	c37WatchRun.Store(r)
	// process-global caches of the two packages: deterministic, simulated-time replacements
	multicast.VerifSetCache(c37NewCache())
	routetab.VerifSetCache(c37NewCache())
	w.c.Net.OnPanic = func(node boson.Address, proto string, v interface{}) {
		w.report(fmt.Sprintf("stream handler %s on %s", proto, w.name(node)), v, string(debug.Stack()))
	}
	if r.Plan.P("dbg", 0) == 2 {
		w.c.Net.Tap = func(f *simnet.Frame) {
			r.Logf("tap %s->%s %s/%s dir=%d %d bytes", w.name(f.From), w.name(f.To), f.Protocol, f.Stream, f.Dir, len(f.Data))
		}
	}
	var err error
	w.bid, err = c37NewIdent(r.Plan.Seed, 9, nil)
	if err != nil {
		r.Violate("setup", "%v", err)
	}
	for i := 0; i < 8; i++ {
		h := sha256.Sum256([]byte(fmt.Sprintf("c37-addr-%d", i)))
		w.addrs = append(w.addrs, boson.NewAddress(h[:]))
	}
	w.addrs = append(w.addrs, boson.NewAddress([]byte{1, 2, 3}), boson.NewAddress(nil), boson.NewAddress(make([]byte, 64)))
	w.gid = multicast.GenerateGID("c37group")
	for i := 0; i < 2; i++ {
		o := nkOpts{Capacity: 500, Persistent: true}
		o.Route = w.routeHook
		o.WrapStorer = func(n *nkNode, s storage.Storer) storage.Storer { return &c37Storer{Storer: s, w: w} }
		n, err := w.c.AddNode(o)
		if err != nil {
			r.Violate("setup", "%v", err)
		}
		w.h = append(w.h, w.attach(n))
	}
	// stream alphabet = everything an honest node serves
	for _, sp := range w.h[0].x.specs {
		for _, ss := range sp.StreamSpecs {
			w.streams = append(w.streams, c37Stream{sp.Name, sp.Version, ss.Name})
		}
	}
	r.Add("c37_streams", int64(len(w.streams)))
	// B serves all of them
	w.b = w.c.Net.AddNode(w.bid.overlay, aurora.NewModel().SetMode(aurora.FullNode))
	byProto := map[string]*p2p.ProtocolSpec{}
	var order []string
	for _, st := range w.streams {
		k := st.proto + "/" + st.version
		if byProto[k] == nil {
			byProto[k] = &p2p.ProtocolSpec{Name: st.proto, Version: st.version}
			order = append(order, k)
		}
		byProto[k].StreamSpecs = append(byProto[k].StreamSpecs, p2p.StreamSpec{Name: st.stream, Handler: w.byzHandler(st)})
	}
	for _, k := range order {
		_ = w.b.AddProtocol(*byProto[k])
	}
	w.addrs = append(w.addrs, w.b.Addr, w.h[0].Addr, w.h[1].Addr)

	// ---- normal traffic first ----
	w.relinkHonest()
	for i, size := range c37FileSizes {
		f := &c37File{id: i, name: fmt.Sprintf("f%d.bin", i), content: c06Content(int64(100+i), size)}
		p := w.h[1]
		p.Rec.start()
		f.ref, err = p.Upload(f.name, f.content, i == 2)
		f.chunks = p.Rec.stop()
		if err != nil {
			r.Violate("setup", "upload: %v", err)
		}
		f.pyramid, err = p.Trav.GetPyramid(context.Background(), f.ref)
		if err != nil {
			r.Violate("setup", "GetPyramid: %v", err)
		}
		f.pyrKeys = nkSortedKeys(f.pyramid)
		w.files = append(w.files, f)
		w.roots = append(w.roots, f.ref)
		w.c.Oracle.set(f.ref, p.Addr)
	}
	w.roots = append(w.roots, w.addrs[0], w.addrs[8], w.addrs[9])
	w.guardT("honest download", 120*time.Second, func() {
		code, body := w.h[0].Download(w.files[0].ref, w.files[0].name)
		r.Logf("setup: H0 downloads file 0 from H1 -> %d len=%d", code, len(body))
		if code != 200 || !bytes.Equal(body, w.files[0].content) {
			r.Violate("setup", "honest download failed: %d", code)
		}
	})
	w.guardT("honest ping", 60*time.Second, func() {
		_, err := w.h[0].x.ping.Ping(context.Background(), w.h[1].Addr, "hello")
		r.Logf("setup: ping H0->H1 err=%v", err)
	})
	for _, h := range w.h {
		h := h
		w.link(h)
		_ = h.x.mc.AddGroup([]mcmodel.ConfigNodeGroup{{Name: "c37group", GType: mcmodel.GTypeJoin, KeepConnectedPeers: 2, KeepPingPeers: 2}})
		// B becomes a known traffic peer with a valid last cheque (well-behaved so far)
		w.openFromB(h, w.stream("pseudosettle/init"), c37Frames(c37Marshal(&trpb.EmitCheque{Address: w.bid.eth.Bytes(), SignedCheque: []byte("{}")})), 0, true)
		w.openFromB(h, w.stream("pseudosettle/traffic"), c37Frames(c37Marshal(w.tmplCheque(h, 0))), 0, true)
		w.guard("setup LastReceivedCheque", func() {
			c, err := h.x.traffic.LastReceivedCheque(w.b.Addr)
			r.Logf("setup: H%d last cheque from B: %v err=%v", h.idx, c != nil, err)
			if c != nil {
				r.Count("probe_cheque_accepted")
			}
		})
	}
	time.Sleep(2 * time.Second)

	r.RunPhases(r.Plan.Ops, w.exec, nil)
	time.Sleep(65 * time.Second) // route-table gc tick, multicast keep-ping tick
	for _, h := range w.h {
		w.localUse(h, true)
	}
	gosim.Idle()
}

// c37Storer feeds the pool of real chunks B can serve.
type c37Storer struct {
	storage.Storer
	w *c37World
}

func (s *c37Storer) Put(ctx context.Context, mode storage.ModePut, chs ...boson.Chunk) ([]bool, error) {
	s.w.mu.Lock()
	for _, ch := range chs {
		if _, ok := s.w.pool[ch.Address().String()]; !ok {
			s.w.pool[ch.Address().String()] = append([]byte(nil), ch.Data()...)
		}
	}
	s.w.mu.Unlock()
	return s.Storer.Put(ctx, mode, chs...)
}

func c37Gen(rng *rand.Rand, tier string) *gosim.Plan {
	p := &gosim.Plan{Params: map[string]int64{}}
	n := 120 + rng.Intn(80)
	if tier == "thorough" {
		n = 500 + rng.Intn(500)
	}
	for i := 0; i < n; i++ {
		h := int64(rng.Intn(2))
		if rng.Intn(4) > 0 {
			h = 0
		}
		seed := rng.Int63n(1 << 40)
		switch x := rng.Intn(100); {
		case x < 50:
			mode := int64(1)
			if rng.Intn(10) < 3 {
				mode = int64(rng.Intn(10))
			}
			p.Ops = append(p.Ops, gosim.Op{K: "inj", A: []int64{0, h, int64(rng.Intn(64)), mode, int64(rng.Intn(1000)), seed, int64(rng.Intn(3)), int64(rng.Intn(3))}})
		case x < 80:
			mode := int64(1)
			if rng.Intn(10) < 3 {
				mode = int64(rng.Intn(10))
			}
			p.Ops = append(p.Ops, gosim.Op{K: "srv", A: []int64{0, h, int64(rng.Intn(len(c37Calls))), int64(rng.Intn(3)), mode, int64(rng.Intn(1000)), seed, int64(rng.Intn(8))}})
		case x < 86:
			p.Ops = append(p.Ops, gosim.Op{K: "craft", A: []int64{0, h, int64(rng.Intn(len(c37FileSizes))), int64(rng.Intn(12)), seed}})
		case x < 94:
			p.Ops = append(p.Ops, gosim.Op{K: "dl", A: []int64{0, 0, int64(rng.Intn(len(c37FileSizes)))}})
		case x < 96:
			p.Ops = append(p.Ops, gosim.Op{K: "restart", A: []int64{0, h}})
		default:
			p.Ops = append(p.Ops, gosim.Op{K: "sleep", A: []int64{0, int64(rng.Intn(120000))}})
		}
	}
	return p
}

func init() {
	gosim.Register(&gosim.World{
		Prop: "C37", Gen: c37Gen, Exec: c37Exec,
		Native: []string{"github.com/gauss-project/aurorafs/pkg/bmt."},
		Real: []string{"pkg/retrieval", "pkg/chunkinfo", "pkg/traversal", "pkg/netstore", "pkg/localstore", "pkg/api", "pkg/file/joiner, pkg/manifest (+ gauss-project/manifest/mantaray)",
			"pkg/pingpong", "pkg/hive2", "pkg/topology/kademlia (no manage loop)", "pkg/addressbook", "pkg/settlement/traffic (+ cheque store, trafficprotocol)",
			"pkg/multicast", "pkg/routetab (service + table)", "pkg/p2p/libp2p/internal/handshake (via verifx)", "pkg/p2p/protobuf"},
		Stubs: []string{"simnet (libp2p host; relay layer CallHandler not simulated)", "byzantine endpoint B (world code)", "chain.Traffic / cashout (constant answers)", "chain resolver (scripted)", "accounting (accepts all)", "kademlia discovery driver (off)"},
	})
}

var _ = sort.Strings
