package worlds

// Shared W-TOPO pieces for C22 / C23 / C24: overlay-address alphabet, scripted
// p2p service, discovery / pinger stubs and the constructor of a real Kad.

import (
	"context"
	"crypto/sha256"
	"encoding/binary"
	"errors"
	"fmt"
	"io"
	"math/big"
	"net"
	"reflect"
	"sort"
	"sync"
	"time"

	"github.com/gauss-project/aurorafs/pkg/addressbook"
	"github.com/gauss-project/aurorafs/pkg/aurora"
	"github.com/gauss-project/aurorafs/pkg/boson"
	"github.com/gauss-project/aurorafs/pkg/logging"
	"github.com/gauss-project/aurorafs/pkg/p2p"
	"github.com/gauss-project/aurorafs/pkg/shed"
	statemock "github.com/gauss-project/aurorafs/pkg/statestore/mock"
	"github.com/gauss-project/aurorafs/pkg/subscribe"
	"github.com/gauss-project/aurorafs/pkg/topology"
	"github.com/gauss-project/aurorafs/pkg/topology/kademlia"
	"github.com/gauss-project/aurorafs/pkg/topology/pslice"
	"github.com/libp2p/go-libp2p-core/network"
	libp2ppeer "github.com/libp2p/go-libp2p-core/peer"
	ma "github.com/multiformats/go-multiaddr"

	"verifharness/gosim"
)

// ---- peer alphabet ----
//
// Peer id = bin*c24PerBin + j (bin 0..31, j < c24PerBin): the overlay shares
// exactly `bin` leading bits with the base address (bin 31: 31 or more).
// Ids >= c24BootBase are "boot-node addresses" with a hashed overlay.

const (
	c24PerBin   = 16
	c24MaxID    = 32 * c24PerBin
	c24BootBase = 1000
)

func c24Hash(parts ...int64) []byte {
	h := sha256.New()
	var b [8]byte
	for _, p := range parts {
		binary.BigEndian.PutUint64(b[:], uint64(p))
		h.Write(b[:])
	}
	return h.Sum(nil)
}

func c24FlipBit(b []byte, bit int) { b[bit/8] ^= 0x80 >> uint(bit%8) }

type c24Alphabet struct {
	seed int64
	base boson.Address
	mu   sync.Mutex
	memo map[int]boson.Address
	ids  map[string]int
}

func c24NewAlphabet(seed int64) *c24Alphabet {
	return &c24Alphabet{seed: seed, base: boson.NewAddress(c24Hash(seed, -1)), memo: map[int]boson.Address{}, ids: map[string]int{}}
}

// validID reports whether the id names a peer of the alphabet.
func (a *c24Alphabet) validID(id int64) bool {
	return (id >= 0 && id < c24MaxID) || (id >= c24BootBase && id < c24BootBase+8)
}

func (a *c24Alphabet) addr(id int) boson.Address {
	a.mu.Lock()
	defer a.mu.Unlock()
	if x, ok := a.memo[id]; ok {
		return x
	}
	rnd := c24Hash(a.seed, int64(id))
	var out []byte
	if id >= c24BootBase {
		out = rnd
		if boson.NewAddress(out).Equal(a.base) {
			out[31] ^= 1
		}
	} else {
		bin := id / c24PerBin
		j := id % c24PerBin
		out = append([]byte(nil), a.base.Bytes()...)
		flip := bin
		if bin == 31 && j%2 == 1 {
			flip = 32 + j%5 // shares more than 31 bits: still the last bin
		}
		// bits after `flip` are random
		for bit := flip + 1; bit < 256; bit++ {
			if rnd[bit/8]&(0x80>>uint(bit%8)) != 0 {
				c24FlipBit(out, bit)
			}
		}
		c24FlipBit(out, flip)
	}
	x := boson.NewAddress(out)
	a.memo[id] = x
	a.ids[x.ByteString()] = id
	return x
}

// bin is the proximity bin of a peer by construction of the alphabet.
func (a *c24Alphabet) bin(id int) int {
	if id < c24MaxID {
		return id / c24PerBin
	}
	return int(boson.Proximity(a.base.Bytes(), a.addr(id).Bytes()))
}

func (a *c24Alphabet) idOf(x boson.Address) (int, bool) {
	a.mu.Lock()
	defer a.mu.Unlock()
	id, ok := a.ids[x.ByteString()]
	return id, ok
}

func (a *c24Alphabet) name(x boson.Address) string {
	if x.Equal(a.base) {
		return "self"
	}
	if id, ok := a.idOf(x); ok {
		return fmt.Sprintf("p%d", id)
	}
	if len(x.Bytes()) >= 4 {
		return fmt.Sprintf("?%x", x.Bytes()[:4])
	}
	return "?"
}

func (a *c24Alphabet) underlay(id int) ma.Multiaddr {
	m, err := ma.NewMultiaddr(fmt.Sprintf("/ip4/10.%d.%d.1/tcp/1634", id>>8, id&255))
	if err != nil {
		panic(err)
	}
	return m
}

func c24Dist(x, y boson.Address) *big.Int {
	xb, yb := x.Bytes(), y.Bytes()
	d := make([]byte, len(xb))
	for i := range xb {
		d[i] = xb[i] ^ yb[i]
	}
	return new(big.Int).SetBytes(d)
}

// ---- node modes ----

const (
	c24ModeFull  = 0
	c24ModeBoot  = 1
	c24ModeLight = 2
)

func c24Model(mode int) aurora.Model {
	m := aurora.NewModel()
	switch mode {
	case c24ModeFull:
		m.SetMode(aurora.FullNode)
	case c24ModeBoot:
		m.SetMode(aurora.FullNode)
		m.SetMode(aurora.BootNode)
	}
	return m
}

// ---- scripted p2p service ----

// dial behaviours
const (
	c24DialOK = iota
	c24DialFail
	c24DialNetErr
	c24DialLight
	c24DialBoot
	c24DialMismatch
	c24DialBackoff
	c24DialBlocklisted
	c24DialHang
	c24DialCanceled
	c24NDial
)

// reason string of harness-issued DisconnectForce calls (debug API)
const c24UserDisconnect = "user requested disconnect"

// reason string of the p2p layer closing an inbound connection the notifier refused
const c24Refused = "notifier refused"

type c24Script struct {
	beh   int
	latMs int64
}

type c24Conn struct {
	mode     int
	outbound bool
}

type c24P2P struct {
	p2p.Service // unscripted methods are not expected to be called (nil: crash)

	r  *gosim.Run
	al *c24Alphabet
	ab addressbook.Interface

	mu        sync.Mutex
	notifier  *kademlia.Kad
	reg       map[int]*c24Conn
	script    map[int]c24Script
	byUnder   map[string]int
	blocked   map[int]time.Time   // zero time = forever
	netDown   bool                // environment: dials end with "network unreachable"
	status    p2p.NetworkStatus   // derived from dial outcomes exactly as libp2p does
	busy      map[int]bool        // peers with open streams (not prunable)
	peerMus   map[int]*sync.Mutex // registry changes and notifications about one peer are ordered
	gen       map[int]int         // number of connections ever registered per peer
	forceRace map[int]bool        // a new connection appeared while DisconnectForce of the peer was running
	failLive  map[int]bool        // a dial to the peer failed while the peer was connected
	seq       int
	endSeq    map[int]int // when the last connection of the peer ended for an outside reason (no connection since)
	outSeq    map[int]int // when the topology last completed Outbound for the peer
}

// The topology publishes its own bookkeeping ("peer state"): the stub listens
// to learn when Outbound completed for a peer.
type c24StateSink struct {
	s    *c24P2P
	errc chan error
}

func (n *c24StateSink) Err() <-chan error { return n.errc }
func (n *c24StateSink) Notify(key string, data interface{}) error {
	info, ok := data.(p2p.PeerInfo)
	if !ok || info.State != p2p.PeerStateConnectOut {
		return nil
	}
	if id, ok := n.s.al.idOf(info.Overlay); ok {
		n.s.mu.Lock()
		n.s.seq++
		n.s.outSeq[id] = n.s.seq
		n.s.mu.Unlock()
	}
	return nil
}

// noteEnded is called when the connection of peer id ends for a reason outside
// the topology (remote close, user request), at the moment the registry entry
// is deleted. If an Outbound for the peer completes after this moment without
// a new connection, the topology has booked a connection that was over.
// Callers hold s.mu.
func (s *c24P2P) noteEnded(id int) {
	s.seq++
	s.endSeq[id] = s.seq
}

// outboundAfterEnd: Outbound(id) completed after the last connection of id had ended.
func (s *c24P2P) outboundAfterEnd(id int) bool {
	s.mu.Lock()
	defer s.mu.Unlock()
	e, ok := s.endSeq[id]
	return ok && s.outSeq[id] > e
}

func c24NewP2P(r *gosim.Run, al *c24Alphabet, ab addressbook.Interface) *c24P2P {
	return &c24P2P{r: r, al: al, ab: ab, reg: map[int]*c24Conn{}, script: map[int]c24Script{},
		byUnder: map[string]int{}, blocked: map[int]time.Time{}, busy: map[int]bool{}, endSeq: map[int]int{}, outSeq: map[int]int{}, failLive: map[int]bool{}, gen: map[int]int{}, forceRace: map[int]bool{}, peerMus: map[int]*sync.Mutex{}}
}

func (s *c24P2P) peerMu(id int) *sync.Mutex {
	s.mu.Lock()
	defer s.mu.Unlock()
	m := s.peerMus[id]
	if m == nil {
		m = &sync.Mutex{}
		s.peerMus[id] = m
	}
	return m
}

func (s *c24P2P) knowUnderlay(id int) ma.Multiaddr {
	u := s.al.underlay(id)
	s.mu.Lock()
	s.byUnder[u.String()] = id
	s.mu.Unlock()
	return u
}

func (s *c24P2P) peer(id int, mode int) p2p.Peer {
	return p2p.Peer{Address: s.al.addr(id), Mode: c24Model(mode)}
}

func (s *c24P2P) isBlocked(id int) bool {
	until, ok := s.blocked[id]
	if !ok {
		return false
	}
	if until.IsZero() || time.Now().Before(until) {
		return true
	}
	delete(s.blocked, id)
	return false
}

// live returns the registry (peer id -> connection) as a copy.
func (s *c24P2P) live() map[int]c24Conn {
	s.mu.Lock()
	defer s.mu.Unlock()
	out := map[int]c24Conn{}
	for id, c := range s.reg {
		out[id] = *c
	}
	return out
}

func (s *c24P2P) has(id int) bool {
	s.mu.Lock()
	defer s.mu.Unlock()
	return s.reg[id] != nil
}

func (s *c24P2P) Connect(ctx context.Context, addr ma.Multiaddr) (*p2p.Peer, error) {
	s.mu.Lock()
	id, ok := s.byUnder[addr.String()]
	if !ok {
		s.mu.Unlock()
		return nil, errors.New("c24: unknown underlay")
	}
	if c := s.reg[id]; c != nil {
		mode := c.mode
		s.mu.Unlock()
		s.r.Count("probe_dial_already_connected")
		s.r.Logf("dial p%d -> already connected", id)
		p := s.peer(id, mode)
		return &p, p2p.ErrAlreadyConnected
	}
	sc := s.script[id]
	down := s.netDown
	s.mu.Unlock()
	s.r.Count("dials")
	if down {
		s.r.Count("fault_network_down_dial")
		s.r.Logf("dial p%d -> network unavailable", id)
		s.mu.Lock()
		s.status = p2p.NetworkStatusUnavailable
		s.mu.Unlock()
		return nil, p2p.ErrNetworkUnavailable
	}
	failed := func() { // any other failure: libp2p forgets "available"
		s.mu.Lock()
		if s.status != p2p.NetworkStatusUnavailable {
			s.status = p2p.NetworkStatusUnknown
		}
		if s.reg[id] != nil {
			s.failLive[id] = true
			s.r.Count("probe_dial_failed_while_connected")
		}
		s.mu.Unlock()
	}
	if sc.beh == c24DialHang {
		s.r.Count("fault_dial_hang")
		<-ctx.Done()
		s.r.Logf("dial p%d -> hung until %v", id, ctx.Err())
		failed()
		return nil, ctx.Err()
	}
	if sc.latMs > 0 {
		select {
		case <-time.After(time.Duration(sc.latMs) * time.Millisecond):
		case <-ctx.Done():
			s.r.Logf("dial p%d -> ctx %v", id, ctx.Err())
			failed()
			return nil, ctx.Err()
		}
	}
	mode := c24ModeFull
	switch sc.beh {
	case c24DialFail:
		s.r.Count("fault_dial_fail")
		s.r.Logf("dial p%d -> fail", id)
		failed()
		return nil, errors.New("c24: dial failed")
	case c24DialNetErr:
		s.r.Count("fault_dial_neterr")
		s.r.Logf("dial p%d -> net error", id)
		failed()
		return nil, &net.OpError{Op: "dial", Net: "tcp", Err: errors.New("c24: connection refused")}
	case c24DialLight:
		if s.has(id) {
			break // it connected inbound as a full node meanwhile: it is one
		}
		s.r.Count("fault_dial_light")
		s.r.Logf("dial p%d -> light node", id)
		failed()
		return nil, p2p.ErrDialLightNode
	case c24DialBackoff:
		s.r.Count("fault_dial_backoff")
		s.r.Logf("dial p%d -> backoff", id)
		failed()
		return nil, p2p.NewConnectionBackoffError(errors.New("c24: breaker closed"), time.Now().Add(45*time.Second))
	case c24DialBlocklisted:
		s.r.Count("fault_dial_blocklisted")
		s.r.Logf("dial p%d -> blocklisted", id)
		failed()
		return nil, p2p.ErrPeerBlocklisted
	case c24DialCanceled:
		s.r.Count("fault_dial_canceled")
		s.r.Logf("dial p%d -> canceled", id)
		failed()
		return nil, context.Canceled
	case c24DialBoot:
		mode = c24ModeBoot
	case c24DialMismatch:
		// the peer behind the underlay turns out to have another overlay
		other := id ^ 1
		if id >= c24BootBase {
			other = c24BootBase + (id - c24BootBase) ^ 1
		}
		s.r.Count("fault_dial_overlay_mismatch")
		s.r.Logf("dial p%d -> answers as p%d", id, other)
		id = other
	}
	pm := s.peerMu(id)
	pm.Lock()
	defer pm.Unlock()
	s.mu.Lock()
	if s.isBlocked(id) {
		s.mu.Unlock()
		s.r.Count("probe_dial_blocklisted")
		s.r.Logf("dial p%d -> on blocklist", id)
		failed()
		return nil, p2p.ErrPeerBlocklisted
	}
	if c := s.reg[id]; c != nil {
		// connected meanwhile (inbound while dialling)
		m := c.mode
		s.status = p2p.NetworkStatusAvailable
		s.mu.Unlock()
		s.r.Count("probe_dial_raced_inbound")
		s.r.Logf("dial p%d -> ok (exists)", id)
		p := s.peer(id, m)
		return &p, nil
	}
	s.reg[id] = &c24Conn{mode: mode, outbound: true}
	s.gen[id]++
	delete(s.endSeq, id)
	s.status = p2p.NetworkStatusAvailable
	s.mu.Unlock()
	if mode != c24ModeLight {
		_ = s.ab.Put(s.al.addr(id), aurora.Address{Underlay: s.al.underlay(id), Overlay: s.al.addr(id), Signature: []byte{1}})
	}
	s.r.Count("probe_dial_ok")
	s.r.Logf("dial p%d -> ok mode=%d", id, mode)
	p := s.peer(id, mode)
	return &p, nil
}

// Disconnect mirrors libp2p: unknown peers give ErrPeerNotFound, otherwise the
// registry entry goes and the topology is notified.
func (s *c24P2P) Disconnect(overlay boson.Address, reason string) error {
	id, ok := s.al.idOf(overlay)
	s.mu.Lock()
	var c *c24Conn
	if ok {
		c = s.reg[id]
		delete(s.reg, id)
		if c != nil && (reason == c24UserDisconnect || reason == c24Refused || reason == "overlay mismatch") {
			// requested by the user, or by another dial that found the peer
			// behind a different underlay: for the dial that made this
			// connection it is like a remote close
			s.noteEnded(id)
		}
	}
	n := s.notifier
	s.mu.Unlock()
	if c == nil {
		s.r.Logf("p2p.Disconnect %s -> not found (%s)", s.al.name(overlay), reason)
		return p2p.ErrPeerNotFound
	}
	s.r.Logf("p2p.Disconnect p%d (%s)", id, reason)
	if reason == "pruned from oversaturated bin" {
		s.r.Count("probe_pruned")
	}
	if n != nil {
		n.Disconnected(p2p.Peer{Address: overlay, Mode: c24Model(c.mode)}, reason)
	}
	return nil
}

func (s *c24P2P) Blocklist(overlay boson.Address, d time.Duration, reason string) error {
	id, ok := s.al.idOf(overlay)
	if !ok {
		return nil
	}
	s.mu.Lock()
	if d == 0 {
		s.blocked[id] = time.Time{}
	} else {
		s.blocked[id] = time.Now().Add(d)
	}
	s.mu.Unlock()
	s.r.Count("probe_blocklisted")
	s.r.Logf("p2p.Blocklist p%d %v (%s)", id, d, reason)
	_ = s.Disconnect(overlay, reason)
	return nil
}

func (s *c24P2P) NetworkStatus() p2p.NetworkStatus {
	s.mu.Lock()
	defer s.mu.Unlock()
	return s.status
}

func (s *c24P2P) PeerID(overlay boson.Address) (libp2ppeer.ID, bool) {
	id, ok := s.al.idOf(overlay)
	if !ok {
		return "", false
	}
	s.mu.Lock()
	defer s.mu.Unlock()
	if s.reg[id] == nil {
		return "", false
	}
	return libp2ppeer.ID(fmt.Sprintf("peer-%d", id)), true
}

type c24RM struct {
	network.ResourceManager
	s *c24P2P
}

type c24Scope struct {
	network.PeerScope
	streams int
}

func (c c24Scope) Stat() network.ScopeStat { return network.ScopeStat{NumStreamsInbound: c.streams} }

func (m c24RM) ViewPeer(p libp2ppeer.ID, f func(network.PeerScope) error) error {
	var id int
	_, _ = fmt.Sscanf(string(p), "peer-%d", &id)
	m.s.mu.Lock()
	n := 0
	if m.s.busy[id] {
		n = 1
	}
	m.s.mu.Unlock()
	return f(c24Scope{PeerScope: network.NullScope, streams: n})
}

func (s *c24P2P) ResourceManager() network.ResourceManager {
	return c24RM{ResourceManager: network.NullResourceManager, s: s}
}

func (s *c24P2P) Halt() {}

// ---- discovery and pinger ----

type c24Disc struct {
	r       *gosim.Run
	al      *c24Alphabet
	started bool
	mu      sync.Mutex
	failTo  map[int]bool // broadcasts to these addressees fail
}

func (d *c24Disc) BroadcastPeers(ctx context.Context, addressee boson.Address, peers ...boson.Address) error {
	id, ok := d.al.idOf(addressee)
	d.mu.Lock()
	fail := ok && d.failTo[id]
	d.mu.Unlock()
	if fail {
		d.r.Count("fault_broadcast_fail")
		return errors.New("c24: broadcast failed")
	}
	return nil
}
func (d *c24Disc) DoFindNode(ctx context.Context, target, peer boson.Address, pos []int32, limit int32) (chan boson.Address, error) {
	return nil, errors.New("c24: no find-node")
}
func (d *c24Disc) IsStart() bool                             { return d.started }
func (d *c24Disc) IsHive2() bool                             { return false }
func (d *c24Disc) NotifyDiscoverWork(peers ...boson.Address) {}

type c24Pinger struct {
	al   *c24Alphabet
	mu   sync.Mutex
	fail map[int]bool
}

func (p *c24Pinger) Ping(ctx context.Context, a boson.Address, msgs ...string) (time.Duration, error) {
	id, ok := p.al.idOf(a)
	p.mu.Lock()
	f := ok && p.fail[id]
	p.mu.Unlock()
	if f {
		return 0, errors.New("c24: ping failed")
	}
	return 20 * time.Millisecond, nil
}

// ---- the real Kad over the stubs ----

type c24Node struct {
	al   *c24Alphabet
	p2p  *c24P2P
	disc *c24Disc
	ping *c24Pinger
	ab   addressbook.Interface
	kad  *kademlia.Kad
	db   *shed.DB
}

// c24Quick is the quick-saturation number implied by the configured
// BinMaxPeers option: a fifth of the bin maximum rounded up to a multiple of
// five (minimum five); without the option the documented default of four.
func c24Quick(binMax int64) int {
	if binMax <= 0 {
		return 4
	}
	if binMax < 5 {
		binMax = 5
	}
	return int((binMax + 4) / 5)
}

func c24OverSat(binMax int64) int {
	if binMax <= 0 {
		return 20
	}
	return c24Quick(binMax) * 5
}

// c24SatFunc is a harness-supplied saturation function: fn(bin, connectedInBin)
// returns (saturated, oversaturated). It is installed through reflection
// because the option's function type mentions an unexported type.
func c24SetSatFunc(o *kademlia.Options, fn func(bin uint8, connected *pslice.PSlice) (bool, bool)) {
	f := reflect.ValueOf(o).Elem().FieldByName("SaturationFunc")
	f.Set(reflect.MakeFunc(f.Type(), func(args []reflect.Value) []reflect.Value {
		bin := uint8(args[0].Uint())
		conn, _ := args[2].Interface().(*pslice.PSlice)
		a, b := fn(bin, conn)
		return []reflect.Value{reflect.ValueOf(a), reflect.ValueOf(b)}
	}))
}

func c24NewNode(r *gosim.Run, al *c24Alphabet, o kademlia.Options, discStarted bool) *c24Node {
	n := &c24Node{al: al}
	n.ab = addressbook.New(statemock.NewStateStore())
	n.p2p = c24NewP2P(r, al, n.ab)
	n.disc = &c24Disc{r: r, al: al, started: discStarted, failTo: map[int]bool{}}
	n.ping = &c24Pinger{al: al, fail: map[int]bool{}}
	db, err := shed.NewDB("", &shed.Options{Driver: "leveldb"})
	if err != nil {
		panic(fmt.Errorf("c24: metrics db: %w", err))
	}
	n.db = db
	k, err := kademlia.New(al.base, n.ab, n.disc, n.p2p, n.ping, nil, nil, db, logging.New(io.Discard, 0), subscribe.NewSubPub(), o)
	if err != nil {
		panic(fmt.Errorf("c24: kademlia.New: %w", err))
	}
	n.kad = k
	n.p2p.mu.Lock()
	n.p2p.notifier = k
	n.p2p.mu.Unlock()
	k.SubscribePeerState(&c24StateSink{s: n.p2p, errc: make(chan error)})
	gosim.Idle() // the subscription is registered by the subPub goroutine
	return n
}

// connectedIDs is what the topology reports as connected (EachPeer, no filter).
func (n *c24Node) connectedIDs(r *gosim.Run) []int {
	var out []int
	seen := map[int]bool{}
	_ = n.kad.EachPeer(func(a boson.Address, po uint8) (bool, bool, error) {
		id, ok := n.al.idOf(a)
		if !ok {
			r.Violate("unknown-peer", "EachPeer reports an address nobody connected: %s", a)
		}
		if seen[id] {
			r.Violate("duplicate-peer", "EachPeer reports p%d twice", id)
		}
		if int(po) != n.al.bin(id) {
			r.Violate("wrong-bin", "EachPeer reports p%d in bin %d, it belongs to bin %d", id, po, n.al.bin(id))
		}
		seen[id] = true
		out = append(out, id)
		return false, false, nil
	}, topology.Filter{})
	sort.Ints(out)
	return out
}

func (n *c24Node) knownIDs() map[int]bool {
	out := map[int]bool{}
	_ = n.kad.EachKnownPeer(func(a boson.Address, po uint8) (bool, bool, error) {
		if id, ok := n.al.idOf(a); ok {
			out[id] = true
		}
		return false, false, nil
	})
	return out
}

func c24Status(i int64) p2p.ReachabilityStatus {
	switch i {
	case 1:
		return p2p.ReachabilityStatusPublic
	case 2:
		return p2p.ReachabilityStatusPrivate
	}
	return p2p.ReachabilityStatusUnknown
}
