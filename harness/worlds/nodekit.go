//go:build g_heavy

package worlds

// nodekit: builds simulated aurorafs nodes out of the real packages
// (localstore, netstore, retrieval, chunkinfo, traversal, pinning, api) on top of
// simnet. Used by the W-NODE and W-NET worlds.

import (
	"archive/tar"
	"bytes"
	"context"
	"encoding/binary"
	"encoding/json"
	"fmt"
	"io"
	"net/http"
	"net/http/httptest"
	"sort"
	"strings"
	"sync"
	"time"

	"github.com/ethereum/go-ethereum/common"
	"github.com/ethereum/go-ethereum/core/types"
	"github.com/gauss-project/aurorafs/pkg/accounting"
	"github.com/gauss-project/aurorafs/pkg/api"
	"github.com/gauss-project/aurorafs/pkg/aurora"
	"github.com/gauss-project/aurorafs/pkg/boson"
	"github.com/gauss-project/aurorafs/pkg/chunkinfo"
	"github.com/gauss-project/aurorafs/pkg/file/joiner"
	"github.com/gauss-project/aurorafs/pkg/localstore"
	"github.com/gauss-project/aurorafs/pkg/logging"
	"github.com/gauss-project/aurorafs/pkg/netstore"
	"github.com/gauss-project/aurorafs/pkg/pinning"
	"github.com/gauss-project/aurorafs/pkg/retrieval"
	"github.com/gauss-project/aurorafs/pkg/routetab"
	"github.com/gauss-project/aurorafs/pkg/rpc"
	"github.com/gauss-project/aurorafs/pkg/sctx"
	"github.com/gauss-project/aurorafs/pkg/settlement/chain"
	ldbstate "github.com/gauss-project/aurorafs/pkg/statestore/leveldb"
	"github.com/gauss-project/aurorafs/pkg/storage"
	"github.com/gauss-project/aurorafs/pkg/subscribe"
	"github.com/gauss-project/aurorafs/pkg/tracing"
	"github.com/gauss-project/aurorafs/pkg/traversal"

	"verifharness/gosim"
	"verifharness/simnet"
)

// nkAddr derives a node/overlay address from a small index.
func nkAddr(i int) boson.Address {
	b := make([]byte, 32)
	binary.BigEndian.PutUint64(b[0:], uint64(0x9e3779b97f4a7c15)*uint64(i+1))
	binary.BigEndian.PutUint64(b[8:], uint64(0xbf58476d1ce4e5b9)*uint64(i+7))
	binary.BigEndian.PutUint64(b[24:], uint64(i))
	return boson.NewAddress(b)
}

// nkOracle is the scripted chain.Resolver shared by all nodes of a run: which
// nodes announce which root.
type nkOracle struct {
	mu    sync.Mutex
	nodes map[string][]boson.Address
}

func (o *nkOracle) set(root boson.Address, nodes ...boson.Address) {
	o.mu.Lock()
	o.nodes[root.String()] = append([]boson.Address(nil), nodes...)
	o.mu.Unlock()
}
func (o *nkOracle) API() rpc.API                         { return rpc.API{} }
func (o *nkOracle) GetCid(string) []byte                 { return nil }
func (o *nkOracle) GetSourceNodes(string) []boson.Address { return nil }
func (o *nkOracle) GetNodesFromCid(cid []byte) []boson.Address {
	o.mu.Lock()
	defer o.mu.Unlock()
	return append([]boson.Address(nil), o.nodes[boson.NewAddress(cid).String()]...)
}
func (o *nkOracle) OnStoreMatched(boson.Address, uint64, uint64, boson.Address) {}
func (o *nkOracle) DataStoreFinished(boson.Address, uint64, uint64, []byte, chan chain.ChainResult) {
}
func (o *nkOracle) RegisterCidAndNode(context.Context, boson.Address, boson.Address) (common.Hash, error) {
	return common.Hash{}, nil
}
func (o *nkOracle) RemoveCidAndNode(context.Context, boson.Address, boson.Address) (common.Hash, error) {
	return common.Hash{}, nil
}
func (o *nkOracle) GetRegisterState(context.Context, boson.Address, boson.Address) (bool, error) {
	return false, nil
}
func (o *nkOracle) WaitForReceipt(context.Context, boson.Address, common.Hash) (*types.Receipt, error) {
	return nil, nil
}

// nkRoute is the stub route table of worlds that do not run the real routetab:
// every connected peer is a neighbour, nothing else is reachable.
type nkRoute struct{ nd *simnet.Node }

func (r *nkRoute) GetRoute(context.Context, boson.Address) ([]*routetab.Path, error) {
	return nil, routetab.ErrNotFound
}
func (r *nkRoute) FindRoute(context.Context, boson.Address, ...time.Duration) ([]*routetab.Path, error) {
	return nil, routetab.ErrNotFound
}
func (r *nkRoute) DelRoute(context.Context, boson.Address) error { return nil }
func (r *nkRoute) Connect(_ context.Context, dest boson.Address) error {
	if r.nd.IsPeer(dest) {
		return nil
	}
	return fmt.Errorf("nkRoute: %s is not a neighbour", dest)
}
func (r *nkRoute) GetTargetNeighbor(_ context.Context, dest boson.Address, _ int) ([]boson.Address, error) {
	if r.nd.IsPeer(dest) {
		return []boson.Address{dest}, nil
	}
	return nil, routetab.ErrNotFound
}
func (r *nkRoute) IsNeighbor(dest boson.Address) bool { return r.nd.IsPeer(dest) }
func (r *nkRoute) FindUnderlay(context.Context, boson.Address, ...time.Duration) (*aurora.Address, error) {
	return nil, routetab.ErrNotFound
}

// nkAccounting accepts everything (settlement is not the object of these worlds).
type nkAccounting struct{}

func (nkAccounting) Reserve(boson.Address, uint64) error                  { return nil }
func (nkAccounting) Credit(context.Context, boson.Address, uint64) error { return nil }
func (nkAccounting) Debit(boson.Address, uint64) error                   { return nil }

var _ accounting.Interface = nkAccounting{}

type nkOpts struct {
	Capacity uint64
	Driver   string // "" = leveldb in memory; "sim:<id>" = fault-injecting disk
	Path     string
	// Persistent puts the localstore on a private temp directory so that a
	// restart finds its data again (the in-memory driver forgets on Close).
	Persistent bool
	// >>> w-bad (C06/C37) hooks: all optional, nil = unchanged behaviour
	// WrapStorer wraps the localstore handed to retrieval and netstore (and,
	// through netstore, to traversal and chunkinfo): a recording Put path.
	WrapStorer func(n *nkNode, s storage.Storer) storage.Storer
	// WrapRetrieval wraps the retrieval service handed to netstore.
	WrapRetrieval func(n *nkNode, r retrieval.Interface) retrieval.Interface
	// Route replaces the stub route table nkRoute.
	Route func(n *nkNode) routetab.RouteTab
	// <<< w-bad
}

// nkNode is one simulated node.
type nkNode struct {
	r      *gosim.Run
	idx    int
	Addr   boson.Address
	Net    *simnet.Node
	State  storage.StateStorer
	LS     *localstore.DB
	Retr   *retrieval.Service
	NS     *netstore.Store
	Trav   traversal.Traverser
	Pin    *pinning.Service
	CI     *chunkinfo.ChunkInfo
	API    api.Service
	SubPub subscribe.SubPub
	Rec    *nkRecStorer
	opts   nkOpts
	oracle *nkOracle
	logger logging.Logger
}

type nkCluster struct {
	r      *gosim.Run
	Net    *simnet.Net
	Oracle *nkOracle
	Nodes  []*nkNode
}

func nkNewCluster(r *gosim.Run) *nkCluster {
	return &nkCluster{r: r, Net: simnet.New(r, int64(r.Plan.Seed)^0x5eed), Oracle: &nkOracle{nodes: map[string][]boson.Address{}}}
}

// AddNode builds a node over fresh durable state.
func (c *nkCluster) AddNode(o nkOpts) (*nkNode, error) {
	idx := len(c.Nodes)
	n := &nkNode{r: c.r, idx: idx, Addr: nkAddr(idx), opts: o, oracle: c.Oracle,
		logger: logging.New(io.Discard, 0)}
	// the production state store (leveldb), in memory; statestore/mock deadlocks
	// when an Iterate callback deletes (chunkinfo does that)
	st, err := ldbstate.NewInMemoryStateStore(n.logger)
	if err != nil {
		return nil, err
	}
	n.State = st
	if o.Persistent && o.Path == "" {
		n.opts.Path = c.r.TempDir()
	}
	n.Net = c.Net.AddNode(n.Addr, aurora.NewModel().SetMode(aurora.FullNode))
	if err := n.build(); err != nil {
		return nil, err
	}
	c.Nodes = append(c.Nodes, n)
	return n, nil
}

// build (re)creates every service object of the node over its durable state
// (state store + localstore path/driver).
func (n *nkNode) build() error {
	var err error
	lo := &localstore.Options{Capacity: n.opts.Capacity, Driver: n.opts.Driver}
	n.LS, err = localstore.New(n.opts.Path, n.Addr.Bytes(), lo, n.logger)
	if err != nil {
		return fmt.Errorf("localstore.New: %w", err)
	}
	n.SubPub = subscribe.NewSubPub()
	tracer, _, _ := tracing.NewTracer(&tracing.Options{Enabled: false})
	var route routetab.RouteTab = &nkRoute{nd: n.Net}
	// >>> w-bad (C06/C37) hooks
	var st storage.Storer = n.LS
	if n.opts.Route != nil {
		route = n.opts.Route(n)
	}
	if n.opts.WrapStorer != nil {
		st = n.opts.WrapStorer(n, n.LS)
	}
	n.Retr = retrieval.New(n.Addr, n.Net, route, st, true, n.logger, tracer, nkAccounting{}, n.SubPub)
	var ri retrieval.Interface = n.Retr
	if n.opts.WrapRetrieval != nil {
		ri = n.opts.WrapRetrieval(n, n.Retr)
	}
	n.NS = netstore.New(st, ri, n.logger, n.Addr)
	// <<< w-bad
	n.Trav = traversal.New(n.NS)
	n.Pin = pinning.NewService(n.LS, n.State, n.Trav)
	n.CI = chunkinfo.New(n.Addr, n.Net, n.logger, n.Trav, n.State, n.NS, route, n.oracle, nil, n.SubPub)
	if err := n.CI.InitChunkInfo(); err != nil {
		return fmt.Errorf("InitChunkInfo: %w", err)
	}
	n.LS.SetChunkInfo(n.CI)
	n.NS.SetChunkInfo(n.CI)
	n.Retr.Config(n.CI)
	if err := n.Net.AddProtocol(n.Retr.Protocol()); err != nil {
		return err
	}
	if err := n.Net.AddProtocol(n.CI.Protocol()); err != nil {
		return err
	}
	n.Rec = &nkRecStorer{Storer: n.NS}
	n.API = api.New(n.Rec, nil, n.Addr, n.CI, n.Trav, n.Pin, nil, n.logger, tracer, nil, nil, n.oracle, nil, nil, api.Options{})
	return nil
}

// Restart models a process restart: every service object is dropped and rebuilt
// over the surviving durable state. clean=true closes the localstore first.
func (c *nkCluster) Restart(n *nkNode, clean bool) error {
	if clean && n.LS != nil {
		_ = n.LS.Close()
	}
	n.Net = c.Net.ReplaceNode(n.Net)
	return n.build()
}

// ---- API driving (no sockets: ServeHTTP on a recorder) ----

func (n *nkNode) do(method, path string, body []byte, hdr map[string]string) *httptest.ResponseRecorder {
	req := httptest.NewRequest(method, path, bytes.NewReader(body))
	for k, v := range hdr {
		req.Header.Set(k, v)
	}
	rec := httptest.NewRecorder()
	n.API.ServeHTTP(rec, req)
	return rec
}

// Upload stores content as a single-file manifest through POST /aurora and
// returns the manifest reference.
func (n *nkNode) Upload(name string, content []byte, pin bool) (boson.Address, error) {
	h := map[string]string{"Content-Type": "application/octet-stream"}
	if pin {
		h[api.AuroraPinHeader] = "true"
	}
	rec := n.do(http.MethodPost, "/aurora?name="+name, content, h)
	if rec.Code != http.StatusCreated {
		return boson.ZeroAddress, fmt.Errorf("upload: status %d: %s", rec.Code, strings.TrimSpace(rec.Body.String()))
	}
	var resp struct {
		Reference boson.Address `json:"reference"`
	}
	if err := json.Unmarshal(rec.Body.Bytes(), &resp); err != nil {
		return boson.ZeroAddress, err
	}
	return resp.Reference, nil
}

// nkMember is one file of a directory upload.
type nkMember struct {
	Name    string
	Content []byte
}

// UploadDir uploads a directory as a tar collection through POST /aurora.
func (n *nkNode) UploadDir(members []nkMember, pin bool) (boson.Address, error) {
	var buf bytes.Buffer
	tw := tar.NewWriter(&buf)
	for _, m := range members {
		if err := tw.WriteHeader(&tar.Header{Name: m.Name, Mode: 0600, Size: int64(len(m.Content))}); err != nil {
			return boson.ZeroAddress, err
		}
		if _, err := tw.Write(m.Content); err != nil {
			return boson.ZeroAddress, err
		}
	}
	if err := tw.Close(); err != nil {
		return boson.ZeroAddress, err
	}
	h := map[string]string{"Content-Type": "application/x-tar", api.AuroraCollectionHeader: "true"}
	if pin {
		h[api.AuroraPinHeader] = "true"
	}
	rec := n.do(http.MethodPost, "/aurora", buf.Bytes(), h)
	if rec.Code != http.StatusCreated {
		return boson.ZeroAddress, fmt.Errorf("upload dir: status %d: %s", rec.Code, strings.TrimSpace(rec.Body.String()))
	}
	var resp struct {
		Reference boson.Address `json:"reference"`
	}
	if err := json.Unmarshal(rec.Body.Bytes(), &resp); err != nil {
		return boson.ZeroAddress, err
	}
	return resp.Reference, nil
}

func (n *nkNode) Download(ref boson.Address, name string) (int, []byte) {
	rec := n.do(http.MethodGet, "/aurora/"+ref.String()+"/"+name, nil, nil)
	return rec.Code, rec.Body.Bytes()
}

func (n *nkNode) Delete(ref boson.Address) int {
	return n.do(http.MethodDelete, "/aurora/"+ref.String(), nil, nil).Code
}

func (n *nkNode) PinAPI(ref boson.Address) int {
	return n.do(http.MethodPost, "/pins/"+ref.String(), nil, nil).Code
}

func (n *nkNode) UnpinAPI(ref boson.Address) int {
	return n.do(http.MethodDelete, "/pins/"+ref.String(), nil, nil).Code
}

// ReadLocal reads a whole file (entry reference, not the manifest) from the
// local store only — no network fallback because no root context is set.
func (n *nkNode) ReadLocal(ctx context.Context, ref boson.Address) ([]byte, error) {
	j, _, err := joiner.New(ctx, n.LS, storage.ModeGetLookup, ref)
	if err != nil {
		return nil, err
	}
	var buf bytes.Buffer
	_, err = io.Copy(&buf, j)
	return buf.Bytes(), err
}

// ---- localstore dump helpers ----

type nkDump struct {
	Data   map[string][]byte
	Pin    map[string]uint64
	GC     map[string]uint64 // root -> cached chunk count
	Access map[string]int64
	GCSize uint64
	GCSum  uint64
}

func (n *nkNode) Dump() (*nkDump, error) {
	d, err := n.LS.VerifDump()
	if err != nil {
		return nil, err
	}
	out := &nkDump{Data: map[string][]byte{}, Pin: map[string]uint64{}, GC: map[string]uint64{}, Access: map[string]int64{}, GCSize: d.GCSize}
	for _, e := range d.Data {
		out.Data[boson.NewAddress(e.Address).String()] = e.Data
	}
	for _, e := range d.Pin {
		out.Pin[boson.NewAddress(e.Address).String()] = e.PinCounter
	}
	for _, e := range d.GC {
		out.GC[boson.NewAddress(e.Address).String()] += e.GCounter
		out.GCSum += e.GCounter
	}
	for _, e := range d.Access {
		out.Access[boson.NewAddress(e.Address).String()] = e.AccessTimestamp
	}
	return out, nil
}

func nkSortedKeys[V any](m map[string]V) []string {
	ks := make([]string, 0, len(m))
	for k := range m {
		ks = append(ks, k)
	}
	sort.Strings(ks)
	return ks
}

// nkRootCtx returns a context carrying the file root (as retrieval/download do).
func nkRootCtx(root boson.Address) context.Context {
	return sctx.SetRootHash(context.Background(), root)
}

// nkRecStorer sits between the API and the netstore and records which chunk
// addresses an upload wrote (used to learn a file's chunk set independently of
// the traversal code).
type nkRecStorer struct {
	storage.Storer
	mu  sync.Mutex
	on  bool
	log []string
}

func (s *nkRecStorer) Put(ctx context.Context, mode storage.ModePut, chs ...boson.Chunk) ([]bool, error) {
	s.mu.Lock()
	if s.on {
		for _, c := range chs {
			s.log = append(s.log, c.Address().String())
		}
	}
	s.mu.Unlock()
	return s.Storer.Put(ctx, mode, chs...)
}

func (s *nkRecStorer) start() {
	s.mu.Lock()
	s.on, s.log = true, nil
	s.mu.Unlock()
}

func (s *nkRecStorer) stop() []string {
	s.mu.Lock()
	defer s.mu.Unlock()
	s.on = false
	seen := map[string]bool{}
	var out []string
	for _, a := range s.log {
		if !seen[a] {
			seen[a] = true
			out = append(out, a)
		}
	}
	sort.Strings(out)
	return out
}
