package worlds

// C38 — Multicast groups partition peers and flood each message once (W-NET).
//
// Real: pkg/multicast Service (AddGroup/RemoveGroup: join, observe, leave;
// handshake + keep-ping loop, discover / findGroup, Multicast / onMulticast,
// group lists add/remove/pruneKnown), on the C28 node kit: real routetab, real
// kademlia (fed through the notifier, manage loop not started), address book.
// Stubs: simnet + simnet/relay.go (mirror of the libp2p relay functions),
// simnet.NodeCache instead of the process-global gcache of pkg/multicast and
// pkg/routetab (hooks VerifSetCache), a recording subscribe.SubPub (the
// subscriber) and a recording p2p.Streamer in front of the node's streamer.
//
// Ops (A[0] = client goroutine):
//   link     [0, a, b]                         a dials b
//   join     [c, node, group, keepConn, keepPing, mask]  AddGroup(join; Nodes = nodes in mask) + subscribe
//   observe  [c, node, group, keepConn, keepPing, mask]  AddGroup(observe)
//   leave    [c, node, group]                  RemoveGroup(join)
//   unobserve[c, node, group]                  RemoveGroup(observe)
//   mcast    [c, node, group]                  Multicast of a fresh message
//   dial     [c, a, b] / drop [c, a, b]        connect / disconnect
//   dup      [c, k, delayMs]                   re-deliver the k-th captured multicast request stream
//                                              (same sender, receiver, bytes) after delayMs
//   sleep    [c, ms]
//   barrier                                    join, settle, check the group lists
// Faults (A[0] = delay ms): restart [d,node]  reset [d,node]
//
// Oracle: c38CheckLists (pairwise disjoint lists, connected ⊆ direct
// neighbours, at settled points), c38Note (per node and (origin,id): one
// notification of the subscriber per window, one send per neighbour).

import (
	"context"
	"fmt"
	"io"
	"math/rand"
	"runtime"
	"sync"
	"time"

	"github.com/gauss-project/aurorafs/pkg/boson"
	"github.com/gauss-project/aurorafs/pkg/logging"
	"github.com/gauss-project/aurorafs/pkg/multicast"
	mcmodel "github.com/gauss-project/aurorafs/pkg/multicast/model"
	mcpb "github.com/gauss-project/aurorafs/pkg/multicast/pb"
	"github.com/gauss-project/aurorafs/pkg/p2p"
	"github.com/gauss-project/aurorafs/pkg/subscribe"
	"github.com/gogo/protobuf/proto"

	"verifharness/gosim"
	"verifharness/simnet"
)

const (
	c38Proto   = "multicast"
	c38Version = "1.2.0"
	c38Stream  = "multicast"
	// settle: longer than the handshake timeout (10 s) and the find-route timeout
	c38Settle = 14 * time.Second
	// two sends of one message by one node to one peer closer than this are one
	// window for sure (a forwarding round may take seconds: relayed sends)
	c38SendWindow = 30 * time.Second
	// how long before a forwarding round a connection change still explains that
	// the peer moved between the lists during the round
	c38StaleWindow = 30 * time.Second
	// period of the list-disjointness sampler
	c38SamplePeriod = 100 * time.Millisecond
)

type c38Captured struct {
	from, to int
	data     []byte
}

type c38Key struct {
	kind   byte // 'n' notification, 's' send
	node   int
	gen    int // incarnation of the node: a restarted process has forgotten what it saw
	peer   int
	via    byte // 'd' direct stream to a neighbour, 'r' conn-chain relay to a kept peer
	origin int
	id     uint64
}

type c38World struct {
	r                *gosim.Run
	c                *c28Cluster
	window           time.Duration
	mu               sync.Mutex
	svc              []*multicast.Service // current incarnation per node
	last             map[c38Key]time.Duration
	began            map[c38Key]time.Duration // when the stream of the last send was requested
	seen             map[c38Key]bool
	caps             []c38Captured
	defClass, defMsg string
	// moved[a][b]: when the connection between a and b last changed (dropped,
	// dialled, reset). One forwarding round walks the connected and then the kept
	// peers; a peer that moves between the lists while the round runs can be sent
	// the message twice within that round, which the statement does not exclude.
	moved map[[2]int]time.Duration
}

func (w *c38World) noteMoved(a, b int) {
	w.mu.Lock()
	if w.moved == nil {
		w.moved = map[[2]int]time.Duration{}
	}
	w.moved[[2]int{a, b}] = w.r.Now()
	w.moved[[2]int{b, a}] = w.r.Now()
	w.mu.Unlock()
}

func (w *c38World) noteMovedAll(a int) {
	for i := 0; i < 16; i++ {
		w.noteMoved(a, i)
	}
}

func c38GroupName(g int64) string { return fmt.Sprintf("grp%d", g) }

// ---- recording subscriber (subscribe.SubPub handed to the multicast service) ----

type c38SubPub struct {
	w   *c38World
	idx int
	gen int
}

func (s *c38SubPub) Subscribe(subscribe.INotifier, string, string, string) error { return nil }
func (s *c38SubPub) PublishArray(string, string, string, []interface{}) error    { return nil }
func (s *c38SubPub) Publish(nameSpace, kind, param string, message interface{}) error {
	if nameSpace == "group" && kind == "multicastMsg" {
		if m, ok := message.(multicast.Message); ok {
			s.w.c38Note('n', s.idx, s.gen, -1, 0, s.w.r.Now(), m.Origin, m.ID, m.GID)
		}
	}
	return nil
}

// ---- recording streamer (p2p.Streamer handed to the multicast service) ----

type c38Streamer struct {
	w     *c38World
	idx   int
	gen   int
	inner p2p.Streamer
}

func (s *c38Streamer) wrap(t0 time.Duration, st p2p.Stream, err error, addr boson.Address, proto, stream string, via byte) (p2p.Stream, error) {
	if err != nil || proto != c38Proto || stream != c38Stream {
		return st, err
	}
	return &c38SendStream{Stream: st, w: s.w, idx: s.idx, gen: s.gen, peer: s.w.c.Index(addr), via: via, began: t0}, nil
}

func (s *c38Streamer) NewStream(ctx context.Context, addr boson.Address, h p2p.Headers, proto, version, stream string) (p2p.Stream, error) {
	t0 := s.w.r.Now()
	st, err := s.inner.NewStream(ctx, addr, h, proto, version, stream)
	return s.wrap(t0, st, err, addr, proto, stream, 'd')
}
func (s *c38Streamer) NewRelayStream(ctx context.Context, addr boson.Address, h p2p.Headers, proto, version, stream string, midCall bool) (p2p.Stream, error) {
	t0 := s.w.r.Now()
	st, err := s.inner.NewRelayStream(ctx, addr, h, proto, version, stream, midCall)
	return s.wrap(t0, st, err, addr, proto, stream, 'r')
}
func (s *c38Streamer) NewConnChainRelayStream(ctx context.Context, addr boson.Address, h p2p.Headers, proto, version, stream string) (p2p.Stream, error) {
	t0 := s.w.r.Now()
	st, err := s.inner.NewConnChainRelayStream(ctx, addr, h, proto, version, stream)
	if proto == c38Proto && stream == c38Stream {
		s.w.r.Logf("n%d opens relayed multicast stream to %s: %s", s.idx, s.w.c.Name(addr), c28ErrStr(err))
	}
	if err == nil && proto == c38Proto && stream == c38Stream {
		s.w.r.Count("probe_relayed_multicast")
	}
	return s.wrap(t0, st, err, addr, proto, stream, 'r')
}

type c38SendStream struct {
	p2p.Stream
	w     *c38World
	idx   int
	gen   int
	peer  int
	via   byte
	began time.Duration
}

func (s *c38SendStream) Write(b []byte) (int, error) {
	n, err := s.Stream.Write(b)
	if err == nil {
		c28Delimited(b, func(body []byte) {
			var m mcpb.MulticastMsg
			if proto.Unmarshal(body, &m) == nil && len(m.Origin) > 0 {
				s.w.c38Note('s', s.idx, s.gen, s.peer, s.via, s.began, boson.NewAddress(m.Origin), m.Id, boson.NewAddress(m.Gid))
			}
		})
	}
	return n, err
}

// c38Note records a notification of node's subscriber / a send of node to peer
// for the message (origin, id) and checks the at-most-once rules.
func (w *c38World) c38Note(kind byte, node, gen, peer int, via byte, began time.Duration, origin boson.Address, id uint64, gid boson.Address) {
	o := w.c.Index(origin)
	k := c38Key{kind, node, gen, peer, via, o, id}
	now := w.r.Now()
	w.mu.Lock()
	prev, had := w.last[k]
	rk := c38Key{kind, node, gen, -1, 0, o, id}
	roundStart, hasRound := w.began[rk]
	if !hasRound || now-roundStart > c38SendWindow {
		roundStart = began
		w.began[rk] = began
	}
	w.last[k] = now
	w.seen[k] = true
	w.mu.Unlock()
	if kind == 'n' {
		w.r.Logf("notify n%d: message (n%d,%d)", node, o, id)
		w.r.Count("probe_notified")
		if had && now-prev < w.window {
			w.r.Violate("dup-notify", "subscriber of n%d notified twice of message (origin n%d, id %d): at %v and %v, window %v", node, o, id, prev, now, w.window)
		}
		if had {
			w.r.Count("probe_renotify_after_window")
		}
		return
	}
	w.r.Logf("send n%d->n%d (%c): message (n%d,%d)", node, peer, via, o, id)
	if via == 'd' {
		// one forwarding round sends over a direct stream to the connected peers and
		// over a relay to the kept ones; a peer that moves between the two lists
		// during the round can get both (observation, not part of the statement)
		w.mu.Lock()
		_, other := w.last[c38Key{kind, node, gen, peer, 'r', o, id}]
		w.mu.Unlock()
		if other {
			w.r.Count("obs_direct_and_relayed_send")
		}
	}
	if node != o {
		w.r.Count("probe_forwarded")
	} else {
		w.r.Count("probe_origin_sent")
	}
	w.mu.Lock()
	mv, wasMoved := w.moved[[2]int{node, peer}]
	w.mu.Unlock()
	// the connection to the peer changed after (or at most c38StaleWindow before)
	// the node requested the first stream for this message (start of its
	// forwarding round); a dropped peer stays in the connected list until the
	// node's event loop gets to the disconnect event (seconds behind slow
	// handshakes) and a relayed handshake moves it to kept in the meantime: the peer moved between the connected and the kept list
	// while the forwarding round that made the first send was still running (a
	// round through a slow node or a relay takes seconds)
	if had && now-prev < c38SendWindow && wasMoved && mv > roundStart-c38StaleWindow {
		w.r.Count("obs_dup_send_while_peer_changed_list")
	} else if had && now-prev < c38SendWindow {
		msg := fmt.Sprintf("n%d sent message (origin n%d, id %d, group %s) twice to n%d: at %v and %v; its groups now: %s", node, o, id, gid.String()[:6], peer, prev, now, w.listsOf(node))
		holds := false
		for _, g := range w.service(node).VerifGroups() {
			// a group the node neither joined nor observes (type "known": created
			// by a peer's handshake) may appear at any moment; the node is foreign to it
			if g.GID.Equal(gid) && (g.GType == mcmodel.GTypeJoin || g.GType == mcmodel.GTypeObserve) {
				holds = true
			}
		}
		if !holds {
			// Known defect family (finding C38-forward-nodes-connected-twice): a node
			// that forwards a message of a group it does not hold picks the forward
			// nodes with getForward, which lists the connected peers a second time
			// instead of the kept ones. Own class, reported at the end of the run.
			w.deferred("dup-send-foreign-group", msg)
		} else {
			w.r.Violate("dup-send", "%s", msg)
		}
	}
	if had {
		w.r.Count("probe_resend_after_window")
	}
}

// deferred records the first violation of a known-defect class; c38Exec raises it
// at the end of the run unless another violation ended the run before.
func (w *c38World) deferred(class, msg string) {
	w.mu.Lock()
	first := w.defClass == ""
	if first {
		w.defClass, w.defMsg = class, msg
	}
	w.mu.Unlock()
	if first {
		w.r.Logf("KNOWN-DEFECT %s: %s", class, msg)
	}
}

func (w *c38World) listsOf(node int) string {
	out := ""
	for _, g := range w.service(node).VerifGroups() {
		out += fmt.Sprintf("{%s type %d connected %s kept %s known %s} ", g.GID.String()[:6], g.GType, w.c.Names(g.Connected), w.c.Names(g.Keep), w.c.Names(g.Known))
	}
	return out
}

// ---- plan ----

func c38Gen(rng *rand.Rand, tier string) *gosim.Plan {
	p := &gosim.Plan{Params: map[string]int64{}}
	n := 3 + rng.Intn(4)
	if tier == "thorough" {
		n = 3 + rng.Intn(6)
	}
	p.Params["n"] = int64(n)
	p.Params["groups"] = int64(1 + rng.Intn(2))
	p.Params["discover"] = int64(rng.Intn(2))
	p.Params["ordered_reset"] = 1
	// a slow node (all its frames delayed): a handshake with it keeps the peer's
	// event loop (Service.Start) busy for about three times the delay, so that
	// connection events queue up behind it
	p.Params["slow_node"] = -1
	if rng.Intn(2) == 0 {
		p.Params["slow_node"] = int64(rng.Intn(n))
		p.Params["slow_ms"] = gosim.Pick(rng, 200, 500, 1000, 1500)
	}
	slow := int(p.Params["slow_node"])
	groups := int(p.Params["groups"])
	edge := map[[2]int]bool{}
	add := func(a, b int) {
		if a == b || edge[[2]int{a, b}] || edge[[2]int{b, a}] {
			return
		}
		edge[[2]int{a, b}] = true
		p.Ops = append(p.Ops, gosim.Op{K: "link", A: []int64{0, int64(a), int64(b)}})
	}
	perm := rng.Perm(n)
	shape := rng.Intn(3)
	for i := 1; i < n; i++ {
		j := i - 1
		if shape == 1 {
			j = rng.Intn(i)
		}
		add(perm[i], perm[j])
	}
	if shape == 2 {
		add(perm[n-1], perm[0])
	}
	for i := rng.Intn(4); i > 0; i-- {
		add(rng.Intn(n), rng.Intn(n))
	}
	mask := func() int64 {
		m := int64(0)
		for i := 0; i < n; i++ {
			if rng.Intn(3) == 0 {
				m |= 1 << uint(i)
			}
		}
		return m
	}
	// initial membership
	for i := 0; i < n; i++ {
		for g := 0; g < groups; g++ {
			switch x := rng.Intn(10); {
			case x < 6:
				p.Ops = append(p.Ops, gosim.Op{K: "join", A: []int64{0, int64(i), int64(g), int64(rng.Intn(3)), int64(rng.Intn(3)), mask()}})
			case x < 7:
				p.Ops = append(p.Ops, gosim.Op{K: "observe", A: []int64{0, int64(i), int64(g), int64(rng.Intn(3)), int64(rng.Intn(3)), mask()}})
			}
		}
	}
	p.Ops = append(p.Ops, gosim.Op{K: "barrier"})
	phases := 2 + rng.Intn(3)
	clients := 1 + rng.Intn(3)
	long := rng.Intn(3) == 0 // some runs cross the one-minute window
	for ph := 0; ph < phases; ph++ {
		k := 3 + rng.Intn(7)
		for i := 0; i < k; i++ {
			c := int64(rng.Intn(clients))
			a := int64(rng.Intn(n))
			b := int64((int(a) + 1 + rng.Intn(n-1)) % n)
			g := int64(rng.Intn(groups))
			switch x := rng.Intn(100); {
			case x < 35:
				p.Ops = append(p.Ops, gosim.Op{K: "mcast", A: []int64{c, a, g}})
			case x < 50:
				// (the last three: shortly before the end of the one-minute window)
				d := gosim.Pick(rng, 0, 30, 2000, 15000, 45000, 58000, 59700)
				if long && rng.Intn(2) == 0 {
					d = gosim.Pick(rng, 61000, 75000, 100000)
				}
				p.Ops = append(p.Ops, gosim.Op{K: "dup", A: []int64{c, int64(rng.Intn(64)), d}})
			case x < 58:
				p.Ops = append(p.Ops, gosim.Op{K: "join", A: []int64{c, a, g, int64(rng.Intn(3)), int64(rng.Intn(3)), mask()}})
			case x < 64:
				p.Ops = append(p.Ops, gosim.Op{K: "leave", A: []int64{c, a, g}})
			case x < 68:
				p.Ops = append(p.Ops, gosim.Op{K: "observe", A: []int64{c, a, g, int64(rng.Intn(3)), int64(rng.Intn(3)), mask()}})
			case x < 71:
				p.Ops = append(p.Ops, gosim.Op{K: "unobserve", A: []int64{c, a, g}})
			case x < 79:
				p.Ops = append(p.Ops, gosim.Op{K: "drop", A: []int64{c, a, b}})
			case x < 87:
				p.Ops = append(p.Ops, gosim.Op{K: "dial", A: []int64{c, a, b}})
			default:
				d := gosim.Pick(rng, 5, 100, 1000, 16000)
				if long && rng.Intn(3) == 0 {
					d = 65000
				}
				p.Ops = append(p.Ops, gosim.Op{K: "sleep", A: []int64{c, d}})
			}
		}
		if rng.Intn(100) < 60 {
			// "flap": a connected group peer p of x is dropped while x's event loop
			// is busy (handshake with the slow node, or a backlog of connect events)
			// and p at once handshakes x again over a relay through r (join with x in
			// the node list: x goes to p's known list, HandshakeAllKept reaches it
			// through NewConnChainRelayStream). Plain ops; any subset is harmless.
			c := int64(rng.Intn(clients))
			x := rng.Intn(n)
			pp := (x + 1 + rng.Intn(n-1)) % n
			rr := -1
			for _, cand := range rng.Perm(n) {
				if cand != x && cand != pp && (cand != slow || rr < 0) {
					rr = cand
					if cand != slow {
						break
					}
				}
			}
			g := int64(rng.Intn(groups))
			kc, kp := int64(rng.Intn(3)), int64(rng.Intn(3))
			ops := []gosim.Op{
				{K: "dial", A: []int64{c, int64(x), int64(rr)}},
				{K: "dial", A: []int64{c, int64(pp), int64(rr)}},
				{K: "join", A: []int64{c, int64(pp), g, kc, kp, 1 << uint(x)}},
				{K: "dial", A: []int64{c, int64(x), int64(pp)}},
				{K: "sleep", A: []int64{c, gosim.Pick(rng, 300, 600, 2500)}},
			}
			busy := rr
			if slow >= 0 && slow != x {
				busy = slow
			}
			for i := 1 + rng.Intn(3); i > 0; i-- {
				ops = append(ops, gosim.Op{K: "dial", A: []int64{c, int64(x), int64(busy)}})
			}
			ops = append(ops,
				gosim.Op{K: "drop", A: []int64{c, int64(x), int64(pp)}},
				gosim.Op{K: "join", A: []int64{c, int64(pp), g, kc, kp, 1 << uint(x)}},
				gosim.Op{K: "sleep", A: []int64{c, gosim.Pick(rng, 200, 1000, 4000)}})
			if rng.Intn(2) == 0 {
				ops = append(ops, gosim.Op{K: "mcast", A: []int64{c, int64(x), g}})
			}
			p.Ops = append(p.Ops, ops...)
		}
		if ph < phases-1 {
			p.Ops = append(p.Ops, gosim.Op{K: "barrier"})
		}
	}
	if rng.Intn(100) < 50 {
		for i := 1 + rng.Intn(3); i > 0; i-- {
			d := gosim.Pick(rng, 0, 50, 1000, 5000, 20000)
			if rng.Intn(2) == 0 {
				p.Faults = append(p.Faults, gosim.Op{K: "restart", A: []int64{d, int64(rng.Intn(n))}})
			} else {
				p.Faults = append(p.Faults, gosim.Op{K: "reset", A: []int64{d, int64(rng.Intn(n))}})
			}
		}
	}
	return p
}

// ---- execution ----

func (w *c38World) service(i int) *multicast.Service {
	w.mu.Lock()
	defer w.mu.Unlock()
	return w.svc[i]
}

func (w *c38World) node(i int64) *c28Node {
	if i < 0 || int(i) >= len(w.c.Nodes) {
		return nil
	}
	return w.c.Nodes[i]
}

// onBuild adds the multicast service to a (re)built node.
func (w *c38World) onBuild(n *c28Node) error {
	dev := w.r.Plan.P("discover", 0) == 0
	if int64(n.idx) == w.r.Plan.P("slow_node", -1) {
		n.Net.Slow = time.Duration(w.r.Plan.P("slow_ms", 0)) * time.Millisecond
	}
	n.mu.Lock()
	gen := n.gen
	n.mu.Unlock()
	svc := multicast.NewService(n.Addr, n.Mode, n.Net, &c38Streamer{w: w, idx: n.idx, gen: gen, inner: n.Net}, n.Kad, n.Route,
		logging.New(io.Discard, 0), &c38SubPub{w: w, idx: n.idx, gen: gen}, multicast.Option{Dev: dev})
	if err := n.Net.AddProtocol(svc.Protocol()); err != nil {
		return err
	}
	svc.Start()
	w.mu.Lock()
	for len(w.svc) <= n.idx {
		w.svc = append(w.svc, nil)
	}
	old := w.svc[n.idx]
	w.svc[n.idx] = svc
	w.mu.Unlock()
	if old != nil {
		_ = old.Close()
	}
	return nil
}

func (w *c38World) nodesOf(mask int64, self int) (out []boson.Address) {
	for i, nd := range w.c.Nodes {
		if mask&(1<<uint(i)) != 0 && i != self {
			out = append(out, nd.Addr)
		}
	}
	return out
}

func (w *c38World) c38Tap(f *simnet.Frame) {
	if f.Protocol != c38Proto || f.Stream != c38Stream || f.Dir != 0 {
		return
	}
	a, b := w.c.Index(f.From), w.c.Index(f.To)
	if a < 0 || b < 0 {
		return
	}
	w.mu.Lock()
	if len(w.caps) < 256 {
		w.caps = append(w.caps, c38Captured{a, b, append([]byte(nil), f.Data...)})
	}
	w.mu.Unlock()
}

func (w *c38World) exec(phase int, o gosim.Op) {
	r := w.r
	if o.K == "sleep" {
		time.Sleep(time.Duration(o.Arg(1)) * time.Millisecond)
		return
	}
	if o.K == "dup" {
		time.Sleep(time.Duration(o.Arg(2)) * time.Millisecond)
		w.mu.Lock()
		if len(w.caps) == 0 {
			w.mu.Unlock()
			return
		}
		cp := w.caps[int(o.Arg(1))%len(w.caps)]
		w.mu.Unlock()
		from, to := w.c.Nodes[cp.from], w.c.Nodes[cp.to]
		_, _, nd := from.services()
		runtime.GosimSetNode(uint64(from.idx + 1))
		defer runtime.GosimSetNode(0)
		ctx, cancel := context.WithTimeout(context.Background(), 5*time.Second)
		defer cancel()
		// the whole request stream once more: same sender, receiver and bytes,
		// delivered to the receiver's real handler (not through the recording
		// streamer: the network duplicated it, the node did not send it)
		st, err := nd.NewStream(ctx, to.Addr, nil, c38Proto, c38Version, c38Stream)
		if err != nil {
			r.Logf("dup n%d->n%d: %s", cp.from, cp.to, c28ErrStr(err))
			return
		}
		_, err = st.Write(cp.data)
		_ = st.Close()
		r.Count("fault_duplicate")
		r.Logf("dup n%d->n%d re-delivered (%d bytes): %s", cp.from, cp.to, len(cp.data), c28ErrStr(err))
		return
	}
	a := w.node(o.Arg(1))
	if a == nil {
		return
	}
	runtime.GosimSetNode(uint64(a.idx + 1))
	defer runtime.GosimSetNode(0)
	svc := w.service(a.idx)
	ctx, cancel := context.WithTimeout(context.Background(), 30*time.Second)
	defer cancel()
	switch o.K {
	case "link", "dial":
		b := w.node(o.Arg(2))
		if b == nil || a == b {
			return
		}
		w.noteMoved(a.idx, b.idx)
		err := a.Dial(ctx, b)
		r.Logf("%s n%d->n%d: %s", o.K, a.idx, b.idx, c28ErrStr(err))
	case "drop":
		b := w.node(o.Arg(2))
		if b == nil || a == b {
			return
		}
		_, _, nd := a.services()
		w.noteMoved(a.idx, b.idx)
		err := nd.Disconnect(b.Addr, "op: drop")
		r.Logf("drop n%d-n%d: %s", a.idx, b.idx, c28ErrStr(err))
	case "join", "observe":
		gt := mcmodel.GTypeJoin
		if o.K == "observe" {
			gt = mcmodel.GTypeObserve
		}
		name := c38GroupName(o.Arg(2))
		err := svc.AddGroup([]mcmodel.ConfigNodeGroup{{Name: name, GType: gt,
			KeepConnectedPeers: int(o.Arg(3)), KeepPingPeers: int(o.Arg(4)), Nodes: w.nodesOf(o.Arg(5), a.idx)}})
		if err == nil && o.K == "join" {
			// the subscriber (a recording subscribe.SubPub); "already exists" is fine
			_ = svc.SubscribeMulticastMsg(nil, nil, multicast.GenerateGID(name))
		}
		r.Logf("%s n%d %s keep=%d/%d nodes=%s: %s", o.K, a.idx, name, o.Arg(3), o.Arg(4), w.c.Names(w.nodesOf(o.Arg(5), a.idx)), c28ErrStr(err))
	case "leave", "unobserve":
		gt := mcmodel.GTypeJoin
		if o.K == "unobserve" {
			gt = mcmodel.GTypeObserve
		}
		err := svc.RemoveGroup(multicast.GenerateGID(c38GroupName(o.Arg(2))), gt)
		r.Logf("%s n%d %s: %s", o.K, a.idx, c38GroupName(o.Arg(2)), c28ErrStr(err))
	case "mcast":
		gid := multicast.GenerateGID(c38GroupName(o.Arg(2)))
		done := make(chan error, 1)
		go func() {
			done <- svc.Multicast(&mcpb.MulticastMsg{Gid: gid.Bytes(), Data: []byte{byte(a.idx), byte(phase)}})
		}()
		select {
		case err := <-done:
			r.Logf("mcast n%d %s: %s", a.idx, c38GroupName(o.Arg(2)), c28ErrStr(err))
		case <-time.After(5 * time.Minute):
			r.Violate("hang", "Multicast at n%d did not return within 5 simulated minutes", a.idx)
		}
	}
}

// c38CheckLists: at a settled point, per node and group the three lists are
// pairwise disjoint and every connected peer is a direct neighbour.
// settled == false: only the disjointness, which is an invariant of every
// add/remove/prune transition (they run under the group's lock, and the hook
// reads the three lists under that lock) and therefore holds at every instant;
// "connected is a direct neighbour" is re-established by the asynchronous
// disconnect event and is only checked at settled points.
func (w *c38World) c38CheckLists(when string, settled bool) {
	// "connected is a direct neighbour" is restored by the disconnect event, which
	// waits behind whatever the node's event loop is doing (handshakes of up to
	// 10 s each, more with a slow node): a stale entry is given three more
	// periods of 30 s before it counts
	for try := 0; settled && try < 3 && w.c38StaleConnected() != ""; try++ {
		w.r.Count("probe_settle_extended")
		time.Sleep(30 * time.Second)
		gosim.Idle()
	}
	for _, n := range w.c.Nodes {
		svc := w.service(n.idx)
		_, _, nd := n.services()
		for _, g := range svc.VerifGroups() {
			if settled {
				w.r.Count("probe_lists_checked")
			}
			in := map[string]string{}
			for _, l := range []struct {
				name string
				list []boson.Address
			}{{"connected", g.Connected}, {"kept", g.Keep}, {"known", g.Known}} {
				if settled && len(l.list) > 0 {
					w.r.Count("probe_list_" + l.name)
				}
				for _, a := range l.list {
					if other, ok := in[a.String()]; ok {
						w.r.Violate("lists-overlap", "%s: n%d group %s: peer %s is in the %s and the %s list (connected %s kept %s known %s)",
							when, n.idx, g.GID.String()[:8], w.c.Name(a), other, l.name, w.c.Names(g.Connected), w.c.Names(g.Keep), w.c.Names(g.Known))
					}
					in[a.String()] = l.name
				}
			}
			for _, a := range g.Connected {
				if settled && !nd.IsPeer(a) {
					w.r.Violate("connected-not-neighbour", "%s: n%d group %s lists %s as connected, direct neighbours are %v",
						when, n.idx, g.GID.String()[:8], w.c.Name(a), n.Neighbours())
				}
			}
		}
	}
}

// c38StaleConnected names the first connected entry that is not a direct neighbour.
func (w *c38World) c38StaleConnected() string {
	for _, n := range w.c.Nodes {
		_, _, nd := n.services()
		for _, g := range w.service(n.idx).VerifGroups() {
			for _, a := range g.Connected {
				if !nd.IsPeer(a) {
					return fmt.Sprintf("n%d/%s", n.idx, w.c.Name(a))
				}
			}
		}
	}
	return ""
}

func (w *c38World) settle() {
	time.Sleep(c38Settle)
	gosim.Idle()
}

func (w *c38World) faults(done chan struct{}) {
	defer close(done)
	r := w.r
	for _, f := range r.Plan.Faults {
		time.Sleep(time.Duration(f.Arg(0)) * time.Millisecond)
		a := w.node(f.Arg(1))
		if a == nil {
			continue
		}
		switch f.K {
		case "reset":
			_, _, na := a.services()
			w.noteMovedAll(a.idx)
			k := w.c.Net.ResetStreamsOf(na)
			if k > 0 {
				r.Count("fault_reset")
			}
			r.Logf("fault reset n%d: %d streams", a.idx, k)
		case "restart":
			w.noteMovedAll(a.idx)
			prev := a.Neighbours()
			if err := a.Restart(); err != nil {
				r.Violate("setup", "restart n%d: %v", a.idx, err)
			}
			r.Count("fault_restart")
			r.Logf("fault restart n%d (neighbours before %v)", a.idx, prev)
			for _, p := range prev {
				ctx, cancel := context.WithTimeout(context.Background(), 20*time.Second)
				err := a.Dial(ctx, w.c.Nodes[p])
				cancel()
				r.Logf("  redial n%d->n%d: %s", a.idx, p, c28ErrStr(err))
			}
		}
	}
}

func c38Exec(r *gosim.Run) {
	p := r.Plan
	n := int(p.P("n", 4))
	w := &c38World{r: r, last: map[c38Key]time.Duration{}, began: map[c38Key]time.Duration{}, seen: map[c38Key]bool{}}
	w.c = c28NewCluster(r, 2, 10)
	gc := simnet.NewNodeCacheFrom(w.c.Cache)
	multicast.VerifSetCache(gc)
	w.window = time.Duration(multicast.VerifMulticastWindow())
	w.c.Net.OrderedReset = p.P("ordered_reset", 1) == 1
	w.c.Net.Tap = w.c38Tap
	for i := 0; i < n; i++ {
		if _, err := w.c.AddNode(w.onBuild); err != nil {
			r.Violate("setup", "node %d: %v", i, err)
		}
	}
	// sampler: every 100 simulated ms, at a quiescent point (no runnable
	// goroutine, time not advanced), the three lists of every group are disjoint
	stopSampler := make(chan struct{})
	go func() {
		for {
			select {
			case <-stopSampler:
				return
			case <-time.After(c38SamplePeriod):
			}
			gosim.Idle()
			select {
			case <-stopSampler:
				return
			default:
			}
			w.c38CheckLists(fmt.Sprintf("sample at %v", r.Now()), false)
			r.Count("probe_lists_sampled")
		}
	}()
	var faultsDone chan struct{}
	r.RunPhases(p.Ops, w.exec, func(phase int) {
		if phase == 0 {
			for _, nd := range w.c.Nodes {
				r.Logf("topology n%d: %v", nd.idx, nd.Neighbours())
			}
			faultsDone = make(chan struct{})
			go w.faults(faultsDone)
			return
		}
		w.settle()
		w.c38CheckLists(fmt.Sprintf("after phase %d", phase), true)
	})
	if faultsDone != nil {
		<-faultsDone
	}
	w.settle()
	close(stopSampler)
	w.c38CheckLists("end", true)
	if w.c.Cache.Unlabelled > 0 {
		r.Violate("harness-unlabelled", "%d cache accesses from goroutines without a node label", w.c.Cache.Unlabelled)
	}
	if w.defClass != "" {
		r.Violate(w.defClass, "%s", w.defMsg)
	}
}

func init() {
	gosim.Register(&gosim.World{Prop: "C38", Gen: c38Gen, Exec: c38Exec,
		Real: []string{
			"pkg/multicast (Service: AddGroup/RemoveGroup, Start loop with handshakes and keep-ping, discover/findGroup, Multicast/onMulticast, Group add/remove/pruneKnown)",
			"pkg/routetab Service, pkg/topology/kademlia (notifier-fed, manage loop not started), pkg/addressbook, pkg/statestore/leveldb (in memory)",
		},
		Stubs: []string{
			"simnet (streams, links, latency, resets, restarts, re-delivery of captured request streams)",
			"simnet/relay.go: line-by-line mirror of the libp2p relay functions (NewConnChainRelayStream, CallHandlerWithConnChain, ...)",
			"simnet.NodeCache: node-scoped fake-time replacement of the process-global gcache of pkg/multicast and pkg/routetab (hooks VerifSetCache)",
			"recording subscribe.SubPub (the multicast subscriber) and recording p2p.Streamer in front of the node's streamer",
		}})
}
