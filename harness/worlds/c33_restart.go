package worlds

import (
	"context"
	"math/big"
	"math/rand"
	"strings"
	"sync"
	"time"

	chequePkg "github.com/gauss-project/aurorafs/pkg/settlement/traffic/cheque"

	"verifharness/gosim"
)

// C33 — Traffic totals survive restarts.
//
// One node (real traffic.Service + cheque store + protocol) and 2-3 peers.
// 2-4 client goroutines update traffic totals, pay, receive cheques and call
// TrafficInit concurrently; at quiescent points the node is restarted (new
// Service + Init over the surviving store and the chain stub) and the restored
// figures are compared with the figures before the restart and with the sum of
// acknowledged updates. The final step of every run is a restart.
//
// Ops (A[0] = client goroutine):
//   ret  [client, peer, amount]   PutRetrieveTraffic (the node consumed traffic of peer)
//   tra  [client, peer, amount]   PutTransferTraffic (the node served traffic to peer)
//   pay  [client, peer, thr]      Pay
//   rcv  [client, peer, amount]   peer sends the node a cheque raising its payout by amount
//   init [client]                 TrafficInit() (the API entry of the periodic refresh)
//   tick [client]                 the client sleeps until the node's next 24 h refresh fires
//   barrier | restart             join + quiescence (+ clean restart)
//   hsk  [peer, extra]            (separator, at quiescence) the peer reconnects and presents in the
//                                 real init handshake a cheque of the node whose cumulative payout is
//                                 `extra` above everything the node remembers (the node's state is
//                                 older than the peer's); Service.Handshake adopts it
// Faults:
//   crash [k]                     every state-store write from the k-th of the workload on is
//                                 lost; the next restart is then a restart after a crash
//   werr  [kind, n]               transient fault: the n-th workload write of kind 0 consumed-total /
//                                 1 served-total / 2 last-sent-cheque / 3 last-received-cheque fails
//                                 with an error and is not applied; the failed call reports an error
//                                 and its update counts as "maybe applied"
// Params: envelope=1: the clients keep the locking discipline of the node's only
// caller (pkg/accounting: Put* of one peer serialised, one Pay at a time);
// envelope=0: free use of the exported API (classes get the suffix -freeapi).

func c33Gen(rng *rand.Rand, tier string) *gosim.Plan {
	p := &gosim.Plan{Params: map[string]int64{}}
	n := 2 + rng.Intn(2)
	nCli := 2 + rng.Intn(3)
	p.Params["peers"] = int64(n)
	p.Params["keyseed"] = int64(rng.Intn(1 << 20))
	p.Params["yield_pct"] = gosim.Pick(rng, 5, 20, 50, 100)
	envelope := rng.Intn(100) < 65
	if envelope {
		p.Params["envelope"] = 1
	} else {
		p.Params["envelope"] = 0
	}
	enInit := rng.Intn(100) < 45
	enTick := rng.Intn(100) < 25
	enPay := rng.Intn(100) < 75
	enHsk := rng.Intn(100) < 30
	b := func(v bool) int64 {
		if v {
			return 1
		}
		return 0
	}
	p.Params["en_init"], p.Params["en_tick"], p.Params["en_pay"], p.Params["en_hsk"] = b(enInit), b(enTick), b(enPay), b(enHsk)
	nPhase := 1 + rng.Intn(4)
	if tier == "thorough" {
		nPhase += rng.Intn(4)
	}
	hot := int64(rng.Intn(n)) // most collisions happen on one peer
	for ph := 0; ph < nPhase; ph++ {
		k := 3 + rng.Intn(9)
		for i := 0; i < k; i++ {
			cli := int64(rng.Intn(nCli))
			peer := hot
			if rng.Intn(100) < 35 {
				peer = int64(rng.Intn(n))
			}
			switch x := rng.Intn(100); {
			case x < 35:
				p.Ops = append(p.Ops, gosim.Op{K: "ret", A: []int64{cli, peer, 1 + rng.Int63n(90)}})
			case x < 55:
				p.Ops = append(p.Ops, gosim.Op{K: "tra", A: []int64{cli, peer, 1 + rng.Int63n(90)}})
			case x < 75:
				if enPay {
					p.Ops = append(p.Ops, gosim.Op{K: "pay", A: []int64{cli, peer, gosim.Pick(rng, 1, 1, 20, 60)}})
				}
			case x < 83:
				p.Ops = append(p.Ops, gosim.Op{K: "rcv", A: []int64{cli, peer, 1 + rng.Int63n(60)}})
			case x < 95:
				if enInit {
					p.Ops = append(p.Ops, gosim.Op{K: "init", A: []int64{cli}})
				}
			default:
				if enTick {
					p.Ops = append(p.Ops, gosim.Op{K: "tick", A: []int64{cli}})
				}
			}
		}
		if enHsk && rng.Intn(100) < 35 {
			peer := hot
			if rng.Intn(100) < 30 {
				peer = int64(rng.Intn(n))
			}
			p.Ops = append(p.Ops, gosim.Op{K: "hsk", A: []int64{peer, 1 + rng.Int63n(80)}})
			if rng.Intn(100) < 50 {
				continue // more traffic before the next restart
			}
		}
		if rng.Intn(100) < 35 {
			p.Ops = append(p.Ops, gosim.Op{K: "restart"})
		} else {
			p.Ops = append(p.Ops, gosim.Op{K: "barrier"})
		}
	}
	// 25 % of the runs: a crash point at a state-store write; another 30 %: transient write errors
	switch x := rng.Intn(100); {
	case x < 25:
		p.Faults = append(p.Faults, gosim.Op{K: "crash", A: []int64{int64(rng.Intn(3 * len(p.Ops)))}})
	case x < 55:
		cnt := map[string]int{}
		for _, o := range p.Ops {
			cnt[o.K]++
		}
		for f := 0; f < 1+rng.Intn(2); f++ {
			kind := int64(0)
			opk := "ret"
			switch y := rng.Intn(100); {
			case y < 55:
			case y < 70:
				kind, opk = 1, "tra"
			case y < 90:
				kind, opk = 2, "pay"
			default:
				kind, opk = 3, "rcv"
			}
			c := cnt[opk]
			if c == 0 {
				c = 1
			}
			nth := rng.Intn(c)
			if rng.Intn(100) < 60 { // one of the last writes of that kind: nothing repairs it before the restart
				nth = c - 1 - rng.Intn(3)
				if nth < 0 {
					nth = 0
				}
			}
			p.Faults = append(p.Faults, gosim.Op{K: "werr", A: []int64{kind, int64(nth)}})
			if kind == 0 && rng.Intn(100) < 60 {
				// and a payment afterwards
				p.Ops = append(p.Ops, gosim.Op{K: "pay", A: []int64{0, hot, 1}}, gosim.Op{K: "barrier"})
			}
		}
	}
	return p
}

type c33Fig struct{ ret, tra, sentChq, rcvChq, sentSet, rcvSet *big.Int }

func c33Exec(r *gosim.Run) {
	n := int(r.Plan.P("peers", 2))
	if n < 1 {
		n = 1
	}
	if n > 8 {
		n = 8
	}
	envelope := r.Plan.P("envelope", 1) == 1
	cls := func(c string) string {
		if envelope {
			return c
		}
		return c + "-freeapi"
	}
	env := c30NewEnv(r, r.Plan.P("keyseed", 1), n)
	self := env.self.addr
	env.chain.setBalance(self, 1_000_000_000)
	node, err := env.start()
	if err != nil {
		r.Violate("init-error", "Init on an empty store failed: %v", err)
	}
	started := time.Now()
	for i, p := range env.peers {
		c30Guard(r, "handshake", func() {
			if err := node.register(p); err != nil {
				r.Violate("handshake-error", "init handshake of peer %d failed: %v", i, err)
			}
		})
	}
	var mu sync.Mutex // model
	ackRet := make([]int64, n)
	ackTra := make([]int64, n)
	invRet := make([]int64, n)
	// every peer has some history in both directions (cheques are only exchanged for traffic)
	for i, p := range env.peers {
		if err := node.svc.PutRetrieveTraffic(p.overlay, big.NewInt(5)); err != nil {
			r.Violate("api-error", "PutRetrieveTraffic: %v", err)
		}
		if err := node.svc.PutTransferTraffic(p.overlay, big.NewInt(5)); err != nil {
			r.Violate("api-error", "PutTransferTraffic: %v", err)
		}
		ackRet[i], ackTra[i], invRet[i] = 5, 5, 5
	}
	gosim.Idle()
	rcvCum := make([]int64, n) // highest payout of cheques accepted from peer i
	held := make([]int64, n)   // highest payout peer i holds from the node
	seen := make([]int, n)
	peerMu := make([]sync.Mutex, n) // envelope: accountingPeer.lock
	sendMu := make([]sync.Mutex, n) // a peer issues its cheques one after the other
	var payMu sync.Mutex            // envelope: the single settle goroutine
	crashed := false                // a crash happened in this run: the model of acknowledged updates no longer applies

	maybeRet := make([]int64, n)  // updates that reported an error: applied or not
	maybeTra := make([]int64, n)
	taintSent := make([]bool, n)  // a write of the last sent cheque failed: the store may be behind the peer
	failSeen := 0
	for _, f := range r.Plan.Faults {
		if f.K == "werr" {
			prefix := map[int64]string{0: "retrieved_traffic_", 1: "transferred_traffic_", 2: "traffic_last_send_cheque_", 3: "traffic_last_received_cheque_"}[f.Arg(0)]
			if prefix == "" || f.Arg(1) < 0 {
				continue
			}
			env.store.mu.Lock()
			env.store.fails = append(env.store.fails, &c30WriteFail{prefix: prefix, nth: f.Arg(1)})
			env.store.mu.Unlock()
		}
		if f.K == "crash" {
			k := f.Arg(0)
			if k < 0 {
				k = 0
			}
			env.store.mu.Lock()
			env.store.crashAt = env.store.writes + k
			env.store.mu.Unlock()
		}
	}

	figures := func(nd *c30Node) []c33Fig {
		out := make([]c33Fig, n)
		tcs, err := nd.svc.TrafficCheques()
		if err != nil {
			r.Violate("api-error", "TrafficCheques: %v", err)
		}
		for i, p := range env.peers {
			f := c33Fig{big.NewInt(0), big.NewInt(0), big.NewInt(0), big.NewInt(0), big.NewInt(0), big.NewInt(0)}
			if v, err := nd.svc.TotalReceived(p.overlay); err == nil {
				f.ret = new(big.Int).Set(v)
			}
			if v, err := nd.svc.TotalSent(p.overlay); err == nil {
				f.tra = new(big.Int).Set(v)
			}
			if c, err := nd.svc.LastSentCheque(p.overlay); err == nil && c != nil && c.CumulativePayout != nil {
				f.sentChq = new(big.Int).Set(c.CumulativePayout)
			}
			if c, err := nd.svc.LastReceivedCheque(p.overlay); err == nil && c != nil && c.CumulativePayout != nil {
				f.rcvChq = new(big.Int).Set(c.CumulativePayout)
			}
			for _, tc := range tcs {
				if tc.Peer.Equal(p.overlay) {
					f.sentSet = new(big.Int).Set(tc.SentSettlements)
					f.rcvSet = new(big.Int).Set(tc.ReceivedSettlements)
				}
			}
			out[i] = f
		}
		return out
	}

	// cheques that reached the peers: cashable, never twice the same payout, never above what was consumed
	checkInboxes := func(where string, probe bool, heldBefore []int64) {
		for i, p := range env.peers {
			got := p.tr.snapshot()
			for idx := seen[i]; idx < len(got); idx++ {
				g := got[idx]
				c := g.cheque
				if g.sigErr != nil || g.issuer != self || c.Beneficiary != self || c.Recipient != p.addr {
					r.Violate("bad-cheque", "peer %d received a cheque it cannot cash (%s)", i, where)
				}
				cum := c.CumulativePayout.Int64()
				r.Count("probe_cheque_delivered")
				r.Logf("%s: peer %d holds new cheque payout=%d (consumed so far %d)", where, i, cum, invRet[i])
				if !crashed && !taintSent[i] {
					for _, o := range got[:idx] {
						if o.cheque.CumulativePayout.Cmp(c.CumulativePayout) == 0 {
							r.Violate(cls("cheque-reissued"), "%s: peer %d received two cheques with the same cumulative payout %d: the second one was issued for an amount already paid", where, i, cum)
						}
					}
					if cum > invRet[i] {
						r.Violate(cls("overpaid"), "%s: peer %d received a cheque with cumulative payout %d, but the node consumed only %d of its traffic", where, i, cum, invRet[i])
					}
					if probe && !taintSent[i] && cum <= heldBefore[i] {
						r.Violate(cls("repaid"), "%s: first cheque after the restart has cumulative payout %d, peer %d already holds %d", where, cum, i, heldBefore[i])
					}
				}
				if cum > held[i] {
					held[i] = cum
				}
			}
			seen[i] = len(got)
		}
	}

	// at quiescence: nothing acknowledged is missing from the node's totals
	checkTotals := func(where string, f []c33Fig) {
		// traffic that has been paid for by cheque was consumed: the consumed total never
		// falls below the cumulative payout of the cheques sent (else the next units
		// consumed from that peer would never be paid)
		for i := range f {
			if f[i].ret.Cmp(f[i].sentSet) < 0 {
				r.Violate(cls("total-forgotten"), "%s: peer %d: recorded consumed traffic is %s, but cheques for %s have been sent to it: consumed traffic that was already paid for is forgotten (unpaid balance %s)",
					where, i, f[i].ret, f[i].sentSet, new(big.Int).Sub(f[i].ret, f[i].sentSet))
			}
		}
		if crashed {
			return
		}
		for i := range f {
			if f[i].ret.Cmp(big.NewInt(ackRet[i])) < 0 {
				r.Violate(cls("total-forgotten"), "%s: peer %d: recorded consumed traffic is %s, acknowledged updates sum to %d", where, i, f[i].ret, ackRet[i])
			}
			if f[i].tra.Cmp(big.NewInt(ackTra[i])) < 0 {
				r.Violate(cls("total-forgotten"), "%s: peer %d: recorded served traffic is %s, acknowledged updates sum to %d", where, i, f[i].tra, ackTra[i])
			}
		}
	}

	restart := func(where string) {
		pre := figures(node)
		for i := range pre {
			if pre[i].sentChq.Cmp(pre[i].ret) > 0 || pre[i].sentSet.Cmp(big.NewInt(0)) > 0 {
				stored, _ := node.cs.GetRetrieveTraffic(env.peers[i].addr)
				if stored != nil && pre[i].sentChq.Cmp(stored) > 0 {
					r.Count("probe_cheque_ahead_of_stored_total")
				}
			}
		}
		env.store.mu.Lock()
		wasCrash := env.store.lost > 0
		env.store.crashAt = -1
		env.store.lost = 0
		env.store.mu.Unlock()
		if wasCrash {
			// the process died at the first lost write; what it did afterwards is not evidence
			crashed = true
			r.Count("probe_restart_after_crash")
		}
		checkTotals(where+" (before restart)", pre)
		node.stop()
		// what reached the store
		raw := chequePkg.NewChequeStore(&c30StoreFront{env.store, &c30Alive{}}, self, chequePkg.RecoverCheque, c30ChainID)
		type st struct{ ret, tra, sent, rcv *big.Int }
		stored := make([]st, n)
		for i, p := range env.peers {
			s := st{big.NewInt(0), big.NewInt(0), big.NewInt(0), big.NewInt(0)}
			if v, err := raw.GetRetrieveTraffic(p.addr); err == nil {
				s.ret = v
			}
			if v, err := raw.GetTransferTraffic(p.addr); err == nil {
				s.tra = v
			}
			if c, err := raw.LastSendCheque(p.addr); err == nil {
				s.sent = c.CumulativePayout
			}
			if c, err := raw.LastReceivedCheque(p.addr); err == nil {
				s.rcv = c.CumulativePayout
			}
			stored[i] = s
		}
		nn, err := env.start()
		if err != nil {
			r.Violate("init-error", "Init after restart failed: %v", err)
		}
		node = nn
		started = time.Now()
		gosim.Idle()
		post := figures(node)
		r.Count("probe_restart")
		for i := range post {
			r.Logf("%s peer %d: before ret=%s tra=%s sent=%s/%s rcv=%s/%s | stored ret=%s tra=%s sent=%s rcv=%s | after ret=%s tra=%s sent=%s/%s rcv=%s/%s | acked ret=%d tra=%d",
				where, i, pre[i].ret, pre[i].tra, pre[i].sentChq, pre[i].sentSet, pre[i].rcvChq, pre[i].rcvSet,
				stored[i].ret, stored[i].tra, stored[i].sent, stored[i].rcv,
				post[i].ret, post[i].tra, post[i].sentChq, post[i].sentSet, post[i].rcvChq, post[i].rcvSet, ackRet[i], ackTra[i])
			ge := func(what string, after *big.Int, ref string, before *big.Int, class string) {
				if after.Cmp(before) < 0 {
					r.Violate(class, "%s: peer %d: %s is %s after the restart, %s it was %s", where, i, what, after, ref, before)
				}
			}
			// whatever reached the store is restored (also after a crash)
			ge("consumed traffic total", post[i].ret, "in the store", stored[i].ret, "stored-not-restored")
			ge("served traffic total", post[i].tra, "in the store", stored[i].tra, "stored-not-restored")
			ge("last sent cheque amount", post[i].sentChq, "in the store", stored[i].sent, "stored-not-restored")
			ge("sent settlements", post[i].sentSet, "the stored last sent cheque", stored[i].sent, "stored-not-restored")
			ge("last received cheque amount", post[i].rcvChq, "in the store", stored[i].rcv, "stored-not-restored")
			ge("received settlements", post[i].rcvSet, "the stored last received cheque", stored[i].rcv, "stored-not-restored")
			if wasCrash {
				continue
			}
			// clean restart: at least the values before the restart
			// (an update that reported an error may or may not be part of the total)
			ge("consumed traffic total", post[i].ret, "before the restart (minus updates that reported an error)", new(big.Int).Sub(pre[i].ret, big.NewInt(maybeRet[i])), cls("total-forgotten"))
			ge("served traffic total", post[i].tra, "before the restart (minus updates that reported an error)", new(big.Int).Sub(pre[i].tra, big.NewInt(maybeTra[i])), cls("total-forgotten"))
			ge("last sent cheque amount", post[i].sentChq, "before the restart", pre[i].sentChq, cls("cheque-forgotten"))
			ge("last received cheque amount", post[i].rcvChq, "before the restart", pre[i].rcvChq, cls("cheque-forgotten"))
			if !taintSent[i] {
				ge("sent settlements", post[i].sentSet, "before the restart", pre[i].sentSet, cls("cheque-forgotten"))
			}
			ge("received settlements", post[i].rcvSet, "before the restart", pre[i].rcvSet, cls("cheque-forgotten"))
		}
		checkTotals(where+" (after restart)", post)
		if crashed {
			return
		}
		// the next cheque pays only unpaid traffic
		for i, p := range env.peers {
			before := append([]int64(nil), held...)
			invRet[i] += 7
			c30Guard(r, "PutRetrieveTraffic", func() {
				if err := node.svc.PutRetrieveTraffic(p.overlay, big.NewInt(7)); err != nil {
					r.Violate("api-error", "PutRetrieveTraffic after restart: %v", err)
				}
			})
			ackRet[i] += 7
			var perr error
			c30Guard(r, "Pay", func() { perr = node.svc.Pay(context.Background(), p.overlay, big.NewInt(1)) })
			gosim.Idle()
			r.Logf("%s probe pay peer %d -> %v", where, i, perr)
			r.Count("probe_pay_after_restart")
			checkInboxes(where+" probe", true, before)
		}
	}

	nextTick := func() time.Duration {
		mu.Lock()
		el := time.Since(started)
		mu.Unlock()
		k := el/(24*time.Hour) + 1
		return time.Duration(k)*24*time.Hour - el
	}

	setFail := func(on bool) {
		env.store.mu.Lock()
		env.store.failOn = on
		env.store.mu.Unlock()
	}
	// which peers' sent-cheque records may be behind because a write failed
	noteFailures := func() {
		env.store.mu.Lock()
		failed := append([]string(nil), env.store.failed[failSeen:]...)
		failSeen = len(env.store.failed)
		env.store.mu.Unlock()
		for _, k := range failed {
			r.Logf("write failed: %s", k)
			if !strings.HasPrefix(k, "traffic_last_send_cheque_") {
				continue
			}
			for i, p := range env.peers {
				if strings.HasSuffix(strings.ToLower(k), strings.ToLower(p.addr.Hex()[2:])) {
					taintSent[i] = true
				}
			}
		}
	}
	handshake := func(o *gosim.Op) {
		pi := int(o.Arg(0))
		if pi < 0 {
			pi = -pi
		}
		pi %= n
		peer := env.peers[pi]
		extra := o.Arg(1)
		if extra < 1 {
			extra = 1
		}
		// a cheque the node signed in the part of its history it no longer remembers
		top := held[pi]
		if c, err := node.svc.LastSentCheque(peer.overlay); err == nil && c != nil && c.CumulativePayout != nil && c.CumulativePayout.Int64() > top {
			top = c.CumulativePayout.Int64()
		}
		cum := top + extra
		ch := env.self.sign(peer.addr, self, cum)
		peer.tr.mu.Lock()
		peer.tr.last = ch
		peer.tr.mu.Unlock()
		if cum > invRet[pi] {
			invRet[pi] = cum // that traffic was consumed (and paid) back then
		}
		held[pi] = cum
		var err error
		c30Guard(r, "handshake", func() { err = node.register(peer) })
		gosim.Idle()
		r.Logf("hsk peer=%d presents cheque %d -> %v", pi, cum, err)
		r.Count("probe_handshake_adopts_cheque")
		f := figures(node)
		if f[pi].sentChq.Cmp(big.NewInt(cum)) != 0 {
			r.Logf("hsk: cheque not adopted (last sent %s)", f[pi].sentChq)
		}
		checkTotals("after handshake", f)
	}
	setFail(true)
	c30Phases(r, r.Plan.Ops, func(o gosim.Op) bool { return o.K == "restart" || o.K == "hsk" }, func(phase int, o gosim.Op) {
		pi := int(o.Arg(1))
		if pi < 0 {
			pi = -pi
		}
		pi %= n
		peer := env.peers[pi]
		amt := o.Arg(2)
		if amt < 1 {
			amt = 1
		}
		switch o.K {
		case "ret":
			if envelope {
				peerMu[pi].Lock()
				defer peerMu[pi].Unlock()
			}
			mu.Lock()
			invRet[pi] += amt
			mu.Unlock()
			var err error
			c30Guard(r, "PutRetrieveTraffic", func() { err = node.svc.PutRetrieveTraffic(peer.overlay, big.NewInt(amt)) })
			r.Logf("ret peer=%d +%d -> %v", pi, amt, err)
			mu.Lock()
			if err == nil {
				ackRet[pi] += amt
			} else {
				maybeRet[pi] += amt
			}
			mu.Unlock()
		case "tra":
			if envelope {
				peerMu[pi].Lock()
				defer peerMu[pi].Unlock()
			}
			var err error
			c30Guard(r, "PutTransferTraffic", func() { err = node.svc.PutTransferTraffic(peer.overlay, big.NewInt(amt)) })
			r.Logf("tra peer=%d +%d -> %v", pi, amt, err)
			mu.Lock()
			if err == nil {
				ackTra[pi] += amt
			} else {
				maybeTra[pi] += amt
			}
			mu.Unlock()
		case "pay":
			if envelope {
				payMu.Lock()
				defer payMu.Unlock()
			}
			var err error
			c30Guard(r, "Pay", func() { err = node.svc.Pay(context.Background(), peer.overlay, big.NewInt(amt)) })
			r.Logf("pay peer=%d thr=%d -> %v", pi, amt, err)
		case "rcv":
			sendMu[pi].Lock()
			defer sendMu[pi].Unlock()
			mu.Lock()
			cum := rcvCum[pi] + amt
			mu.Unlock()
			ch := peer.sign(self, peer.addr, cum)
			var acc bool
			var herr error
			c30Guard(r, "deliver", func() { acc, herr = node.deliver(peer.overlay, peer.addr, ch) })
			r.Logf("rcv peer=%d cum=%d -> %v %v", pi, cum, acc, herr)
			if acc {
				mu.Lock()
				rcvCum[pi] = cum
				mu.Unlock()
				r.Count("probe_cheque_received")
			}
		case "init":
			var err error
			c30Guard(r, "TrafficInit", func() { err = node.svc.TrafficInit() })
			r.Logf("init -> %v", err)
			r.Count("probe_concurrent_init")
		case "tick":
			time.Sleep(nextTick())
			r.Count("probe_tick")
			r.Logf("tick")
		}
	}, func(phase int, s *gosim.Op) {
		setFail(false)
		noteFailures()
		env.store.mu.Lock()
		if env.store.lost > 0 {
			crashed = true
		}
		env.store.mu.Unlock()
		checkInboxes("phase end", false, nil)
		checkTotals("phase end", figures(node))
		if s != nil && s.K == "restart" {
			restart("restart")
		}
		if s != nil && s.K == "hsk" {
			handshake(s)
		}
		setFail(true)
	})
	setFail(false)
	restart("final restart")
}

func init() {
	gosim.Register(&gosim.World{
		Prop: "C33", Gen: c33Gen, Exec: c33Exec,
		Real: []string{
			"pkg/settlement/traffic (Service: PutRetrieveTraffic, PutTransferTraffic, Pay/issue, ReceiveCheque, TrafficInit / 24h refresh, Init restore, address book)",
			"pkg/settlement/traffic/cheque (cheque store over the state store, EIP-712 signer/recovery, real keys)",
			"pkg/settlement/traffic/trafficprotocol (both ends over p2p/streamtest stream pairs)",
			"pkg/subscribe, pkg/statestore/mock (behind a write-counting / write-dropping wrapper)",
		},
		Stubs: []string{"chain.Traffic (static truth)", "cheque.CashoutService (unused)", "p2p.Service (repository mock)", "callers: client goroutines instead of pkg/accounting (its locking discipline is kept when envelope=1)", "streams: p2p/streamtest"},
	})
}
