package worlds

// Shared helpers of the W-NET worlds C29 (hive2 peer exchange) and C34 (address
// record authentication): seeded identities (secp256k1 key, overlay, libp2p peer
// id, underlay), a p2p.Service facade over a simnet node, a real kademlia.Kad
// that is only driven through its public API (no manage loop), an address book
// over the in-memory leveldb state store.

import (
	"context"
	"crypto/ecdsa"
	"crypto/sha256"
	"encoding/binary"
	"errors"
	"fmt"
	"io"
	"net"
	"time"

	"github.com/gauss-project/aurorafs/pkg/addressbook"
	"github.com/gauss-project/aurorafs/pkg/aurora"
	"github.com/gauss-project/aurorafs/pkg/boson"
	"github.com/gauss-project/aurorafs/pkg/crypto"
	"github.com/gauss-project/aurorafs/pkg/discovery"
	"github.com/gauss-project/aurorafs/pkg/logging"
	"github.com/gauss-project/aurorafs/pkg/p2p"
	rpb "github.com/gauss-project/aurorafs/pkg/routetab/pb"
	"github.com/gauss-project/aurorafs/pkg/shed"
	ldbstate "github.com/gauss-project/aurorafs/pkg/statestore/leveldb"
	"github.com/gauss-project/aurorafs/pkg/subscribe"
	"github.com/gauss-project/aurorafs/pkg/topology/bootnode"
	"github.com/gauss-project/aurorafs/pkg/topology/kademlia"
	"github.com/gauss-project/aurorafs/pkg/topology/lightnode"
	libp2pcrypto "github.com/libp2p/go-libp2p-core/crypto"
	"github.com/libp2p/go-libp2p-core/network"
	libp2ppeer "github.com/libp2p/go-libp2p-core/peer"
	ma "github.com/multiformats/go-multiaddr"

	"verifharness/simnet"
)

// c2934Ident is one seeded identity.
type c2934Ident struct {
	Idx      int
	Key      *ecdsa.PrivateKey
	Signer   crypto.Signer
	Overlay  boson.Address
	PeerID   libp2ppeer.ID
	Underlay ma.Multiaddr // transport address, without the /p2p component
	ULText   string
}

func c2934Hash(tag string, seed uint64, idx int) []byte {
	var b [16]byte
	binary.BigEndian.PutUint64(b[0:], seed)
	binary.BigEndian.PutUint64(b[8:], uint64(idx))
	h := sha256.Sum256(append([]byte(tag), b[:]...))
	return h[:]
}

// c2934NewIdent derives identity idx of a run from the plan seed: the key is
// sha256(seed, idx) interpreted as a secp256k1 scalar, the overlay is what the
// repository derives for that key (trusted), the libp2p peer id comes from a
// second seeded secp256k1 key.
func c2934NewIdent(seed uint64, idx int, networkID uint64, underlay string) (*c2934Ident, error) {
	key := crypto.Secp256k1PrivateKeyFromBytes(c2934Hash("c2934-key", seed, idx))
	ov, err := crypto.NewOverlayAddress(key.PublicKey, networkID)
	if err != nil {
		return nil, err
	}
	pk, err := libp2pcrypto.UnmarshalSecp256k1PrivateKey(c2934Hash("c2934-p2p", seed, idx))
	if err != nil {
		return nil, err
	}
	pid, err := libp2ppeer.IDFromPrivateKey(pk)
	if err != nil {
		return nil, err
	}
	u, err := ma.NewMultiaddr(underlay)
	if err != nil {
		return nil, fmt.Errorf("underlay %q: %w", underlay, err)
	}
	return &c2934Ident{Idx: idx, Key: key, Signer: crypto.NewDefaultSigner(key), Overlay: ov, PeerID: pid, Underlay: u, ULText: underlay}, nil
}

// FullUnderlay is the advertised address: transport address + /p2p/<peer id>.
func (id *c2934Ident) FullUnderlay() ma.Multiaddr {
	m, err := ma.NewMultiaddr(fmt.Sprintf("%s/p2p/%s", id.Underlay.String(), id.PeerID.Pretty()))
	if err != nil {
		panic(err)
	}
	return m
}

// Record signs the identity's address record with its own signer (real aurora.NewAddress).
func (id *c2934Ident) Record(networkID uint64) (*aurora.Address, error) {
	return aurora.NewAddress(id.Signer, id.FullUnderlay(), id.Overlay, networkID)
}

// ---- p2p.Service facade ----

// c2934P2P completes a simnet node to p2p.Service + p2p.Pinger. Dialling,
// relaying and the resource manager are not simulated.
type c2934P2P struct {
	*simnet.Node
	// PingErr decides whether a raw underlay ping fails (nil: always reachable).
	PingErr func(addr ma.Multiaddr) error
	// RelayVia, if set, picks the directly connected node that serves a relay stream
	// towards target (stand-in for the relay layer).
	RelayVia func(target boson.Address) (boson.Address, bool)
}

var errC2934NotSimulated = errors.New("c2934: not simulated")

func (p *c2934P2P) CallHandlerWithConnChain(context.Context, p2p.Peer, p2p.Peer, p2p.Stream, string, string, string) error {
	return errC2934NotSimulated
}
func (p *c2934P2P) CallHandler(context.Context, p2p.Peer, p2p.Stream) (*rpb.RouteRelayReq, *p2p.WriterChan, *p2p.ReaderChan, bool, error) {
	return nil, nil, nil, false, errC2934NotSimulated
}
func (p *c2934P2P) Connect(context.Context, ma.Multiaddr) (*p2p.Peer, error) {
	return nil, errC2934NotSimulated
}
func (p *c2934P2P) PeerID(boson.Address) (libp2ppeer.ID, bool)  { return "", false }
func (p *c2934P2P) ResourceManager() network.ResourceManager    { return network.NullResourceManager }
func (p *c2934P2P) BlocklistedPeers() ([]p2p.BlockPeers, error) { return nil, nil }
func (p *c2934P2P) BlocklistRemove(boson.Address) error         { return nil }
func (p *c2934P2P) Addresses() ([]ma.Multiaddr, error)          { return nil, nil }
func (p *c2934P2P) NATAddresses() ([]net.Addr, error)           { return nil, nil }
func (p *c2934P2P) Halt()                                       {}
func (p *c2934P2P) Ping(ctx context.Context, addr ma.Multiaddr) (time.Duration, error) {
	if p.PingErr != nil {
		if err := p.PingErr(addr); err != nil {
			return 0, err
		}
	}
	time.Sleep(2 * time.Millisecond)
	return 2 * time.Millisecond, nil
}

func (p *c2934P2P) NewRelayStream(ctx context.Context, target boson.Address, h p2p.Headers, protocol, version, stream string, midCall bool) (p2p.Stream, error) {
	if p.RelayVia != nil && !p.Node.IsPeer(target) {
		if via, ok := p.RelayVia(target); ok {
			return p.Node.NewStream(ctx, via, h, protocol, version, stream)
		}
	}
	return p.Node.NewStream(ctx, target, h, protocol, version, stream)
}

var _ p2p.Service = (*c2934P2P)(nil)
var _ p2p.StreamerPinger = (*c2934P2P)(nil)

// ---- kademlia ----

type c2934Pinger struct{}

func (c2934Pinger) Ping(context.Context, boson.Address, ...string) (time.Duration, error) {
	return time.Millisecond, nil
}

// c2934Disc is the discovery driver of nodes that do not run hive2.
type c2934Disc struct{}

func (c2934Disc) BroadcastPeers(context.Context, boson.Address, ...boson.Address) error { return nil }
func (c2934Disc) DoFindNode(context.Context, boson.Address, boson.Address, []int32, int32) (chan boson.Address, error) {
	return nil, errC2934NotSimulated
}
func (c2934Disc) IsStart() bool                      { return false }
func (c2934Disc) IsHive2() bool                      { return true }
func (c2934Disc) NotifyDiscoverWork(...boson.Address) {}

var _ discovery.Driver = c2934Disc{}

func c2934Logger() logging.Logger { return logging.New(io.Discard, 0) }

func c2934FullMode() aurora.Model { return aurora.NewModel().SetMode(aurora.FullNode) }

// c2934NewBook is the real address book over the production (leveldb, in memory) state store.
func c2934NewBook() (addressbook.Interface, error) {
	st, err := ldbstate.NewInMemoryStateStore(c2934Logger())
	if err != nil {
		return nil, err
	}
	return addressbook.New(st), nil
}

// c2934NewKad builds the real kademlia. Start is never called: no manage loop,
// no dialling; peers enter through AddPeers / Connected / Disconnected only.
func c2934NewKad(base boson.Address, book addressbook.Interface, disc discovery.Driver, p2ps p2p.Service) (*kademlia.Kad, error) {
	db, err := shed.NewDB("", nil)
	if err != nil {
		return nil, err
	}
	return kademlia.New(base, book, disc, p2ps, c2934Pinger{}, lightnode.NewContainer(base), bootnode.NewContainer(base),
		db, c2934Logger(), subscribe.NewSubPub(), kademlia.Options{NodeMode: c2934FullMode()})
}

// c2934Varint frames: the protobuf streams are varint-delimited; the wire taps
// reassemble the byte stream of one direction and cut complete messages.
type c2934Reasm struct{ buf []byte }

// Push appends data and returns the complete message bodies now available.
func (q *c2934Reasm) Push(data []byte) (msgs [][]byte) {
	q.buf = append(q.buf, data...)
	for {
		n, k := binary.Uvarint(q.buf)
		if k <= 0 || uint64(len(q.buf)-k) < n {
			return msgs
		}
		msgs = append(msgs, append([]byte(nil), q.buf[k:k+int(n)]...))
		q.buf = q.buf[k+int(n):]
	}
}

// c2934Delimit frames one marshalled message.
func c2934Delimit(body []byte) []byte {
	var l [binary.MaxVarintLen64]byte
	n := binary.PutUvarint(l[:], uint64(len(body)))
	return append(append([]byte(nil), l[:n]...), body...)
}
