package worlds

// C23 — Closest-peer selection is the XOR-closest eligible peer.
//
// An observer of the C22 (sequential, Kad not started) and C24 (started Kad,
// queried at quiescent points) runs: after events, ClosestPeer / ClosestPeers
// are queried with generated targets, skip lists, the Reachable filter and
// includeSelf, and compared with the arg-min of the big-integer XOR distance
// over the eligible peers of the model.
//
// Query ops:
//   q1 [tkind, tsel, reachable, includeSelf, skip...]
//   qn [tkind, tsel, reachable, limit, skip...]
// target kinds: 0 hashed address, 1 a peer's address, 2 a peer's address with a
// low bit flipped, 3 own address, 4 own address with bit tsel flipped,
// 5 a peer's address with the bit after its bin flipped.

import (
	"errors"
	"fmt"
	"math/big"
	"math/rand"
	"sort"
	"strings"

	"github.com/gauss-project/aurorafs/pkg/boson"
	"github.com/gauss-project/aurorafs/pkg/topology"
	"github.com/gauss-project/aurorafs/pkg/topology/kademlia"

	"verifharness/gosim"
)

type c23Env struct {
	al         *c24Alphabet
	kad        *kademlia.Kad
	connected  []int             // connected peers
	reachable  func(id int) bool // last reported status is public
	selfPublic bool              // own reachability last reported public
}

func c23Target(al *c24Alphabet, kind, sel int64) boson.Address {
	peerOf := func() int {
		id := int(sel)
		if !al.validID(sel) {
			id = int(uint64(sel) % c24MaxID)
		}
		return id
	}
	switch kind {
	case 1:
		return al.addr(peerOf())
	case 2:
		b := append([]byte(nil), al.addr(peerOf()).Bytes()...)
		c24FlipBit(b, 255-int(uint64(sel)%7))
		return boson.NewAddress(b)
	case 3:
		return al.base
	case 4:
		b := append([]byte(nil), al.base.Bytes()...)
		c24FlipBit(b, int(uint64(sel)%256))
		return boson.NewAddress(b)
	case 5:
		id := peerOf()
		b := append([]byte(nil), al.addr(id).Bytes()...)
		c24FlipBit(b, min(al.bin(id)+1+int(uint64(sel)%3), 255))
		return boson.NewAddress(b)
	}
	return boson.NewAddress(c24Hash(al.seed, 7777, sel))
}

func c23Names(al *c24Alphabet, xs []boson.Address) string {
	var sb []string
	for _, x := range xs {
		sb = append(sb, al.name(x))
	}
	return "[" + strings.Join(sb, " ") + "]"
}

func c23Query(r *gosim.Run, e *c23Env, o gosim.Op) {
	al := e.al
	target := c23Target(al, o.Arg(0), o.Arg(1))
	reach := o.Arg(2) == 1
	var skip []boson.Address
	skipSet := map[int]bool{}
	if len(o.A) > 4 {
		for _, x := range o.A[4:] {
			if al.validID(x) {
				skip = append(skip, al.addr(int(x)))
				skipSet[int(x)] = true
			}
		}
	}
	// eligible peers of the model, sorted by distance to the target
	type cand struct {
		id int
		d  *big.Int
	}
	var elig []cand
	for _, id := range e.connected {
		if skipSet[id] || (reach && !e.reachable(id)) {
			continue
		}
		elig = append(elig, cand{id, c24Dist(al.addr(id), target)})
	}
	sort.Slice(elig, func(i, j int) bool { return elig[i].d.Cmp(elig[j].d) < 0 })
	filter := topology.Filter{Reachable: reach}
	r.Count("probe_queries")
	if len(elig) == 0 {
		r.Count("probe_query_no_eligible")
	}
	if reach && len(elig) > 0 && len(elig) < len(e.connected)-len(skipSet) {
		r.Count("probe_query_filtered_unreachable")
	}

	if o.K == "q1" {
		self := o.Arg(3) == 1
		got, err := e.kad.ClosestPeer(target, self, filter, skip...)
		res := ""
		switch {
		case err == nil:
			res = al.name(got)
		case errors.Is(err, topology.ErrNotFound):
			res = "notfound"
		case errors.Is(err, topology.ErrWantSelf):
			res = "wantself"
		default:
			r.Violate("closest-error", "ClosestPeer returned unexpected error %v", err)
		}
		// answers the statement allows
		without := "notfound"
		if len(elig) > 0 {
			without = fmt.Sprintf("p%d", elig[0].id)
		}
		var with []string
		if len(elig) == 0 {
			with = []string{"notfound", "wantself"} // statement silent: nobody eligible but self
		} else if c24Dist(al.base, target).Cmp(elig[0].d) < 0 {
			with = []string{"wantself"}
			r.Count("probe_self_strictly_nearer")
		} else {
			with = []string{without}
		}
		var allowed []string
		switch {
		case !self:
			allowed = []string{without}
		case e.selfPublic:
			allowed = with
		default: // self asked for but own reachability not public: either reading
			allowed = append(with, without)
		}
		r.Logf("q1 target=%s reach=%v self=%v skip=%s -> %s (allowed %v, eligible %d)", al.name(target), reach, self, c23Names(al, skip), res, allowed, len(elig))
		ok := false
		for _, a := range allowed {
			if a == res {
				ok = true
			}
		}
		if !ok {
			class := "closest-wrong-peer"
			switch {
			case res == "notfound":
				class = "closest-notfound"
			case res == "wantself":
				class = "closest-wantself"
			case without == "notfound":
				class = "closest-ineligible"
			}
			var first []string
			for i := 0; i < len(elig) && i < 4; i++ {
				first = append(first, fmt.Sprintf("p%d:%x", elig[i].id, elig[i].d.Bytes()[:min(4, len(elig[i].d.Bytes()))]))
			}
			r.Violate(class, "ClosestPeer(target %x.., includeSelf=%v, reachable=%v, skip %s) = %s, allowed %v; connected %v, nearest eligible %v, own reachability public=%v",
				target.Bytes()[:6], self, reach, c23Names(al, skip), res, allowed, e.connected, first, e.selfPublic)
		}
		return
	}

	// qn
	limit := int(o.Arg(3))
	if limit < 0 || limit > 64 {
		limit = 3
	}
	out, err := e.kad.ClosestPeers(target, limit, filter, skip...)
	if err != nil {
		r.Violate("closest-error", "ClosestPeers returned error %v", err)
	}
	r.Logf("qn target=%s reach=%v limit=%d skip=%s -> %s (eligible %d)", al.name(target), reach, limit, c23Names(al, skip), c23Names(al, out), len(elig))
	if len(out) > limit {
		r.Violate("closest-too-many", "ClosestPeers(limit %d) returned %d peers", limit, len(out))
	}
	eligSet := map[int]bool{}
	for _, c := range elig {
		eligSet[c.id] = true
	}
	seen := map[string]bool{}
	var prev *big.Int
	for i, a := range out {
		if seen[a.ByteString()] {
			r.Violate("closest-duplicate", "ClosestPeers returned %s twice: %s", al.name(a), c23Names(al, out))
		}
		seen[a.ByteString()] = true
		id, known := al.idOf(a)
		if !known || !eligSet[id] {
			r.Violate("closest-ineligible", "ClosestPeers returned %s which is not an eligible peer (connected %v, skip %s, reachable=%v): %s", al.name(a), e.connected, c23Names(al, skip), reach, c23Names(al, out))
		}
		d := c24Dist(a, target)
		if prev != nil && d.Cmp(prev) < 0 {
			r.Violate("closest-order", "ClosestPeers result %d (%s) is nearer than its predecessor: %s", i, al.name(a), c23Names(al, out))
		}
		prev = d
	}
	if len(out) >= 2 {
		r.Count("probe_multi_result")
	}
	if len(out) < limit && len(out) < len(elig) {
		r.Count("short_multi_result") // statement silent on the count
	}
}

// c23GenQuery makes one query op; `conn` are peers the generator believes connected.
func c23GenQuery(rng *rand.Rand, conn []int, anyPeer func() int) gosim.Op {
	pick := func() int {
		if len(conn) > 0 && rng.Intn(4) > 0 {
			return conn[rng.Intn(len(conn))]
		}
		return anyPeer()
	}
	kind := gosim.Pick(rng, 0, 0, 1, 2, 2, 3, 4, 4, 5, 5)
	sel := int64(rng.Intn(1 << 20))
	if kind == 1 || kind == 2 || kind == 5 {
		sel = int64(pick())
	}
	reach := int64(rng.Intn(2))
	var skip []int64
	switch x := rng.Intn(10); {
	case x < 3:
	case x < 7:
		for i, n := 0, 1+rng.Intn(3); i < n; i++ {
			skip = append(skip, int64(pick()))
		}
	case x < 9: // most of the connected peers
		for _, id := range conn {
			if rng.Intn(5) > 0 {
				skip = append(skip, int64(id))
			}
		}
	default: // all of them
		for _, id := range conn {
			skip = append(skip, int64(id))
		}
	}
	if rng.Intn(3) == 0 {
		a := append([]int64{kind, sel, reach, gosim.Pick(rng, 0, 1, 2, 3, 5, 40)}, skip...)
		return gosim.Op{K: "qn", A: a}
	}
	a := append([]int64{kind, sel, reach, int64(rng.Intn(2))}, skip...)
	return gosim.Op{K: "q1", A: a}
}

func c23GenPlan(rng *rand.Rand, tier string) *gosim.Plan {
	p := &gosim.Plan{Params: map[string]int64{}}
	if rng.Intn(3) > 0 {
		// sequential: C22's event generator with queries after every event
		p.Params["started"] = 0
		c22GenEvents(rng, tier, p, func(g *c22Gen) {
			var conn []int
			for id := range g.conn {
				conn = append(conn, id)
			}
			sort.Ints(conn)
			for i, n := 0, rng.Intn(3); i < n; i++ {
				g.p.Ops = append(g.p.Ops, c23GenQuery(rng, conn, func() int { return rng.Intn(c24MaxID) }))
			}
		})
		p.Params["yield_pct"] = gosim.Pick(rng, 0, 5)
		return p
	}
	p.Params["started"] = 1
	c24GenOps(rng, tier, p, func(g *c24Gen) []gosim.Op {
		var conn []int
		for id := range g.live {
			conn = append(conn, id)
		}
		sort.Ints(conn)
		var out []gosim.Op
		for i, n := 0, 1+rng.Intn(6); i < n; i++ {
			out = append(out, c23GenQuery(rng, conn, g.peer))
		}
		return out
	})
	return p
}

func c23Exec(r *gosim.Run) {
	if r.Plan.P("started", 0) == 1 {
		c24Run(r, false, true)
		return
	}
	t := c22NewTopo(r, false, true)
	for _, o := range r.Plan.Ops {
		t.exec(o)
		r.OpDone()
	}
}

func init() {
	gosim.Register(&gosim.World{
		Prop: "C23", Gen: c23GenPlan, Exec: c23Exec,
		Real: []string{"pkg/topology/kademlia (ClosestPeer, ClosestPeers, EachPeerRev, peerUnreachable, UpdateReachability; event handling as in C22 / C24)",
			"pkg/topology/pslice", "pkg/boson (Closer / DistanceCmp)", "pkg/topology/kademlia/internal/metrics"},
		Stubs: []string{"p2p service (scripted)", "discovery", "pinger"},
	})
}
