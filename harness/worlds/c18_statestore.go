package worlds

import (
	"bytes"
	"encoding/json"
	"errors"
	"fmt"
	"io"
	"math/rand"
	"os"
	"reflect"
	"sort"
	"strings"
	"time"

	"github.com/gauss-project/aurorafs/pkg/logging"
	ldbstate "github.com/gauss-project/aurorafs/pkg/statestore/leveldb"
	mockstate "github.com/gauss-project/aurorafs/pkg/statestore/mock"
	"github.com/gauss-project/aurorafs/pkg/storage"

	"verifharness/gosim"
)

// C18 — State stores behave as the same persistent map.
//
// Both implementations (statestore/leveldb, statestore/mock) are driven with the
// same history and compared with one sorted-map model (and hence each other).
//
// Ops:
//   put    [key, kind, val]     kind 0 struct, 1 string, 2 BinaryMarshaler, 3 uint64
//   get    [key]
//   del    [key]
//   iter   [prefix, stopAt, errAt]   -1 = never; the callback stops / fails at the i-th visited key (0-based)
//   reopen                       close + open the leveldb store again (persistent runs only; mock untouched)
//
// Params: persist (0: NewInMemoryStateStore, 1: NewStateStore on a private temp dir).
//
// Keys that a fresh store already reports (its internal schema record) are learnt
// by one Iterate("") right after creation and kept in the model as opaque
// entries; the world never writes them.

var c18Keys = []string{
	"", "a", "a\x00", "ab", "abc", "ab\xff", "ab\xff\xff", "ab\xff\xffz", "ac", "b",
	"\xff", "\xff\xff", "\xff\xff\x00", "\xff\xffa", "peer_1", "peer_10", "peer_2", "s", "sz", "t",
}

var c18Prefixes = []string{
	"", "a", "ab", "abc", "ab\xff", "ab\xff\xff", "ac", "b", "\xff", "\xff\xff", "\xff\xff\xff",
	"peer_", "peer_1", "s", "sch", "st", "zz", "a\x00", "\x00",
}

type c18Struct struct {
	N int64             `json:"n"`
	S string            `json:"s"`
	L []int             `json:"l"`
	M map[string]uint64 `json:"m,omitempty"`
}

// c18Bin implements encoding.BinaryMarshaler / BinaryUnmarshaler.
type c18Bin struct{ b []byte }

func (x *c18Bin) MarshalBinary() ([]byte, error) { return append([]byte{0xB1}, x.b...), nil }
func (x *c18Bin) UnmarshalBinary(d []byte) error {
	if len(d) < 1 || d[0] != 0xB1 {
		return fmt.Errorf("c18Bin: bad encoding %x", d)
	}
	x.b = append([]byte(nil), d[1:]...)
	return nil
}

var c18Structs = []c18Struct{
	{},
	{N: 1, S: "x"},
	{N: -7, S: "<tag>&\"q\"\\", L: []int{}},
	{N: 1 << 40, S: "héllo   wörld", L: []int{3, 1, 2}, M: map[string]uint64{"k": 1, "j": 1 << 63}},
}
var c18Strings = []string{"", "v", "null", "{\"a\":1}", "日本 <>&", "schema"}
var c18Bins = [][]byte{{}, {0}, {0xff, 0xff}, []byte("{\"n\":1}"), {1, 2, 3, 4, 5, 6, 7, 8, 9}}
var c18Ints = []uint64{0, 1, 1 << 53, 1<<64 - 1}

type c18Val struct {
	kind, idx int
	opaque    bool // pre-existing entry of a fresh store
}

func (v c18Val) String() string {
	if v.opaque {
		return "internal"
	}
	return fmt.Sprintf("%s#%d", []string{"struct", "string", "bin", "uint64"}[v.kind], v.idx)
}

func c18Norm(kind, idx int64) c18Val {
	k := int(kind & 3)
	n := []int{len(c18Structs), len(c18Strings), len(c18Bins), len(c18Ints)}[k]
	i := int(idx) % n
	if i < 0 {
		i += n
	}
	return c18Val{kind: k, idx: i}
}

// value to Put
func (v c18Val) put() interface{} {
	switch v.kind {
	case 0:
		return c18Structs[v.idx]
	case 1:
		return c18Strings[v.idx]
	case 2:
		return &c18Bin{b: append([]byte(nil), c18Bins[v.idx]...)}
	default:
		return c18Ints[v.idx]
	}
}

// decode raw bytes / Get into a fresh value of the right type and compare
func (v c18Val) fresh() interface{} {
	switch v.kind {
	case 0:
		return &c18Struct{}
	case 1:
		return new(string)
	case 2:
		return &c18Bin{}
	default:
		return new(uint64)
	}
}

func (v c18Val) equals(got interface{}) bool {
	switch v.kind {
	case 0:
		return reflect.DeepEqual(*got.(*c18Struct), c18Structs[v.idx])
	case 1:
		return *got.(*string) == c18Strings[v.idx]
	case 2:
		return bytes.Equal(got.(*c18Bin).b, c18Bins[v.idx])
	default:
		return *got.(*uint64) == c18Ints[v.idx]
	}
}

// rawOK: the raw value handed to the iteration callback decodes (binary for a
// BinaryMarshaler, JSON otherwise — the documented encoding) to the written value.
func (v c18Val) rawOK(raw []byte) bool {
	f := v.fresh()
	if v.kind == 2 {
		if err := f.(*c18Bin).UnmarshalBinary(raw); err != nil {
			return false
		}
	} else if err := json.Unmarshal(raw, f); err != nil {
		return false
	}
	return v.equals(f)
}

func c18Gen(rng *rand.Rand, tier string) *gosim.Plan {
	p := &gosim.Plan{Params: map[string]int64{}}
	p.Params["persist"] = int64(gosim.Pick(rng, 0, 1, 1))
	n := 8 + rng.Intn(50)
	if tier == "thorough" {
		n = 8 + rng.Intn(250)
	}
	// per run: a working set of keys (dense histories) or the whole alphabet
	nk := len(c18Keys)
	if rng.Intn(2) == 0 {
		nk = 3 + rng.Intn(8)
	}
	off := rng.Intn(len(c18Keys))
	key := func() int64 { return int64((off + rng.Intn(nk)) % len(c18Keys)) }
	for i := 0; i < n; i++ {
		switch x := rng.Intn(100); {
		case x < 40:
			p.Ops = append(p.Ops, gosim.Op{K: "put", A: []int64{key(), int64(rng.Intn(4)), int64(rng.Intn(6))}})
		case x < 52:
			p.Ops = append(p.Ops, gosim.Op{K: "del", A: []int64{key()}})
		case x < 67:
			p.Ops = append(p.Ops, gosim.Op{K: "get", A: []int64{key()}})
		case x < 94:
			stop, errAt := int64(-1), int64(-1)
			switch rng.Intn(3) {
			case 1:
				stop = int64(rng.Intn(5))
			case 2:
				errAt = int64(rng.Intn(5))
			}
			p.Ops = append(p.Ops, gosim.Op{K: "iter", A: []int64{int64(rng.Intn(len(c18Prefixes))), stop, errAt}})
		default:
			p.Ops = append(p.Ops, gosim.Op{K: "reopen"})
		}
	}
	return p
}

type c18Impl struct {
	name     string
	st       storage.StateStorer
	model    map[string]c18Val
	deferred *gosim.Violation
}

type c18World struct {
	r     *gosim.Run
	impls []*c18Impl
	dir   string
}

func (w *c18World) cleanup() {
	if w.dir != "" {
		_ = os.RemoveAll(w.dir)
		w.dir = ""
	}
}

// violate removes the temp directory before ending the run.
func (w *c18World) violate(class, format string, a ...interface{}) {
	w.cleanup()
	w.r.Violate(class, format, a...)
}

// deferViolation records a violation that is reported when the run ends, so that
// the rest of the history is still checked (other classes take precedence).
func (w *c18World) deferViolation(im *c18Impl, class, format string, a ...interface{}) {
	msg := fmt.Sprintf(format, a...)
	w.r.Logf("DEFERRED %s: %s", class, msg)
	if im.deferred == nil {
		im.deferred = &gosim.Violation{Class: class, Msg: msg}
	}
}

func (im *c18Impl) sortedMatching(prefix string) []string {
	var ks []string
	for k := range im.model {
		if strings.HasPrefix(k, prefix) {
			ks = append(ks, k)
		}
	}
	sort.Strings(ks) // Go string comparison is bytewise
	return ks
}

var c18ErrCallback = errors.New("c18: callback error")

func (w *c18World) guard(what string, f func()) {
	done := make(chan struct{})
	go func() { f(); close(done) }()
	select {
	case <-done:
	case <-time.After(10 * time.Minute):
		w.violate("hang", "%s did not return within 10 simulated minutes", what)
	}
}

func (w *c18World) iterate(im *c18Impl, prefix string, stopAt, errAt int64, log bool) {
	r := w.r
	type kv struct {
		k string
		v []byte
	}
	var seen []kv
	var ret error
	w.guard("Iterate", func() {
		ret = im.st.Iterate(prefix, func(k, v []byte) (bool, error) {
			i := int64(len(seen))
			seen = append(seen, kv{string(k), append([]byte(nil), v...)})
			if errAt == i {
				return false, c18ErrCallback
			}
			if stopAt == i {
				return true, nil
			}
			return false, nil
		})
	})
	want := im.sortedMatching(prefix)
	cut := int64(-1)
	if stopAt >= 0 {
		cut = stopAt
	}
	if errAt >= 0 && (cut < 0 || errAt < cut) {
		cut = errAt
	}
	full := want
	if cut >= 0 && cut+1 < int64(len(want)) {
		want = want[:cut+1]
		r.Count("probe_iter_cut_short")
	}
	if log {
		got := make([]string, len(seen))
		for i, s := range seen {
			got[i] = s.k
		}
		r.Logf("%s iter prefix=%q stop=%d err=%d -> %q ret=%v", im.name, prefix, stopAt, errAt, got, ret)
	}
	// every visited key matches the prefix, exists, once, with the written value
	dup := map[string]bool{}
	for _, s := range seen {
		if !strings.HasPrefix(s.k, prefix) {
			w.violate("iter-beyond-prefix", "%s: Iterate(%q) visited key %q", im.name, prefix, s.k)
		}
		mv, ok := im.model[s.k]
		if !ok {
			w.violate("iter-ghost-key", "%s: Iterate(%q) visited key %q which is absent (never written or deleted)", im.name, prefix, s.k)
		}
		if dup[s.k] {
			w.violate("iter-duplicate", "%s: Iterate(%q) visited key %q twice", im.name, prefix, s.k)
		}
		dup[s.k] = true
		if !mv.opaque && !mv.rawOK(s.v) {
			w.violate("iter-value", "%s: Iterate(%q) key %q: value %q does not decode to the written %v", im.name, prefix, s.k, s.v, mv)
		}
	}
	if len(seen) > len(want) {
		w.violate("iter-stop-ignored", "%s: Iterate(%q, stop=%d err=%d) visited %d keys, at most %d expected (matching keys: %q)", im.name, prefix, stopAt, errAt, len(seen), len(want), full)
	}
	if len(seen) < len(want) {
		w.violate("iter-missing", "%s: Iterate(%q, stop=%d err=%d) visited %d keys, expected %d (%q)", im.name, prefix, stopAt, errAt, len(seen), len(want), want)
	}
	for i := range seen {
		if seen[i].k != want[i] {
			got := make([]string, len(seen))
			for j, s := range seen {
				got[j] = s.k
			}
			// right number of distinct matching keys, wrong order / wrong subset
			w.deferViolation(im, "iter-order", "%s: Iterate(%q, stop=%d err=%d) visited %q, ascending byte order requires %q", im.name, prefix, stopAt, errAt, got, want)
			break
		}
	}
	// return value
	if errAt >= 0 && errAt < int64(len(full)) && int64(len(seen)) > errAt {
		r.Count("probe_iter_callback_error")
		if ret == nil {
			w.deferViolation(im, "iter-error-lost", "%s: the callback returned an error at key #%d of Iterate(%q) but Iterate returned nil", im.name, errAt, prefix)
		} else if !errors.Is(ret, c18ErrCallback) {
			w.violate("iter-error-changed", "%s: the callback returned %v at key #%d of Iterate(%q) but Iterate returned %v", im.name, c18ErrCallback, errAt, prefix, ret)
		}
	} else if ret != nil {
		w.violate("iter-spurious-error", "%s: Iterate(%q) returned %v although the callback returned no error", im.name, prefix, ret)
	}
}

func (w *c18World) get(im *c18Impl, key string, log bool) {
	mv, present := im.model[key]
	if present && mv.opaque {
		return
	}
	var target interface{} = new(json.RawMessage)
	if present {
		target = mv.fresh()
	}
	err := im.st.Get(key, target)
	if log {
		w.r.Logf("%s get %q -> err=%v (model: %v present=%v)", im.name, key, err, mv, present)
	}
	if !present {
		if err == nil {
			w.violate("absent-key-present", "%s: Get(%q) succeeded (%s) but the key was never written / was deleted", im.name, key, *target.(*json.RawMessage))
		}
		if !errors.Is(err, storage.ErrNotFound) {
			w.violate("absent-key-error", "%s: Get(%q) of an absent key returned %v, want storage.ErrNotFound", im.name, key, err)
		}
		return
	}
	if err != nil {
		w.violate("get-failed", "%s: Get(%q) = %v, the key holds %v", im.name, key, err, mv)
	}
	if !mv.equals(target) {
		w.violate("get-mismatch", "%s: Get(%q) read back %+v, written %v = %+v", im.name, key, reflect.ValueOf(target).Elem().Interface(), mv, mv.put())
	}
}

func (w *c18World) fullCheck(im *c18Impl, why string) {
	w.r.Count("probe_full_check")
	for _, k := range c18Keys {
		w.get(im, k, false)
	}
	w.iterate(im, "", -1, -1, false)
	_ = why
}

func (w *c18World) openLevelDB() storage.StateStorer {
	logger := logging.New(io.Discard, 0)
	var st storage.StateStorer
	var err error
	if w.dir != "" {
		st, err = ldbstate.NewStateStore(w.dir, logger)
	} else {
		st, err = ldbstate.NewInMemoryStateStore(logger)
	}
	if err != nil {
		w.violate("open-failed", "opening the leveldb state store: %v", err)
	}
	return st
}

func c18Exec(r *gosim.Run) {
	w := &c18World{r: r}
	shedTuneGC()
	if r.Plan.P("persist", 0) == 1 {
		d, err := os.MkdirTemp("", "c18-")
		if err != nil {
			r.Violate("harness-tempdir", "%v", err)
		}
		w.dir = d
	}
	defer w.cleanup()
	ldb := &c18Impl{name: "leveldb", model: map[string]c18Val{}}
	mck := &c18Impl{name: "mock", model: map[string]c18Val{}}
	ldb.st = w.openLevelDB()
	mck.st = mockstate.NewStateStore()
	w.impls = []*c18Impl{ldb, mck}
	// learn what a fresh store already contains
	for _, im := range w.impls {
		im := im
		err := im.st.Iterate("", func(k, v []byte) (bool, error) {
			im.model[string(k)] = c18Val{opaque: true}
			return false, nil
		})
		if err != nil {
			w.violate("iter-spurious-error", "%s: Iterate(\"\") on a fresh store: %v", im.name, err)
		}
		for _, k := range c18Keys {
			if _, clash := im.model[k]; clash {
				w.violate("harness-key-clash", "%s: fresh store already holds workload key %q", im.name, k)
			}
		}
		r.Logf("%s fresh store holds %d internal keys", im.name, len(im.model))
	}

	for _, o := range r.Plan.Ops {
		switch o.K {
		case "put":
			key := c18Keys[int(o.Arg(0))%len(c18Keys)]
			v := c18Norm(o.Arg(1), o.Arg(2))
			for _, im := range w.impls {
				err := im.st.Put(key, v.put())
				r.Logf("%s put %q = %v -> %v", im.name, key, v, err)
				if err != nil {
					w.violate("put-failed", "%s: Put(%q, %v) = %v", im.name, key, v, err)
				}
				im.model[key] = v
				w.get(im, key, false)
			}
		case "del":
			key := c18Keys[int(o.Arg(0))%len(c18Keys)]
			for _, im := range w.impls {
				_, present := im.model[key]
				err := im.st.Delete(key)
				r.Logf("%s del %q (present=%v) -> %v", im.name, key, present, err)
				if present {
					r.Count("probe_delete_present")
					if err != nil {
						w.violate("delete-failed", "%s: Delete(%q) of a present key = %v", im.name, key, err)
					}
				}
				// deleting an absent key: any result, no effect
				delete(im.model, key)
				w.get(im, key, false)
			}
		case "get":
			key := c18Keys[int(o.Arg(0))%len(c18Keys)]
			for _, im := range w.impls {
				w.get(im, key, true)
			}
		case "iter":
			prefix := c18Prefixes[int(o.Arg(0))%len(c18Prefixes)]
			for _, im := range w.impls {
				w.iterate(im, prefix, o.Arg(1), o.Arg(2), true)
			}
		case "reopen":
			if w.dir == "" {
				continue // nothing persistent to reopen
			}
			r.Count("probe_reopen")
			w.fullCheck(ldb, "before close")
			if err := ldb.st.Close(); err != nil {
				w.violate("close-failed", "leveldb: Close() = %v", err)
			}
			r.Logf("leveldb closed; reopening")
			ldb.st = w.openLevelDB()
			w.fullCheck(ldb, "after reopen")
		}
		r.OpDone()
	}
	for _, im := range w.impls {
		w.fullCheck(im, "end")
	}
	// both implementations saw the same history: same user-visible map
	for _, k := range c18Keys {
		a, aok := ldb.model[k]
		b, bok := mck.model[k]
		if aok != bok || a != b {
			w.violate("harness-model-split", "models diverged on %q", k)
		}
	}
	for _, im := range w.impls {
		if err := im.st.Close(); err != nil {
			w.violate("close-failed", "%s: Close() = %v", im.name, err)
		}
	}
	w.cleanup()
	for _, im := range w.impls {
		if im.deferred != nil {
			r.Violate(im.deferred.Class, "%s", im.deferred.Msg)
		}
	}
}

func init() {
	gosim.Register(&gosim.World{
		Prop: "C18", Gen: c18Gen, Exec: c18Exec,
		Real: []string{
			"pkg/statestore/leveldb (store: Get/Put/Delete/Iterate/Close, migrate)",
			"pkg/statestore/mock",
			"pkg/shed/leveldb driver + goleveldb (MemStorage or a private temp directory for reopen)",
		},
		Stubs: []string{"logger (discard)"},
	})
}
