package worlds

import (
	"context"
	"fmt"
	"math/rand"
	"net"
	"strings"
	"sync"
	"time"

	"github.com/gauss-project/aurorafs/pkg/addressbook"
	"github.com/gauss-project/aurorafs/pkg/aurora"
	"github.com/gauss-project/aurorafs/pkg/boson"
	"github.com/gauss-project/aurorafs/pkg/hive2"
	hpb "github.com/gauss-project/aurorafs/pkg/hive2/pb"
	"github.com/gauss-project/aurorafs/pkg/p2p"
	"github.com/gauss-project/aurorafs/pkg/p2p/protobuf"
	"github.com/gauss-project/aurorafs/pkg/topology/kademlia"
	ma "github.com/multiformats/go-multiaddr"

	"verifharness/gosim"
	"verifharness/simnet"
)

// C29 — Peer-exchange replies respect the request.
//
// Real: pkg/hive2 Service (onFindNode handler, DoFindNode, checkAndAddPeers,
// optionally the discover/lookup loop), pkg/topology/kademlia Kad (connected /
// known peer slices, driven through Connected / AddPeers), pkg/addressbook over
// the leveldb state store, aurora.NewAddress records signed with seeded keys.
// Stub: simnet streams instead of libp2p, raw underlay ping always succeeds.
//
// Identities 0..n_nodes-1 are live nodes, the others ("phantoms") only exist as
// records in address books / entries in kademlia peer lists.
//
// Ops (A[0] = client goroutine = acting node):
//   link      [a, b]            connection a<->b: simnet link, kademlia Connected on both
//                               sides, each other's record in the address books
//   conn      [n, id]           phantom id is a connected peer of n (+ record)
//   know      [n, id]           id is a known peer of n (+ record)
//   knownorec [n, id]           id is a known peer of n, no record
//   forget    [n, id]           n drops the record of phantom id
//   find      [req, resp, tk, tid, tbit, limit, pos...]   real hive2 DoFindNode
//   raw       [req, resp, tk, tid, tbit, limit, pos...]   byzantine requester: the
//                               FindNodeReq is written on the stream by hand
//   lookup    [n, peer]         the real discover work of n (lookups via peer)
//   barrier
// Target kinds tk: 0 overlay of tid with bit tbit flipped, 1 pseudo-random address,
// 2 overlay of the requester, 3 overlay of the responder, 4 empty, 5 short (5 bytes),
// 6 long (40 bytes).
//
// Oracle (from the statement, on every pb.Peers frame seen by the wire tap, with
// the request exactly as it was delivered on the same stream).

const c29Honoured = 30 // "with at most 30 honoured"

var (
	c29ULPublic = []string{"/ip4/1.1.1.%d/tcp/1634", "/ip4/8.8.4.%d/udp/1634", "/ip4/52.14.7.%d/tcp/1634",
		"/ip4/203.0.114.%d/tcp/7070", "/ip4/172.32.0.%d/tcp/1634", "/ip4/11.0.0.%d/tcp/1634", "/ip4/192.169.0.%d/tcp/1634",
		"/ip6/2001:4860:4860::88%02x/tcp/1634"}
	c29ULPrivate = []string{"/ip4/10.0.0.%d/tcp/1634", "/ip4/192.168.1.%d/tcp/1634", "/ip4/172.16.5.%d/udp/1634",
		"/ip4/172.31.255.%d/tcp/1634", "/ip4/10.255.3.%d/tcp/1634", "/ip4/127.0.0.%d/tcp/1634", "/ip6/fd00::%x/tcp/1634"}
	c29ULGrey = []string{"/ip4/100.64.0.%d/tcp/1634", "/ip4/192.0.2.%d/tcp/1634", "/ip4/169.254.1.%d/tcp/1634",
		"/dns4/node%d.example.com/tcp/1634", "/ip6/fe80::%x/tcp/1634"}
)

const (
	c29ClsPublic = iota
	c29ClsPrivate
	c29ClsGrey
)

var c29SpecialNets = func() []*net.IPNet {
	var out []*net.IPNet
	// IANA special-purpose registries: anything here is neither "clearly public"
	// nor (unless RFC 1918 / 4193 / loopback) "clearly private": the oracle is silent.
	for _, c := range []string{"0.0.0.0/8", "100.64.0.0/10", "169.254.0.0/16", "192.0.0.0/24", "192.0.2.0/24", "192.88.99.0/24",
		"198.18.0.0/15", "198.51.100.0/24", "203.0.113.0/24", "224.0.0.0/4", "240.0.0.0/4",
		"::/128", "64:ff9b::/96", "100::/64", "2001::/23", "2001:db8::/32", "2002::/16", "fe80::/10", "ff00::/8"} {
		_, n, err := net.ParseCIDR(c)
		if err != nil {
			panic(err)
		}
		out = append(out, n)
	}
	return out
}()

// c29Classify classifies an underlay by the IP of its first component, using the
// standard library's notion of private (RFC 1918, RFC 4193) and loopback —
// independent of the multiaddr library the implementation uses.
func c29Classify(u ma.Multiaddr) int {
	s := u.String()
	parts := strings.Split(s, "/")
	if len(parts) < 3 || (parts[1] != "ip4" && parts[1] != "ip6") {
		return c29ClsGrey
	}
	ip := net.ParseIP(parts[2])
	if ip == nil {
		return c29ClsGrey
	}
	if ip.IsPrivate() || ip.IsLoopback() {
		return c29ClsPrivate
	}
	for _, n := range c29SpecialNets {
		if n.Contains(ip) {
			return c29ClsGrey
		}
	}
	if ip.IsGlobalUnicast() {
		return c29ClsPublic
	}
	return c29ClsGrey
}

// c29PO: number of common leading bits of the two addresses, capped at the
// repository's maximum proximity order.
func c29PO(a, b []byte) int {
	max := int(boson.MaxPO)
	for i := 0; i < max; i++ {
		if i/8 >= len(a) || i/8 >= len(b) {
			return max
		}
		if (a[i/8]^b[i/8])>>(7-uint(i%8))&1 != 0 {
			return i
		}
	}
	return max
}

type c29Node struct {
	idx   int
	id    *c2934Ident
	net   *simnet.Node
	p2p   *c2934P2P
	book  addressbook.Interface
	kad   *kademlia.Kad
	hive  *hive2.Service
	allow bool
	light bool // connects as a light node: full peers neither store its record nor list it in kademlia
}

type c29Stream struct {
	up, down c2934Reasm
	req      *hpb.FindNodeReq
}

type c29World struct {
	r      *gosim.Run
	netID  uint64
	idents []*c2934Ident
	nodes  []*c29Node
	byAddr map[string]*c29Node

	mu      sync.Mutex
	streams map[int64]*c29Stream
	// gaveRecord["responder|requester"]: the requester's record was handed to the
	// responder when their connection was made (full-node peers only)
	gaveRecord map[string]bool
	// first violation of a recorded-finding family: reported when the run ends, so
	// that the rest of the run is still checked for everything else
	deferredClass, deferredMsg string
}

// known reports a violation that belongs to the family of a recorded finding.
func (w *c29World) known(class, format string, a ...interface{}) {
	msg := fmt.Sprintf(format, a...)
	w.r.Logf("DEFERRED %s: %s", class, msg)
	w.mu.Lock()
	if w.deferredClass == "" {
		w.deferredClass, w.deferredMsg = class, msg
	}
	w.mu.Unlock()
}

func c29Underlay(mix int64, seed uint64, idx int, isNode bool) string {
	h := c2934Hash("c29-ul", seed, idx)
	x := int(h[0])
	var cls int
	switch mix {
	case 0: // all public
		cls = c29ClsPublic
	case 1: // half / half, some grey
		switch {
		case x < 110:
			cls = c29ClsPublic
		case x < 225:
			cls = c29ClsPrivate
		default:
			cls = c29ClsGrey
		}
	case 2: // mostly private
		switch {
		case x < 50:
			cls = c29ClsPublic
		case x < 240:
			cls = c29ClsPrivate
		default:
			cls = c29ClsGrey
		}
	default: // nodes public, phantoms private
		if isNode {
			cls = c29ClsPublic
		} else {
			cls = c29ClsPrivate
		}
	}
	list := c29ULPublic
	if cls == c29ClsPrivate {
		list = c29ULPrivate
	} else if cls == c29ClsGrey {
		list = c29ULGrey
	}
	return fmt.Sprintf(list[int(h[1])%len(list)], 1+idx%250)
}

func c29Gen(rng *rand.Rand, tier string) *gosim.Plan {
	p := &gosim.Plan{Params: map[string]int64{}}
	nNodes := 2 + rng.Intn(3)
	nPh := int(gosim.Pick(rng, 0, 3, 10, 25, 45, 70))
	if tier == "thorough" && rng.Intn(4) == 0 {
		nPh = 90
	}
	p.Params["nodes"] = int64(nNodes)
	p.Params["phantoms"] = int64(nPh)
	p.Params["net_id"] = gosim.Pick(rng, 0, 1, 5, 1<<40)
	p.Params["ul_mix"] = gosim.Pick(rng, 0, 1, 1, 1, 2, 2, 3, 3)
	p.Params["ul_seed"] = int64(rng.Intn(1 << 20))
	allow := int64(0)
	for i := 0; i < nNodes; i++ {
		if rng.Intn(10) < 3 {
			allow |= 1 << uint(i)
		}
	}
	p.Params["allow_mask"] = allow
	light := int64(0)
	if rng.Intn(4) == 0 { // a quarter of the runs have one light node
		light = 1 << uint(rng.Intn(nNodes))
	}
	p.Params["light_mask"] = light
	p.Params["discover"] = int64(rng.Intn(3) / 2) // a third of the runs start the discover loop
	nTot := nNodes + nPh

	add := func(k string, a ...int64) { p.Ops = append(p.Ops, gosim.Op{K: k, A: a}) }
	// --- set-up phase ---
	for a := 0; a < nNodes; a++ {
		for b := a + 1; b < nNodes; b++ {
			if b == a+1 || rng.Intn(10) < 6 {
				add("link", int64(a), int64(b))
			}
		}
	}
	wConn, wKnow := 2+rng.Intn(5), 2+rng.Intn(6)
	for n := 0; n < nNodes; n++ {
		for id := nNodes; id < nTot; id++ {
			switch x := rng.Intn(12); {
			case x < wConn:
				add("conn", int64(n), int64(id))
			case x < wConn+wKnow:
				add("know", int64(n), int64(id))
			case x == 11 && rng.Intn(3) == 0:
				add("knownorec", int64(n), int64(id))
			}
		}
	}
	add("barrier")
	// --- request phases ---
	limits := []int64{-5, -1, 0, 1, 2, 3, 4, 5, 7, 15, 16, 29, 30, 31, 40}
	rawLimits := []int64{-1 << 31, -7, -1, 0, 1, 2, 3, 30, 31, 64, 1000, 1<<31 - 1}
	rawPos := []int64{-1, -253, -256, 32, 33, 255, 256, 259, 287, 1 << 20, -1 << 31}
	genPos := func(raw bool) []int64 {
		var pos []int64
		switch rng.Intn(6) {
		case 0: // every order
			for i := int64(0); i <= 31; i++ {
				pos = append(pos, i)
			}
		case 1: // the low orders, where most random peers are
			for i := int64(0); i <= int64(1+rng.Intn(4)); i++ {
				pos = append(pos, i)
			}
		case 2: // like a real lookup: three adjacent orders
			c := int64(rng.Intn(32))
			for _, d := range []int64{0, 1, -1} {
				if c+d >= 0 && c+d <= 31 {
					pos = append(pos, c+d)
				}
			}
		case 3: // none
		default:
			n := 1 + rng.Intn(6)
			for i := 0; i < n; i++ {
				pos = append(pos, int64(rng.Intn(8)))
			}
		}
		if raw {
			for i := rng.Intn(4); i > 0; i-- {
				pos = append(pos, rawPos[rng.Intn(len(rawPos))])
			}
			if len(pos) > 0 && rng.Intn(3) == 0 {
				pos = append(pos, pos[rng.Intn(len(pos))]) // duplicate
			}
			rng.Shuffle(len(pos), func(i, j int) { pos[i], pos[j] = pos[j], pos[i] })
		}
		return pos
	}
	nPhase := 1 + rng.Intn(3)
	for ph := 0; ph < nPhase; ph++ {
		n := 2 + rng.Intn(7)
		if tier == "thorough" {
			n += rng.Intn(10)
		}
		for i := 0; i < n; i++ {
			req := rng.Intn(nNodes)
			resp := rng.Intn(nNodes - 1)
			if resp >= req {
				resp++
			}
			switch x := rng.Intn(20); {
			case x < 9:
				tk := gosim.Pick(rng, 0, 0, 0, 1, 1, 2, 3)
				a := []int64{int64(req), int64(resp), tk, int64(rng.Intn(nTot)), int64(rng.Intn(10)), limits[rng.Intn(len(limits))]}
				if rng.Intn(3) == 0 {
					a[5] = int64(rng.Intn(46) - 5)
				}
				add("find", append(a, genPos(false)...)...)
			case x < 15:
				tk := gosim.Pick(rng, 0, 0, 1, 2, 3, 4, 5, 6)
				a := []int64{int64(req), int64(resp), tk, int64(rng.Intn(nTot)), int64(rng.Intn(34)), rawLimits[rng.Intn(len(rawLimits))]}
				if rng.Intn(2) == 0 {
					a[5] = limits[rng.Intn(len(limits))]
				}
				add("raw", append(a, genPos(true)...)...)
			case x < 16:
				add("lookup", int64(req), int64(resp))
			case x < 18 && nPh > 0:
				add([]string{"conn", "know"}[rng.Intn(2)], int64(resp), int64(nNodes+rng.Intn(nPh)))
			case x < 19 && nPh > 0:
				add("forget", int64(resp), int64(nNodes+rng.Intn(nPh)))
			default:
				if rng.Intn(2) == 0 {
					add("find", int64(req), int64(resp), 1, int64(rng.Intn(1000)), 0, int64(1+rng.Intn(3)), 0, 1, 2, 3)
				} else { // everything the responder has, more than 30 asked for
					a := []int64{int64(req), int64(resp), 1, int64(rng.Intn(1000)), 0, gosim.Pick(rng, 29, 30, 31, 40, 64)}
					for i := int64(0); i <= 31; i++ {
						a = append(a, i)
					}
					add([]string{"find", "raw"}[rng.Intn(2)], a...)
				}
			}
		}
		add("barrier")
	}
	return p
}

func (w *c29World) node(i int64) *c29Node {
	if i < 0 || int(i) >= len(w.nodes) {
		return nil
	}
	return w.nodes[i]
}

func (w *c29World) phantom(i int64) *c2934Ident {
	if i < int64(len(w.nodes)) || int(i) >= len(w.idents) {
		return nil
	}
	return w.idents[i]
}

func (w *c29World) putRecord(n *c29Node, id *c2934Ident) {
	rec, err := id.Record(w.netID)
	if err != nil {
		w.r.Violate("setup", "sign record of %d: %v", id.Idx, err)
	}
	if err := n.book.Put(id.Overlay, *rec); err != nil {
		w.r.Violate("setup", "addressbook put: %v", err)
	}
}

func (w *c29World) target(kind, tid, tbit int64, req, resp *c29Node) []byte {
	switch kind {
	case 0:
		id := w.idents[int(tid)%len(w.idents)]
		b := append([]byte(nil), id.Overlay.Bytes()...)
		k := int(tbit) % 256
		b[k/8] ^= 0x80 >> uint(k%8)
		return b
	case 1:
		return c2934Hash("c29-target", uint64(tid), int(tbit))
	case 2:
		return append([]byte(nil), req.id.Overlay.Bytes()...)
	case 3:
		return append([]byte(nil), resp.id.Overlay.Bytes()...)
	case 4:
		return nil
	case 5:
		return c2934Hash("c29-target", uint64(tid), 5)[:5]
	default:
		h := c2934Hash("c29-target", uint64(tid), 6)
		return append(h, h[:8]...)
	}
}

// tap is the wire tap: it reassembles both directions of every hive2 stream and
// checks each reply against the request that was delivered on the same stream.
func (w *c29World) tap(f *simnet.Frame) {
	if f.Protocol != "hive2" {
		return
	}
	w.mu.Lock()
	st := w.streams[f.StreamID]
	if st == nil {
		st = &c29Stream{}
		w.streams[f.StreamID] = st
	}
	var replies []*hpb.Peers
	if f.Dir == 0 {
		for _, m := range st.up.Push(f.Data) {
			req := &hpb.FindNodeReq{}
			if err := req.Unmarshal(m); err == nil && st.req == nil {
				st.req = req
			}
		}
	} else {
		for _, m := range st.down.Push(f.Data) {
			ps := &hpb.Peers{}
			if err := ps.Unmarshal(m); err != nil {
				w.mu.Unlock()
				w.r.Violate("reply-garbled", "stream %d: reply does not parse: %v", f.StreamID, err)
			}
			replies = append(replies, ps)
		}
	}
	req := st.req
	w.mu.Unlock()
	for _, ps := range replies {
		w.check(f, req, ps)
	}
}

func (w *c29World) check(f *simnet.Frame, req *hpb.FindNodeReq, ps *hpb.Peers) {
	r := w.r
	responder := w.byAddr[f.From.String()]
	requester := w.byAddr[f.To.String()]
	if req == nil || responder == nil || requester == nil {
		r.Violate("reply-without-request", "stream %d: a reply was written before a request was delivered", f.StreamID)
	}
	r.Count("probe_reply_checked")
	n := len(ps.Peers)
	r.Logf("reply stream=%d resp=%d req=%d limit=%d pos=%v tlen=%d peers=%d", f.StreamID, responder.idx, requester.idx, req.Limit, req.Pos, len(req.Target), n)
	if n > 0 {
		r.Count("probe_reply_nonempty")
	}
	// (1) not more than requested, at most 30 honoured
	bound := int(req.Limit)
	if req.Limit > c29Honoured {
		bound = c29Honoured
	}
	if bound < 0 {
		bound = 0
	}
	if n > bound {
		if req.Limit <= 1 && n <= 2 {
			// family of the recorded finding: requests for fewer than two peers
			// are served one connected plus one known peer
			w.known("over-limit-below-two", "node %d answered a request of node %d for limit=%d (honoured: %d) with %d peers", responder.idx, requester.idx, req.Limit, bound, n)
		} else {
			r.Violate("over-limit", "node %d answered a request of node %d for limit=%d (honoured: %d) with %d peers", responder.idx, requester.idx, req.Limit, bound, n)
		}
	}
	if n == bound && n > 0 {
		r.Count("probe_reply_full")
		if req.Limit > c29Honoured {
			r.Count("probe_capped_at_30")
		}
	}
	seen := map[string]bool{}
	reqPublic := c29Classify(requester.id.FullUnderlay()) == c29ClsPublic
	for i, p := range ps.Peers {
		ov := boson.NewAddress(p.Overlay).String()
		// (2) never the requester
		if boson.NewAddress(p.Overlay).Equal(requester.id.Overlay) {
			r.Violate("contains-requester", "reply of node %d to node %d contains the requester itself (entry %d)", responder.idx, requester.idx, i)
		}
		// (3) no repeats
		if seen[ov] {
			r.Violate("repeated-peer", "reply of node %d to node %d repeats peer %s", responder.idx, requester.idx, ov)
		}
		seen[ov] = true
		// (4) proximity to the target among the requested orders
		if len(req.Target) == boson.HashSize && len(p.Overlay) == boson.HashSize {
			po := c29PO(req.Target, p.Overlay)
			ok, wrapped := false, false
			for _, v := range req.Pos {
				if int64(v) == int64(po) {
					ok = true
				}
				if uint8(v) == uint8(po) {
					wrapped = true
				}
			}
			if !ok && wrapped {
				// family of the recorded finding: an out-of-range order matched modulo 256
				w.known("order-not-requested-mod256", "reply of node %d contains peer %s at proximity %d to the target, requested orders %v", responder.idx, ov, po, req.Pos)
			} else if !ok {
				r.Violate("order-not-requested", "reply of node %d contains peer %s at proximity %d to the target, requested orders %v", responder.idx, ov, po, req.Pos)
			}
			r.Count("probe_order_checked")
		}
		// (5) no private underlay to a public requester unless allowed
		u, err := ma.NewMultiaddrBytes(p.Underlay)
		if err != nil {
			continue
		}
		if c29Classify(u) == c29ClsPrivate && reqPublic {
			if !responder.allow {
				w.mu.Lock()
				gave := w.gaveRecord[fmt.Sprintf("%d|%d", responder.idx, requester.idx)]
				w.mu.Unlock()
				if !gave {
					// family of the recorded finding: the responder was never given the
					// requester's record (light-node requester) and treats it as not public
					w.known("private-offered-requester-record-unknown", "node %d (private CIDRs not allowed) offered %s (%s) to light node %d whose address %s is public",
						responder.idx, ov, u, requester.idx, requester.id.ULText)
				} else {
					r.Violate("private-offered", "node %d (private CIDRs not allowed) offered %s (%s) to node %d whose address %s is public",
						responder.idx, ov, u, requester.idx, requester.id.ULText)
				}
			}
			r.Count("probe_private_offered_allowed")
		}
	}
	if reqPublic && !responder.allow && n > 0 {
		r.Count("probe_private_rule_applied")
	}
}

func c29Exec(r *gosim.Run) {
	pl := r.Plan
	w := &c29World{r: r, netID: uint64(pl.P("net_id", 1)), byAddr: map[string]*c29Node{},
		streams: map[int64]*c29Stream{}, gaveRecord: map[string]bool{}}
	nNodes := int(pl.P("nodes", 2))
	nPh := int(pl.P("phantoms", 0))
	mix := pl.P("ul_mix", 1)
	ulSeed := uint64(pl.P("ul_seed", 0))
	sn := simnet.New(r, int64(pl.Seed)^0x29)
	sn.Tap = w.tap
	for i := 0; i < nNodes+nPh; i++ {
		id, err := c2934NewIdent(pl.Seed, i, w.netID, c29Underlay(mix, ulSeed, i, i < nNodes))
		if err != nil {
			r.Violate("setup", "identity %d: %v", i, err)
		}
		w.idents = append(w.idents, id)
	}
	for i := 0; i < nNodes; i++ {
		id := w.idents[i]
		n := &c29Node{idx: i, id: id, allow: pl.P("allow_mask", 0)>>uint(i)&1 == 1, light: pl.P("light_mask", 0)>>uint(i)&1 == 1}
		mode := c2934FullMode()
		if n.light {
			mode = aurora.NewModel()
		}
		n.net = sn.AddNode(id.Overlay, mode)
		n.p2p = &c2934P2P{Node: n.net}
		var err error
		if n.book, err = c2934NewBook(); err != nil {
			r.Violate("setup", "address book: %v", err)
		}
		n.hive = hive2.New(n.p2p, n.book, w.netID, c2934Logger())
		if n.kad, err = c2934NewKad(id.Overlay, n.book, n.hive, n.p2p); err != nil {
			r.Violate("setup", "kademlia: %v", err)
		}
		n.hive.SetConfig(hive2.Config{Kad: n.kad, Base: id.Overlay, AllowPrivateCIDRs: n.allow})
		n.hive.SetAddPeersHandler(n.kad.AddPeers)
		n.net.SetPickyNotifier(n.kad)
		if err := n.net.AddProtocol(n.hive.Protocol()); err != nil {
			r.Violate("setup", "%v", err)
		}
		if pl.P("discover", 0) == 1 {
			n.hive.Start()
		}
		w.nodes = append(w.nodes, n)
		w.byAddr[id.Overlay.String()] = n
	}

	ctx := context.Background()
	r.RunPhases(pl.Ops, func(phase int, o gosim.Op) {
		a := w.node(o.Arg(0))
		if a == nil {
			return
		}
		switch o.K {
		case "link":
			b := w.node(o.Arg(1))
			if b == nil || b == a {
				return
			}
			// what a completed connection leaves behind (libp2p.Connect / handleIncoming):
			// the record of a FULL peer is stored and the peer is handed to kademlia; a
			// light peer goes to the light-node container only; light nodes are not dialled.
			if a.light && b.light {
				return
			}
			if err := sn.Link(a.net, b.net); err != nil {
				r.Violate("setup", "link: %v", err)
			}
			for _, pr := range [][2]*c29Node{{a, b}, {b, a}} {
				self, peer := pr[0], pr[1]
				if peer.light {
					continue
				}
				w.putRecord(self, peer.id)
				w.mu.Lock()
				w.gaveRecord[fmt.Sprintf("%d|%d", self.idx, peer.idx)] = true
				w.mu.Unlock()
				if err := self.kad.Connected(ctx, p2p.Peer{Address: peer.id.Overlay, Mode: c2934FullMode()}, true); err != nil {
					r.Violate("setup", "kademlia Connected: %v", err)
				}
			}
			r.Logf("link %d %d light=%v/%v", a.idx, b.idx, a.light, b.light)
		case "conn":
			if id := w.phantom(o.Arg(1)); id != nil {
				w.putRecord(a, id)
				if err := a.kad.Connected(ctx, p2p.Peer{Address: id.Overlay, Mode: c2934FullMode()}, true); err != nil {
					r.Violate("setup", "kademlia Connected: %v", err)
				}
				r.Logf("conn %d <- %d (%s)", a.idx, id.Idx, id.ULText)
			}
		case "know":
			if id := w.phantom(o.Arg(1)); id != nil {
				w.putRecord(a, id)
				a.kad.AddPeers(id.Overlay)
				r.Logf("know %d <- %d (%s)", a.idx, id.Idx, id.ULText)
			}
		case "knownorec":
			if id := w.phantom(o.Arg(1)); id != nil {
				a.kad.AddPeers(id.Overlay)
				r.Logf("knownorec %d <- %d", a.idx, id.Idx)
			}
		case "forget":
			if id := w.phantom(o.Arg(1)); id != nil {
				_ = a.book.Remove(id.Overlay)
				r.Logf("forget %d -x %d", a.idx, id.Idx)
			}
		case "find", "raw":
			b := w.node(o.Arg(1))
			if b == nil || b == a || !a.net.IsPeer(b.id.Overlay) {
				return
			}
			tgt := w.target(o.Arg(2), o.Arg(3), o.Arg(4), a, b)
			limit := int32(o.Arg(5))
			var pos []int32
			if len(o.A) > 6 {
				for _, v := range o.A[6:] {
					pos = append(pos, int32(v))
				}
			}
			if o.K == "find" {
				w.doFind(a, b, tgt, pos, limit)
			} else {
				w.doRaw(a, b, tgt, pos, limit)
			}
		case "lookup":
			b := w.node(o.Arg(1))
			if b == nil || b == a || !a.net.IsPeer(b.id.Overlay) || !a.hive.IsStart() {
				return
			}
			r.Logf("lookup %d via %d", a.idx, b.idx)
			a.hive.NotifyDiscoverWork(b.id.Overlay)
			r.Count("probe_lookup")
			time.Sleep(20 * time.Second)
		}
	}, func(phase int) {
		time.Sleep(30 * time.Second)
		gosim.Idle()
	})
	if r.Stat("probe_reply_checked") == 0 {
		r.SetNontrivial(false)
	}
	if w.deferredClass != "" {
		r.Violate(w.deferredClass, "%s", w.deferredMsg)
	}
}

func (w *c29World) doFind(a, b *c29Node, tgt []byte, pos []int32, limit int32) {
	r := w.r
	r.Logf("find %d -> %d limit=%d pos=%v tlen=%d", a.idx, b.idx, limit, pos, len(tgt))
	done := make(chan struct{})
	go func() {
		defer close(done)
		ch, err := a.hive.DoFindNode(context.Background(), boson.NewAddress(tgt), b.id.Overlay, pos, limit)
		if err != nil {
			r.Logf("find %d -> %d error", a.idx, b.idx)
			return
		}
		n := 0
		for range ch {
			n++
		}
		r.Logf("find %d -> %d accepted=%d", a.idx, b.idx, n)
		r.Count("probe_find_ok")
	}()
	select {
	case <-done:
	case <-time.After(20 * time.Minute):
		r.Violate("hang", "DoFindNode of node %d to node %d did not finish in 20 simulated minutes", a.idx, b.idx)
	}
}

func (w *c29World) doRaw(a, b *c29Node, tgt []byte, pos []int32, limit int32) {
	r := w.r
	r.Logf("raw %d -> %d limit=%d pos=%v tlen=%d", a.idx, b.idx, limit, pos, len(tgt))
	ctx, cancel := context.WithTimeout(context.Background(), 2*time.Minute)
	defer cancel()
	s, err := a.net.NewStream(ctx, b.id.Overlay, nil, "hive2", "1.0.0", "findNode")
	if err != nil {
		return
	}
	wr, rd := protobuf.NewWriterAndReader(s)
	if err := wr.WriteMsgWithContext(ctx, &hpb.FindNodeReq{Target: tgt, Pos: pos, Limit: limit}); err != nil {
		_ = s.Reset()
		return
	}
	var res hpb.Peers
	if err := rd.ReadMsgWithContext(ctx, &res); err != nil {
		r.Logf("raw %d -> %d no reply", a.idx, b.idx)
		_ = s.Reset()
		return
	}
	r.Count("probe_raw_reply")
	_ = s.FullClose()
}

func init() {
	gosim.Register(&gosim.World{
		Prop: "C29", Gen: c29Gen, Exec: c29Exec,
		Real: []string{"pkg/hive2 Service (onFindNode, DoFindNode, checkAndAddPeers, discover/lookup loop in a third of the runs)",
			"pkg/topology/kademlia Kad (connected / known peer lists through Connected, AddPeers, Disconnected; no manage loop)",
			"pkg/addressbook over statestore/leveldb (in memory)", "pkg/aurora NewAddress records signed by seeded secp256k1 keys", "pkg/p2p/protobuf"},
		Stubs: []string{"simnet streams instead of the libp2p host", "raw underlay ping (always reachable)", "kademlia pinger, metrics DB in memory", "connections are established by the harness (records exchanged as a completed handshake would)"},
	})
}
