//go:build g_heavy

package worlds

import (
	"bytes"
	"context"
	"errors"
	"fmt"
	"math/rand"
	"sort"
	"strings"
	"time"

	"github.com/gauss-project/aurorafs/pkg/boson"
	"github.com/gauss-project/aurorafs/pkg/file/loadsave"
	"github.com/gauss-project/aurorafs/pkg/file/pipeline"
	"github.com/gauss-project/aurorafs/pkg/file/pipeline/builder"
	"github.com/gauss-project/aurorafs/pkg/manifest"
	"github.com/gauss-project/aurorafs/pkg/storage"

	"verifharness/gosim"
)

// C10 — Directory manifests map paths to the last written entry.
//
// One sequential client works on a "current" manifest handle; the reference
// model is a map[path]entry. Ops (A[0] is the client, always 0):
//   add    [0, path, ref, meta]
//   rm     [0, path]
//   look   [0, path]
//   pfx    [0, prefix]
//   store  [0, opid]          Store the current manifest; the reference and a copy of the model become a snapshot
//   reload [0, n]             the current handle becomes NewDefaultManifestReference(snapshot n mod #snapshots)
//   new    [0]                the current handle becomes a fresh empty manifest
// Faults:
//   putfail [opid, k]         the k-th chunk Put of store <opid> fails
// Params (swarm): enc, check_every, rm_mode (0 none, 1 only entries that are no prefix of another entry, 2 any entry),
//   rm_absent, meta_mode (0 no metadata, 1 any, 2 every entry has metadata), mutate_after_store (0: a handle that was
//   stored or loaded from a reference is only read afterwards, as the node itself uses manifests).

var c10Paths = []string{
	"a", "ab", "abc", "a/b", "a/b/c", "a/b/d", "a/c", "b", "b/", "b/a",
	"img/1.png", "img/2.png", "index.html",
	"long/0123456789012345678901234567890123456789",
	"long/01234567890123456789012345-x",
	"long/0123456789012345678901234567890123456789/child",
}

// prefixes asked with HasPrefix: every non-empty prefix of a universe path plus
// some strings that are a prefix of none.
var c10Prefixes = func() []string {
	set := map[string]bool{}
	for _, p := range c10Paths {
		for i := 1; i <= len(p); i++ {
			// keep the set small: all prefixes of short paths, a sample of the long ones
			if len(p) < 12 || i < 8 || i%7 == 0 || i == len(p) || i == 30 || i == 31 || i == 35 || i == 36 {
				set[p[:i]] = true
			}
		}
	}
	for _, p := range []string{"x", "a/x", "abd", "img/3", "b/ab", "a/b/cd", "index.htmlx", "long/x", "a//"} {
		set[p] = true
	}
	out := make([]string, 0, len(set))
	for p := range set {
		out = append(out, p)
	}
	sort.Strings(out)
	return out
}()

var c10Metas = []map[string]string{
	nil,
	{"Content-Type": "text/html"},
	{"Filename": "some file name.txt", "Content-Type": "text/plain; charset=utf-8"},
	{"k": "v"},
}

const c10NRefs = 6

func c10Ref(i int64, enc bool) boson.Address {
	n := boson.HashSize
	if enc {
		n = 2 * boson.HashSize
	}
	b := make([]byte, n)
	for j := range b {
		b[j] = byte(17*(i+1) + int64(j)*int64(i+3))
	}
	b[0] = byte(i + 1)
	return boson.NewAddress(b)
}

type c10Entry struct {
	ref  int64
	meta int64
}

type c10Snap struct {
	ref   boson.Address
	model map[string]c10Entry
	hist  c10Hist
}

// c10Hist describes the history of a manifest handle (and of the snapshots made
// from it); it is only used to label violations.
type c10Hist struct {
	mutAfterStore bool   // an add/remove was applied to a handle that had been stored or loaded from a reference
	removals      int    // removals of mapped paths so far
	lastMut       string // last mutating operation
	rmPrefixing   string // "|"-joined paths that were removed while they were a proper prefix of another mapped path
}

func (h c10Hist) String() string {
	return fmt.Sprintf("last mutation %s; mutated-after-store=%v removals=%d", h.lastMut, h.mutAfterStore, h.removals)
}

func c10Gen(rng *rand.Rand, tier string) *gosim.Plan {
	p := &gosim.Plan{Params: map[string]int64{}}
	p.Params["enc"] = int64(rng.Intn(2))
	p.Params["check_every"] = int64(rng.Intn(2))
	p.Params["rm_mode"] = gosim.Pick(rng, 0, 0, 0, 0, 1, 1, 1, 2, 2, 2)
	p.Params["rm_absent"] = int64(rng.Intn(2))
	p.Params["meta_mode"] = gosim.Pick(rng, 0, 0, 0, 1, 1, 1, 2, 2, 2, 2)
	p.Params["mutate_after_store"] = gosim.Pick(rng, 0, 0, 0, 0, 0, 0, 1, 1, 1, 1)
	// per-run subset of the path universe (more collisions and overwrites)
	nSub := 2 + rng.Intn(len(c10Paths)-1)
	perm := rng.Perm(len(c10Paths))[:nSub]
	pick := func() int64 { return int64(perm[rng.Intn(len(perm))]) }
	n := 12 + rng.Intn(80)
	if tier == "thorough" {
		n = 12 + rng.Intn(250)
	}
	wStore, wReload, wNew := 8+rng.Intn(10), rng.Intn(10), rng.Intn(6)
	wRm := 0
	if p.Params["rm_mode"] > 0 {
		wRm = 5 + rng.Intn(25)
	}
	withFaults := rng.Intn(10) < 4
	opid := int64(0)
	for i := 0; i < n; i++ {
		x := rng.Intn(45 + wRm + 8 + wStore + wReload + wNew)
		switch {
		case x < 45:
			meta := int64(0)
			switch p.Params["meta_mode"] {
			case 1: // any, incl. overwriting an entry that has metadata by one without
				if rng.Intn(3) > 0 {
					meta = int64(rng.Intn(len(c10Metas)))
				}
			case 2: // every entry carries metadata
				meta = int64(1 + rng.Intn(len(c10Metas)-1))
			}
			p.Ops = append(p.Ops, gosim.Op{K: "add", A: []int64{0, pick(), int64(rng.Intn(c10NRefs)), meta}})
		case x < 45+wRm:
			p.Ops = append(p.Ops, gosim.Op{K: "rm", A: []int64{0, pick()}})
		case x < 45+wRm+4:
			p.Ops = append(p.Ops, gosim.Op{K: "look", A: []int64{0, pick()}})
		case x < 45+wRm+8:
			p.Ops = append(p.Ops, gosim.Op{K: "pfx", A: []int64{0, int64(rng.Intn(len(c10Prefixes)))}})
		case x < 45+wRm+8+wStore:
			opid++
			p.Ops = append(p.Ops, gosim.Op{K: "store", A: []int64{0, opid}})
			if withFaults && rng.Intn(3) == 0 {
				p.Faults = append(p.Faults, gosim.Op{K: "putfail", A: []int64{opid, int64(1 + rng.Intn(5))}})
			}
			if p.Params["mutate_after_store"] == 0 {
				// read-only afterwards: a few reads, then usually a new manifest
				for j := rng.Intn(3); j > 0; j-- {
					p.Ops = append(p.Ops, gosim.Op{K: "look", A: []int64{0, pick()}})
				}
				if rng.Intn(4) > 0 {
					p.Ops = append(p.Ops, gosim.Op{K: "new", A: []int64{0}})
				}
			}
		case x < 45+wRm+8+wStore+wReload:
			p.Ops = append(p.Ops, gosim.Op{K: "reload", A: []int64{0, int64(rng.Intn(8))}})
		default:
			p.Ops = append(p.Ops, gosim.Op{K: "new", A: []int64{0}})
		}
	}
	opid++
	p.Ops = append(p.Ops, gosim.Op{K: "store", A: []int64{0, opid}})
	return p
}

func c10MetaEqual(a, b map[string]string) bool {
	if len(a) != len(b) {
		return false
	}
	for k, v := range a {
		if w, ok := b[k]; !ok || w != v {
			return false
		}
	}
	return true
}

func c10Exec(r *gosim.Run) {
	ctx := context.Background()
	enc := r.Plan.P("enc", 0) == 1
	checkEvery := r.Plan.P("check_every", 1) == 1
	rmMode := r.Plan.P("rm_mode", 2)
	rmAbsent := r.Plan.P("rm_absent", 1) == 1
	metaMode := r.Plan.P("meta_mode", 1)
	mutateAfterStore := r.Plan.P("mutate_after_store", 1) == 1

	st := c09NewStore()
	putFaults := map[int64]map[int64]bool{}
	for _, f := range r.Plan.Faults {
		if f.K == "putfail" {
			if putFaults[f.Arg(0)] == nil {
				putFaults[f.Arg(0)] = map[int64]bool{}
			}
			putFaults[f.Arg(0)][f.Arg(1)] = true
		}
	}
	// the manifest keeps its load-saver for life; faults are switched per store op
	view := st.view(r, "m")
	ls := loadsave.New(view, func() pipeline.Interface {
		return builder.NewPipelineBuilder(ctx, view, storage.ModePutUpload, enc)
	})
	newManifest := func() manifest.Interface {
		m, err := manifest.NewDefaultManifest(ls, enc)
		if err != nil {
			r.Violate("manifest-error", "NewDefaultManifest: %v", err)
		}
		return m
	}
	loadManifest := func(ref boson.Address) manifest.Interface {
		// a reader of a stored reference uses its own fault-free view
		rv := st.view(r, "")
		rls := loadsave.New(rv, func() pipeline.Interface {
			return builder.NewPipelineBuilder(ctx, view, storage.ModePutUpload, enc)
		})
		m, err := manifest.NewDefaultManifestReference(ref, rls)
		if err != nil {
			r.Violate("manifest-error", "NewDefaultManifestReference: %v", err)
		}
		return m
	}

	cur := newManifest()
	model := map[string]c10Entry{}
	persisted := false // the current handle was stored or comes from a reference
	var snaps []c10Snap
	hist := c10Hist{lastMut: "none"}

	copyModel := func(m map[string]c10Entry) map[string]c10Entry {
		out := make(map[string]c10Entry, len(m))
		for k, v := range m {
			out[k] = v
		}
		return out
	}
	modelStr := func(m map[string]c10Entry) string {
		keys := make([]string, 0, len(m))
		for k := range m {
			keys = append(keys, k)
		}
		sort.Strings(keys)
		var sb strings.Builder
		for _, k := range keys {
			fmt.Fprintf(&sb, "%q=r%d/m%d ", k, m[k].ref, m[k].meta)
		}
		return sb.String()
	}

	var watchErr error
	watch := func(what string, fn func() error) error {
		done := make(chan struct{})
		go func() {
			watchErr = fn()
			close(done)
		}()
		select {
		case <-done:
		case <-time.After(60 * time.Second):
			r.Violate("hang", "%s did not return within 60 simulated seconds", what)
		}
		return watchErr
	}

	checkLookup := func(where string, h c10Hist, m manifest.Interface, mod map[string]c10Entry, path string) {
		var e manifest.Entry
		err := watch("Lookup", func() error { var err error; e, err = m.Lookup(ctx, path); return err })
		want, has := mod[path]
		pre := ""
		if !strings.HasPrefix(where, "live") {
			pre = "reload-"
		}
		switch {
		case err != nil && !errors.Is(err, manifest.ErrNotFound):
			r.Violate(pre+"lookup-error", "[%s; %s] Lookup(%q) failed: %v; mapping: %s", where, h, path, err, modelStr(mod))
		case err != nil && has:
			note := ""
			for _, rp := range strings.Split(h.rmPrefixing, "|") {
				if rp != "" && rp != path && strings.HasPrefix(path, rp) {
					note = fmt.Sprintf(" (earlier removal of %q, a prefix of the lost path)", rp)
				}
			}
			r.Violate(pre+"lost-entry", "[%s; %s] Lookup(%q) = not found%s, final mapping has r%d/m%d; mapping: %s", where, h, path, note, want.ref, want.meta, modelStr(mod))
		case err == nil && !has:
			r.Violate(pre+"phantom-entry", "[%s; %s] Lookup(%q) = %s, final mapping has no such path; mapping: %s", where, h, path, c09Short(e.Reference().String()), modelStr(mod))
		case err == nil:
			if !bytes.Equal(e.Reference().Bytes(), c10Ref(want.ref, enc).Bytes()) {
				r.Violate(pre+"wrong-ref", "[%s; %s] Lookup(%q) = %s, final mapping has r%d (%s); mapping: %s", where, h, path,
					c09Short(e.Reference().String()), want.ref, c09Short(c10Ref(want.ref, enc).String()), modelStr(mod))
			}
			if !c10MetaEqual(e.Metadata(), c10Metas[want.meta]) {
				r.Violate(pre+"wrong-metadata", "[%s; %s] Lookup(%q) metadata = %v, final mapping has m%d %v; mapping: %s", where, h, path,
					e.Metadata(), want.meta, c10Metas[want.meta], modelStr(mod))
			}
		}
	}
	checkPrefix := func(where string, h c10Hist, m manifest.Interface, mod map[string]c10Entry, pfx string) {
		var got bool
		err := watch("HasPrefix", func() error { var err error; got, err = m.HasPrefix(ctx, pfx); return err })
		pre := ""
		if !strings.HasPrefix(where, "live") {
			pre = "reload-"
		}
		if err != nil {
			r.Violate(pre+"prefix-error", "[%s; %s] HasPrefix(%q) failed: %v", where, h, pfx, err)
		}
		want := false
		for k := range mod {
			if strings.HasPrefix(k, pfx) {
				want = true
				break
			}
		}
		if got && !want {
			r.Violate(pre+"prefix-false-positive", "[%s; %s] HasPrefix(%q) = true but no path of the final mapping has that prefix; mapping: %s", where, h, pfx, modelStr(mod))
		}
		if !got && want {
			r.Violate(pre+"prefix-false-negative", "[%s; %s] HasPrefix(%q) = false but the final mapping has a path with that prefix; mapping: %s", where, h, pfx, modelStr(mod))
		}
	}
	checkAll := func(where string, h c10Hist, m manifest.Interface, mod map[string]c10Entry) {
		for _, p := range c10Paths {
			checkLookup(where, h, m, mod, p)
		}
		for _, p := range c10Prefixes {
			checkPrefix(where, h, m, mod, p)
		}
		if strings.HasPrefix(where, "live") {
			r.Count("probe_full_check_live")
		} else {
			r.Count("probe_full_check_reload")
		}
	}
	checkSnap := func(i int, why string) {
		m := loadManifest(snaps[i].ref)
		checkAll(fmt.Sprintf("reload of snapshot %d %s", i, why), snaps[i].hist, m, snaps[i].model)
	}

	for _, o := range r.Plan.Ops {
		frozen := persisted && !mutateAfterStore
		switch o.K {
		case "add":
			pi, ri, mi := o.Arg(1), o.Arg(2), o.Arg(3)
			if pi < 0 || int(pi) >= len(c10Paths) || ri < 0 || ri >= c10NRefs || mi < 0 || int(mi) >= len(c10Metas) || frozen {
				continue
			}
			if metaMode == 0 {
				mi = 0
			} else if metaMode == 2 && mi == 0 {
				mi = 1
			}
			path := c10Paths[pi]
			var md map[string]string
			if c10Metas[mi] != nil {
				md = map[string]string{}
				for k, v := range c10Metas[mi] {
					md[k] = v
				}
			}
			if old, ok := model[path]; ok {
				r.Count("probe_overwrite")
				if old.meta != 0 && mi == 0 {
					r.Count("probe_overwrite_drops_metadata")
				}
			}
			if persisted {
				r.Count("probe_add_after_store")
			}
			err := watch("Add", func() error { return cur.Add(ctx, path, manifest.NewEntry(c10Ref(ri, enc), md)) })
			r.Logf("add %q r%d m%d -> %v", path, ri, mi, err)
			if err != nil {
				r.Violate("add-error", "Add(%q, r%d, m%d) failed: %v; mapping before: %s", path, ri, mi, err, modelStr(model))
			}
			model[path] = c10Entry{ri, mi}
			hist.lastMut = fmt.Sprintf("add(%q)", path)
			if persisted {
				hist.mutAfterStore = true
			}
		case "rm":
			pi := o.Arg(1)
			if pi < 0 || int(pi) >= len(c10Paths) || frozen || rmMode == 0 {
				continue
			}
			path := c10Paths[pi]
			isPrefixOfOther := false
			for k := range model {
				if k != path && strings.HasPrefix(k, path) {
					isPrefixOfOther = true
				}
			}
			_, present := model[path]
			if !present {
				// The statement is about removing path entries; removing a path that is
				// not an entry is only exercised when it is not a "directory" of entries
				// either, and then the mapping must not change.
				if !rmAbsent || isPrefixOfOther {
					continue
				}
				err := watch("Remove", func() error { return cur.Remove(ctx, path) })
				r.Logf("rm absent %q -> %v", path, err)
				if err != nil && !errors.Is(err, manifest.ErrNotFound) {
					r.Violate("remove-error", "Remove(%q) of a path that is not mapped failed with %v", path, err)
				}
				r.Count("probe_remove_absent")
				hist.lastMut = fmt.Sprintf("rm-absent(%q)", path)
			} else {
				if rmMode == 1 && isPrefixOfOther {
					continue
				}
				if isPrefixOfOther {
					r.Count("probe_remove_entry_that_prefixes_another")
				}
				if persisted {
					r.Count("probe_remove_after_store")
				}
				err := watch("Remove", func() error { return cur.Remove(ctx, path) })
				r.Logf("rm %q -> %v", path, err)
				if err != nil {
					r.Violate("remove-error", "Remove(%q) of a mapped path failed: %v; mapping before: %s; %s", path, err, modelStr(model), hist)
				}
				delete(model, path)
				r.Count("probe_remove")
				hist.lastMut = fmt.Sprintf("rm(%q)", path)
				if isPrefixOfOther {
					hist.rmPrefixing += "|" + path
				}
				hist.removals++
				if persisted {
					hist.mutAfterStore = true
				}
			}
		case "look":
			pi := o.Arg(1)
			if pi < 0 || int(pi) >= len(c10Paths) {
				continue
			}
			checkLookup("live", hist, cur, model, c10Paths[pi])
			r.Logf("look %q ok", c10Paths[pi])
		case "pfx":
			pi := o.Arg(1)
			if pi < 0 || int(pi) >= len(c10Prefixes) {
				continue
			}
			checkPrefix("live", hist, cur, model, c10Prefixes[pi])
			r.Logf("pfx %q ok", c10Prefixes[pi])
		case "store":
			// the in-memory manifest is right before it is stored (so that reload-*
			// classes mean: lost or changed by Store / reload)
			checkAll("live before Store", hist, cur, model)
			view.mu.Lock()
			view.nPut = 0
			view.firedPut = 0
			view.failPut = putFaults[o.Arg(1)]
			view.mu.Unlock()
			var ref boson.Address
			err := watch("Store", func() error { var err error; ref, err = cur.Store(ctx); return err })
			_, fired := view.fired()
			view.mu.Lock()
			view.failPut = nil
			view.mu.Unlock()
			r.Logf("store %d -> %s %v (puts failed: %d)", o.Arg(1), c09Short(ref.String()), err, fired)
			if fired > 0 {
				if err == nil {
					r.Violate("store-no-error", "Store returned %s without error although %d chunk writes failed", c09Short(ref.String()), fired)
				}
				r.Count("probe_store_failed_by_fault")
				// the earlier snapshots are untouched
				if n := len(snaps); n > 0 {
					checkSnap(n-1, "after a failed Store")
				}
				// the client gives up on the failed handle
				if n := len(snaps); n > 0 {
					cur, _ = manifest.NewDefaultManifestReference(snaps[n-1].ref, ls)
					model = copyModel(snaps[n-1].model)
					persisted = true
					hist = snaps[n-1].hist
				} else {
					cur = newManifest()
					model = map[string]c10Entry{}
					persisted = false
					hist = c10Hist{}
				}
				hist.lastMut = "failed-store"
			} else {
				if err != nil {
					r.Violate("store-error", "[%s] Store failed on a store without failures: %v; mapping: %s", hist, err, modelStr(model))
				}
				snaps = append(snaps, c10Snap{ref, copyModel(model), hist})
				persisted = true
				r.Count("probe_store")
				checkSnap(len(snaps)-1, "right after Store")
				hist.lastMut = "store"
			}
		case "reload":
			if len(snaps) == 0 {
				continue
			}
			i := int(o.Arg(1)) % len(snaps)
			if i < 0 {
				continue
			}
			// writes of the reloaded handle go through the faultable view
			cur, _ = manifest.NewDefaultManifestReference(snaps[i].ref, ls)
			model = copyModel(snaps[i].model)
			persisted = true
			hist = snaps[i].hist
			hist.lastMut = "reload"
			r.Logf("reload snapshot %d (%s)", i, c09Short(snaps[i].ref.String()))
			r.Count("probe_reload")
		case "new":
			cur = newManifest()
			model = map[string]c10Entry{}
			persisted = false
			hist = c10Hist{lastMut: "new"}
			r.Logf("new manifest")
		default:
			continue
		}
		r.OpDone()
		if checkEvery && o.K != "look" && o.K != "pfx" {
			checkAll("live", hist, cur, model)
		}
	}
	checkAll("live at the end", hist, cur, model)
	for i := range snaps {
		checkSnap(i, "at the end")
	}
	r.Add("snapshots", int64(len(snaps)))
}

func init() {
	gosim.Register(&gosim.World{
		Prop: "C10", Gen: c10Gen, Exec: c10Exec,
		Native: []string{"github.com/gauss-project/aurorafs/pkg/bmt."},
		Real: []string{"pkg/manifest (mantaray wrapper: Add, Remove, Lookup, HasPrefix, Store, NewDefaultManifestReference)",
			"gauss-project/manifest/mantaray (trie, marshal, persist)", "pkg/file/loadsave", "pkg/file/joiner", "pkg/file/pipeline/*", "pkg/encryption/*"},
		Stubs: []string{"in-memory chunk store (storage.Putter/Getter), k-th Put of a Store fails"},
	})
}
