//go:build g_heavy

package worlds

import (
	"bytes"
	"context"
	"errors"
	"fmt"
	"math/rand"
	"sync"

	"github.com/gauss-project/aurorafs/pkg/boson"
	"github.com/gauss-project/aurorafs/pkg/localstore"
	"github.com/gauss-project/aurorafs/pkg/storage"

	"verifharness/gosim"
)

// C11, concurrent configuration (cfg 2): 2-3 client goroutines issue puts, reads,
// pins, unpins and removals over 3-6 addresses in barrier-separated phases
// (gosim.Run.RunPhases); in "race" phases several clients put the SAME chunk as
// their first operation. No faults, no twin store.
//
// Oracle, per address and phase (s0 = state at the previous quiescent barrier):
//   - 'did not exist' answers: every sequential order of the phase's operations
//     gives at most (absent at s0 ? 1 : 0) + (number of successful removals of the
//     address in the phase) puts that report exist=false, and at least one if the
//     address was absent at s0 and a put succeeded;
//   - at the barrier: present <=> present at s0 or put, when no removal of the
//     address was issued in the phase (with removals both outcomes are possible,
//     except where only one order exists); exact bytes; pin count within the
//     bounds the phase's pin/unpin/remove/pinning-put operations allow; absent
//     chunks have no pin count;
//   - reads inside the phase: a chunk that is present at s0 and not removed in the
//     phase must be found, one that is absent and not put must not; whatever is
//     found has the exact bytes;
//   - index dump at the barrier: gcSize == sum of the per-root cached counts ==
//     number of puts under a file context that reported 'did not exist' (file
//     contexts are only used for ModePutRequest puts and reads here).
//
// Ops (first argument = client)
//   cput [cl, mode, root, c1, ...]   cget [cl, mode 0..2, c, root]   chas [cl, mode, c]
//   cset [cl, mode 1 remove 2 pin 3 unpin, c]                         barrier

type c11cRec struct {
	kind   string // put get has set
	client int
	mode   int
	root   int
	idx    []int
	exist  []bool
	found  bool
	err    error
}

type c11cWorld struct {
	*c11World
	mu       sync.Mutex
	recs     []c11cRec
	newUnder uint64 // puts under a file context that reported exist=false so far
}

func (w *c11cWorld) record(rec c11cRec) {
	w.mu.Lock()
	w.recs = append(w.recs, rec)
	w.mu.Unlock()
}

func (w *c11cWorld) exec(phase int, o gosim.Op) {
	r, u := w.r, w.u
	cl := int(o.Arg(0))
	switch o.K {
	case "cput":
		mi := c11Mode(o.Arg(1), 4)
		root := w.root(o.Arg(2))
		if mi != 0 {
			root = -1 // file contexts only for request puts, see the header
		}
		idx := w.idxs(o, 3)
		if len(idx) == 0 {
			return
		}
		if len(idx) > 1 {
			root = -1 // multi-chunk puts under a file context: recorded open finding of the sequential configuration
		}
		var exist []bool
		var err error
		what := fmt.Sprintf("client %d Put(%v, root=%d, %s)", cl, c11PutModes[mi], root, u.names(idx))
		w.guard(what, func() { exist, err = w.a.Put(u.ctx(root), c11PutModes[mi], w.chunksOf(idx)...) })
		r.Logf("%s -> %v, %v", what, exist, err)
		if err == nil && len(exist) != len(idx) {
			r.Violate("exist-flags", "%s returned %d flags for %d chunks", what, len(exist), len(idx))
		}
		if err != nil && root < 0 {
			r.Violate("put-failed", "%s = %v", what, err)
		}
		if err == nil {
			for j := range idx {
				for _, d := range idx[:j] {
					if d == idx[j] && !exist[j] {
						r.Violate("exist-flags", "%s returned exist=%v: position %d repeats an earlier chunk of the same call", what, exist, j)
					}
				}
			}
		}
		w.record(c11cRec{kind: "put", client: cl, mode: mi, root: root, idx: idx, exist: exist, err: err})
	case "cget":
		mi := c11Mode(o.Arg(1), 3)
		c := u.pos(o.Arg(2))
		root := -1
		if len(o.A) > 3 {
			root = w.root(o.Arg(3))
		}
		var ch boson.Chunk
		var err error
		what := fmt.Sprintf("client %d Get(%v, c%d, root=%d)", cl, c11GetModes[mi], c, root)
		w.guard(what, func() { ch, err = w.a.Get(u.ctx(root), c11GetModes[mi], u.chunks[c].Address()) })
		r.Logf("%s -> err=%v", what, err)
		if err == nil {
			if ch == nil || !ch.Address().Equal(u.chunks[c].Address()) {
				r.Violate("get-wrong-address", "%s returned a chunk with another address", what)
			}
			if !bytes.Equal(ch.Data(), u.chunks[c].Data()) {
				r.Violate("get-wrong-bytes", "%s returned %s, the chunk is %s", what, c11Digest(ch.Data()), c11Digest(u.chunks[c].Data()))
			}
		} else if !errors.Is(err, storage.ErrNotFound) {
			r.Violate("get-error", "%s = %v", what, err)
		}
		w.record(c11cRec{kind: "get", client: cl, mode: mi, idx: []int{c}, found: err == nil, err: err})
	case "chas":
		mi := c11Mode(o.Arg(1), 2)
		c := u.pos(o.Arg(2))
		var got bool
		var err error
		what := fmt.Sprintf("client %d Has(%d, c%d)", cl, mi, c)
		w.guard(what, func() { got, err = w.a.Has(context.Background(), c11HasModes[mi], u.chunks[c].Address()) })
		r.Logf("%s -> %v, %v", what, got, err)
		if err != nil {
			r.Violate("has-error", "%s = %v", what, err)
		}
		if mi == 0 {
			w.record(c11cRec{kind: "has", client: cl, idx: []int{c}, found: got})
		}
	case "cset":
		mi := c11Mode(o.Arg(1), 4)
		if mi == 0 {
			return
		}
		c := u.pos(o.Arg(2))
		var err error
		what := fmt.Sprintf("client %d Set(%v, c%d)", cl, c11SetModes[mi], c)
		w.guard(what, func() { err = w.a.Set(context.Background(), c11SetModes[mi], u.chunks[c].Address()) })
		r.Logf("%s -> %v", what, err)
		w.record(c11cRec{kind: "set", client: cl, mode: mi, idx: []int{c}, err: err})
	}
}

// after judges one phase at its quiescent barrier.
func (w *c11cWorld) after(phase int) {
	r, u := w.r, w.u
	w.mu.Lock()
	recs := w.recs
	w.recs = nil
	w.mu.Unlock()
	obs, norm := w.observe(w.a, "store")
	w.lastA = norm
	r.Count("probe_conc_phase")
	for i := 0; i < u.n(); i++ {
		s0, s1 := w.model[i], obs[i]
		var putsOK, putsTried, newAnswers, removesOK, removesTried, pinsOK, unpinsOK, pinPutsOK int
		var newBy []string
		for _, rec := range recs {
			first := -1
			for j, c := range rec.idx {
				if c == i && first < 0 {
					first = j
				}
			}
			if first < 0 {
				continue
			}
			switch rec.kind {
			case "put":
				putsTried++
				if rec.err != nil {
					continue
				}
				putsOK++
				if !rec.exist[first] {
					newAnswers++
					newBy = append(newBy, fmt.Sprintf("client %d (%v)", rec.client, c11PutModes[rec.mode]))
					if rec.root >= 0 {
						w.newUnder++
					}
				}
				if rec.mode == 1 || rec.mode == 3 {
					pinPutsOK++
				}
			case "set":
				switch rec.mode {
				case 1:
					removesTried++
					if rec.err == nil {
						removesOK++
					}
				case 2:
					if rec.err == nil {
						pinsOK++
					}
				case 3:
					if rec.err == nil {
						unpinsOK++
					}
				}
			}
		}
		where := fmt.Sprintf("phase %d, c%d (at the previous barrier: present=%v pins=%d; in the phase: %d puts ok of %d, %d removals ok of %d, %d pins, %d unpins)",
			phase, i, s0.present, s0.pins, putsOK, putsTried, removesOK, removesTried, pinsOK, unpinsOK)
		// 'did not exist' answers
		maxNew := removesOK
		if !s0.present {
			maxNew++
		}
		if newAnswers > maxNew {
			class := "exist-flags-concurrent"
			r.Violate(class, "%s: %d puts reported 'did not exist' (%v); no order of the phase's operations allows more than %d", where, newAnswers, newBy, maxNew)
		}
		if !s0.present && putsOK > 0 && newAnswers == 0 {
			r.Violate("exist-flags-concurrent", "%s: the chunk was absent, yet every put reported 'already existed'", where)
		}
		if !s0.present && putsOK >= 2 && removesTried == 0 {
			r.Count("probe_conc_same_new_put")
		}
		// presence at the barrier
		switch {
		case removesTried == 0:
			want := s0.present || putsOK > 0
			if s1.present != want {
				class := "lost-chunk"
				if s1.present {
					class = "ghost-present"
				} else if !s0.present {
					class = "not-present"
				}
				r.Violate(class, "%s: at the barrier present=%v, expected %v", where, s1.present, want)
			}
		case putsTried == 0 && !s0.present:
			if s1.present {
				r.Violate("ghost-present", "%s: at the barrier the chunk is present", where)
			}
		case putsTried == 0 && removesOK > 0 && s0.pins == 0 && pinsOK == 0:
			if s1.present {
				r.Violate("still-present", "%s: at the barrier the chunk is still present", where)
			}
		}
		// pin count
		if !s1.present && s1.pins > 0 {
			r.Violate("pin-on-absent", "%s: at the barrier the chunk is absent but has pin count %d", where, s1.pins)
		}
		hi := s0.pins + uint64(pinsOK+pinPutsOK)
		lo := int64(s0.pins) + int64(pinsOK) - int64(unpinsOK) - int64(removesOK)
		if lo < 0 {
			lo = 0
		}
		if s1.pins > hi || int64(s1.pins) < lo {
			r.Violate("pin-count", "%s: at the barrier pin count %d, possible range %d..%d", where, s1.pins, lo, hi)
		}
		// reads inside the phase
		for _, rec := range recs {
			if (rec.kind != "get" && rec.kind != "has") || rec.idx[0] != i {
				continue
			}
			if s0.present && removesTried == 0 && !rec.found {
				r.Violate("get-failed", "%s: client %d's %s did not find the chunk", where, rec.client, rec.kind)
			}
			if !s0.present && putsTried == 0 && rec.found {
				r.Violate("get-ghost", "%s: client %d's %s found the chunk", where, rec.client, rec.kind)
			}
		}
	}
	if norm.GCSize != norm.GCSum {
		r.Violate("gc-accounting", "phase %d: gcSize=%d but the gc rows sum to %d: %s", phase, norm.GCSize, norm.GCSum, norm)
	}
	if norm.GCSum != w.newUnder {
		r.Violate("gc-accounting", "phase %d: the gc rows sum to %d but %d puts under a file context reported 'did not exist': %s", phase, norm.GCSum, w.newUnder, norm)
	}
	w.model = obs
	w.api(fmt.Sprintf("phase %d", phase))
}

func c11ExecConc(r *gosim.Run) {
	n := int(r.Plan.P("n", 4))
	w := &c11cWorld{c11World: &c11World{r: r, u: c11Universe(n)}}
	w.model = make([]c11St, w.u.n())
	localstore.VerifSetHooks(nil, nil, func() { r.Count("probe_updategc") })
	base := make([]byte, 32)
	base[0] = byte(r.Plan.P("base", 0))
	var err error
	w.a, err = localstore.New("", base, &localstore.Options{Capacity: c11Capacity}, c11Logger())
	if err != nil {
		r.Violate("open-failed", "localstore.New: %v", err)
	}
	r.RunPhases(r.Plan.Ops, w.exec, w.after)
	w.guard("Close", func() { err = w.a.Close() })
	if err != nil {
		r.Violate("close-failed", "Close: %v", err)
	}
}

func c11GenConc(rng *rand.Rand, tier string) *gosim.Plan {
	p := &gosim.Plan{Params: map[string]int64{}}
	n := 3 + rng.Intn(4)
	p.Params["n"] = int64(n)
	p.Params["base"] = int64(rng.Intn(256))
	p.Params["cfg"] = 2
	ncl := 2 + rng.Intn(2)
	nph := 4 + rng.Intn(5)
	if tier == "thorough" {
		nph = 4 + rng.Intn(12)
	}
	add := func(k string, a ...int64) { p.Ops = append(p.Ops, gosim.Op{K: k, A: a}) }
	root := int64(0)
	useRoot := rng.Intn(2) == 0
	stored := map[int64]bool{}
	if useRoot {
		// the file root is cached under its own context first
		add("cput", 0, 0, root, root)
		add("barrier")
		stored[root] = true
	}
	C := func() int64 { return int64(rng.Intn(n)) }
	R := func() int64 {
		if useRoot && rng.Intn(2) == 0 {
			return root
		}
		return -1
	}
	for ph := 0; ph < nph; ph++ {
		if rng.Intn(100) < 55 {
			// race: several clients put the same chunk first, preferably a new one
			x := C()
			for t := 0; t < 4 && stored[x]; t++ {
				x = C()
			}
			mode := gosim.Pick(rng, 0, 0, 2, 2, 1, 3)
			rt := int64(-1)
			if mode == 0 {
				rt = R()
			}
			k := 2 + rng.Intn(ncl-1)
			for cl := 0; cl < k; cl++ {
				m := mode
				if rng.Intn(4) == 0 {
					m = gosim.Pick(rng, 0, 2)
				}
				rr := rt
				if m != 0 {
					rr = -1
				}
				add("cput", int64(cl), m, rr, x)
			}
			stored[x] = true
		}
		k := rng.Intn(7)
		for j := 0; j < k; j++ {
			cl := int64(rng.Intn(ncl))
			switch y := rng.Intn(100); {
			case y < 30:
				mode := int64(rng.Intn(4))
				rt := int64(-1)
				if mode == 0 {
					rt = R()
				}
				c := C()
				if rng.Intn(4) == 0 {
					add("cput", cl, mode, rt, c, C())
				} else {
					add("cput", cl, mode, rt, c)
				}
				stored[c] = true
			case y < 45:
				add("cget", cl, int64(rng.Intn(3)), C(), R())
			case y < 55:
				add("chas", cl, int64(rng.Intn(2)), C())
			case y < 75:
				c := C()
				if useRoot && c == root && rng.Intn(3) > 0 {
					c = C()
				}
				add("cset", cl, 1, c)
				delete(stored, c)
			case y < 90:
				add("cset", cl, 2, C())
			default:
				add("cset", cl, 3, C())
			}
		}
		add("barrier")
	}
	return p
}
