//go:build g_heavy

package worlds

// World W-FILE: properties C01, C02, C07.
//
// Real code: pkg/file/pipeline/{builder,feeder,bmt,store,encryption,hashtrie},
// pkg/file/joiner, pkg/file (JoinReadAll), pkg/encryption, pkg/encryption/store,
// pkg/bmt, pkg/bmtpool. Stub: the chunk store (fkStore) and the upload reader.
//
// Ops (first argument = file id = client goroutine; the ops of one file run in
// order in one goroutine, different files run concurrently):
//
//   up     [f, size, kind, enc, via, segmode, segseed, eofWith, variant]
//              via 0 = builder.FeedPipeline over a short-read reader, 1 = direct Write/Sum
//              variant 0 = builder.NewPipelineBuilder; >0 (C02 only) = the same stages
//              assembled with a reduced chunk size / branching (fkVariants)
//   reup   [f, via, segmode, segseed, eofWith]   upload the same bytes again under another split
//   spec   [f]                                   compare the reference with the independent format implementation
//   open   [f]                                   drop the joiner; the next read opens a fresh one at position 0
//   read   [f, len, extraCap]                    sequential Read
//   readat [f, off, len, extraCap]
//   seek   [f, whence, off]
//   size   [f]
//   readall[f]                                   file.JoinReadAll over a fresh joiner
//   barrier
//
// Faults: putfail[k] putcancel[k,mode] getfail[k,mode] getcancel[k] readerfail[f,k]
// (k = global call number at the store / call number of the upload reader).

import (
	"bytes"
	"context"
	"fmt"
	"io"
	"math/rand"
	"sync"
	"sync/atomic"
	"time"

	"github.com/gauss-project/aurorafs/pkg/bmtpool"
	"github.com/gauss-project/aurorafs/pkg/boson"
	"github.com/gauss-project/aurorafs/pkg/file"
	"github.com/gauss-project/aurorafs/pkg/file/joiner"
	"github.com/gauss-project/aurorafs/pkg/file/pipeline"
	pbmt "github.com/gauss-project/aurorafs/pkg/file/pipeline/bmt"
	"github.com/gauss-project/aurorafs/pkg/file/pipeline/builder"
	"github.com/gauss-project/aurorafs/pkg/file/pipeline/feeder"
	"github.com/gauss-project/aurorafs/pkg/file/pipeline/hashtrie"
	pstore "github.com/gauss-project/aurorafs/pkg/file/pipeline/store"
	"github.com/gauss-project/aurorafs/pkg/storage"

	"verifharness/gosim"
)

// reduced geometries (C02 only): {chunk payload bytes, references per intermediate chunk}.
// Index 0 is the product geometry named by the statement.
var fkVariants = [][2]int64{{fkCS, 8192}, {4096, 4}, {4096, 2}, {64, 3}, {32, 2}, {96, 5}, {8192, 128}}

const fkSpecCapSegs = 8192 // "256 KiB chunks" / 32-byte segments

type fkFile struct {
	id      int
	size    int64
	kind    int
	cseed   uint64
	enc     bool
	variant int

	uploaded bool
	ref      []byte

	j   file.Joiner
	joc *fkOpCtx
	pos int64 // model: position of the sequential reader
}

type fkWorld struct {
	r     *gosim.Run
	focus string
	store *fkStore
	mu    sync.Mutex
	files map[int64]*fkFile
	rfail map[int64]int64 // file -> reader call that fails
}

func (w *fkWorld) fill(f *fkFile) func(dst []byte, off int64) {
	return func(dst []byte, off int64) { fkFill(dst, f.kind, f.cseed, off) }
}

// watch runs fn and reports a hang if it does not return within 30 simulated minutes.
func (w *fkWorld) watch(what string, fn func()) {
	done := make(chan struct{})
	go func() {
		defer close(done)
		fn()
	}()
	t := time.NewTimer(30 * time.Minute)
	defer t.Stop()
	select {
	case <-done:
	case <-t.C:
		w.r.Violate("hang", "%s did not return within 30 simulated minutes", what)
	}
}

func fkVariantPipeline(ctx context.Context, s storage.Putter, cs, br int) pipeline.Interface {
	short := func() pipeline.ChainWriter {
		return pbmt.NewBmtWriter(pstore.NewStoreWriter(ctx, s, storage.ModePutUpload, nil))
	}
	tw := hashtrie.NewHashTrieWriter(cs, br, boson.HashSize, short)
	lsw := pstore.NewStoreWriter(ctx, s, storage.ModePutUpload, tw)
	return feeder.NewChunkFeederWriter(cs, pbmt.NewBmtWriter(lsw))
}

// upload pushes the content of f through the pipeline once.
// It returns the reference (nil on error), the error and the op context.
func (w *fkWorld) upload(f *fkFile, via, segmode int, segseed uint64, eofWith bool, readerFail int64) (ref []byte, err error, oc *fkOpCtx) {
	r := w.r
	ctx, oc := fkWithOp(context.Background(), f.id)
	defer oc.cancel()
	var p pipeline.Interface
	if f.variant == 0 {
		p = builder.NewPipelineBuilder(ctx, w.store, storage.ModePutUpload, f.enc)
	} else {
		v := fkVariants[f.variant]
		p = fkVariantPipeline(ctx, w.store, int(v[0]), int(v[1]))
	}
	if via == 0 {
		rd := &fkReader{kind: f.kind, seed: f.cseed, size: f.size, g: fkSeg{x: segseed, mode: segmode}, eofWith: eofWith, failAt: readerFail, r: r}
		addr, e := builder.FeedPipeline(ctx, p, rd)
		if rd.nZero > 0 {
			r.Count("probe_reader_zero_read")
		}
		if rd.nDataEO > 0 {
			r.Count("probe_reader_data_with_eof")
		}
		if rd.failAt > 0 && rd.calls >= rd.failAt {
			atomic.AddInt64(&oc.fired, 1)
		}
		if e != nil {
			if len(addr.Bytes()) != 0 {
				r.Violate("ref-with-error", "file %d: FeedPipeline returned error %v together with reference %s", f.id, e, addr)
			}
			return nil, e, oc
		}
		if rd.pos != f.size {
			r.Violate("reader-not-drained", "file %d: FeedPipeline returned a reference after consuming %d of %d bytes", f.id, rd.pos, f.size)
		}
		return append([]byte(nil), addr.Bytes()...), nil, oc
	}
	// direct Write/Sum with a random split; the caller's buffer is reused and
	// scribbled over after every Write (an io.Writer must not retain it).
	g := fkSeg{x: segseed, mode: segmode}
	var buf []byte
	nw := 0
	for off := int64(0); off < f.size; {
		n := g.piece(f.size - off)
		if int64(cap(buf)) < n {
			buf = make([]byte, n)
		}
		b := buf[:n]
		fkFill(b, f.kind, f.cseed, off)
		c, e := p.Write(b)
		nw++
		if e != nil {
			return nil, e, oc
		}
		if int64(c) != n {
			r.Violate("short-write", "file %d: pipeline Write of %d bytes at offset %d returned %d with a nil error", f.id, n, off, c)
		}
		for i := range b {
			b[i] = 0x5c
		}
		off += n
		if g.next64()%11 == 0 {
			if c, e := p.Write(nil); e != nil || c != 0 { // empty write in between
				if e != nil {
					return nil, e, oc
				}
				r.Violate("short-write", "file %d: empty Write returned %d", f.id, c)
			}
			r.Count("probe_empty_write")
		}
	}
	if nw > 1 {
		r.Count("probe_multi_write")
	}
	sum, e := p.Sum()
	if e != nil {
		return nil, e, oc
	}
	return append([]byte(nil), sum...), nil, oc
}

// uploadChecked runs upload and applies the oracle for errors / faults.
// ok=false means: no reference (upload failed under an injected fault).
func (w *fkWorld) uploadChecked(f *fkFile, what string, via, segmode int, segseed uint64, eofWith bool) (ref []byte, ok bool) {
	r := w.r
	w.mu.Lock()
	rfail := int64(0)
	if via == 0 {
		rfail = w.rfail[int64(f.id)]
		delete(w.rfail, int64(f.id)) // fires once
	}
	w.mu.Unlock()
	for attempt := 0; attempt < 2; attempt++ {
		p0, _ := w.store.counts()
		var err error
		var oc *fkOpCtx
		w.watch(fmt.Sprintf("%s of file %d", what, f.id), func() {
			ref, err, oc = w.upload(f, via, segmode, segseed, eofWith, rfail)
		})
		rfail = 0
		p1, _ := w.store.counts()
		r.Logf("%s f=%d size=%d kind=%d enc=%v var=%d via=%d seg=%d/%d -> ref=%x err=%v fired=%d puts=%d", what, f.id, f.size, f.kind, f.enc, f.variant, via, segmode, segseed%1000, ref, err, oc.firedN(), p1-p0)
		if err == nil {
			want := boson.HashSize
			if f.enc {
				want = 2 * boson.HashSize
			}
			if len(ref) != want {
				r.Violate("ref-length", "file %d (enc=%v): reference of %d bytes, want %d", f.id, f.enc, len(ref), want)
			}
			if atomic.LoadInt64(&oc.putErr) > 0 {
				r.Violate("put-error-swallowed", "file %d size %d: the chunk store failed a Put during %s, yet the upload returned reference %x and no error", f.id, f.size, what, ref)
			}
			if oc.firedN() > 0 {
				r.Count("probe_upload_ok_despite_fault")
			}
			return ref, true
		}
		if oc.firedN() == 0 {
			r.Violate("upload-error", "file %d size %d: %s failed without any injected fault: %v", f.id, f.size, what, err)
		}
		r.Count("probe_upload_failed_under_fault")
		// the client retries once; the store now holds a partial set of chunks
		r.Count("probe_upload_retry")
	}
	return nil, false
}

func (w *fkWorld) getFile(id int64) *fkFile {
	w.mu.Lock()
	defer w.mu.Unlock()
	return w.files[id]
}

func (w *fkWorld) dropJoiner(f *fkFile) {
	if f.joc != nil {
		f.joc.cancel()
	}
	f.j, f.joc = nil, nil
}

// openJoiner returns the joiner of f, opening it (and restoring the model
// position) when needed. ok=false: could not open because of an injected fault.
func (w *fkWorld) openJoiner(f *fkFile) (file.Joiner, bool) {
	r := w.r
	if f.j != nil {
		return f.j, true
	}
	ctx, oc := fkWithOp(context.Background(), f.id)
	var j file.Joiner
	var span int64
	var err error
	w.watch(fmt.Sprintf("joiner.New of file %d", f.id), func() {
		j, span, err = joiner.New(ctx, w.store, storage.ModeGetRequest, boson.NewAddress(append([]byte(nil), f.ref...)))
	})
	if err != nil {
		r.Logf("open f=%d -> err=%v fired=%d", f.id, err, oc.firedN())
		oc.cancel()
		if oc.firedN() == 0 {
			r.Violate("open-error", "file %d (size %d, enc=%v): joiner.New failed without an injected fault: %v", f.id, f.size, f.enc, err)
		}
		r.Count("probe_open_failed_under_fault")
		return nil, false
	}
	if span != f.size || j.Size() != f.size {
		r.Violate("size", "file %d: joiner.New reports span %d, Size() %d, content length %d", f.id, span, j.Size(), f.size)
	}
	r.Logf("open f=%d -> span=%d", f.id, span)
	f.j, f.joc = j, oc
	if f.pos != 0 {
		p, err := j.Seek(f.pos, io.SeekStart)
		if f.pos <= f.size && (err != nil || p != f.pos) {
			r.Violate("seek", "file %d: Seek(%d, start) on a fresh joiner returned (%d, %v)", f.id, f.pos, p, err)
		}
		if err != nil {
			f.pos = 0
		}
	}
	return j, true
}

// fkBuf allocates a buffer of length n and capacity n+extra whose whole backing
// array carries a canary pattern.
func fkBuf(n, extra int64) (buf []byte, backing []byte) {
	backing = make([]byte, n+extra)
	for i := range backing {
		backing[i] = byte(0xa5 ^ (i * 7))
	}
	return backing[:n:len(backing)], backing
}

func fkCanaryOK(backing []byte, from int64) int64 {
	for i := from; i < int64(len(backing)); i++ {
		if backing[i] != byte(0xa5^(int(i)*7)) {
			return i
		}
	}
	return -1
}

// checkRead applies the reader contract to one Read/ReadAt result.
// It returns true if the call failed because of an injected fault.
func (w *fkWorld) checkRead(f *fkFile, what string, off int64, buf, backing []byte, n int, err error, fired int64, oc *fkOpCtx) (faulted bool) {
	r := w.r
	L := int64(len(buf))
	if int64(n) > L || n < 0 {
		r.Violate("overrun", "file %d size %d: %s at offset %d into a buffer of len %d cap %d reported n=%d (err=%v)", f.id, f.size, what, off, L, cap(buf), n, err)
	}
	if i := fkCanaryOK(backing, L); i >= 0 {
		r.Violate("wrote-past-len", "file %d size %d: %s at offset %d into a buffer of len %d cap %d wrote to backing[%d] beyond len (n=%d, err=%v)", f.id, f.size, what, off, L, cap(buf), i, n, err)
	}
	if err != nil && err != io.EOF {
		if fired == 0 && oc.ctx.Err() == nil {
			r.Violate("read-error", "file %d size %d: %s at offset %d len %d failed without an injected fault: %v", f.id, f.size, what, off, L, err)
		}
		r.Count("probe_read_failed_under_fault")
		// a failed read may deliver nothing, but the n bytes it does report are
		// bytes a caller is entitled to use (io.Reader / io.ReaderAt): they must
		// be the content at that position, never a buffer with holes
		if n > 0 && int64(n) <= L {
			r.Count("probe_read_failed_with_bytes")
			if off+int64(n) > f.size {
				r.Violate("read-past-end", "file %d size %d: failed %s at offset %d reported n=%d (err=%v)", f.id, f.size, what, off, n, err)
			} else {
				exp := make([]byte, n)
				fkFill(exp, f.kind, f.cseed, off)
				if d := fkFirstDiff(exp, buf[:n]); d >= 0 {
					r.Violate("wrong-bytes-with-error", "file %d size %d kind %d enc=%v: %s at offset %d len %d failed (%v) and reported n=%d, but byte %d (file offset %d) is %#x, want %#x", f.id, f.size, f.kind, f.enc, what, off, L, err, n, d, off+int64(d), buf[d], exp[d])
				}
			}
		}
		return true
	}
	// err is nil or io.EOF: the bytes reported must be the content
	if n > 0 {
		if off >= f.size {
			r.Violate("read-past-end", "file %d size %d: %s at offset %d returned n=%d", f.id, f.size, what, off, n)
		}
		exp := make([]byte, n)
		end := off + int64(n)
		if end > f.size {
			r.Violate("read-past-end", "file %d size %d: %s at offset %d returned n=%d", f.id, f.size, what, off, n)
		}
		fkFill(exp, f.kind, f.cseed, off)
		if d := fkFirstDiff(exp, buf[:n]); d >= 0 {
			r.Violate("wrong-bytes", "file %d size %d kind %d enc=%v: %s at offset %d len %d: byte %d (file offset %d) is %#x, want %#x", f.id, f.size, f.kind, f.enc, what, off, L, d, off+int64(d), buf[d], exp[d])
		}
	}
	want := L
	if off >= f.size {
		want = 0
	} else if f.size-off < want {
		want = f.size - off
	}
	if int64(n) != want {
		r.Violate("short-read", "file %d size %d: %s at offset %d len %d returned n=%d (err=%v), want min(len, size-offset)=%d", f.id, f.size, what, off, L, n, err, want)
	}
	if off >= f.size {
		r.Count("probe_read_at_or_past_end")
		if err != io.EOF && L > 0 {
			r.Violate("missing-eof", "file %d size %d: %s at offset %d (at/past the end) len %d returned (%d, %v), want io.EOF", f.id, f.size, what, off, L, n, err)
		}
	} else if err == io.EOF && off+int64(n) < f.size {
		r.Violate("early-eof", "file %d size %d: %s at offset %d returned io.EOF after %d bytes, before the end", f.id, f.size, what, off, n)
	}
	if fired > 0 {
		r.Count("probe_read_ok_despite_fault")
	}
	return false
}

type fkCmpWriter struct {
	w   *fkWorld
	f   *fkFile
	pos int64
}

func (c *fkCmpWriter) Write(p []byte) (int, error) {
	if c.pos+int64(len(p)) > c.f.size {
		c.w.r.Violate("read-past-end", "file %d size %d: JoinReadAll delivered bytes beyond the end (%d at %d)", c.f.id, c.f.size, len(p), c.pos)
	}
	exp := make([]byte, len(p))
	fkFill(exp, c.f.kind, c.f.cseed, c.pos)
	if d := fkFirstDiff(exp, p); d >= 0 {
		c.w.r.Violate("wrong-bytes", "file %d size %d kind %d enc=%v: JoinReadAll: byte at file offset %d is %#x, want %#x", c.f.id, c.f.size, c.f.kind, c.f.enc, c.pos+int64(d), p[d], exp[d])
	}
	c.pos += int64(len(p))
	return len(p), nil
}

// readAllCheck reads the whole content behind ref through a fresh joiner.
func (w *fkWorld) readAllCheck(f *fkFile, ref []byte, what string) {
	r := w.r
	ctx, oc := fkWithOp(context.Background(), f.id)
	defer oc.cancel()
	var n int64
	var err error
	var jerr error
	cw := &fkCmpWriter{w: w, f: f}
	w.watch(fmt.Sprintf("%s of file %d", what, f.id), func() {
		j, span, e := joiner.New(ctx, w.store, storage.ModeGetRequest, boson.NewAddress(append([]byte(nil), ref...)))
		if e != nil {
			jerr = e
			return
		}
		if span != f.size {
			r.Violate("size", "file %d: %s: joiner.New reports span %d, content length %d", f.id, what, span, f.size)
		}
		n, err = file.JoinReadAll(ctx, j, cw)
	})
	r.Logf("%s f=%d -> n=%d err=%v openerr=%v fired=%d", what, f.id, n, err, jerr, oc.firedN())
	if jerr != nil || err != nil {
		if oc.firedN() == 0 {
			r.Violate("read-error", "file %d size %d enc=%v: %s failed without an injected fault: open=%v read=%v after %d bytes", f.id, f.size, f.enc, what, jerr, err, n)
		}
		r.Count("probe_read_failed_under_fault")
		return
	}
	if n != f.size || cw.pos != f.size {
		r.Violate("short-read", "file %d size %d: %s returned %d bytes (writer got %d)", f.id, f.size, what, n, cw.pos)
	}
	r.Count("probe_readall_ok")
	if f.size > fkCS {
		r.Count("probe_multi_chunk_read")
	}
}

func (w *fkWorld) specRef(f *fkFile) []byte {
	v := fkVariants[f.variant]
	sp := fkNewSpec(v[0], int(v[1]), fkSpecCapSegs)
	h := sp.file(f.size, w.fill(f))
	return h[:]
}

func (w *fkWorld) exec(phase int, o gosim.Op) {
	r := w.r
	fid := o.Arg(0)
	switch o.K {
	case "up":
		if w.getFile(fid) != nil {
			return // a file id is uploaded once; "reup" uploads it again
		}
		f := &fkFile{id: int(fid), size: o.Arg(1), kind: int(o.Arg(2)) % fkKinds, enc: o.Arg(3) == 1, variant: int(o.Arg(8))}
		if f.size < 0 {
			return
		}
		if f.variant < 0 || f.variant >= len(fkVariants) || (f.variant != 0 && (w.focus != "C02" || f.enc)) {
			f.variant = 0
		}
		f.cseed = fkMix(r.Plan.Seed, uint64(fid)*31+7)
		ref, ok := w.uploadChecked(f, "up", int(o.Arg(4)), int(o.Arg(5))%fkSegModes, uint64(o.Arg(6)), o.Arg(7) == 1)
		if !ok {
			return
		}
		f.ref, f.uploaded = ref, true
		w.mu.Lock()
		w.files[fid] = f
		w.mu.Unlock()
		r.Count("probe_uploaded")
		if f.enc {
			r.Count("probe_uploaded_encrypted")
		}
		if f.size > fkCS {
			r.Count("probe_uploaded_multi_chunk")
		}
		if f.variant != 0 {
			r.Count("probe_uploaded_reduced_geometry")
		}
		if w.focus == "C02" && o.Arg(9) == 1 {
			// every upload of C02 is compared with the format definition at once
			w.specCheck(f)
		}
	case "reup":
		f := w.getFile(fid)
		if f == nil {
			return
		}
		ref, ok := w.uploadChecked(f, "reup", int(o.Arg(1)), int(o.Arg(2))%fkSegModes, uint64(o.Arg(3)), o.Arg(4) == 1)
		if !ok {
			return
		}
		if !f.enc {
			r.Count("probe_reup_compared")
			if !bytes.Equal(ref, f.ref) {
				r.Violate("split-dependent-ref", "file %d size %d kind %d variant %d: the same bytes gave reference %x under one split of the writes and %x under another (via=%d segmode=%d)", f.id, f.size, f.kind, f.variant, f.ref, ref, o.Arg(1), o.Arg(2))
			}
		} else if f.variant == 0 {
			// encrypted: fresh random keys, the new reference must resolve to the same bytes
			w.readAllCheck(f, ref, "readall(reup)")
		}
	case "spec":
		f := w.getFile(fid)
		if f == nil || f.enc {
			return
		}
		w.specCheck(f)
	case "open":
		f := w.getFile(fid)
		if f == nil || f.variant != 0 {
			return
		}
		w.dropJoiner(f)
		f.pos = 0
		r.Logf("reopen f=%d", f.id)
	case "size":
		f := w.getFile(fid)
		if f == nil || f.variant != 0 {
			return
		}
		j, ok := w.openJoiner(f)
		if !ok {
			return
		}
		if s := j.Size(); s != f.size {
			r.Violate("size", "file %d: Size() = %d, content length %d", f.id, s, f.size)
		}
	case "read", "readat":
		f := w.getFile(fid)
		if f == nil || f.variant != 0 {
			return
		}
		j, ok := w.openJoiner(f)
		if !ok {
			return
		}
		var off, L, extra int64
		if o.K == "read" {
			off, L, extra = f.pos, o.Arg(1), o.Arg(2)
		} else {
			off, L, extra = o.Arg(1), o.Arg(2), o.Arg(3)
		}
		if L < 0 || extra < 0 || off < 0 || L > 64<<20 || extra > 64<<20 {
			return
		}
		buf, backing := fkBuf(L, extra)
		if extra > 0 {
			r.Count("probe_cap_gt_len_read")
		}
		if L == 0 {
			r.Count("probe_zero_len_read")
		}
		fired0 := f.joc.firedN()
		var n int
		var err error
		w.watch(fmt.Sprintf("%s of file %d", o.K, f.id), func() {
			if o.K == "read" {
				n, err = j.Read(buf)
			} else {
				n, err = j.ReadAt(buf, off)
			}
		})
		fired := f.joc.firedN() - fired0
		r.Logf("%s f=%d off=%d len=%d cap=%d -> n=%d err=%v fired=%d", o.K, f.id, off, L, L+extra, n, err, fired)
		faulted := w.checkRead(f, o.K, off, buf, backing, n, err, fired, f.joc)
		if faulted || f.joc.ctx.Err() != nil {
			// after a failed read the joiner is abandoned; a fresh one continues at the model position
			w.dropJoiner(f)
			return
		}
		if o.K == "read" {
			f.pos += int64(n)
			if n > 0 {
				r.Count("probe_seq_read")
			}
		} else {
			r.Count("probe_readat")
			if off > 0 && off < f.size && off%fkCS != 0 && off+L > (off/fkCS+1)*fkCS {
				r.Count("probe_readat_straddles_chunk")
			}
		}
	case "seek":
		f := w.getFile(fid)
		if f == nil || f.variant != 0 {
			return
		}
		j, ok := w.openJoiner(f)
		if !ok {
			return
		}
		whence, so := int(o.Arg(1)), o.Arg(2)
		// requested position, with overflow detection
		var target int64
		valid := true // whence is one of the three defined values and the target is representable
		switch whence {
		case io.SeekStart:
			target = so
		case io.SeekCurrent:
			target = f.pos + so
			if (so > 0 && target < f.pos) || (so < 0 && target > f.pos) {
				valid = false
			}
		case io.SeekEnd: // the project counts offsets from the end backwards
			target = f.size - so
			if (so < 0 && target < f.size) || (so > 0 && target > f.size) {
				valid = false
			}
		default:
			valid = false
		}
		p, err := j.Seek(so, whence)
		r.Logf("seek f=%d whence=%d off=%d (pos %d) -> %d err=%v", f.id, whence, so, f.pos, p, err)
		switch {
		case err == nil && !valid:
			r.Violate("seek", "file %d size %d: Seek(%d, whence %d) from position %d succeeded with %d although the request is invalid", f.id, f.size, so, whence, f.pos, p)
		case err == nil:
			if p != target || target < 0 {
				r.Violate("seek", "file %d size %d: Seek(%d, whence %d) from position %d landed on %d, requested position %d", f.id, f.size, so, whence, f.pos, p, target)
			}
			f.pos = target
			r.Count("probe_seek_ok")
			if whence == io.SeekEnd {
				r.Count("probe_seek_end_ok")
			}
		default:
			if valid && target >= 0 && target <= f.size {
				r.Violate("seek-refused", "file %d size %d: Seek(%d, whence %d) from position %d to the valid position %d failed: %v", f.id, f.size, so, whence, f.pos, target, err)
			}
			r.Count("probe_seek_error")
			// where a refused seek leaves the reader is not specified: ask
			q, e2 := j.Seek(0, io.SeekCurrent)
			if e2 != nil {
				if f.pos <= f.size {
					r.Violate("seek-refused", "file %d size %d: Seek(0, current) failed after a refused seek: %v", f.id, f.size, e2)
				}
				w.dropJoiner(f)
				return
			}
			if q < 0 {
				r.Violate("seek", "file %d: position %d after a refused seek", f.id, q)
			}
			if q != f.pos {
				r.Count("probe_refused_seek_moved")
			}
			f.pos = q
		}
	case "readall":
		f := w.getFile(fid)
		if f == nil || f.variant != 0 {
			return
		}
		w.readAllCheck(f, f.ref, "readall")
	}
}

func (w *fkWorld) specCheck(f *fkFile) {
	r := w.r
	want := w.specRef(f)
	r.Logf("spec f=%d size=%d variant=%d -> %x", f.id, f.size, f.variant, want)
	r.Count("probe_spec_compared")
	v := fkVariants[f.variant]
	nchunks := (f.size + v[0] - 1) / v[0]
	if nchunks > v[1] {
		r.Count("probe_spec_three_levels")
	}
	if nchunks > 1 && nchunks%v[1] == 1 {
		r.Count("probe_spec_lone_ref_carried")
	}
	if !bytes.Equal(want, f.ref) {
		r.Violate("ref-not-format-hash", "file %d size %d kind %d (chunk %d, branches %d): upload returned reference %x, the format defines %x", f.id, f.size, f.kind, v[0], v[1], f.ref, want)
	}
}

func fkExec(focus string) func(r *gosim.Run) {
	return func(r *gosim.Run) {
		fkInstallRand(r.Plan.Seed)
		w := &fkWorld{r: r, focus: focus, store: fkNewStore(r), files: map[int64]*fkFile{}, rfail: map[int64]int64{}}
		for _, f := range r.Plan.Faults {
			if f.K == "readerfail" {
				w.rfail[f.Arg(0)] = f.Arg(1)
			}
		}
		held := int(r.Plan.P("bmt_held", 0))
		if held > bmtpool.Capacity-1 {
			held = bmtpool.Capacity - 1
		}
		for i := 0; i < held; i++ {
			bmtpool.Get()
		}
		if held > 0 {
			r.Count("fault_bmt_pool_pressure")
		}
		r.RunPhases(r.Plan.Ops, w.exec, nil)
		puts, gets := w.store.counts()
		r.Add("store_puts", puts)
		r.Add("store_gets", gets)
		r.Add("store_bytes", w.store.bytes)
	}
}

// ---- generators ----

var fkTinySizes = []int64{0, 1, 2, 31, 32, 33, 63, 64, 65, 4095, 4096, 4097}

// fkGenSize: boundary-dense content lengths. Hashing one 256 KiB chunk costs
// about 0.1 s under the simulator, so the quick tier keeps most contents below
// 4 chunks and reaches up to 40 chunks (10 MiB) in about 2 % of the files.
func fkGenSize(rng *rand.Rand, max int64, tier string) int64 {
	var s int64
	x := rng.Intn(100)
	if tier == "thorough" && x < 40 {
		x = 60 + rng.Intn(40) // larger contents more often
	}
	switch {
	case x < 14:
		s = fkTinySizes[rng.Intn(len(fkTinySizes))]
	case x < 24:
		s = fkCS - 1 + int64(rng.Intn(3))
	case x < 55:
		s = rng.Int63n(fkCS)
	case x < 65:
		s = 2*fkCS - 1 + int64(rng.Intn(3))
	case x < 75:
		s = int64(2+rng.Intn(3))*fkCS - 1 + int64(rng.Intn(3))
	case x < 85:
		s = rng.Int63n(4 * fkCS)
	case x < 92:
		s = int64(5+rng.Intn(4))*fkCS - 1 + int64(rng.Intn(3))
	case x < 98:
		s = rng.Int63n(8 * fkCS)
	case x < 99:
		s = int64(9+rng.Intn(32))*fkCS - 1 + int64(rng.Intn(3))
	default:
		s = rng.Int63n(10<<20 + 1)
	}
	if s > max {
		s = rng.Int63n(max + 1)
	}
	return s
}

func fkGenOff(rng *rand.Rand, size int64) int64 {
	var o int64
	switch rng.Intn(10) {
	case 0:
		o = 0
	case 1:
		o = size - 1 + int64(rng.Intn(3))
	case 2, 3:
		o = int64(rng.Intn(int(size/fkCS)+2))*fkCS - 1 + int64(rng.Intn(3))
	case 4:
		o = size + rng.Int63n(fkCS)
	case 5:
		o = []int64{1 << 31, 1 << 40, 1<<62 + 5, 1<<63 - 1}[rng.Intn(4)]
	default:
		o = rng.Int63n(size + 1)
	}
	if o < 0 {
		o = 0
	}
	return o
}

var fkLens = []int64{0, 1, 2, 31, 32, 33, 4095, 4096, 4097, fkCS - 1, fkCS, fkCS + 1, 2*fkCS + 3}

func fkGenLen(rng *rand.Rand) int64 {
	switch rng.Intn(6) {
	case 0, 1:
		return fkLens[rng.Intn(len(fkLens))]
	case 2:
		return rng.Int63n(1 << 20)
	case 3:
		return rng.Int63n(3 * fkCS)
	default:
		return rng.Int63n(8192)
	}
}

func fkGenExtra(rng *rand.Rand) int64 {
	switch rng.Intn(6) {
	case 0:
		return 1
	case 1:
		return 7
	case 2:
		return 4096
	case 3:
		return fkCS
	case 4:
		return rng.Int63n(2 * fkCS)
	default:
		return int64(1 + rng.Intn(64))
	}
}

func fkGenSeek(rng *rand.Rand, f int64, size int64) gosim.Op {
	whence := int64(rng.Intn(3))
	if rng.Intn(25) == 0 {
		whence = []int64{3, -1, 7}[rng.Intn(3)]
	}
	var off int64
	switch rng.Intn(10) {
	case 0:
		off = 0
	case 1:
		off = -1 - rng.Int63n(size+2)
	case 2:
		off = size + int64(rng.Intn(3)) - 1
	case 3:
		off = []int64{1<<63 - 1, -1 << 63, 1 << 62, -(1 << 62)}[rng.Intn(4)]
	case 4:
		off = int64(rng.Intn(int(size/fkCS)+2))*fkCS - 1 + int64(rng.Intn(3))
	default:
		off = rng.Int63n(size + 1)
		if whence == 1 && rng.Intn(2) == 0 {
			off = -off / 2
		}
	}
	return gosim.Op{K: "seek", A: []int64{f, whence, off}}
}

func fkGenUp(rng *rand.Rand, f, size int64, enc, variant int64) gosim.Op {
	kind := int64(0)
	if rng.Intn(3) == 0 {
		kind = int64(rng.Intn(fkKinds))
	}
	return gosim.Op{K: "up", A: []int64{f, size, kind, enc, int64(rng.Intn(2)), int64(rng.Intn(fkSegModes)), rng.Int63n(1 << 40), int64(rng.Intn(2)), variant, 0}}
}

func fkGenReup(rng *rand.Rand, f int64) gosim.Op {
	return gosim.Op{K: "reup", A: []int64{f, int64(rng.Intn(2)), int64(rng.Intn(fkSegModes)), rng.Int63n(1 << 40), int64(rng.Intn(2))}}
}

// fkEstPuts: rough number of Put calls of one upload (for placing faults).
func fkEstPuts(size int64, cs int64) int64 {
	return (size+cs-1)/cs + 1
}

type fkGenFile struct {
	id, size int64
	enc      int64
}

// fkGenReadProgram appends n read-side ops for file f.
func fkGenReadProgram(rng *rand.Rand, ops []gosim.Op, f fkGenFile, n int, capExtraPct int, seekPct int) ([]gosim.Op, int64) {
	gets := int64(0)
	for i := 0; i < n; i++ {
		extra := int64(0)
		if rng.Intn(100) < capExtraPct {
			extra = fkGenExtra(rng)
		}
		x := rng.Intn(100)
		switch {
		case x < seekPct:
			ops = append(ops, fkGenSeek(rng, f.id, f.size))
		case x < seekPct+4:
			ops = append(ops, gosim.Op{K: "size", A: []int64{f.id}})
		case x < seekPct+7:
			ops = append(ops, gosim.Op{K: "open", A: []int64{f.id}})
			gets++
		case x < seekPct+10:
			ops = append(ops, gosim.Op{K: "readall", A: []int64{f.id}})
			gets += f.size/fkCS + 2
		case x < seekPct+10+(90-seekPct)/2:
			l := fkGenLen(rng)
			ops = append(ops, gosim.Op{K: "read", A: []int64{f.id, l, extra}})
			gets += l/fkCS + 2
		default:
			l := fkGenLen(rng)
			ops = append(ops, gosim.Op{K: "readat", A: []int64{f.id, fkGenOff(rng, f.size), l, extra}})
			gets += l/fkCS + 2
		}
		if rng.Intn(12) == 0 {
			ops = append(ops, gosim.Op{K: "barrier"})
		}
	}
	return ops, gets
}

func fkGenFaults(rng *rand.Rand, p *gosim.Plan, estPuts, estGets int64, files []fkGenFile, kinds []string) {
	if rng.Intn(100) < 45 {
		return // fault-free run
	}
	n := 1 + rng.Intn(3)
	// call numbers skewed towards the start: a fault placed after the last call never fires
	estPuts = int64(float64(estPuts) * (0.3 + 0.7*rng.Float64()))
	estGets = int64(float64(estGets) * (0.2 + 0.6*rng.Float64()))
	for i := 0; i < n; i++ {
		switch kinds[rng.Intn(len(kinds))] {
		case "putfail":
			p.Faults = append(p.Faults, gosim.Op{K: "putfail", A: []int64{1 + rng.Int63n(estPuts+1)}})
		case "putcancel":
			p.Faults = append(p.Faults, gosim.Op{K: "putcancel", A: []int64{1 + rng.Int63n(estPuts+1), int64(rng.Intn(2))}})
		case "getfail":
			p.Faults = append(p.Faults, gosim.Op{K: "getfail", A: []int64{1 + rng.Int63n(estGets+1), int64(rng.Intn(2))}})
		case "getcancel":
			p.Faults = append(p.Faults, gosim.Op{K: "getcancel", A: []int64{1 + rng.Int63n(estGets+1)}})
		case "readerfail":
			f := files[rng.Intn(len(files))]
			p.Faults = append(p.Faults, gosim.Op{K: "readerfail", A: []int64{f.id, 1 + rng.Int63n(f.size/fkCS+3)}})
		}
	}
}

// fkSchedParams: the BMT section workers run unscheduled (World.Native). The
// runtime calls the scheduler hook after a blocking operation only if the
// goroutine really parked, and whether the uploader parks in Hasher.Hash's
// select depends on how fast the native workers finish in real time. With
// yield_pct=100 the uploader always yields before that select, the scheduler
// waits for quiescence (all workers done, the last one blocked sending the
// result) and the select then never parks: the schedule is a function of the
// seed again. So these worlds fix yield_pct instead of drawing it.
func fkSchedParams(p *gosim.Plan) {
	p.Params["yield_pct"] = 100
}

// fkPoolPressure: in a third of the runs most of the 32 process-wide BMT hashers
// are checked out for the whole run (a node busy with other uploads), so that
// concurrent uploads share the one or two that are left.
func fkPoolPressure(rng *rand.Rand, p *gosim.Plan) {
	p.Params["bmt_held"] = gosim.Pick(rng, 0, 0, 0, 0, 30, 31)
}

func fkDelays(rng *rand.Rand, p *gosim.Plan) {
	fkSchedParams(p)
	fkPoolPressure(rng, p)
	p.Params["get_delay_ms"] = gosim.Pick(rng, 0, 0, 1, 5, 50)
	p.Params["put_delay_ms"] = gosim.Pick(rng, 0, 0, 0, 3)
}

// C01: round trip of any content under any split, plain and encrypted.
func c01Gen(rng *rand.Rand, tier string) *gosim.Plan {
	p := &gosim.Plan{Params: map[string]int64{}}
	fkDelays(rng, p)
	budget := int64(11 << 20)
	if tier == "thorough" {
		budget = 30 << 20
	}
	nf := 1 + rng.Intn(3)
	var files []fkGenFile
	estPuts, estGets := int64(0), int64(0)
	for i := 0; i < nf; i++ {
		max := budget
		if max > 10<<20 {
			max = 10 << 20
		}
		size := fkGenSize(rng, max, tier)
		budget -= size
		f := fkGenFile{int64(i), size, int64(rng.Intn(2))}
		files = append(files, f)
		p.Ops = append(p.Ops, fkGenUp(rng, f.id, f.size, f.enc, 0))
		estPuts += fkEstPuts(size, fkCS)
		if budget <= 0 {
			break
		}
	}
	if rng.Intn(2) == 0 {
		p.Ops = append(p.Ops, gosim.Op{K: "barrier"})
	}
	for _, f := range files {
		// every file is read back completely at least once
		p.Ops = append(p.Ops, gosim.Op{K: "readall", A: []int64{f.id}})
		estGets += f.size/fkCS + 2
		if rng.Intn(4) == 0 && f.size <= 2<<20 {
			p.Ops = append(p.Ops, fkGenReup(rng, f.id))
			estPuts += fkEstPuts(f.size, fkCS)
		}
	}
	var progs [][]gosim.Op
	for _, f := range files {
		var g int64
		var ops []gosim.Op
		ops, g = fkGenReadProgram(rng, nil, f, 8+rng.Intn(25), 0, 20)
		estGets += g
		progs = append(progs, ops)
	}
	// interleave the per-file programs in the list (they run concurrently anyway)
	for len(progs) > 0 {
		i := rng.Intn(len(progs))
		p.Ops = append(p.Ops, progs[i][0])
		progs[i] = progs[i][1:]
		if len(progs[i]) == 0 {
			progs = append(progs[:i], progs[i+1:]...)
		}
	}
	fkGenFaults(rng, p, estPuts, estGets, files, []string{"putfail", "putfail", "putcancel", "getfail", "getfail", "getcancel", "readerfail"})
	return p
}

// C02: the reference is a function of the bytes alone and equals the format's tree hash.
func c02Gen(rng *rand.Rand, tier string) *gosim.Plan {
	p := &gosim.Plan{Params: map[string]int64{}}
	fkSchedParams(p)
	p.Params["get_delay_ms"] = 0
	p.Params["put_delay_ms"] = gosim.Pick(rng, 0, 0, 2)
	fkPoolPressure(rng, p)
	budget := int64(6 << 20)
	if tier == "thorough" {
		budget = 24 << 20
	}
	nf := 1 + rng.Intn(3)
	var files []fkGenFile
	estPuts := int64(0)
	for i := 0; i < nf; i++ {
		variant := int64(0)
		var size int64
		cs := fkCS
		if rng.Intn(3) == 0 {
			variant = int64(1 + rng.Intn(len(fkVariants)-1))
			cs = fkVariants[variant][0]
			br := fkVariants[variant][1]
			// sizes around the level boundaries br^k chunks of the reduced geometry
			maxChunks := int64(300) // and at most br^6 chunks: well inside the trie's 8 levels
			if b6 := br * br * br * br * br * br; b6 < maxChunks {
				maxChunks = b6
			}
			var chunks int64
			switch rng.Intn(4) {
			case 0:
				chunks = 1 + rng.Int63n(maxChunks)
			default:
				chunks = br
				for k := rng.Intn(5); k > 0 && chunks*br <= maxChunks; k-- {
					chunks *= br
				}
				chunks = chunks*int64(1+rng.Intn(2)) + int64(rng.Intn(3)) - 1
			}
			if chunks < 0 {
				chunks = 0
			}
			if chunks > maxChunks {
				chunks = maxChunks
			}
			size = chunks*cs - 1 + int64(rng.Intn(3))
			if rng.Intn(4) == 0 {
				size = rng.Int63n(chunks*cs + 1)
			}
			if size < 0 {
				size = 0
			}
		} else {
			size = fkGenSize(rng, budget, tier)
			budget -= 3 * size
		}
		f := fkGenFile{int64(i), size, 0}
		files = append(files, f)
		up := fkGenUp(rng, f.id, f.size, 0, variant)
		up.A[9] = 1 // compare with the format definition right after the upload
		p.Ops = append(p.Ops, up)
		estPuts += fkEstPuts(size, cs)
		for k := rng.Intn(2); k >= 0; k-- {
			p.Ops = append(p.Ops, fkGenReup(rng, f.id))
			estPuts += fkEstPuts(size, cs)
		}
		if rng.Intn(3) == 0 {
			p.Ops = append(p.Ops, gosim.Op{K: "spec", A: []int64{f.id}})
		}
		if variant == 0 && rng.Intn(3) == 0 {
			p.Ops = append(p.Ops, gosim.Op{K: "readall", A: []int64{f.id}})
		}
		if budget <= 0 {
			break
		}
	}
	fkGenFaults(rng, p, estPuts, 10, files, []string{"putfail", "putcancel", "readerfail"})
	return p
}

// C07: the reader contract of Read / ReadAt / Seek / Size.
func c07Gen(rng *rand.Rand, tier string) *gosim.Plan {
	p := &gosim.Plan{Params: map[string]int64{}}
	fkDelays(rng, p)
	// share of reads whose buffer has spare capacity beyond its length
	capPct := gosim.Pick(rng, 0, 25, 60)
	p.Params["cap_extra_pct"] = capPct
	nf := 1 + rng.Intn(2)
	var files []fkGenFile
	estPuts, estGets := int64(0), int64(0)
	for i := 0; i < nf; i++ {
		size := fkGenSize(rng, 3<<20, tier)
		enc := int64(0)
		if rng.Intn(4) == 0 {
			enc = 1
		}
		f := fkGenFile{int64(i), size, enc}
		files = append(files, f)
		p.Ops = append(p.Ops, fkGenUp(rng, f.id, f.size, f.enc, 0))
		estPuts += fkEstPuts(size, fkCS)
	}
	for _, f := range files {
		var g int64
		p.Ops, g = fkGenReadProgram(rng, p.Ops, f, 15+rng.Intn(45), int(capPct), 30)
		estGets += g
	}
	fkGenFaults(rng, p, estPuts, estGets, files, []string{"getfail", "getfail", "getcancel"})
	return p
}

func init() {
	native := []string{"github.com/gauss-project/aurorafs/pkg/bmt."}
	real := []string{"pkg/file/pipeline/builder (NewPipelineBuilder, FeedPipeline)", "pkg/file/pipeline/{feeder,bmt,store,encryption,hashtrie}",
		"pkg/file/joiner", "pkg/file (JoinReadAll)", "pkg/encryption, pkg/encryption/store (decrypting getter)", "pkg/bmt, pkg/bmtpool (section workers unscheduled)"}
	stubs := []string{"chunk store: in-memory, de-duplicating, faultable storage.Putter/Getter", "upload reader delivering seeded short reads"}
	gosim.Register(&gosim.World{Prop: "C01", Gen: c01Gen, Exec: fkExec("C01"), Native: native, Real: real, Stubs: stubs})
	gosim.Register(&gosim.World{Prop: "C02", Gen: c02Gen, Exec: fkExec("C02"), Native: native, Real: real,
		Stubs: append([]string{"oracle: independent keccak256 implementation of the format (filekit_spec.go)"}, stubs...)})
	gosim.Register(&gosim.World{Prop: "C07", Gen: c07Gen, Exec: fkExec("C07"), Native: native, Real: real, Stubs: stubs})
}
