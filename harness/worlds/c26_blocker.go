package worlds

import (
	"errors"
	"io"
	"math/rand"
	"sync"
	"time"

	"github.com/gauss-project/aurorafs/pkg/blocker"
	"github.com/gauss-project/aurorafs/pkg/boson"
	"github.com/gauss-project/aurorafs/pkg/logging"
	"github.com/gauss-project/aurorafs/pkg/p2p"
	"github.com/sirupsen/logrus"

	"verifharness/gosim"
)

// C26 — Unresponsive peers are blocked only after the flag timeout.
//
// The real blocker (sequencer goroutine, sweep goroutine, Flag / Unflag /
// PruneUnseen) runs on the simulator's fake clock against a recording
// Blocklister whose NetworkStatus follows the plan's availability schedule.
//
// Params: timeout_ms (flag timeout), wakeup_ms (sweep period), peers, tail_ms.
// Ops (first argument = client goroutine; every client runs its ops in order):
//   sleep  [client, ms]
//   flag   [client, peer]
//   unflag [client, peer]
//   prune  [client, seenmask]     PruneUnseen(peers whose bit is set)
// Faults:
//   net    [startTick, ticks, kind]  the network is not available (kind 0:
//          Unavailable, 1: Unknown) during sequencer ticks [start, start+ticks)
//          counted from the blocker's creation. Status changes happen on tick
//          boundaries (the statement's "clock ticks with network available or
//          not"), so that "available time" is well defined up to one tick.
//
// c26Tick is the sequencer resolution documented in pkg/blocker/blocker.go
// ("sequencerResolution represents monotonic sequencer resolution",
// time.Second); it is the only slack the oracle grants.
const c26Tick = time.Second

type c26Ev struct {
	kind     string // flag, unflag, prune, block
	peer     int
	mask     int64
	inv, res int64 // global order of invocation / response
	t        time.Duration
	avail    bool // network status at the instant of the call (flag only)
}

type c26World struct {
	r      *gosim.Run
	mu     sync.Mutex
	seq    int64
	evs    []*c26Ev
	t0     time.Time
	unav   [][3]int64 // start tick, end tick (exclusive), kind
	fired  map[int]bool
	byAddr map[string]int
	errPct int64
}

func (w *c26World) next() int64 { w.seq++; return w.seq }

// statusAt: availability as a function of fake time only.
func (w *c26World) statusAt(d time.Duration) (p2p.NetworkStatus, int) {
	k := int64(d / c26Tick)
	for i, u := range w.unav {
		if k >= u[0] && k < u[1] {
			if u[2] == 1 {
				return p2p.NetworkStatusUnknown, i
			}
			return p2p.NetworkStatusUnavailable, i
		}
	}
	return p2p.NetworkStatusAvailable, -1
}

func (w *c26World) NetworkStatus() p2p.NetworkStatus {
	s, i := w.statusAt(time.Since(w.t0))
	if i >= 0 {
		w.mu.Lock()
		first := !w.fired[i]
		w.fired[i] = true
		w.mu.Unlock()
		if first {
			w.r.Count("fault_net_unavailable")
		}
	}
	return s
}

func (w *c26World) Blocklist(overlay boson.Address, duration time.Duration, reason string) error {
	w.mu.Lock()
	i, ok := w.byAddr[overlay.ByteString()]
	n := w.next()
	e := &c26Ev{kind: "block", peer: i, inv: n, res: n, t: time.Since(w.t0)}
	if ok {
		w.evs = append(w.evs, e)
	}
	nth := len(w.evs)
	w.mu.Unlock()
	if !ok {
		w.r.Violate("blocked-unknown", "Blocklist called for an address that was never flagged: %s", overlay.String())
	}
	w.r.Logf("t=%v BLOCKLIST peer=%d dur=%v", e.t, i, duration)
	if w.errPct > 0 && int64(nth*37%100) < w.errPct {
		return errors.New("c26: blocklist failed")
	}
	return nil
}

// availBetween: available time inside [a, b].
func (w *c26World) availBetween(a, b time.Duration) time.Duration {
	if b <= a {
		return 0
	}
	tot := b - a
	for _, u := range w.unav {
		s, e := time.Duration(u[0])*c26Tick, time.Duration(u[1])*c26Tick
		if s < a {
			s = a
		}
		if e > b {
			e = b
		}
		if e > s {
			tot -= e - s
		}
	}
	return tot
}

func c26Gen(rng *rand.Rand, tier string) *gosim.Plan {
	p := &gosim.Plan{Params: map[string]int64{}}
	nPeers := 1 + rng.Intn(5)
	nCli := 1 + rng.Intn(3)
	timeout := int64(5+rng.Intn(56)) * 1000
	if rng.Intn(5) < 2 {
		timeout = 5000 + int64(rng.Intn(55001)) // not a whole number of ticks
	}
	if rng.Intn(3) == 0 {
		timeout = 5000 + int64(rng.Intn(6000)) // short: many flag periods complete
	}
	wakeup := int64(1+rng.Intn(15)) * 1000
	if rng.Intn(4) == 0 {
		wakeup = 1000 + int64(rng.Intn(14001))
	}
	p.Params["timeout_ms"] = timeout
	p.Params["wakeup_ms"] = wakeup
	p.Params["peers"] = int64(nPeers)
	p.Params["block_ms"] = gosim.Pick(rng, 0, 1000, 60000, 3600000)
	p.Params["tail_ms"] = int64(rng.Intn(int(timeout + 2*wakeup + 4000)))
	p.Params["blocklist_err_pct"] = gosim.Pick(rng, 0, 0, 0, 30)
	nOps := 15 + rng.Intn(60)
	if tier == "thorough" {
		nOps = 15 + rng.Intn(250)
	}
	wholeSec := rng.Intn(3) // how often calls land exactly on tick instants: never / half / always
	wUnflag := 1 + rng.Intn(4)
	wPrune := rng.Intn(3)
	longSleep := timeout + wakeup
	total := int64(0)
	for i := 0; i < nOps; i++ {
		c := int64(rng.Intn(nCli))
		peer := int64(rng.Intn(nPeers))
		x := rng.Intn(10 + 8 + wUnflag + wPrune)
		switch {
		case x < 10:
			var d int64
			switch y := rng.Intn(10); {
			case y < 5:
				d = int64(rng.Intn(3000))
			case y < 8:
				d = int64(rng.Intn(int(longSleep)))
			default:
				d = longSleep + int64(rng.Intn(5000)) - 1000
			}
			if wholeSec == 2 || (wholeSec == 1 && rng.Intn(2) == 0) {
				d = (d + 500) / 1000 * 1000
			}
			total += d
			p.Ops = append(p.Ops, gosim.Op{K: "sleep", A: []int64{c, d}})
		case x < 18:
			p.Ops = append(p.Ops, gosim.Op{K: "flag", A: []int64{c, peer}})
		case x < 18+wUnflag:
			p.Ops = append(p.Ops, gosim.Op{K: "unflag", A: []int64{c, peer}})
		default:
			p.Ops = append(p.Ops, gosim.Op{K: "prune", A: []int64{c, int64(rng.Intn(1 << nPeers))}})
		}
	}
	// availability schedule; 40 % of the runs: always available
	if rng.Intn(10) >= 4 {
		horizon := total/1000/int64(nCli) + 30
		n := 1 + rng.Intn(6)
		for i := 0; i < n; i++ {
			start := int64(rng.Intn(int(horizon)))
			var ln int64
			switch rng.Intn(3) {
			case 0:
				ln = 1 + int64(rng.Intn(3))
			case 1:
				ln = 1 + int64(rng.Intn(20))
			default:
				ln = 1 + int64(rng.Intn(int(timeout/1000)+10))
			}
			p.Faults = append(p.Faults, gosim.Op{K: "net", A: []int64{start, ln, int64(rng.Intn(3) / 2)}})
		}
	}
	return p
}

func c26Exec(r *gosim.Run) {
	nPeers := int(r.Plan.P("peers", 3))
	if nPeers < 1 {
		nPeers = 1
	}
	if nPeers > 16 {
		nPeers = 16
	}
	timeout := time.Duration(r.Plan.P("timeout_ms", 10000)) * time.Millisecond
	wakeup := time.Duration(r.Plan.P("wakeup_ms", 3000)) * time.Millisecond
	if timeout <= c26Tick {
		timeout = 2 * c26Tick
	}
	if wakeup < c26Tick {
		wakeup = c26Tick
	}
	blockDur := time.Duration(r.Plan.P("block_ms", 0)) * time.Millisecond
	w := &c26World{r: r, fired: map[int]bool{}, byAddr: map[string]int{}, errPct: r.Plan.P("blocklist_err_pct", 0)}
	for _, f := range r.Plan.Faults {
		if f.K != "net" || f.Arg(1) <= 0 || f.Arg(0) < 0 {
			continue
		}
		w.unav = append(w.unav, [3]int64{f.Arg(0), f.Arg(0) + f.Arg(1), f.Arg(2)})
	}
	// merge overlaps so that availBetween does not subtract twice
	w.unav = c26Merge(w.unav)
	addrs := make([]boson.Address, nPeers)
	for i := range addrs {
		b := make([]byte, 32)
		for j := range b {
			b[j] = byte(i*53 + j*7 + 3)
		}
		b[0] = byte(0x20 + i)
		addrs[i] = boson.NewAddress(b)
		w.byAddr[addrs[i].ByteString()] = i
	}
	var cbmu sync.Mutex
	callbacks := map[int]int{}
	w.t0 = time.Now()
	bk := blocker.New(w, timeout, blockDur, wakeup, func(a boson.Address) {
		cbmu.Lock()
		callbacks[w.byAddr[a.ByteString()]]++
		cbmu.Unlock()
	}, logging.New(io.Discard, logrus.PanicLevel))
	r.Logf("blocker timeout=%v wakeup=%v unavailable=%v", timeout, wakeup, w.unav)

	begin := func(kind string, peer int, mask int64) *c26Ev {
		w.mu.Lock()
		d := time.Since(w.t0)
		st, _ := w.statusAt(d)
		e := &c26Ev{kind: kind, peer: peer, mask: mask, inv: w.next(), t: d, avail: st == p2p.NetworkStatusAvailable}
		w.evs = append(w.evs, e)
		w.mu.Unlock()
		return e
	}
	end := func(e *c26Ev) {
		w.mu.Lock()
		e.res = w.next()
		w.mu.Unlock()
		if time.Since(w.t0) != e.t {
			r.Violate("harness-time", "fake time advanced inside a %s call", e.kind)
		}
	}

	var clients []int64
	by := map[int64][]gosim.Op{}
	for _, o := range r.Plan.Ops {
		c := o.Arg(0)
		if _, ok := by[c]; !ok {
			clients = append(clients, c)
		}
		by[c] = append(by[c], o)
	}
	var wg sync.WaitGroup
	for _, c := range clients {
		wg.Add(1)
		go func(ops []gosim.Op) {
			defer wg.Done()
			for _, o := range ops {
				switch o.K {
				case "sleep":
					d := o.Arg(1)
					if d < 0 {
						d = 0
					}
					time.Sleep(time.Duration(d) * time.Millisecond)
				case "flag":
					i := int(o.Arg(1)) % nPeers
					e := begin("flag", i, 0)
					r.Logf("t=%v flag peer=%d avail=%v", e.t, i, e.avail)
					bk.Flag(addrs[i])
					end(e)
				case "unflag":
					i := int(o.Arg(1)) % nPeers
					e := begin("unflag", i, 0)
					r.Logf("t=%v unflag peer=%d", e.t, i)
					bk.Unflag(addrs[i])
					end(e)
				case "prune":
					mask := o.Arg(1)
					var seen []boson.Address
					for i := 0; i < nPeers; i++ {
						if mask&(1<<uint(i)) != 0 {
							seen = append(seen, addrs[i])
						}
					}
					e := begin("prune", -1, mask)
					r.Logf("t=%v prune seenmask=%b", e.t, mask)
					bk.PruneUnseen(seen)
					end(e)
				default:
					continue
				}
				r.OpDone()
			}
		}(by[c])
	}
	wg.Wait()
	time.Sleep(time.Duration(r.Plan.P("tail_ms", 0)) * time.Millisecond)
	gosim.Idle()
	endT := time.Since(w.t0)
	done := make(chan struct{})
	go func() { _ = bk.Close(); close(done) }()
	select {
	case <-done:
	case <-time.After(10 * time.Minute):
		r.Violate("hang", "Blocker.Close did not return")
	}
	r.Logf("t=%v closed", endT)

	// ---- oracle over the recorded history ----
	w.mu.Lock()
	evs := append([]*c26Ev(nil), w.evs...)
	w.mu.Unlock()
	cancels := func(e *c26Ev, p int) bool {
		return (e.kind == "unflag" && e.peer == p) || (e.kind == "prune" && e.mask&(1<<uint(p)) == 0)
	}
	nBlocks := map[int]int{}
	for bi, b := range evs {
		if b.kind != "block" {
			continue
		}
		p := b.peer
		nBlocks[p]++
		r.Count("probe_blocklisted")
		// the previous blocklisting of the same peer ends the previous flag period
		var prevB *c26Ev
		for _, e := range evs[:bi] {
			if e.kind == "block" && e.peer == p {
				prevB = e
			}
		}
		// candidate flag calls that may still be in force at b
		var first *c26Ev
		anyFlag := false
		for _, f := range evs {
			if f.kind != "flag" || f.peer != p || f.inv > b.inv {
				continue
			}
			anyFlag = true
			if prevB != nil && f.res != 0 && f.res < prevB.inv {
				continue // consumed by the previous blocklisting
			}
			cancelled := false
			for _, u := range evs {
				if cancels(u, p) && f.res != 0 && u.inv > f.res && u.res != 0 && u.res < b.inv {
					cancelled = true
					break
				}
			}
			if cancelled {
				continue
			}
			if first == nil || f.t < first.t {
				first = f
			}
		}
		if first == nil {
			switch {
			case !anyFlag:
				r.Violate("blocked-unflagged", "peer %d blocklisted at t=%v but it was never flagged", p, b.t)
			case prevB != nil:
				// was it a cancel or the earlier blocklisting that ended the period?
				flaggedSince := false
				for _, f := range evs {
					if f.kind == "flag" && f.peer == p && f.inv < b.inv && (f.res == 0 || f.res > prevB.inv) {
						flaggedSince = true
					}
				}
				if !flaggedSince {
					r.Violate("blocked-twice", "peer %d blocklisted at t=%v and again at t=%v without being flagged in between: one flag period, two blocklistings", p, prevB.t, b.t)
				}
				fallthrough
			default:
				r.Violate("blocked-after-success", "peer %d blocklisted at t=%v although every flag before was followed by a completed Unflag / PruneUnseen-as-unseen (or an earlier blocklisting)", p, b.t)
			}
		}
		av := w.availBetween(first.t, b.t)
		if av <= timeout-c26Tick {
			r.Violate("blocked-early", "peer %d blocklisted at t=%v: flagged since t=%v, only %v of available time, flag timeout %v (resolution %v)", p, b.t, first.t, av, timeout, c26Tick)
		}
		if av < b.t-first.t {
			r.Count("probe_blocked_across_unavailability")
		}
	}
	// bounded liveness
	need := timeout + wakeup + 2*c26Tick
	for _, f := range evs {
		if f.kind != "flag" || !f.avail {
			continue
		}
		p := f.peer
		x := endT
		for _, u := range evs {
			if cancels(u, p) && (u.res == 0 || u.res > f.inv) && u.t >= f.t && u.t < x {
				x = u.t
			}
		}
		if w.availBetween(f.t, x) <= need {
			continue
		}
		r.Count("probe_must_blocklist")
		found := false
		for _, b := range evs {
			if b.kind == "block" && b.peer == p && b.inv > f.inv && b.t <= x {
				found = true
			}
		}
		if !found {
			r.Violate("not-blocked", "peer %d flagged at t=%v (network available) and neither unflagged nor pruned until t=%v: %v of available time > timeout %v + wake-up %v + 2 ticks, but it was never blocklisted",
				p, f.t, x, w.availBetween(f.t, x), timeout, wakeup)
		}
	}
	// every blocklisting is announced through the callback exactly once
	cbmu.Lock()
	for p, n := range nBlocks {
		if callbacks[p] != n {
			r.Violate("callback-mismatch", "peer %d: %d blocklistings but %d callbacks", p, n, callbacks[p])
		}
	}
	cbmu.Unlock()
	r.Add("events", int64(len(evs)))
}

func c26Merge(in [][3]int64) [][3]int64 {
	// insertion sort by start, then merge overlapping / touching intervals
	for i := 1; i < len(in); i++ {
		for j := i; j > 0 && in[j-1][0] > in[j][0]; j-- {
			in[j-1], in[j] = in[j], in[j-1]
		}
	}
	var out [][3]int64
	for _, u := range in {
		if n := len(out); n > 0 && u[0] <= out[n-1][1] {
			if u[1] > out[n-1][1] {
				out[n-1][1] = u[1]
			}
			continue
		}
		out = append(out, u)
	}
	return out
}

func init() {
	gosim.Register(&gosim.World{
		Prop: "C26", Gen: c26Gen, Exec: c26Exec,
		Real:  []string{"pkg/blocker (New: sequencer and sweep goroutines, Flag, Unflag, PruneUnseen, block, Close)"},
		Stubs: []string{"p2p.Blocklister (recording; NetworkStatus follows the plan's availability schedule)", "clock: synctest fake time"},
	})
}
