//go:build g_heavy

package worlds

// c37Cache: a goroutine-free gcache adapter on simulated time. pkg/multicast and
// pkg/routetab keep package-level gcache instances whose memory adapter is served
// by gogf goroutines started at package init (outside the bubble, real clock):
// lock contention with them would make the schedule depend on real timing. The
// world swaps both caches (verif hooks VerifSetCache) for this adapter.

import (
	"context"
	"fmt"
	"sync"
	"time"

	"github.com/gogf/gf/v2/container/gvar"
	"github.com/gogf/gf/v2/os/gcache"
)

type c37CacheItem struct {
	v   interface{}
	exp time.Time // zero = never
}

type c37Cache struct {
	mu sync.Mutex
	m  map[string]c37CacheItem
	k  map[string]interface{}
}

func c37NewCache() *gcache.Cache {
	return gcache.NewWithAdapter(&c37Cache{m: map[string]c37CacheItem{}, k: map[string]interface{}{}})
}

func c37Key(key interface{}) string { return fmt.Sprintf("%T:%v", key, key) }

func (c *c37Cache) get(key interface{}) (c37CacheItem, bool) {
	ks := c37Key(key)
	it, ok := c.m[ks]
	if ok && !it.exp.IsZero() && !time.Now().Before(it.exp) {
		delete(c.m, ks)
		delete(c.k, ks)
		return c37CacheItem{}, false
	}
	return it, ok
}

func (c *c37Cache) put(key, value interface{}, d time.Duration) {
	ks := c37Key(key)
	if d < 0 {
		delete(c.m, ks)
		delete(c.k, ks)
		return
	}
	it := c37CacheItem{v: value}
	if d > 0 {
		it.exp = time.Now().Add(d)
	}
	c.m[ks] = it
	c.k[ks] = key
}

func (c *c37Cache) Set(ctx context.Context, key interface{}, value interface{}, duration time.Duration) error {
	c.mu.Lock()
	defer c.mu.Unlock()
	c.put(key, value, duration)
	return nil
}

func (c *c37Cache) SetMap(ctx context.Context, data map[interface{}]interface{}, duration time.Duration) error {
	c.mu.Lock()
	defer c.mu.Unlock()
	for k, v := range data {
		c.put(k, v, duration)
	}
	return nil
}

func (c *c37Cache) SetIfNotExist(ctx context.Context, key interface{}, value interface{}, duration time.Duration) (bool, error) {
	c.mu.Lock()
	defer c.mu.Unlock()
	if _, ok := c.get(key); ok {
		return false, nil
	}
	c.put(key, value, duration)
	return true, nil
}

func (c *c37Cache) SetIfNotExistFunc(ctx context.Context, key interface{}, f gcache.Func, duration time.Duration) (bool, error) {
	v, err := f(ctx)
	if err != nil {
		return false, err
	}
	return c.SetIfNotExist(ctx, key, v, duration)
}

func (c *c37Cache) SetIfNotExistFuncLock(ctx context.Context, key interface{}, f gcache.Func, duration time.Duration) (bool, error) {
	return c.SetIfNotExistFunc(ctx, key, f, duration)
}

func (c *c37Cache) Get(ctx context.Context, key interface{}) (*gvar.Var, error) {
	c.mu.Lock()
	defer c.mu.Unlock()
	if it, ok := c.get(key); ok {
		return gvar.New(it.v), nil
	}
	return nil, nil
}

func (c *c37Cache) GetOrSet(ctx context.Context, key interface{}, value interface{}, duration time.Duration) (*gvar.Var, error) {
	c.mu.Lock()
	defer c.mu.Unlock()
	if it, ok := c.get(key); ok {
		return gvar.New(it.v), nil
	}
	c.put(key, value, duration)
	return gvar.New(value), nil
}

func (c *c37Cache) GetOrSetFunc(ctx context.Context, key interface{}, f gcache.Func, duration time.Duration) (*gvar.Var, error) {
	if v, _ := c.Get(ctx, key); v != nil {
		return v, nil
	}
	v, err := f(ctx)
	if err != nil {
		return nil, err
	}
	return c.GetOrSet(ctx, key, v, duration)
}

func (c *c37Cache) GetOrSetFuncLock(ctx context.Context, key interface{}, f gcache.Func, duration time.Duration) (*gvar.Var, error) {
	return c.GetOrSetFunc(ctx, key, f, duration)
}

func (c *c37Cache) Contains(ctx context.Context, key interface{}) (bool, error) {
	c.mu.Lock()
	defer c.mu.Unlock()
	_, ok := c.get(key)
	return ok, nil
}

func (c *c37Cache) Size(ctx context.Context) (int, error) {
	c.mu.Lock()
	defer c.mu.Unlock()
	return len(c.m), nil
}

func (c *c37Cache) Data(ctx context.Context) (map[interface{}]interface{}, error) {
	c.mu.Lock()
	defer c.mu.Unlock()
	out := map[interface{}]interface{}{}
	for ks, it := range c.m {
		out[c.k[ks]] = it.v
	}
	return out, nil
}

func (c *c37Cache) Keys(ctx context.Context) ([]interface{}, error) {
	c.mu.Lock()
	defer c.mu.Unlock()
	var out []interface{}
	for _, k := range c.k {
		out = append(out, k)
	}
	return out, nil
}

func (c *c37Cache) Values(ctx context.Context) ([]interface{}, error) {
	c.mu.Lock()
	defer c.mu.Unlock()
	var out []interface{}
	for _, it := range c.m {
		out = append(out, it.v)
	}
	return out, nil
}

func (c *c37Cache) Update(ctx context.Context, key interface{}, value interface{}) (*gvar.Var, bool, error) {
	c.mu.Lock()
	defer c.mu.Unlock()
	it, ok := c.get(key)
	if !ok {
		return nil, false, nil
	}
	old := it.v
	it.v = value
	c.m[c37Key(key)] = it
	return gvar.New(old), true, nil
}

func (c *c37Cache) UpdateExpire(ctx context.Context, key interface{}, duration time.Duration) (time.Duration, error) {
	c.mu.Lock()
	defer c.mu.Unlock()
	it, ok := c.get(key)
	if !ok {
		return -1, nil
	}
	old := time.Duration(0)
	if !it.exp.IsZero() {
		old = time.Until(it.exp)
	}
	c.put(key, it.v, duration)
	return old, nil
}

func (c *c37Cache) GetExpire(ctx context.Context, key interface{}) (time.Duration, error) {
	c.mu.Lock()
	defer c.mu.Unlock()
	it, ok := c.get(key)
	if !ok {
		return -1, nil
	}
	if it.exp.IsZero() {
		return 0, nil
	}
	return time.Until(it.exp), nil
}

func (c *c37Cache) Remove(ctx context.Context, keys ...interface{}) (*gvar.Var, error) {
	c.mu.Lock()
	defer c.mu.Unlock()
	var last *gvar.Var
	for _, k := range keys {
		if it, ok := c.get(k); ok {
			last = gvar.New(it.v)
		}
		delete(c.m, c37Key(k))
		delete(c.k, c37Key(k))
	}
	return last, nil
}

func (c *c37Cache) Clear(ctx context.Context) error {
	c.mu.Lock()
	defer c.mu.Unlock()
	c.m, c.k = map[string]c37CacheItem{}, map[string]interface{}{}
	return nil
}

func (c *c37Cache) Close(ctx context.Context) error { return nil }
