//go:build g_heavy

package worlds

// C37 helpers: schema-free protobuf wire parsing / mutation, frame encodings,
// panic-site extraction.

import (
	"bytes"
	"encoding/binary"
	"math/rand"
	"regexp"
	"runtime"
	"strings"
	"sync/atomic"
	"time"

	"verifharness/gosim"
)

type c37Field struct {
	num    uint64
	wt     uint64 // 0 varint, 1 fixed64, 2 bytes, 5 fixed32
	v      uint64
	b      []byte
	broken []byte // raw replacement (structure-breaking mutation)
}

// c37ParseWire decodes a protobuf message without schema; ok=false if b is not
// a well-formed sequence of fields.
func c37ParseWire(b []byte) (fs []c37Field, ok bool) {
	for len(b) > 0 {
		tag, n := binary.Uvarint(b)
		if n <= 0 {
			return nil, false
		}
		b = b[n:]
		f := c37Field{num: tag >> 3, wt: tag & 7}
		if f.num == 0 {
			return nil, false
		}
		switch f.wt {
		case 0:
			v, n := binary.Uvarint(b)
			if n <= 0 {
				return nil, false
			}
			f.v = v
			b = b[n:]
		case 1:
			if len(b) < 8 {
				return nil, false
			}
			f.v = binary.LittleEndian.Uint64(b)
			b = b[8:]
		case 5:
			if len(b) < 4 {
				return nil, false
			}
			f.v = uint64(binary.LittleEndian.Uint32(b))
			b = b[4:]
		case 2:
			l, n := binary.Uvarint(b)
			if n <= 0 || uint64(len(b)-n) < l {
				return nil, false
			}
			f.b = append([]byte(nil), b[n:n+int(l)]...)
			b = b[n+int(l):]
		default:
			return nil, false
		}
		fs = append(fs, f)
	}
	return fs, true
}

func c37PutUvarint(out []byte, v uint64) []byte {
	var t [binary.MaxVarintLen64]byte
	n := binary.PutUvarint(t[:], v)
	return append(out, t[:n]...)
}

func c37EncodeWire(fs []c37Field) []byte {
	var out []byte
	for _, f := range fs {
		if f.broken != nil {
			out = append(out, f.broken...)
			continue
		}
		out = c37PutUvarint(out, f.num<<3|f.wt)
		switch f.wt {
		case 0:
			out = c37PutUvarint(out, f.v)
		case 1:
			var t [8]byte
			binary.LittleEndian.PutUint64(t[:], f.v)
			out = append(out, t[:]...)
		case 5:
			var t [4]byte
			binary.LittleEndian.PutUint32(t[:], uint32(f.v))
			out = append(out, t[:]...)
		case 2:
			out = c37PutUvarint(out, uint64(len(f.b)))
			out = append(out, f.b...)
		}
	}
	return out
}

var c37JSONish = []string{"null", "{}", "[]", "\"\"", "0", "true", "[null]", "{\"a\":null}", "{\"Recipient\":null,\"Beneficiary\":null,\"CumulativePayout\":null,\"Signature\":null}", "{\"CumulativePayout\":null}", "nul", "{", "\"\\u00", "1e999999"}

var c37Lens = []int{0, 1, 2, 3, 4, 7, 8, 9, 20, 31, 32, 33, 64, 65, 300, 4096, 70000}

func c37Rand(rng *rand.Rand, n int) []byte {
	b := make([]byte, n)
	rng.Read(b)
	return b
}

// c37MutateBytes alters one bytes value.
func c37MutateBytes(rng *rand.Rand, b []byte, all []c37Field, depth int) []byte {
	// sniff what the bytes hold and, mostly, stay inside that format
	if len(b) > 0 && (b[0] == '{' || b[0] == '[' || b[0] == '"') && rng.Intn(10) < 7 {
		return c37MutateJSON(rng, b)
	}
	if depth < 3 && len(b) > 2 && rng.Intn(10) < 6 {
		if sub, ok := c37ParseWire(b); ok && len(sub) > 0 && len(sub) < 50 {
			return c37EncodeWire(c37MutateFields(rng, sub, depth+1))
		}
	}
	if c37IsText(b) && rng.Intn(10) < 6 {
		return c37MutateText(rng, b)
	}
	switch rng.Intn(14) {
	case 0:
		return []byte{}
	case 1:
		if len(b) > 0 {
			return b[:rng.Intn(len(b))]
		}
		return []byte{0}
	case 2:
		return append(append([]byte(nil), b...), c37Rand(rng, 1+rng.Intn(40))...)
	case 3:
		return c37Rand(rng, c37Lens[rng.Intn(len(c37Lens))])
	case 4:
		return make([]byte, c37Lens[rng.Intn(len(c37Lens))])
	case 5:
		var cands [][]byte
		for _, f := range all {
			if f.wt == 2 {
				cands = append(cands, f.b)
			}
		}
		if len(cands) > 0 {
			return append([]byte(nil), cands[rng.Intn(len(cands))]...)
		}
		return []byte{}
	case 6:
		if len(b) > 0 {
			c := append([]byte(nil), b...)
			i := rng.Intn(len(c) * 8)
			c[i/8] ^= 1 << uint(i%8)
			return c
		}
		return []byte{0xff}
	case 7:
		return []byte(c37JSONish[rng.Intn(len(c37JSONish))])
	case 8:
		c := make([]byte, len(b))
		for i := range c {
			c[i] = 0xff
		}
		return c
	case 9:
		// same length, random content
		return c37Rand(rng, len(b))
	case 10:
		if len(b) > 1 {
			return b[1:]
		}
		return []byte{}
	default:
		if depth < 3 {
			if sub, ok := c37ParseWire(b); ok && len(sub) > 0 {
				return c37EncodeWire(c37MutateFields(rng, sub, depth+1))
			}
		}
		return c37Rand(rng, len(b)/2)
	}
}

var c37Varints = []uint64{0, 1, 2, 3, 127, 128, 255, 1 << 16, 1<<31 - 1, 1 << 31, 1<<32 - 1, 1 << 32, 1<<63 - 1, 1 << 63, ^uint64(0), ^uint64(0) - 1, uint64(0xffffffff80000000)}

// c37MutateFields applies 1-3 structure-aware alterations.
func c37MutateFields(rng *rand.Rand, fs []c37Field, depth int) []c37Field {
	fs = append([]c37Field(nil), fs...)
	n := 1
	if rng.Intn(3) == 0 {
		n = 2 + rng.Intn(2)
	}
	for k := 0; k < n; k++ {
		if len(fs) == 0 {
			fs = append(fs, c37Field{num: uint64(1 + rng.Intn(6)), wt: 2, b: c37Rand(rng, rng.Intn(40))})
			continue
		}
		i := rng.Intn(len(fs))
		switch x := rng.Intn(40); {
		case x < 8: // field missing
			fs = append(fs[:i:i], fs[i+1:]...)
		case x < 11: // duplicated (repeated / last-wins)
			fs = append(fs, fs[i])
		case x < 31: // value altered
			switch fs[i].wt {
			case 2:
				fs[i].b = c37MutateBytes(rng, fs[i].b, fs, depth)
			default:
				if rng.Intn(3) == 0 {
					fs[i].v = rng.Uint64()
				} else {
					fs[i].v = c37Varints[rng.Intn(len(c37Varints))]
				}
			}
		case x < 32: // unknown field number
			fs[i].num = uint64(7 + rng.Intn(3000))
		case x < 33: // field number of another field (type confusion)
			fs[i].num = uint64(1 + rng.Intn(6))
		case x < 34: // wire type changed
			fs[i].wt = []uint64{0, 1, 2, 5}[rng.Intn(4)]
		case x < 36: // new field
			nf := c37Field{num: uint64(1 + rng.Intn(8)), wt: 2, b: c37Rand(rng, c37Lens[rng.Intn(len(c37Lens))])}
			if rng.Intn(2) == 0 {
				nf = c37Field{num: uint64(1 + rng.Intn(8)), wt: 0, v: c37Varints[rng.Intn(len(c37Varints))]}
			}
			fs = append(fs, nf)
		case x < 38: // many copies
			cnt := 2 + rng.Intn(200)
			for j := 0; j < cnt; j++ {
				fs = append(fs, fs[i])
			}
		case x < 39: // raw garbage in place of the field
			fs[i].broken = c37Rand(rng, 1+rng.Intn(12))
		default: // order
			j := rng.Intn(len(fs))
			fs[i], fs[j] = fs[j], fs[i]
		}
	}
	return fs
}

// c37Encode turns one message body into the bytes written on the stream.
//   mode 0 valid frame; 1 structure-aware mutation; 2 raw random bytes;
//   3 truncated frame; 4 frame announcing > 1 MiB; 5 well-framed random body;
//   6 empty body; 7 embedded-JSON alterations (bytes fields that hold JSON);
//   8 valid frame followed by garbage; 9 huge well-framed body (just under / over 1 MiB)
func c37Encode(mode int64, seed int64, body []byte) (out []byte, what string) {
	rng := rand.New(rand.NewSource(seed))
	switch mode {
	case 0:
		return c06Frame(body), "valid"
	case 1:
		if fs, ok := c37ParseWire(body); ok {
			return c06Frame(c37EncodeWire(c37MutateFields(rng, fs, 0))), "mutated"
		}
		return c06Frame(c37Rand(rng, len(body))), "mutated-raw"
	case 2:
		return c37Rand(rng, 1+rng.Intn(300)), "random-bytes"
	case 3:
		f := c06Frame(body)
		if len(f) > 1 {
			f = f[:1+rng.Intn(len(f)-1)]
		}
		return f, "truncated-frame"
	case 4:
		var out []byte
		out = c37PutUvarint(out, uint64(1<<20+1+rng.Intn(1<<24)))
		if rng.Intn(3) == 0 {
			out = c37PutUvarint(nil, []uint64{1 << 31, 1<<32 - 1, 1 << 32, 1<<63 - 1, ^uint64(0)}[rng.Intn(5)])
		}
		return append(out, c37Rand(rng, rng.Intn(64))...), "announce-over-1MiB"
	case 5:
		return c06Frame(c37Rand(rng, rng.Intn(200))), "framed-random"
	case 6:
		return c06Frame(nil), "empty-body"
	case 7:
		if fs, ok := c37ParseWire(body); ok {
			hit := false
			for i := range fs {
				if fs[i].wt == 2 && len(fs[i].b) > 0 && (fs[i].b[0] == '{' || fs[i].b[0] == '[' || fs[i].b[0] == '"') {
					fs[i].b = c37MutateJSON(rng, fs[i].b)
					hit = true
				}
			}
			if hit {
				return c06Frame(c37EncodeWire(fs)), "json-altered"
			}
			// no JSON inside: put JSON-ish text into a bytes field
			for i := range fs {
				if fs[i].wt == 2 {
					fs[i].b = []byte(c37JSONish[rng.Intn(len(c37JSONish))])
					break
				}
			}
			return c06Frame(c37EncodeWire(fs)), "json-in-bytes"
		}
		return c06Frame(body), "valid"
	case 8:
		return append(c06Frame(body), c37Rand(rng, 1+rng.Intn(50))...), "valid+garbage"
	case 9:
		n := 1<<20 - 64 + rng.Intn(128)
		return c06Frame(c37Rand(rng, n)), "huge-body"
	}
	return c06Frame(body), "valid"
}

func c37IsText(b []byte) bool {
	if len(b) == 0 {
		return false
	}
	for _, c := range b {
		if c < 0x20 || c > 0x7e {
			return false
		}
	}
	return true
}

// c37MutateText alters a printable string (hex addresses, names, numbers).
func c37MutateText(rng *rand.Rand, b []byte) []byte {
	c := append([]byte(nil), b...)
	switch rng.Intn(8) {
	case 0:
		c[rng.Intn(len(c))] = "zZ-_ /\\%\t\x00\xff"[rng.Intn(10)]
		return c
	case 1:
		return c[:len(c)-1] // odd length for hex
	case 2:
		return append(c, 'g')
	case 3:
		return []byte{}
	case 4:
		return bytes.ToUpper(c)
	case 5:
		return append([]byte("0x"), c...)
	case 6:
		return c[:rng.Intn(len(c))]
	default:
		return bytes.Repeat(c, 1+rng.Intn(40))
	}
}

var c37JSONField = regexp.MustCompile(`"([A-Za-z]+)":("[^"]*"|[0-9]+|\[[^\]]*\]|null)`)

// c37MutateJSON alters a JSON document textually: whole-document replacements
// (null ...) or one member set to null / wrong type / removed.
func c37MutateJSON(rng *rand.Rand, doc []byte) []byte {
	switch x := rng.Intn(10); {
	case x < 2:
		return []byte("null")
	case x < 4:
		return []byte(c37JSONish[rng.Intn(len(c37JSONish))])
	}
	locs := c37JSONField.FindAllSubmatchIndex(doc, -1)
	if len(locs) == 0 {
		return []byte("null")
	}
	l := locs[rng.Intn(len(locs))]
	repl := []string{"null", "\"\"", "0", "[]", "{}", "\"zz\"", "-1", "1e400", "\"0x\"", "123456789012345678901234567890123456789012345678901234567890123456789012345678901234567890"}[rng.Intn(10)]
	out := append([]byte(nil), doc[:l[4]]...)
	out = append(out, repl...)
	out = append(out, doc[l[5]:]...)
	return out
}

// c37Site extracts the panic site from a stack dump: the first frame of the
// program under test below the runtime's panic frames.
func c37Site(stack string) string {
	lines := strings.Split(stack, "\n")
	seenPanic := false
	for _, l := range lines {
		l = strings.TrimSpace(l)
		if strings.HasPrefix(l, "panic(") || strings.HasPrefix(l, "runtime.panic") || strings.HasPrefix(l, "runtime.goPanic") || strings.HasPrefix(l, "runtime.sigpanic") {
			seenPanic = true
			continue
		}
		if !seenPanic {
			continue
		}
		if strings.HasPrefix(l, "github.com/gauss-project/") {
			f := l
			if i := strings.LastIndex(f, "("); i > 0 {
				f = f[:i]
			}
			f = strings.TrimPrefix(f, "github.com/gauss-project/aurorafs/pkg/")
			f = strings.TrimPrefix(f, "github.com/gauss-project/")
			// closures: keep the enclosing function
			if i := strings.Index(f, ".func"); i > 0 {
				f = f[:i]
			}
			// Must* helpers panic by contract: the defect is in their caller
			if i := strings.LastIndex(f, "."); i >= 0 && strings.HasPrefix(f[i+1:], "Must") {
				continue
			}
			return f
		}
	}
	return "unknown"
}

// c37Frames2 lists the program frames of a stack (innermost first, at most n).
func c37Frames2(stack string, n int) string {
	var out []string
	for _, l := range strings.Split(stack, "\n") {
		l = strings.TrimSpace(l)
		if strings.HasPrefix(l, "github.com/gauss-project/") {
			if i := strings.LastIndex(l, "("); i > 0 {
				l = l[:i]
			}
			l = strings.TrimPrefix(l, "github.com/gauss-project/aurorafs/pkg/")
			out = append(out, l)
			if len(out) >= n {
				break
			}
		}
	}
	return strings.Join(out, " < ")
}

// ---- spin watcher -----------------------------------------------------------
//
// A malformed message may also make the node loop forever on the CPU. Inside the
// simulation such a goroutine never yields, simulated time stops and no
// simulated watchdog can fire. The watcher therefore lives OUTSIDE the bubble
// (started at package init, real clock - the one deliberate exception to "no
// real time" in this world): it samples the goroutine dump and reports a
// simulated goroutine that is found running in the same program function in
// c37SpinSamples consecutive samples.

var c37WatchRun atomic.Pointer[gosim.Run]

const (
	c37SpinEvery   = 4 * time.Second
	c37SpinSamples = 5
)

var c37GoroutineHdr = regexp.MustCompile(`^goroutine (\d+) .*\[(running|runnable)[^\]]*synctest bubble`)

func c37SpinWatcher() {
	buf := make([]byte, 8<<20)
	streak := map[string]int{}
	for {
		time.Sleep(c37SpinEvery)
		r := c37WatchRun.Load()
		if r == nil {
			continue
		}
		n := runtime.Stack(buf, true)
		cur := map[string]string{}
		for _, blk := range strings.Split(string(buf[:n]), "\n\n") {
			lines := strings.Split(blk, "\n")
			m := c37GoroutineHdr.FindStringSubmatch(lines[0])
			if m == nil {
				continue
			}
			// only a goroutine whose innermost frame (below the runtime's own) is in the
			// program under test: looping in its code, not waiting in a dependency
			for _, l := range lines[1:] {
				if strings.HasPrefix(l, "\t") || strings.HasPrefix(l, "runtime.") {
					continue
				}
				if strings.HasPrefix(l, "github.com/gauss-project/") {
					f := l
					if i := strings.LastIndex(f, "("); i > 0 {
						f = f[:i]
					}
					f = strings.TrimPrefix(f, "github.com/gauss-project/aurorafs/pkg/")
					f = strings.TrimPrefix(f, "github.com/gauss-project/")
					cur[m[1]+" "+f] = blk
				}
				break
			}
		}
		for k := range streak {
			if _, ok := cur[k]; !ok {
				delete(streak, k)
			}
		}
		for k, blk := range cur {
			streak[k]++
			if streak[k] >= c37SpinSamples {
				site := k[strings.Index(k, " ")+1:]
				// class = package only: which of the (partly inlined) functions of the loop is on
				// top of the stack varies from sample to sample
				pkg := site
				if i := strings.LastIndex(pkg, "/"); i >= 0 {
					if j := strings.Index(pkg[i:], "."); j >= 0 {
						pkg = pkg[:i+j]
					}
				} else if j := strings.Index(pkg, "."); j >= 0 {
					pkg = pkg[:j]
				}
				r.Violate("spin@"+pkg, "a simulated goroutine has been running in %s for %d consecutive samples (%v real time apart): the node loops forever; stack: %s",
					site, c37SpinSamples, c37SpinEvery, c37Frames2(blk, 8))
			}
		}
	}
}

func init() { go c37SpinWatcher() }
