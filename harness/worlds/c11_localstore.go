//go:build g_heavy

package worlds

import (
	"bytes"
	"context"
	"crypto/sha256"
	"errors"
	"fmt"
	"io"
	"math/rand"
	"sort"
	"strings"
	"time"

	"github.com/gauss-project/aurorafs/pkg/boson"
	"github.com/gauss-project/aurorafs/pkg/cac"
	"github.com/gauss-project/aurorafs/pkg/localstore"
	"github.com/gauss-project/aurorafs/pkg/logging"
	"github.com/gauss-project/aurorafs/pkg/sctx"
	"github.com/gauss-project/aurorafs/pkg/storage"

	"verifharness/gosim"
)

// C11 — Local store returns exactly what was stored.
//
// Only pkg/localstore (on the real leveldb shed driver), no network. A history
// over <= 12 content-addressed chunks is executed by one client; ModeGetRequest
// reads leave background updateGC goroutines behind which the seeded scheduler
// interleaves with the following operations. Capacity is far out of reach, no
// collection ever runs (db.discover stays nil: only collectGarbage uses it).
//
// Oracle: a map model (present?, pin count) per address.
//   - after every operation the complete state (index dump + Has/HasMulti/Get on
//     every address) must agree with the model: present with the exact bytes <=>
//     put and not removed since;
//   - exist[i] of a put <=> the chunk was present before or occurs earlier in the
//     same call;
//   - cfg 0 (no faults): a twin store B receives the same history with every
//     multi-chunk put replaced by single-chunk puts in the same order; after every
//     operation the two index dumps must be equal modulo timestamps and bin ids.
//   - cfg 1 (simdisk, k-th driver write fails): an operation that returned an
//     error may have had no effect; an operation that returned nil must have had
//     its full effect. Nothing else is relaxed.
//
// Ops (c = chunk index, root = chunk index used as file root hash or -1)
//   put      [mode, root, c1, c2, ...]   mode 0 Request 1 RequestPin 2 Upload 3 UploadPin
//   get      [mode, c, root]             mode 0 Request 1 Sync 2 Lookup 3 Pin
//   getmulti [mode, c1, ...]
//   has      [mode, c]                   mode 0 HasChunk 1 HasPin
//   hasmulti [mode, c1, ...]
//   set      [mode, root, c1, ...]       mode 0 Sync 1 Remove 2 Pin 3 Unpin
//   idle                                 wait until the background goroutines are done
// Faults (cfg 1): fail[k]  the k-th driver write after the open fails.

var c11PayloadSizes = []int{1, 7, 32, 64, 100, 333, 1024, 4095, 4096, 2, 500, 2048}

type c11Uni struct {
	chunks []boson.Chunk
	name   map[string]string // raw address -> "c3"
	index  map[string]int
}

func c11Universe(n int) *c11Uni {
	if n < 1 {
		n = 1
	}
	if n > len(c11PayloadSizes) {
		n = len(c11PayloadSizes)
	}
	u := &c11Uni{name: map[string]string{}, index: map[string]int{}}
	for i := 0; i < n; i++ {
		b := make([]byte, c11PayloadSizes[i])
		for j := range b {
			b[j] = byte(i*31 + j*7 + 1)
		}
		ch, err := cac.New(b)
		if err != nil {
			panic(err)
		}
		u.chunks = append(u.chunks, ch)
		u.name[string(ch.Address().Bytes())] = fmt.Sprintf("c%d", i)
		u.index[string(ch.Address().Bytes())] = i
	}
	return u
}

func (u *c11Uni) n() int { return len(u.chunks) }

func (u *c11Uni) nameOf(addr []byte) string {
	if s, ok := u.name[string(addr)]; ok {
		return s
	}
	return fmt.Sprintf("?%x", addr)
}

func (u *c11Uni) pos(x int64) int {
	i := int(x % int64(len(u.chunks)))
	if i < 0 {
		i += len(u.chunks)
	}
	return i
}

func (u *c11Uni) names(idx []int) string {
	var sb strings.Builder
	sb.WriteByte('[')
	for i, x := range idx {
		if i > 0 {
			sb.WriteByte(' ')
		}
		fmt.Fprintf(&sb, "c%d", x)
	}
	sb.WriteByte(']')
	return sb.String()
}

// ctx returns the context carrying the file root hash (root < 0: none).
func (u *c11Uni) ctx(root int) context.Context {
	if root < 0 {
		return context.Background()
	}
	return sctx.SetRootHash(context.Background(), u.chunks[root].Address())
}

func c11Digest(b []byte) string {
	h := sha256.Sum256(b)
	return fmt.Sprintf("%d/%x", len(b), h[:4])
}

// c11Norm is an index dump modulo timestamps and bin ids, rendered per section.
type c11Norm struct {
	Data, Pin, Access, GC string
	GCSize                uint64
	GCSum                 uint64
}

func (u *c11Uni) norm(d localstore.VerifDump) c11Norm {
	var n c11Norm
	var rows []string
	for _, e := range d.Data {
		rows = append(rows, u.nameOf(e.Address)+"="+c11Digest(e.Data))
	}
	sort.Strings(rows)
	n.Data = strings.Join(rows, " ")
	rows = rows[:0]
	for _, e := range d.Pin {
		rows = append(rows, fmt.Sprintf("%s=%d", u.nameOf(e.Address), e.PinCounter))
	}
	sort.Strings(rows)
	n.Pin = strings.Join(rows, " ")
	rows = rows[:0]
	for _, e := range d.Access {
		rows = append(rows, u.nameOf(e.Address))
	}
	sort.Strings(rows)
	n.Access = strings.Join(rows, " ")
	rows = rows[:0]
	for _, e := range d.GC {
		rows = append(rows, fmt.Sprintf("%s=%d", u.nameOf(e.Address), e.GCounter))
		n.GCSum += e.GCounter
	}
	sort.Strings(rows)
	n.GC = strings.Join(rows, " ")
	n.GCSize = d.GCSize
	return n
}

func (n c11Norm) String() string {
	return fmt.Sprintf("data{%s} pin{%s} access{%s} gc{%s} gcSize=%d", n.Data, n.Pin, n.Access, n.GC, n.GCSize)
}

// diff names the first section in which two dumps differ ("" if none).
func (n c11Norm) diff(o c11Norm) string {
	switch {
	case n.Data != o.Data:
		return "data"
	case n.Pin != o.Pin:
		return "pins"
	case n.GC != o.GC:
		return "gc-count"
	case n.Access != o.Access:
		return "access"
	case n.GCSize != o.GCSize:
		return "gcsize"
	}
	return ""
}

// ---------------------------------------------------------------- model

type c11St struct {
	present bool
	pins    uint64
}

// c11Alt is one allowed outcome for an address: presence and a pin-count range.
type c11Alt struct {
	present bool
	lo, hi  uint64
}

func (a c11Alt) ok(s c11St) bool { return a.present == s.present && s.pins >= a.lo && s.pins <= a.hi }

func c11Exactly(s c11St) []c11Alt { return []c11Alt{{s.present, s.pins, s.pins}} }

type c11World struct {
	r      *gosim.Run
	u      *c11Uni
	a, b   *localstore.DB
	disk   string // simdisk id (cfg 1)
	faulty bool
	model  []c11St

	cmpStopped  bool
	gcDiverged  bool             // the twins' per-root cached counts differ (reported at the end)
	deferred    *gosim.Violation // first deferred twin mismatch
	faultsFired int64 // injected write failures so far
	faultsUsed  int64 // ... that already explained a failed operation
	lastA       c11Norm
}

func (w *c11World) guard(what string, f func()) {
	done := make(chan struct{})
	go func() { f(); close(done) }()
	select {
	case <-done:
	case <-time.After(time.Hour):
		w.r.Violate("hang", "%s did not return within one simulated hour", what)
	}
}

// observe reads the index dump and derives (present, pins) per address; stored
// bytes must be the chunk's bytes.
func (w *c11World) observe(db *localstore.DB, who string) ([]c11St, c11Norm) {
	var d localstore.VerifDump
	var err error
	w.guard("VerifDump", func() { d, err = db.VerifDump() })
	if err != nil {
		w.r.Violate("dump-failed", "%s: VerifDump: %v", who, err)
	}
	st := make([]c11St, w.u.n())
	for _, e := range d.Data {
		i, ok := w.u.index[string(e.Address)]
		if !ok {
			w.r.Violate("ghost-chunk", "%s: the data index holds address %x which was never put", who, e.Address)
		}
		if st[i].present {
			w.r.Violate("duplicate-row", "%s: two data rows for c%d", who, i)
		}
		st[i].present = true
		if !bytes.Equal(e.Data, w.u.chunks[i].Data()) {
			w.r.Violate("wrong-bytes", "%s: data index row of c%d holds %s, the chunk was put with %s", who, i, c11Digest(e.Data), c11Digest(w.u.chunks[i].Data()))
		}
	}
	for _, e := range d.Pin {
		i, ok := w.u.index[string(e.Address)]
		if !ok {
			w.r.Violate("ghost-chunk", "%s: the pin index holds address %x which was never used", who, e.Address)
		}
		st[i].pins = e.PinCounter
	}
	return st, w.u.norm(d)
}

// settle checks the observed state of store A against the allowed outcomes and
// adopts it as the new model state. alts[i] == nil: address i must be unchanged.
// failed: the operation returned an error; then "no effect at all" is accepted too.
func (w *c11World) settle(what string, alts [][]c11Alt, failed bool) {
	obs, norm := w.observe(w.a, "store")
	w.lastA = norm
	match := func(useAlts bool) (bad int, ok bool) {
		for i := range obs {
			var al []c11Alt
			if useAlts && alts != nil && alts[i] != nil {
				al = alts[i]
			} else {
				al = c11Exactly(w.model[i])
			}
			hit := false
			for _, a := range al {
				if a.ok(obs[i]) {
					hit = true
				}
			}
			if !hit {
				return i, false
			}
		}
		return -1, true
	}
	bad, ok := match(true)
	if !ok && failed {
		if _, ok2 := match(false); ok2 {
			w.r.Count("probe_failed_op_no_effect")
			ok = true
		}
	}
	if !ok {
		i := bad
		was, is := w.model[i], obs[i]
		presenceOK := false
		if alts != nil && alts[i] != nil {
			for _, a := range alts[i] {
				if a.present == is.present {
					presenceOK = true
				}
			}
		} else {
			presenceOK = was.present == is.present
		}
		class := "pin-count"
		switch {
		case presenceOK:
		case is.present && was.present:
			class = "still-present"
		case is.present:
			class = "ghost-present"
		case was.present:
			class = "lost-chunk"
		default:
			class = "not-present"
		}
		if failed {
			class += "@failed-op"
		}
		w.r.Violate(class, "after %s: c%d is present=%v pins=%d; before: present=%v pins=%d; allowed: %s", what, i, is.present, is.pins, was.present, was.pins, c11Alts(alts, i, w.model[i]))
	}
	for i := range obs {
		if !obs[i].present && obs[i].pins > 0 {
			w.r.Violate("pin-on-absent", "after %s: c%d is absent but has pin count %d", what, i, obs[i].pins)
		}
	}
	w.model = obs
	w.api(what)
}

func c11Alts(alts [][]c11Alt, i int, m c11St) string {
	if alts == nil || alts[i] == nil {
		return fmt.Sprintf("unchanged (present=%v pins=%d)", m.present, m.pins)
	}
	var s []string
	for _, a := range alts[i] {
		s = append(s, fmt.Sprintf("present=%v pins=%d..%d", a.present, a.lo, a.hi))
	}
	return strings.Join(s, " | ")
}

// api: what the read API reports for every address equals the model.
func (w *c11World) api(what string) {
	u := w.u
	addrs := make([]boson.Address, u.n())
	for i := range addrs {
		addrs[i] = u.chunks[i].Address()
	}
	ctx := context.Background()
	var have, pinned []bool
	var err1, err2 error
	w.guard("HasMulti", func() {
		have, err1 = w.a.HasMulti(ctx, storage.ModeHasChunk, addrs...)
		pinned, err2 = w.a.HasMulti(ctx, storage.ModeHasPin, addrs...)
	})
	if err1 != nil || err2 != nil || len(have) != len(addrs) || len(pinned) != len(addrs) {
		w.r.Violate("has-error", "after %s: HasMulti = %v,%v / %v,%v", what, have, err1, pinned, err2)
	}
	for i := range addrs {
		m := w.model[i]
		if have[i] != m.present {
			w.r.Violate("has-mismatch", "after %s: HasMulti(chunk) reports c%d present=%v, the store holds present=%v", what, i, have[i], m.present)
		}
		if pinned[i] != (m.pins > 0) {
			w.r.Violate("haspin-mismatch", "after %s: HasMulti(pin) reports c%d pinned=%v, pin count is %d", what, i, pinned[i], m.pins)
		}
		var ch boson.Chunk
		var err error
		w.guard("Get", func() { ch, err = w.a.Get(ctx, storage.ModeGetLookup, addrs[i]) })
		w.checkGet(fmt.Sprintf("after %s: Get(Lookup, c%d)", what, i), i, ch, err, false)
	}
}

func (w *c11World) checkGet(what string, i int, ch boson.Chunk, err error, pinMode bool) {
	m := w.model[i]
	want := m.present
	if pinMode {
		want = m.present && m.pins > 0
	}
	if !want {
		if err == nil {
			w.r.Violate("get-ghost", "%s returned a chunk; the model says present=%v pins=%d", what, m.present, m.pins)
		}
		if !errors.Is(err, storage.ErrNotFound) {
			w.r.Violate("get-error", "%s = %v, want storage.ErrNotFound", what, err)
		}
		return
	}
	if err != nil {
		w.r.Violate("get-failed", "%s = %v; the chunk is stored (pins=%d)", what, err, m.pins)
	}
	if ch == nil || !ch.Address().Equal(w.u.chunks[i].Address()) {
		w.r.Violate("get-wrong-address", "%s returned a chunk with another address", what)
	}
	if pinMode && len(ch.Data()) == 0 {
		// the pin mode is a pin lookup; an empty payload is accepted, wrong bytes are not
		return
	}
	if !bytes.Equal(ch.Data(), w.u.chunks[i].Data()) {
		w.r.Violate("get-wrong-bytes", "%s returned %s, stored %s", what, c11Digest(ch.Data()), c11Digest(w.u.chunks[i].Data()))
	}
}

// errExplained decides whether an error of a mutation is acceptable.
func (w *c11World) errExplained(allowed bool) bool {
	if allowed {
		return true
	}
	if w.faulty && w.faultsFired > w.faultsUsed {
		w.faultsUsed++
		w.r.Count("probe_write_failed_by_fault")
		return true
	}
	return false
}

func c11Distinct(idx []int) []int {
	var out []int
	seen := map[int]bool{}
	for _, x := range idx {
		if !seen[x] {
			seen[x] = true
			out = append(out, x)
		}
	}
	return out
}

var c11PutModes = []storage.ModePut{storage.ModePutRequest, storage.ModePutRequestPin, storage.ModePutUpload, storage.ModePutUploadPin}
var c11GetModes = []storage.ModeGet{storage.ModeGetRequest, storage.ModeGetSync, storage.ModeGetLookup, storage.ModeGetPin}
var c11SetModes = []storage.ModeSet{storage.ModeSetSync, storage.ModeSetRemove, storage.ModeSetPin, storage.ModeSetUnpin}
var c11HasModes = []storage.ModeHas{storage.ModeHasChunk, storage.ModeHasPin}

func c11Mode(x int64, n int) int {
	i := int(x % int64(n))
	if i < 0 {
		i += n
	}
	return i
}

func (w *c11World) idxs(o gosim.Op, from int) []int {
	var out []int
	for j := from; j < len(o.A); j++ {
		out = append(out, w.u.pos(o.A[j]))
	}
	return out
}

func (w *c11World) root(x int64) int {
	if x < 0 {
		return -1
	}
	return w.u.pos(x)
}

func (w *c11World) chunksOf(idx []int) []boson.Chunk {
	out := make([]boson.Chunk, len(idx))
	for i, x := range idx {
		out[i] = w.u.chunks[x]
	}
	return out
}

func (w *c11World) addrsOf(idx []int) []boson.Address {
	out := make([]boson.Address, len(idx))
	for i, x := range idx {
		out[i] = w.u.chunks[x].Address()
	}
	return out
}

// deferViolation records a twin mismatch that is reported when the run ends, so
// that the rest of the history is still checked against the model.
func (w *c11World) deferViolation(class, format string, a ...interface{}) {
	msg := fmt.Sprintf(format, a...)
	w.r.Logf("DEFERRED %s: %s", class, msg)
	if w.deferred == nil {
		w.deferred = &gosim.Violation{Class: class, Msg: msg}
	}
}

// compareTwin: store A and the one-at-a-time twin B hold the same dump. A
// difference in the per-root cached counts is deferred; afterwards only the
// other sections are compared.
func (w *c11World) compareTwin(what string, class string) {
	if w.b == nil || w.cmpStopped {
		return
	}
	_, nb := w.observe(w.b, "twin store")
	w.r.Count("probe_seq_compared")
	na := w.lastA
	if w.gcDiverged {
		na.GC, nb.GC, na.GCSize, nb.GCSize = "", "", 0, 0
	}
	sec := na.diff(nb)
	if sec == "" {
		return
	}
	msg := fmt.Sprintf("after %s the store and its twin (same history, chunks put one at a time) differ in %s:\n store: %s\n twin:  %s", what, sec, w.lastA, nb)
	if sec == "gc-count" || sec == "gcsize" {
		w.gcDiverged = true
		w.deferViolation(class+"-"+sec, "%s", msg)
		w.compareTwin(what, class)
		return
	}
	if sec == "pins" && class == "batch-seq" {
		// pin counts steer later removals: the twins are no longer comparable, the
		// model checks go on
		w.deferViolation(class+"-"+sec, "%s", msg)
		w.cmpStopped = true
		return
	}
	w.r.Violate(class+"-"+sec, "%s", msg)
}

func (w *c11World) doPut(o gosim.Op) {
	r, u := w.r, w.u
	mi := c11Mode(o.Arg(0), 4)
	mode := c11PutModes[mi]
	root := w.root(o.Arg(1))
	idx := w.idxs(o, 2)
	if len(idx) == 0 {
		return
	}
	pinMode := mode == storage.ModePutRequestPin || mode == storage.ModePutUploadPin
	what := fmt.Sprintf("Put(%v, root=%d, %s)", mode, root, u.names(idx))
	// expectations from the model
	wantExist := make([]bool, len(idx))
	alts := make([][]c11Alt, u.n())
	dup := false
	for i, c := range idx {
		earlier := false
		for _, d := range idx[:i] {
			if d == c {
				earlier = true
			}
		}
		if earlier {
			dup = true
		}
		wantExist[i] = w.model[c].present || earlier
		old := w.model[c]
		switch {
		case !pinMode:
			alts[c] = []c11Alt{{true, old.pins, old.pins}}
		case !old.present:
			alts[c] = []c11Alt{{true, old.pins + 1, old.pins + 1}}
		default:
			alts[c] = []c11Alt{{true, old.pins, old.pins + 1}}
		}
	}
	var exist []bool
	var err error
	w.guard(what, func() { exist, err = w.a.Put(u.ctx(root), mode, w.chunksOf(idx)...) })
	r.Logf("%s -> %v, %v", what, exist, err)
	if err != nil {
		if !w.errExplained(root >= 0) {
			r.Violate("put-failed", "%s = %v", what, err)
		}
		if root >= 0 {
			r.Count("info_put_refused_with_root_ctx")
		}
	} else {
		if len(exist) != len(idx) {
			r.Violate("exist-flags", "%s returned %d flags for %d chunks", what, len(exist), len(idx))
		}
		for i := range idx {
			if exist[i] != wantExist[i] {
				r.Violate("exist-flags", "%s returned exist=%v; expected %v (present before: c%d=%v)", what, exist, wantExist, idx[i], w.model[idx[i]].present)
			}
			if wantExist[i] {
				r.Count("probe_put_exist")
			} else {
				r.Count("probe_put_new")
			}
		}
		if dup {
			r.Count("probe_batch_dup")
		}
		if root >= 0 {
			r.Count("probe_put_rootctx_ok")
		}
		if len(idx) > 1 {
			r.Count("probe_put_batch_ok")
		}
	}
	w.settle(what, alts, err != nil)

	if w.b == nil || w.cmpStopped {
		return
	}
	// twin: one chunk at a time, stopping at the first error like a caller would
	var seqErr error
	seqAt := -1
	seqExist := make([]bool, 0, len(idx))
	for i, c := range idx {
		var ex []bool
		var e error
		w.guard(what+" (twin)", func() { ex, e = w.b.Put(u.ctx(root), mode, u.chunks[c]) })
		if e != nil {
			seqErr, seqAt = e, i
			break
		}
		seqExist = append(seqExist, len(ex) == 1 && ex[0])
	}
	switch {
	case err == nil && seqErr == nil:
		for i := range idx {
			if exist[i] != seqExist[i] {
				r.Violate("batch-seq-exist", "%s returned exist=%v; putting the chunks one at a time returns %v", what, exist, seqExist)
			}
		}
		w.compareTwin(what, "batch-seq")
	case err == nil:
		r.Violate("batch-seq-error", "%s succeeded, but putting the same chunks one at a time fails at #%d (c%d): %v", what, seqAt, idx[seqAt], seqErr)
	case seqErr == nil:
		// the twins cannot be compared any further; the model checks go on
		w.deferViolation("batch-seq-error", "%s = %v, but putting the same chunks one at a time succeeds for all of them", what, err)
		w.cmpStopped = true
	default:
		_, nb := w.observe(w.b, "twin store")
		if sec := w.lastA.diff(nb); sec != "" {
			// the call failed as a whole, the sequence failed after a prefix: both are
			// "the same effect"; the twins are no longer comparable
			r.Count("info_seq_compare_stopped")
			r.Logf("twin comparison stopped: both failed, states differ in %s", sec)
			w.cmpStopped = true
		}
	}
}

func (w *c11World) doSet(o gosim.Op) {
	r, u := w.r, w.u
	mi := c11Mode(o.Arg(0), 4)
	mode := c11SetModes[mi]
	root := w.root(o.Arg(1))
	idx := c11Distinct(w.idxs(o, 2))
	if len(idx) == 0 {
		return
	}
	what := fmt.Sprintf("Set(%v, root=%d, %s)", mode, root, u.names(idx))
	alts := make([][]c11Alt, u.n())
	errAllowed := root >= 0
	pre := true // precondition of the mode holds for every address
	for _, c := range idx {
		m := w.model[c]
		switch mode {
		case storage.ModeSetRemove, storage.ModeSetPin:
			if !m.present {
				pre = false
			}
		case storage.ModeSetUnpin:
			if m.pins == 0 {
				pre = false
			}
		}
	}
	if !pre {
		errAllowed = true
	}
	for _, c := range idx {
		m := w.model[c]
		switch mode {
		case storage.ModeSetSync:
			// no change
		case storage.ModeSetPin:
			if pre {
				alts[c] = []c11Alt{{true, m.pins + 1, m.pins + 1}}
			}
		case storage.ModeSetUnpin:
			if pre {
				alts[c] = []c11Alt{{m.present, m.pins - 1, m.pins - 1}}
			}
		case storage.ModeSetRemove:
			if !m.present {
				break
			}
			alts[c] = []c11Alt{{false, 0, 0}}
			if m.pins >= 2 {
				// the statement does not say what "removed" means for a chunk pinned more than once
				alts[c] = append(alts[c], c11Alt{true, m.pins - 1, m.pins - 1})
				r.Count("probe_remove_multipinned")
			}
		}
	}
	var err error
	w.guard(what, func() { err = w.a.Set(u.ctx(root), mode, w.addrsOf(idx)...) })
	r.Logf("%s -> %v", what, err)
	if err != nil {
		if !w.errExplained(errAllowed) {
			r.Violate("set-failed", "%s = %v although every address satisfies the precondition", what, err)
		}
	} else if pre {
		switch mode {
		case storage.ModeSetRemove:
			r.Count("probe_remove_present")
		case storage.ModeSetPin:
			r.Count("probe_pin_ok")
		case storage.ModeSetUnpin:
			r.Count("probe_unpin_ok")
		}
	}
	w.settle(what, alts, err != nil)
	if w.b != nil && !w.cmpStopped {
		var eb error
		w.guard(what+" (twin)", func() { eb = w.b.Set(u.ctx(root), mode, w.addrsOf(idx)...) })
		if (eb == nil) != (err == nil) {
			r.Violate("batch-seq-later-divergence", "%s = %v on the store, %v on its twin", what, err, eb)
		}
		w.compareTwin(what, "batch-seq-later")
	}
}

func (w *c11World) doRead(o gosim.Op) {
	r, u := w.r, w.u
	ctx := context.Background()
	switch o.K {
	case "get":
		mi := c11Mode(o.Arg(0), 4)
		c := u.pos(o.Arg(1))
		root := -1
		if len(o.A) > 2 {
			root = w.root(o.Arg(2))
		}
		var ch boson.Chunk
		var err error
		what := fmt.Sprintf("Get(%v, c%d, root=%d)", c11GetModes[mi], c, root)
		w.guard(what, func() { ch, err = w.a.Get(u.ctx(root), c11GetModes[mi], u.chunks[c].Address()) })
		r.Logf("%s -> err=%v", what, err)
		w.checkGet(what, c, ch, err, mi == 3)
		if w.model[c].present {
			r.Count("probe_get_present")
		} else {
			r.Count("probe_get_absent")
		}
		if w.b != nil {
			w.guard(what+" (twin)", func() { _, _ = w.b.Get(u.ctx(root), c11GetModes[mi], u.chunks[c].Address()) })
		}
	case "getmulti":
		mi := c11Mode(o.Arg(0), 4)
		idx := w.idxs(o, 1)
		if len(idx) == 0 {
			return
		}
		var chs []boson.Chunk
		var err error
		what := fmt.Sprintf("GetMulti(%v, %s)", c11GetModes[mi], u.names(idx))
		w.guard(what, func() { chs, err = w.a.GetMulti(ctx, c11GetModes[mi], w.addrsOf(idx)...) })
		r.Logf("%s -> %d chunks, err=%v", what, len(chs), err)
		all := true
		for _, c := range idx {
			if !w.model[c].present || (mi == 3 && w.model[c].pins == 0) {
				all = false
			}
		}
		if !all {
			if err == nil {
				r.Violate("get-ghost", "%s succeeded although not every chunk is stored%s", what, map[bool]string{true: " and pinned", false: ""}[mi == 3])
			}
			if !errors.Is(err, storage.ErrNotFound) {
				r.Violate("get-error", "%s = %v, want storage.ErrNotFound", what, err)
			}
		} else {
			r.Count("probe_getmulti_all")
			if err != nil || len(chs) != len(idx) {
				r.Violate("get-failed", "%s = %d chunks, %v; all chunks are stored", what, len(chs), err)
			}
			for j, c := range idx {
				w.checkGet(fmt.Sprintf("%s item #%d", what, j), c, chs[j], nil, mi == 3)
			}
		}
		if w.b != nil {
			w.guard(what+" (twin)", func() { _, _ = w.b.GetMulti(ctx, c11GetModes[mi], w.addrsOf(idx)...) })
		}
	case "has":
		mi := c11Mode(o.Arg(0), 2)
		c := u.pos(o.Arg(1))
		var got bool
		var err error
		what := fmt.Sprintf("Has(%d, c%d)", mi, c)
		w.guard(what, func() { got, err = w.a.Has(ctx, c11HasModes[mi], u.chunks[c].Address()) })
		r.Logf("%s -> %v, %v", what, got, err)
		want := w.model[c].present
		if mi == 1 {
			want = w.model[c].pins > 0
		}
		if err != nil || got != want {
			r.Violate("has-mismatch", "%s = %v, %v; model: present=%v pins=%d", what, got, err, w.model[c].present, w.model[c].pins)
		}
	case "hasmulti":
		mi := c11Mode(o.Arg(0), 2)
		idx := w.idxs(o, 1)
		if len(idx) == 0 {
			return
		}
		var got []bool
		var err error
		what := fmt.Sprintf("HasMulti(%d, %s)", mi, u.names(idx))
		w.guard(what, func() { got, err = w.a.HasMulti(ctx, c11HasModes[mi], w.addrsOf(idx)...) })
		r.Logf("%s -> %v, %v", what, got, err)
		if err != nil || len(got) != len(idx) {
			r.Violate("has-mismatch", "%s = %v, %v", what, got, err)
		}
		for j, c := range idx {
			want := w.model[c].present
			if mi == 1 {
				want = w.model[c].pins > 0
			}
			if got[j] != want {
				r.Violate("has-mismatch", "%s = %v; c%d: present=%v pins=%d", what, got, c, w.model[c].present, w.model[c].pins)
			}
		}
	}
}

func c11Logger() logging.Logger { return logging.New(io.Discard, 0) }

const c11Capacity = 1000000

func c11Exec(r *gosim.Run) {
	shedTuneGC()
	if r.Plan.P("cfg", 0) == 2 {
		c11ExecConc(r)
		return
	}
	n := int(r.Plan.P("n", 8))
	w := &c11World{r: r, u: c11Universe(n)}
	w.model = make([]c11St, w.u.n())
	w.faulty = r.Plan.P("cfg", 0) == 1
	localstore.VerifSetHooks(nil, nil, func() { r.Count("probe_updategc") })
	base := make([]byte, 32)
	base[0] = byte(r.Plan.P("base", 0))
	var err error
	if w.faulty {
		w.disk = "c11-a"
		simdiskOnFault(w.disk, func(kind string) {
			r.Count("fault_" + kind)
			if kind == "fail" || kind == "full" {
				w.faultsFired++
			}
		})
		w.a, err = localstore.New(w.disk, base, &localstore.Options{Capacity: c11Capacity, Driver: "sim"}, c11Logger())
	} else {
		w.a, err = localstore.New("", base, &localstore.Options{Capacity: c11Capacity}, c11Logger())
		if err == nil {
			w.b, err = localstore.New("", base, &localstore.Options{Capacity: c11Capacity}, c11Logger())
		}
	}
	if err != nil {
		r.Violate("open-failed", "localstore.New: %v", err)
	}
	if w.faulty {
		f := simdiskNoFaults()
		for _, o := range r.Plan.Faults {
			if o.K == "fail" {
				f.FailAt = append(f.FailAt, int(o.Arg(0)))
			}
		}
		simdiskSetFaults(w.disk, f)
	}
	w.settle("open", nil, false)

	for _, o := range r.Plan.Ops {
		switch o.K {
		case "put":
			w.doPut(o)
		case "set":
			w.doSet(o)
		case "get", "getmulti", "has", "hasmulti":
			w.doRead(o)
		case "idle":
			gosim.Idle()
			r.Logf("idle")
			w.settle("idle", nil, false)
			w.compareTwin("idle", "batch-seq-later")
		}
		r.OpDone()
	}
	gosim.Idle()
	w.settle("the end of the history", nil, false)
	w.compareTwin("the end of the history", "batch-seq-later")
	w.guard("Close", func() { err = w.a.Close() })
	if err != nil {
		r.Violate("close-failed", "Close: %v", err)
	}
	if w.b != nil {
		w.guard("Close", func() { _ = w.b.Close() })
	}
	if w.faulty {
		// what was acknowledged is what a restart finds
		simdiskSetFaults(w.disk, simdiskNoFaults())
		w.a, err = localstore.New(w.disk, base, &localstore.Options{Capacity: c11Capacity, Driver: "sim"}, c11Logger())
		if err != nil {
			r.Violate("open-failed", "localstore.New after Close: %v", err)
		}
		r.Count("probe_reopen")
		w.settle("close and reopen", nil, false)
		w.guard("Close", func() { _ = w.a.Close() })
		simdiskDrop(w.disk)
	}
	if w.deferred != nil {
		r.Violate(w.deferred.Class, "%s", w.deferred.Msg)
	}
}

func c11Gen(rng *rand.Rand, tier string) *gosim.Plan {
	if rng.Intn(10) < 3 {
		return c11GenConc(rng, tier) // cfg 2: concurrent clients, see c11_concurrent.go
	}
	p := &gosim.Plan{Params: map[string]int64{}}
	n := 4 + rng.Intn(9)
	p.Params["n"] = int64(n)
	p.Params["base"] = int64(rng.Intn(256))
	cfg := gosim.Pick(rng, 0, 0, 0, 1, 1)
	p.Params["cfg"] = cfg
	// multi-chunk puts under a file context (1 run in 4)
	rootbatch := gosim.Pick(rng, 0, 0, 0, 1)
	p.Params["rootbatch"] = rootbatch
	// duplicates inside an upload-and-pin call (1 run in 4)
	duppin := gosim.Pick(rng, 0, 0, 0, 1)
	p.Params["duppin"] = duppin
	nops := 25 + rng.Intn(50)
	if tier == "thorough" {
		nops = 25 + rng.Intn(250)
	}
	// a dense working set and a few hot file roots
	hot := 3 + rng.Intn(n-2)
	C := func() int64 {
		if rng.Intn(5) == 0 {
			return int64(rng.Intn(n))
		}
		return int64(rng.Intn(hot))
	}
	roots := []int64{int64(rng.Intn(hot)), int64(rng.Intn(n))}
	R := func(pNone int) int64 {
		if rng.Intn(100) < pNone {
			return -1
		}
		if rng.Intn(8) == 0 {
			return C()
		}
		return roots[rng.Intn(len(roots))]
	}
	list := func(min, max int, distinct bool) []int64 {
		k := min + rng.Intn(max-min+1)
		var out []int64
		for len(out) < k {
			c := C()
			if distinct {
				dupl := false
				for _, x := range out {
					if x == c {
						dupl = true
					}
				}
				if dupl {
					if rng.Intn(4) == 0 {
						break
					}
					continue
				}
			} else if len(out) > 0 && rng.Intn(4) == 0 {
				c = out[rng.Intn(len(out))] // duplicate inside the batch
			}
			out = append(out, c)
		}
		return out
	}
	add := func(k string, a ...int64) { p.Ops = append(p.Ops, gosim.Op{K: k, A: a}) }
	writes := 0
	for i := 0; i < nops; i++ {
		switch x := rng.Intn(100); {
		case x < 32:
			mode := int64(rng.Intn(4))
			root := R(45)
			var cs []int64
			if rng.Intn(2) == 0 {
				cs = []int64{C()}
			} else {
				cs = list(2, 5, duppin == 0 && mode == 3)
				if rootbatch == 0 {
					root = -1
				}
				if root >= 0 && rng.Intn(3) == 0 {
					cs[0] = root // the file root travels with its chunks
				}
			}
			if root >= 0 && rng.Intn(4) == 0 {
				// first make sure the root chunk itself is cached under its own context
				add("put", 0, root, root)
				writes++
			}
			add("put", append([]int64{mode, root}, cs...)...)
			writes++
		case x < 44:
			add("get", gosim.Pick(rng, 0, 0, 0, 1, 2, 3), C(), R(50))
			writes++
		case x < 50:
			add("getmulti", append([]int64{gosim.Pick(rng, 0, 0, 1, 2, 3)}, list(1, 4, false)...)...)
		case x < 55:
			add("has", int64(rng.Intn(2)), C())
		case x < 60:
			add("hasmulti", append([]int64{int64(rng.Intn(2))}, list(1, 5, false)...)...)
		case x < 96:
			mode := gosim.Pick(rng, 0, 1, 1, 1, 1, 2, 2, 2, 2, 2, 3, 3, 3, 3)
			add("set", append([]int64{mode, R(55)}, list(1, 3, true)...)...)
			writes += 2
		default:
			add("idle")
		}
	}
	if cfg == 1 {
		if writes < 4 {
			writes = 4
		}
		nf := 1 + rng.Intn(4)
		for j := 0; j < nf; j++ {
			p.Faults = append(p.Faults, gosim.Op{K: "fail", A: []int64{int64(rng.Intn(writes))}})
		}
	}
	return p
}

func init() {
	gosim.Register(&gosim.World{
		Prop: "C11", Gen: c11Gen, Exec: c11Exec,
		Real: []string{
			"pkg/localstore (Put/Get/GetMulti/Has/HasMulti/Set, background updateGC goroutines, collection worker idle)",
			"pkg/shed + pkg/shed/leveldb driver on goleveldb MemStorage",
			"pkg/cac (content-addressed chunks)",
		},
		Stubs: []string{
			"simdisk (fault-injecting driver around the real leveldb driver; 40% of runs, k-th write fails)",
			"chunkinfo: none (db.discover nil; only collectGarbage uses it and capacity is out of reach)",
		},
	})
}
