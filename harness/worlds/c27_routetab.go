package worlds

import (
	"crypto/sha256"
	"encoding"
	"encoding/base64"
	"encoding/json"
	"fmt"
	"math/rand"
	"sort"
	"strings"
	"sync"
	"sync/atomic"
	"time"

	"github.com/gauss-project/aurorafs/pkg/boson"
	"github.com/gauss-project/aurorafs/pkg/routetab"
	"github.com/gauss-project/aurorafs/pkg/routetab/pb"
	"github.com/gauss-project/aurorafs/pkg/shed/driver"
	"github.com/gauss-project/aurorafs/pkg/storage"

	"verifharness/gosim"
)

// C27 — Route tables only hold consistent, bounded routes.
//
// Real: pkg/routetab Table (SavePath, Get, GetNextHop, Delete, Gc, ResumeRoutes,
// ResumePaths, updateUsedTime) built through the verif hook VerifNewTable.
// Stub: the StateStorer (ordered in-memory map with an undo log so that a crash
// can lose a suffix of the writes).
//
// Reading of the code's conventions (pkg/routetab/table.go, route.go):
//   * A pb.Path received from a peer lists the nodes a route message travelled
//     through: Items[0] is the originator, every relaying node appended itself
//     (Table.generatePaths), so Items[len-1] is the neighbour that handed the
//     message to us — the "last hop" of the path = our next hop when we want to
//     reach any earlier node of the path.
//   * SavePath stores the path under sha256(concat(items)) and derives one route
//     (Neighbor = last item, PathKey) for every item but the last
//     (IterateTarget: k <= len-2) — these are the "targets" of the path.
//   * The number of routes per target is bounded by the package-global
//     NeighborAlpha ("alpha").
//   * Gc(age) deletes every path whose UsedTime is more than age old; UsedTime is
//     set by SavePath and by updateUsedTime(target, neighbour).
//
// Ops (A[0] = client goroutine for the concurrent ops):
//   save     [c, n0, n1, ...]   SavePath(items = nodes n0..)
//   del      [c, n0, n1, ...]   Delete(&Path{Items})
//   delroute [c, target]        Get(target) then Delete of every returned path (Service.DelRoute)
//   gc       [c, ageMs]         Gc(age)
//   touch    [c, target, nb]    updateUsedTime(target, nb)
//   sleep    [c, ms]            fake time passes
//   get      [c, target]        Get(target) + route list bound
//   hop      [c, target, mask]  GetNextHop(target, skips = nodes in bit mask)
//   barrier                     clients join
//   (concurrent plans also contain use-vs-delete blocks: save p / sleep /
//    touch(p's route) by one or two clients || del p | delroute | gc by another /
//    [sleep, gc 0] / reload or crash — see useKillBlock in c27Gen)
//   reload   [gcAgeMs|-1]       new Table over the same store: ResumeRoutes, ResumePaths, (Gc)
//   crash    [lost, gcAgeMs|-1] the store loses its last `lost` writes, then reload
//
// Oracle: pure safety, from the statement. The model knows, per path (sequence
// of node indexes), whether it was ever saved and whether it is definitely dead
// (deleted or expired after every save of it had finished, and not saved again).

const c27MaxNodes = 8

func c27Addr(i int) boson.Address {
	b := make([]byte, 32)
	for j := range b {
		b[j] = byte(i*31 + j)
	}
	b[0] = byte(0x11 * (i + 1))
	return boson.NewAddress(b)
}

// ---- state store stub ----

type c27Undo struct {
	key     string
	prev    []byte
	existed bool
}

type c27Store struct {
	mu     sync.Mutex
	m      map[string][]byte
	log    []c27Undo
	writes int
	yield  int64 // bit 0: scheduling point before a Put lands, bit 1: before a Delete lands
}

var _ storage.StateStorer = (*c27Store)(nil)

func c27NewStore() *c27Store { return &c27Store{m: map[string][]byte{}} }

func (s *c27Store) Get(key string, i interface{}) error {
	s.mu.Lock()
	data, ok := s.m[key]
	s.mu.Unlock()
	if !ok {
		return storage.ErrNotFound
	}
	if u, ok := i.(encoding.BinaryUnmarshaler); ok {
		return u.UnmarshalBinary(data)
	}
	return json.Unmarshal(data, i)
}

// c27Encode produces the JSON the real state store would write for the two
// value types the route table persists. It is written by hand because
// encoding/json.Marshal takes its encoder state from a sync.Pool and, on a pool
// miss (which depends on the P and on GC timing), creates a map — that consumes
// a value of the calling goroutine's deterministic random stream and would make
// the seeded schedule irreproducible.
func c27Encode(i interface{}) ([]byte, bool) {
	b64 := func(sb *strings.Builder, b []byte) {
		if b == nil {
			sb.WriteString("null")
			return
		}
		sb.WriteByte('"')
		sb.WriteString(base64.StdEncoding.EncodeToString(b))
		sb.WriteByte('"')
	}
	var sb strings.Builder
	switch v := i.(type) {
	case routetab.Path:
		sb.WriteString(`{"sign":`)
		b64(&sb, v.Sign)
		sb.WriteString(`,"bodys":`)
		if v.Bodys == nil {
			sb.WriteString("null")
		} else {
			sb.WriteByte('[')
			for k, x := range v.Bodys {
				if k > 0 {
					sb.WriteByte(',')
				}
				b64(&sb, x)
			}
			sb.WriteByte(']')
		}
		sb.WriteString(`,"items":`)
		if v.Items == nil {
			sb.WriteString("null")
		} else {
			sb.WriteByte('[')
			for k, x := range v.Items {
				if k > 0 {
					sb.WriteByte(',')
				}
				sb.WriteString(`"` + x.String() + `"`)
			}
			sb.WriteByte(']')
		}
		ct, err1 := v.CreateTime.MarshalJSON()
		ut, err2 := v.UsedTime.MarshalJSON()
		if err1 != nil || err2 != nil {
			return nil, false
		}
		sb.WriteString(`,"createTime":` + string(ct) + `,"usedTime":` + string(ut) + `}`)
		return []byte(sb.String()), true
	case []routetab.TargetRoute:
		if v == nil {
			return []byte("null"), true
		}
		sb.WriteByte('[')
		for k, x := range v {
			if k > 0 {
				sb.WriteByte(',')
			}
			sb.WriteString(`{"Neighbor":"` + x.Neighbor.String() + `","PathKey":"` + x.PathKey.Hex() + `"}`)
		}
		sb.WriteByte(']')
		return []byte(sb.String()), true
	}
	return nil, false
}

func (s *c27Store) Put(key string, i interface{}) (err error) {
	var b []byte
	if enc, ok := c27Encode(i); ok {
		b = enc
	} else if m, ok := i.(encoding.BinaryMarshaler); ok {
		if b, err = m.MarshalBinary(); err != nil {
			return err
		}
	} else if b, err = json.Marshal(i); err != nil {
		return err
	}
	if s.yield&1 != 0 {
		gosim.Yield() // a store write takes time: others may run before it lands
	}
	s.mu.Lock()
	prev, ex := s.m[key]
	s.log = append(s.log, c27Undo{key, prev, ex})
	s.m[key] = b
	s.writes++
	s.mu.Unlock()
	return nil
}

func (s *c27Store) Delete(key string) error {
	if s.yield&2 != 0 {
		gosim.Yield()
	}
	s.mu.Lock()
	prev, ex := s.m[key]
	s.log = append(s.log, c27Undo{key, prev, ex})
	delete(s.m, key)
	s.writes++
	s.mu.Unlock()
	return nil
}

// Iterate works on a snapshot in key order (like a leveldb iterator), so the
// callback may delete keys.
func (s *c27Store) Iterate(prefix string, fn storage.StateIterFunc) error {
	s.mu.Lock()
	var keys []string
	for k := range s.m {
		if strings.HasPrefix(k, prefix) {
			keys = append(keys, k)
		}
	}
	sort.Strings(keys)
	vals := make([][]byte, len(keys))
	for i, k := range keys {
		vals[i] = append([]byte(nil), s.m[k]...)
	}
	s.mu.Unlock()
	for i, k := range keys {
		stop, err := fn([]byte(k), vals[i])
		if err != nil {
			return err
		}
		if stop {
			break
		}
	}
	return nil
}

func (s *c27Store) DB() driver.BatchDB { return nil }
func (s *c27Store) Close() error       { return nil }

// loseLast undoes the last n writes; returns how many writes survive.
func (s *c27Store) loseLast(n int) (lost, survive int) {
	s.mu.Lock()
	defer s.mu.Unlock()
	for n > 0 && len(s.log) > 0 {
		u := s.log[len(s.log)-1]
		s.log = s.log[:len(s.log)-1]
		if u.existed {
			s.m[u.key] = u.prev
		} else {
			delete(s.m, u.key)
		}
		s.writes--
		n--
		lost++
	}
	return lost, s.writes
}

func (s *c27Store) nWrites() int {
	s.mu.Lock()
	defer s.mu.Unlock()
	return s.writes
}

// ---- model ----

type c27Path struct {
	items    []int
	saved    bool          // SavePath was invoked for it at least once
	saveBusy int           // SavePath calls in flight
	saveSeq  int64         // logical time of the last SavePath invocation
	touched  time.Duration // upper bound of its UsedTime (sim time)
	touchSeq int64         // logical time of the last updateUsedTime that may have hit it
	useBusy  int           // updateUsedTime calls in flight that may hit it (probe only)
	killBusy int           // Delete / Gc calls in flight that cover it (probe only)
	dead     bool          // definitely deleted / expired and not saved since
	deadSeq  int64         // logical time at which the killing op had returned
	deadW    int           // store write count when the killing op had returned
	deadEp   int           // table generation (reload count) in which it died
	deadHow  string
}

func (p *c27Path) last() int { return p.items[len(p.items)-1] }

// containsBeforeLast: the target sits in the path before its last hop.
func (p *c27Path) containsBeforeLast(t int) bool {
	for _, x := range p.items[:len(p.items)-1] {
		if x == t {
			return true
		}
	}
	return false
}

func (p *c27Path) contains(t int) bool {
	for _, x := range p.items {
		if x == t {
			return true
		}
	}
	return false
}

type c27World struct {
	r      *gosim.Run
	mu     sync.Mutex
	seq    int64
	paths  map[string]*c27Path
	table  *routetab.Table
	store  *c27Store
	epoch  int
	alpha  int
	nodes  int
	addrs  []boson.Address
	byAddr map[string]int
	byHash map[[32]byte]*c27Path
}

func c27Key(items []int) string {
	var sb strings.Builder
	for i, x := range items {
		if i > 0 {
			sb.WriteByte('-')
		}
		fmt.Fprintf(&sb, "%d", x)
	}
	return sb.String()
}

func (w *c27World) itemsOfOp(o gosim.Op) []int {
	var items []int
	for _, a := range o.A[1:] {
		items = append(items, int(((a%int64(w.nodes))+int64(w.nodes))%int64(w.nodes)))
	}
	return items
}

func (w *c27World) node(a int64) int {
	n := int64(w.nodes)
	return int(((a % n) + n) % n)
}

func (w *c27World) addrItems(items []int) []boson.Address {
	out := make([]boson.Address, len(items))
	for i, x := range items {
		out[i] = w.addrs[x]
	}
	return out
}

// idxItems maps addresses returned by the table back to node indexes (-1 unknown).
func (w *c27World) idxItems(as []boson.Address) ([]int, bool) {
	out := make([]int, len(as))
	ok := true
	for i, a := range as {
		x, has := w.byAddr[a.ByteString()]
		if !has {
			x = -1
			ok = false
		}
		out[i] = x
	}
	return out, ok
}

// get returns the model record of a path (creating it). Caller holds w.mu.
func (w *c27World) get(items []int) *c27Path {
	k := c27Key(items)
	p := w.paths[k]
	if p == nil {
		p = &c27Path{items: append([]int(nil), items...)}
		w.paths[k] = p
		// the table's key of this path (sha256 over the concatenated addresses),
		// only used to name the culprit in violation messages
		h := sha256.New()
		for _, x := range items {
			h.Write(w.addrs[x].Bytes())
		}
		var sum [32]byte
		copy(sum[:], h.Sum(nil))
		w.byHash[sum] = p
	}
	return p
}

func (w *c27World) tab() *routetab.Table {
	w.mu.Lock()
	defer w.mu.Unlock()
	return w.table
}

// kill protocol: begin() is called before the real Delete/Gc with the candidate
// paths, end() after it returned. A candidate is definitely dead afterwards iff
// no SavePath of it was in flight when the killer started and none was invoked
// until the killer returned (for Gc also: no updateUsedTime that may hit it was
// invoked while the Gc ran).
type c27Kill struct {
	d0   int64
	cand []*c27Path
	all  []*c27Path
	how  string
}

func (w *c27World) killBegin(how string, cand []*c27Path) *c27Kill {
	// caller holds w.mu
	w.seq++
	k := &c27Kill{d0: w.seq, how: how}
	for _, p := range cand {
		if p.saveBusy == 0 {
			k.cand = append(k.cand, p)
		}
		p.killBusy++
		k.all = append(k.all, p)
		if p.useBusy > 0 && p.saved && !p.dead {
			w.r.Count("probe_use_kill_overlap")
		}
	}
	return k
}

func (w *c27World) killEnd(k *c27Kill) (n int) {
	w.mu.Lock()
	defer w.mu.Unlock()
	w.seq++
	for _, p := range k.all {
		p.killBusy--
	}
	for _, p := range k.cand {
		if p.saveBusy == 0 && p.saveSeq < k.d0 {
			if k.how == "expired" && p.touchSeq >= k.d0 {
				continue // used (updateUsedTime) while the Gc was running: may have been spared
			}
			if p.dead {
				// keep the record of the first death, but remember that a later
				// deleting operation also covered the path: overlapping deletions
				// may leave the store write to the later one, and a crash that
				// loses that write brings the path back legitimately
				if nw := w.store.nWrites(); nw > p.deadW {
					p.deadW = nw
				}
				continue
			}
			if p.saved {
				n++
			}
			p.dead = true
			p.deadSeq = w.seq
			p.deadW = w.store.nWrites()
			p.deadEp = w.epoch
			p.deadHow = k.how
		}
	}
	return n
}

// expiredCand: paths whose last possible use is more than age ago. Caller holds w.mu.
func (w *c27World) expiredCand(age time.Duration) []*c27Path {
	now := w.r.Now()
	var out []*c27Path
	for _, k := range w.sortedKeys() {
		p := w.paths[k]
		if p.saved && now-p.touched > age {
			out = append(out, p)
		}
	}
	return out
}

func (w *c27World) sortedKeys() []string {
	keys := make([]string, 0, len(w.paths))
	for k := range w.paths {
		keys = append(keys, k)
	}
	sort.Strings(keys)
	return keys
}

func (w *c27World) stamp() int64 {
	w.mu.Lock()
	defer w.mu.Unlock()
	w.seq++
	return w.seq
}

// ---- checked observations ----

// checkGet calls Get(target) and VerifRoutes(target) and checks them.
func (w *c27World) checkGet(tag string, target int) []*routetab.Path {
	r := w.r
	t := w.tab()
	g0 := w.stamp()
	paths, err := t.Get(w.addrs[target])
	routes := t.VerifRoutes(w.addrs[target])
	w.mu.Lock()
	defer w.mu.Unlock()
	var desc []string
	for _, p := range paths {
		idx, _ := w.idxItems(p.Items)
		desc = append(desc, c27Key(idx))
	}
	r.Logf("%s get t=%d -> %v err=%v routes=%d", tag, target, desc, err, len(routes))
	if len(routes) > w.alpha {
		r.Violate("bound-routes", "target %d has %d routes, configured alpha=%d", target, len(routes), w.alpha)
	}
	if len(paths) > w.alpha {
		r.Violate("bound-paths", "Get(%d) returned %d paths, configured alpha=%d", target, len(paths), w.alpha)
	}
	if len(paths) > 0 {
		r.Count("probe_get_paths")
	}
	if len(routes) == w.alpha {
		r.Count("probe_routes_at_bound")
	}
	for _, p := range paths {
		idx, ok := w.idxItems(p.Items)
		if !ok || len(idx) == 0 {
			r.Violate("unknown-path", "Get(%d) returned a path with unknown nodes: %v", target, idx)
		}
		m := w.paths[c27Key(idx)]
		if m == nil || !m.saved {
			r.Violate("never-saved", "Get(%d) returned path %v that was never saved", target, idx)
		}
		if !m.containsBeforeLast(target) {
			r.Violate("target-not-before-last", "Get(%d) returned path %v: target is not before the last hop", target, idx)
		}
		if m.dead && m.deadSeq < g0 {
			cls := "dead-path-returned"
			if w.epoch > m.deadEp {
				cls = "dead-path-returned-after-reload"
			}
			r.Violate(cls, "Get(%d) returned path %v which was %s (table generation %d, now %d) and not saved since", target, idx, m.deadHow, m.deadEp, w.epoch)
		}
	}
	return paths
}

// checkHop calls GetNextHop(target, skips...) and checks the offer.
func (w *c27World) checkHop(tag string, target int, skips []int) {
	r := w.r
	t := w.tab()
	h0 := w.stamp()
	var all []boson.Address
	if len(skips) > 0 {
		all = t.GetNextHop(w.addrs[target])
	}
	next := t.GetNextHop(w.addrs[target], w.addrItems(skips)...)
	routes := t.VerifRoutes(w.addrs[target]) // diagnosis only
	w.mu.Lock()
	defer w.mu.Unlock()
	idx, ok := w.idxItems(next)
	sorted := append([]int(nil), idx...)
	sort.Ints(sorted)
	r.Logf("%s hop t=%d skips=%v -> %v", tag, target, skips, sorted)
	if !ok {
		r.Violate("unknown-nexthop", "GetNextHop(%d) offered an unknown node: %v", target, idx)
	}
	if len(next) > w.alpha {
		r.Violate("bound-nexthop", "GetNextHop(%d) offered %d hops, configured alpha=%d", target, len(next), w.alpha)
	}
	if len(next) > 0 {
		r.Count("probe_hop_offered")
	}
	for _, a := range all {
		if x, has := w.byAddr[a.ByteString()]; has {
			for _, s := range skips {
				if s == x {
					r.Count("probe_skip_effective")
				}
			}
		}
	}
	seen := map[int]bool{}
	for _, n := range idx {
		if seen[n] {
			r.Violate("nexthop-dup", "GetNextHop(%d) offered node %d twice: %v", target, n, idx)
		}
		seen[n] = true
		for _, s := range skips {
			if s == n {
				r.Violate("nexthop-skipped", "GetNextHop(%d, skips=%v) offered skipped node %d", target, skips, n)
			}
		}
		// must be the last hop of a stored (saved, not dead) path containing the target
		live := false
		var deadOne *c27Path
		for _, k := range w.sortedKeys() {
			m := w.paths[k]
			if !m.saved || len(m.items) < 2 || m.last() != n || !m.contains(target) {
				continue
			}
			if m.dead && m.deadSeq < h0 {
				if deadOne == nil || m.deadEp > deadOne.deadEp {
					deadOne = m
				}
				continue
			}
			live = true
			break
		}
		if !live {
			// diagnosis: the route that made the table offer n names its path
			for _, rt := range routes {
				if x, has := w.byAddr[rt.Neighbor.ByteString()]; has && x == n {
					if m := w.byHash[rt.PathKey]; m != nil && m.saved && m.dead && m.deadSeq < h0 {
						deadOne = m
						break
					}
				}
			}
			if deadOne != nil {
				cls := "nexthop-of-dead-path"
				if w.epoch > deadOne.deadEp {
					cls = "nexthop-of-dead-path-after-reload"
				}
				r.Violate(cls, "GetNextHop(%d) offered node %d, but every saved path through it that contains the target is deleted/expired (e.g. %v %s in table generation %d, now %d)",
					target, n, deadOne.items, deadOne.deadHow, deadOne.deadEp, w.epoch)
			}
			r.Violate("nexthop-no-path", "GetNextHop(%d) offered node %d which is not the last hop of any saved path containing the target", target, n)
		}
	}
}

// sweep checks every target at a quiescent point.
func (w *c27World) sweep(tag string) {
	for t := 0; t < w.nodes; t++ {
		w.checkGet(tag, t)
		w.checkHop(tag, t, nil)
	}
}

// ---- plan generation ----

func c27Gen(rng *rand.Rand, tier string) *gosim.Plan {
	p := &gosim.Plan{Params: map[string]int64{}}
	nodes := 3 + rng.Intn(c27MaxNodes-2) // 3..8
	alpha := 1 + rng.Intn(4)
	clients := 1
	if rng.Intn(5) < 3 {
		clients = 2 + rng.Intn(2)
	}
	crashes := rng.Intn(10) < 5
	p.Params["nodes"] = int64(nodes)
	p.Params["alpha"] = int64(alpha)
	p.Params["maxttl"] = gosim.Pick(rng, 3, 4, 5, 6, 10)
	p.Params["clients"] = int64(clients)
	p.Params["self"] = int64(rng.Intn(nodes))
	if clients > 1 {
		// interleavings inside the table operations need voluntary yields
		p.Params["yield_pct"] = gosim.Pick(rng, 0, 5, 5, 20, 20, 50, 100)
		// where the state store offers an extra scheduling point (a write that
		// has been issued but has not landed yet): nowhere / Put / Delete / both
		p.Params["store_yield"] = gosim.Pick(rng, 0, 1, 1, 2, 3)
	}
	nOps := 15 + rng.Intn(60)
	if tier == "thorough" {
		nOps = 30 + rng.Intn(220)
	}
	durs := []int64{1, 10, 1000, 60000, 600000}
	ages := []int64{0, 1, 10, 1000, 60000, 600000}
	var made [][]int64
	hot := int64(rng.Intn(nodes))
	genPath := func() []int64 {
		if len(made) > 0 && rng.Intn(100) < 30 {
			old := made[rng.Intn(len(made))]
			switch rng.Intn(4) {
			case 0: // exact duplicate
				return append([]int64(nil), old...)
			case 1: // same nodes, other last hop
				n := append([]int64(nil), old...)
				n[len(n)-1] = int64(rng.Intn(nodes))
				return n
			case 2: // extended by one hop
				return append(append([]int64(nil), old...), int64(rng.Intn(nodes)))
			default: // shortened
				if len(old) > 1 {
					return append([]int64(nil), old[:len(old)-1]...)
				}
				return append([]int64(nil), old...)
			}
		}
		l := 2 + rng.Intn(4)
		switch x := rng.Intn(100); {
		case x < 6:
			l = 1
		case x < 12:
			l = 6 + rng.Intn(6)
		}
		n := make([]int64, l)
		for i := range n {
			n[i] = int64(rng.Intn(nodes))
		}
		if rng.Intn(2) == 0 {
			n[rng.Intn(len(n))] = hot // many paths share one target
		}
		return n
	}
	// concurrent plans: more deletions / expiries so that they collide
	killBoost := 0
	if clients > 1 {
		killBoost = 12
	}
	// use-vs-delete block (concurrent plans): a route that is being used
	// (updateUsedTime, as the relay does for every picked next hop) while the
	// very same path is deleted (Delete / DelRoute) or expires (Gc), followed by
	// a restart on the same store. Self-contained: it saves its path first and
	// lets time pass, so that the use really refreshes the path.
	useKillBlock := func() {
		a := int64(rng.Intn(clients))
		b := (a + 1 + int64(rng.Intn(clients-1))) % int64(clients)
		var path []int64
		if len(made) > 0 && rng.Intn(3) == 0 {
			path = made[rng.Intn(len(made))]
		}
		if len(path) < 2 || len(path) > 3 {
			path = make([]int64, 2+rng.Intn(2))
			for i := range path {
				path[i] = int64(rng.Intn(nodes))
			}
		}
		made = append(made, path)
		target, nb := path[rng.Intn(len(path)-1)], path[len(path)-1]
		wait := gosim.Pick(rng, 1, 10, 1000)
		p.Ops = append(p.Ops, gosim.Op{K: "save", A: append([]int64{a}, path...)},
			gosim.Op{K: "barrier"},
			gosim.Op{K: "sleep", A: []int64{a, wait}},
			gosim.Op{K: "barrier"})
		var blk []gosim.Op
		for n := 1 + rng.Intn(3); n > 0; n-- {
			u := a
			if clients > 2 && rng.Intn(2) == 0 {
				for u = int64(rng.Intn(clients)); u == b; u = int64(rng.Intn(clients)) {
				}
			}
			blk = append(blk, gosim.Op{K: "touch", A: []int64{u, target, nb}})
		}
		switch x := rng.Intn(10); {
		case x < 5:
			blk = append(blk, gosim.Op{K: "del", A: append([]int64{b}, path...)})
		case x < 7:
			blk = append(blk, gosim.Op{K: "delroute", A: []int64{b, target}})
		default:
			blk = append(blk, gosim.Op{K: "gc", A: []int64{b, gosim.Pick(rng, 0, 0, wait-1)}})
		}
		rng.Shuffle(len(blk), func(i, j int) { blk[i], blk[j] = blk[j], blk[i] })
		p.Ops = append(p.Ops, blk...)
		p.Ops = append(p.Ops, gosim.Op{K: "barrier"})
		if rng.Intn(3) == 0 {
			// a later, undisputed expiry of everything
			p.Ops = append(p.Ops, gosim.Op{K: "sleep", A: []int64{a, 1000}}, gosim.Op{K: "barrier"}, gosim.Op{K: "gc", A: []int64{b, 0}})
		}
		switch x := rng.Intn(10); {
		case x < 6:
			p.Ops = append(p.Ops, gosim.Op{K: "reload", A: []int64{-1}})
		case x < 8 || !crashes:
			p.Ops = append(p.Ops, gosim.Op{K: "reload", A: []int64{gosim.Pick(rng, 60000, 600000)}})
		default:
			p.Ops = append(p.Ops, gosim.Op{K: "crash", A: []int64{int64(1 + rng.Intn(3)), -1}})
		}
	}
	for i := 0; i < nOps; i++ {
		if clients > 1 && rng.Intn(100) < 14 {
			useKillBlock()
			i += 6
			continue
		}
		c := int64(rng.Intn(clients))
		x := rng.Intn(100)
		if x < killBoost {
			x = 38 + rng.Intn(20) // del / delroute / gc
		}
		switch {
		case x < 38:
			path := genPath()
			made = append(made, path)
			p.Ops = append(p.Ops, gosim.Op{K: "save", A: append([]int64{c}, path...)})
		case x < 46:
			var path []int64
			if len(made) > 0 && rng.Intn(10) < 8 {
				path = made[rng.Intn(len(made))]
			} else {
				path = genPath()
			}
			p.Ops = append(p.Ops, gosim.Op{K: "del", A: append([]int64{c}, path...)})
		case x < 51:
			p.Ops = append(p.Ops, gosim.Op{K: "delroute", A: []int64{c, int64(rng.Intn(nodes))}})
		case x < 58:
			p.Ops = append(p.Ops, gosim.Op{K: "gc", A: []int64{c, ages[rng.Intn(len(ages))]}})
		case x < 66:
			p.Ops = append(p.Ops, gosim.Op{K: "sleep", A: []int64{c, durs[rng.Intn(len(durs))]}})
		case x < 70:
			p.Ops = append(p.Ops, gosim.Op{K: "touch", A: []int64{c, int64(rng.Intn(nodes)), int64(rng.Intn(nodes))}})
		case x < 78:
			p.Ops = append(p.Ops, gosim.Op{K: "get", A: []int64{c, int64(rng.Intn(nodes))}})
		case x < 88:
			mask := int64(0)
			if rng.Intn(3) > 0 {
				mask = int64(rng.Intn(1 << uint(nodes)))
				if rng.Intn(2) == 0 {
					mask &= int64(rng.Intn(1 << uint(nodes)))
				}
			}
			p.Ops = append(p.Ops, gosim.Op{K: "hop", A: []int64{c, int64(rng.Intn(nodes)), mask}})
		case x < 93:
			if clients > 1 {
				p.Ops = append(p.Ops, gosim.Op{K: "barrier"})
			} else {
				p.Ops = append(p.Ops, gosim.Op{K: "get", A: []int64{c, int64(rng.Intn(nodes))}})
			}
		case x < 97 || !crashes:
			age := int64(-1)
			if rng.Intn(2) == 0 {
				age = ages[rng.Intn(len(ages))]
			}
			p.Ops = append(p.Ops, gosim.Op{K: "reload", A: []int64{age}})
		default:
			age := int64(-1)
			if rng.Intn(3) == 0 {
				age = ages[rng.Intn(len(ages))]
			}
			p.Ops = append(p.Ops, gosim.Op{K: "crash", A: []int64{int64(1 + rng.Intn(8)), age}})
		}
	}
	return p
}

// ---- execution ----

func c27Exec(r *gosim.Run) {
	nodes := int(r.Plan.P("nodes", 5))
	if nodes < 2 {
		nodes = 2
	}
	if nodes > c27MaxNodes {
		nodes = c27MaxNodes
	}
	alpha := int(r.Plan.P("alpha", 2))
	if alpha < 1 {
		alpha = 1
	}
	w := &c27World{r: r, paths: map[string]*c27Path{}, alpha: alpha, nodes: nodes, byAddr: map[string]int{}, byHash: map[[32]byte]*c27Path{}}
	for i := 0; i < nodes; i++ {
		a := c27Addr(i)
		w.addrs = append(w.addrs, a)
		w.byAddr[a.ByteString()] = i
	}
	// package-global configuration of pkg/routetab (one table per process here)
	routetab.NeighborAlpha = int32(alpha)
	maxTTL := int(r.Plan.P("maxttl", 10))
	atomic.StoreInt32(&routetab.MaxTTL, int32(maxTTL))
	self := w.addrs[w.node(r.Plan.P("self", 0))]
	w.store = c27NewStore()
	w.store.yield = r.Plan.P("store_yield", 0)
	w.table = routetab.VerifNewTable(self, w.store)
	sequential := r.Plan.P("clients", 1) <= 1

	execOp := func(o gosim.Op) {
		switch o.K {
		case "save":
			if len(o.A) < 2 {
				return
			}
			items := w.itemsOfOp(o)
			if len(items) > maxTTL {
				// environment: the Service never hands such a path to the table
				// (onRouteReq / onRouteResp discard paths longer than MaxTTL)
				r.Logf("save %v discarded by the caller's TTL filter", items)
				r.Count("probe_ttl_discard")
				return
			}
			w.mu.Lock()
			w.seq++
			m := w.get(items)
			m.saved = true
			m.saveBusy++
			m.saveSeq = w.seq
			m.dead = false
			m.touched = r.Now()
			t := w.table
			w.mu.Unlock()
			r.Logf("save %v", items)
			var raw [][]byte
			for _, a := range w.addrItems(items) {
				raw = append(raw, a.Bytes())
			}
			t.SavePath(&pb.Path{Items: raw})
			w.mu.Lock()
			w.seq++
			m.saveBusy--
			m.touched = r.Now()
			w.mu.Unlock()
		case "del":
			if len(o.A) < 2 {
				return
			}
			items := w.itemsOfOp(o)
			w.mu.Lock()
			m := w.get(items)
			k := w.killBegin("deleted", []*c27Path{m})
			t := w.table
			w.mu.Unlock()
			r.Logf("del %v", items)
			t.Delete(&routetab.Path{Items: w.addrItems(items)})
			if w.killEnd(k) > 0 {
				r.Count("probe_deleted_live")
			}
		case "delroute":
			target := w.node(o.Arg(1))
			paths := w.checkGet("delroute", target)
			t := w.tab()
			for _, p := range paths {
				idx, ok := w.idxItems(p.Items)
				if !ok {
					continue
				}
				w.mu.Lock()
				k := w.killBegin("deleted", []*c27Path{w.get(idx)})
				w.mu.Unlock()
				r.Logf("delroute t=%d del %v", target, idx)
				t.Delete(p)
				if w.killEnd(k) > 0 {
					r.Count("probe_deleted_live")
				}
			}
		case "gc":
			age := time.Duration(o.Arg(1)) * time.Millisecond
			if age < 0 {
				age = 0
			}
			w.mu.Lock()
			k := w.killBegin("expired", w.expiredCand(age))
			t := w.table
			w.mu.Unlock()
			r.Logf("gc age=%v", age)
			t.Gc(age)
			if w.killEnd(k) > 0 {
				r.Count("probe_gc_expired")
			}
		case "touch":
			target, nb := w.node(o.Arg(1)), w.node(o.Arg(2))
			var hit []*c27Path
			mark := func(begin bool) {
				w.mu.Lock()
				w.seq++
				if begin {
					for _, k := range w.sortedKeys() {
						m := w.paths[k]
						if len(m.items) >= 2 && m.last() == nb && m.containsBeforeLast(target) {
							hit = append(hit, m)
							m.useBusy++
							if m.killBusy > 0 && m.saved && !m.dead {
								r.Count("probe_use_kill_overlap")
							}
						}
					}
				}
				for _, m := range w.paths {
					if len(m.items) >= 2 && m.last() == nb && m.containsBeforeLast(target) {
						m.touched = r.Now()
						m.touchSeq = w.seq
					}
				}
				if !begin {
					for _, m := range hit {
						m.useBusy--
					}
				}
				w.mu.Unlock()
			}
			mark(true)
			r.Logf("touch t=%d nb=%d", target, nb)
			w.tab().VerifUpdateUsedTime(w.addrs[target], w.addrs[nb])
			mark(false)
		case "sleep":
			d := o.Arg(1)
			if d < 0 {
				d = 0
			}
			if d > 3600000 {
				d = 3600000
			}
			time.Sleep(time.Duration(d) * time.Millisecond)
		case "get":
			w.checkGet("get", w.node(o.Arg(1)))
		case "hop":
			var skips []int
			for i := 0; i < w.nodes; i++ {
				if o.Arg(2)&(1<<uint(i)) != 0 {
					skips = append(skips, i)
				}
			}
			w.checkHop("hop", w.node(o.Arg(1)), skips)
		}
	}

	reload := func(o gosim.Op) {
		age := o.Arg(0)
		if o.K == "crash" {
			age = o.Arg(1)
			n := int(o.Arg(0))
			if n < 0 {
				n = 0
			}
			lost, survive := w.store.loseLast(n)
			r.Logf("crash: store lost its last %d writes, %d survive", lost, survive)
			if lost > 0 {
				r.Count("fault_crash")
				// narrow relaxation: a deletion/expiry whose store writes may be among
				// the lost ones may have had no durable effect
				w.mu.Lock()
				for _, m := range w.paths {
					if m.dead && m.deadW > survive {
						m.dead = false
						r.Count("probe_crash_relaxed")
					}
				}
				w.mu.Unlock()
			}
		}
		w.mu.Lock()
		nDead := 0
		for _, m := range w.paths {
			if m.saved && m.dead {
				nDead++
			}
		}
		w.mu.Unlock()
		if nDead > 0 {
			r.Count("probe_reload_with_dead")
		}
		r.Logf("reload (dead paths in model: %d)", nDead)
		t := routetab.VerifNewTable(self, w.store)
		t.ResumeRoutes()
		t.ResumePaths()
		w.mu.Lock()
		w.table = t
		w.epoch++
		w.mu.Unlock()
		if age >= 0 {
			d := time.Duration(age) * time.Millisecond
			w.mu.Lock()
			k := w.killBegin("expired", w.expiredCand(d))
			w.mu.Unlock()
			r.Logf("reload gc age=%v", d)
			t.Gc(d)
			w.killEnd(k)
		}
	}

	ops := r.Plan.Ops
	i := 0
	for i <= len(ops) {
		j := i
		for j < len(ops) && ops[j].K != "barrier" && ops[j].K != "reload" && ops[j].K != "crash" {
			j++
		}
		seg := ops[i:j]
		var clients []int64
		by := map[int64][]gosim.Op{}
		for _, o := range seg {
			c := o.Arg(0)
			if sequential {
				c = 0
			}
			if _, ok := by[c]; !ok {
				clients = append(clients, c)
			}
			by[c] = append(by[c], o)
		}
		var wg sync.WaitGroup
		for _, c := range clients {
			wg.Add(1)
			go func(list []gosim.Op) {
				defer wg.Done()
				for _, o := range list {
					execOp(o)
					r.OpDone()
					if sequential {
						w.sweep("step")
					}
				}
			}(by[c])
		}
		done := make(chan struct{})
		go func() { wg.Wait(); close(done) }()
		select {
		case <-done:
		case <-time.After(100000 * time.Hour):
			r.Violate("hang", "route table operations of one phase did not return")
		}
		gosim.Idle()
		w.sweep("phase")
		if j < len(ops) && ops[j].K != "barrier" {
			reload(ops[j])
			r.OpDone()
			w.sweep("reloaded")
		}
		i = j + 1
	}
	w.mu.Lock()
	r.Add("model_paths", int64(len(w.paths)))
	w.mu.Unlock()
}

func init() {
	gosim.Register(&gosim.World{
		Prop: "C27", Gen: c27Gen, Exec: c27Exec,
		Real:  []string{"pkg/routetab Table (SavePath, Get, GetNextHop, Delete, Gc, updateUsedTime, ResumeRoutes, ResumePaths; package globals NeighborAlpha, MaxTTL)"},
		Stubs: []string{"StateStorer (ordered in-memory map, JSON encoding like the real statestore, undo log for crash = loss of a suffix of writes)"},
	})
}
