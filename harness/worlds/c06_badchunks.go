//go:build g_heavy

package worlds

// C06 — Only valid chunks are accepted from peers (world W-NET, node-kit nodes).
//
// Nodes: 0 = downloader (honest, checked), 1 = provider (its uploads are honest,
// the frames it sends may be altered in flight = byzantine provider), 2 = relay
// (honest, checked; present in topologies 1 and 2; the frames it sends may be
// altered too = byzantine relay).
//
// Ops (first argument = client goroutine):
//   file  [f, sizeIdx]          defines file f (content is a function of f and the size)
//   dl    [cl, f]               provider uploads f (once), node 0 downloads it: GET /aurora/{ref}/{name}
//                               (chunkinfo.Init -> pyramid exchange -> traversal.GetChunkHashes -> retrieval)
//   get   [cl, f, k, direct]    node 0 netstore.Get of the k-th chunk of f under the root context
//                               (direct=1: with the provider as explicit target, no discovery first)
//   del   [cl, f]               node 0 DELETE /aurora/{ref} (so that a later dl fetches again)
//   sleep [cl, ms]
//   barrier
// Faults (each alters ONE frame in flight):
//   dmut  [from, f, n, kind, p1, p2]            the n-th retrieval Delivery of a chunk of file f sent by node `from`
//   pmut  [from, f, s, sel, e, kind, p1, p2]    in the s-th pyramid response stream for file f sent by node `from`:
//                                               sel 0 = the e-th entry, 1 = the first full-capacity entry,
//                                               2 = the entry stored under the requested root
//
// Oracle (from the statement, independent BMT checker below): every chunk that
// reaches the Put path of an honest node's store, every chunk found in an honest
// store at the end, every chunk RetrieveChunk returns, every chunk an honest relay
// delivers: 8 <= len <= 256 KiB + 8 and address == BMT(payload), or soc.Valid.
// Download bodies are a prefix of the uploaded content; without faults the
// download succeeds with the right bytes.

import (
	"bytes"
	"context"
	"encoding/binary"
	"fmt"
	"math/rand"
	"runtime"
	"sort"
	"strings"
	"sync"
	"time"

	"github.com/gauss-project/aurorafs/pkg/boson"
	cipb "github.com/gauss-project/aurorafs/pkg/chunkinfo/pb"
	"github.com/gauss-project/aurorafs/pkg/retrieval"
	rpb "github.com/gauss-project/aurorafs/pkg/retrieval/pb"
	"github.com/gauss-project/aurorafs/pkg/routetab"
	"github.com/gauss-project/aurorafs/pkg/aurora"
	"github.com/gauss-project/aurorafs/pkg/sctx"
	"github.com/gauss-project/aurorafs/pkg/soc"
	"github.com/gauss-project/aurorafs/pkg/storage"
	"golang.org/x/crypto/sha3"

	"verifharness/gosim"
	"verifharness/simnet"
)

// ---------------------------------------------------------------------------
// independent reference: binary merkle tree over 32-byte segments, keccak256
// ---------------------------------------------------------------------------

const (
	c06Seg      = 32
	c06Levels   = 13                   // 2^13 segments
	c06MaxData  = c06Seg << c06Levels  // 256 KiB
	c06SpanSize = 8
)

func c06Keccak(parts ...[]byte) []byte {
	h := sha3.NewLegacyKeccak256()
	for _, p := range parts {
		h.Write(p)
	}
	return h.Sum(nil)
}

// c06Zero[i] = root of a subtree of 2^i all-zero segments.
var c06Zero = func() [][]byte {
	z := make([][]byte, c06Levels+1)
	z[0] = make([]byte, c06Seg)
	for i := 1; i <= c06Levels; i++ {
		z[i] = c06Keccak(z[i-1], z[i-1])
	}
	return z
}()

// c06Root: merkle root of data zero-padded to 2^level segments.
func c06Root(data []byte, level int) []byte {
	if len(data) == 0 {
		return c06Zero[level]
	}
	if level == 0 {
		seg := make([]byte, c06Seg)
		copy(seg, data)
		return seg
	}
	half := c06Seg << (level - 1)
	if len(data) <= half {
		return c06Keccak(c06Root(data, level-1), c06Zero[level-1])
	}
	return c06Keccak(c06Root(data[:half], level-1), c06Root(data[half:], level-1))
}

// c06Address: the content address of span(8) ‖ payload; ok=false if the sizes are out of range.
func c06Address(chunkData []byte) (addr []byte, ok bool) {
	if len(chunkData) < c06SpanSize || len(chunkData) > c06MaxData+c06SpanSize {
		return nil, false
	}
	return c06Keccak(chunkData[:c06SpanSize], c06Root(chunkData[c06SpanSize:], c06Levels)), true
}

// c06ValidChunk: the statement's notion of a chunk valid for the address it is kept under.
func c06ValidChunk(addr boson.Address, data []byte) (bool, string) {
	if a, ok := c06Address(data); ok {
		if bytes.Equal(a, addr.Bytes()) {
			return true, ""
		}
		if soc.Valid(boson.NewChunk(addr, data)) {
			return true, ""
		}
		return false, fmt.Sprintf("address %s != content address %x of the %d payload bytes (span %d)", addr, a, len(data)-8, binary.LittleEndian.Uint64(data[:8]))
	}
	if soc.Valid(boson.NewChunk(addr, data)) {
		return true, ""
	}
	return false, fmt.Sprintf("chunk data of %d bytes outside [8, %d]", len(data), c06MaxData+c06SpanSize)
}

// ---------------------------------------------------------------------------
// frames
// ---------------------------------------------------------------------------

// c06Unframe splits varint-length-delimited messages; rest = undecodable tail.
func c06Unframe(b []byte) (msgs [][]byte, rest []byte) {
	for len(b) > 0 {
		l, n := binary.Uvarint(b)
		if n <= 0 || uint64(len(b)-n) < l {
			return msgs, b
		}
		msgs = append(msgs, b[n:n+int(l)])
		b = b[n+int(l):]
	}
	return msgs, nil
}

func c06Frame(msg []byte) []byte {
	var hdr [binary.MaxVarintLen64]byte
	n := binary.PutUvarint(hdr[:], uint64(len(msg)))
	return append(append([]byte(nil), hdr[:n]...), msg...)
}

// ---------------------------------------------------------------------------
// world
// ---------------------------------------------------------------------------

var c06Sizes = []int{1, 31, 4096, 70000, 262143, 262144, 262145, 300000, 524288, 600000}

type c06File struct {
	id      int64
	name    string
	content []byte
	ref     boson.Address
	hasRef  bool
	chunks  []string // addresses written by the provider's upload
	touched bool     // a faulted or abandoned operation involved it
}

type c06PStream struct {
	file    int64
	idx     int64 // number of this stream among the pyramid streams of its sender for this file
	entry   int64
	root    []byte
	fullHit bool
}

type c06World struct {
	r     *gosim.Run
	c     *nkCluster
	nodes []*nkNode
	topo  int64
	mu    sync.Mutex
	files map[int64]*c06File
	upMu  sync.Mutex

	pool     map[string][]byte // valid chunks seen on honest Put paths
	poolKeys []string

	faults   []gosim.Op
	fired    []bool
	dcount   map[[2]int64]int64 // (from, file) -> deliveries seen
	pcount   map[[2]int64]int64 // (from, file) -> pyramid streams seen
	chunkOf  map[string]int64   // chunk address -> file
	rootOf   map[string]int64   // manifest reference -> file
	pstreams map[int64]*c06PStream
	preq     map[int64][]byte            // pyramid stream id -> requested root
	rreq     map[int64]boson.Address     // retrieval stream id -> requested chunk
	mutated  map[int64]bool              // stream ids with an altered frame
	anyFault bool
	rng      *rand.Rand
}

// --- recording wrappers (honest nodes) ---

type c06Storer struct {
	storage.Storer
	w *c06World
	n *nkNode
}

func (s *c06Storer) Put(ctx context.Context, mode storage.ModePut, chs ...boson.Chunk) ([]bool, error) {
	origin := c06PutOrigin()
	for _, ch := range chs {
		s.w.checkChunk("invalid-put", fmt.Sprintf("node %d store.Put(mode %v, from %s)", s.n.idx, mode, origin), ch.Address(), ch.Data())
		s.w.remember(ch.Address(), ch.Data())
	}
	s.w.r.Count("c06_puts")
	return s.Storer.Put(ctx, mode, chs...)
}

// c06PutOrigin names the component that hands the chunk to the store.
func c06PutOrigin() string {
	pcs := make([]uintptr, 24)
	n := runtime.Callers(3, pcs)
	fr := runtime.CallersFrames(pcs[:n])
	for {
		f, more := fr.Next()
		switch {
		case strings.Contains(f.Function, "/pkg/traversal."):
			return "the pyramid check traversal.GetChunkHashes"
		case strings.Contains(f.Function, "/pkg/retrieval."):
			return "retrieval"
		case strings.Contains(f.Function, "/pkg/api."):
			return "the local API"
		}
		if !more {
			return "?"
		}
	}
}

type c06Retr struct {
	retrieval.Interface
	w *c06World
	n *nkNode
}

func (x *c06Retr) RetrieveChunk(ctx context.Context, root, addr boson.Address) (boson.Chunk, error) {
	ch, err := x.Interface.RetrieveChunk(ctx, root, addr)
	if err == nil {
		if ch == nil {
			x.w.r.Violate("nil-chunk", "node %d RetrieveChunk(%s) returned (nil, nil)", x.n.idx, addr)
		}
		if !ch.Address().Equal(addr) {
			x.w.r.Violate("invalid-retrieved", "node %d RetrieveChunk(%s) returned a chunk with address %s", x.n.idx, addr, ch.Address())
		}
		x.w.checkChunk("invalid-retrieved", fmt.Sprintf("node %d RetrieveChunk result", x.n.idx), addr, ch.Data())
		x.w.r.Count("probe_retrieved_checked")
	}
	return ch, err
}

func (w *c06World) checkChunk(class, where string, addr boson.Address, data []byte) {
	if ok, why := c06ValidChunk(addr, data); !ok {
		// signature of one particular acceptance hole, kept apart from all other
		// invalid data: more bytes than a chunk can hold, the first 256 KiB + 8 of
		// which are a valid chunk for the address
		if len(data) > c06MaxData+c06SpanSize {
			if ok2, _ := c06ValidChunk(addr, data[:c06MaxData+c06SpanSize]); ok2 {
				w.r.Violate("oversized-"+class[len("invalid-"):], "%s: chunk %s carries %d bytes (limit %d); only its first %d bytes hash to the address", where, addr, len(data), c06MaxData+c06SpanSize, c06MaxData+c06SpanSize)
			}
		}
		w.r.Violate(class, "%s: chunk %s is not valid: %s", where, addr, why)
	}
	// a span-consistent payload is the normal case; a zero-padded variant of a
	// valid chunk has the same content address (not a violation of the statement)
	if len(data) >= 8 && uint64(len(data)-8) > binary.LittleEndian.Uint64(data[:8]) && binary.LittleEndian.Uint64(data[:8]) <= c06MaxData {
		w.r.Count("c06_padded_variant_accepted")
	}
}

func (w *c06World) remember(addr boson.Address, data []byte) {
	w.mu.Lock()
	k := addr.String()
	if _, ok := w.pool[k]; !ok {
		w.pool[k] = append([]byte(nil), data...)
		w.poolKeys = append(w.poolKeys, k)
	}
	w.mu.Unlock()
}

// --- route stub knowing the relay ---

type c06Route struct {
	nd  *simnet.Node
	via func(dest boson.Address) (boson.Address, bool)
}

func (r *c06Route) GetRoute(context.Context, boson.Address) ([]*routetab.Path, error) {
	return nil, routetab.ErrNotFound
}
func (r *c06Route) FindRoute(context.Context, boson.Address, ...time.Duration) ([]*routetab.Path, error) {
	return nil, routetab.ErrNotFound
}
func (r *c06Route) DelRoute(context.Context, boson.Address) error { return nil }
func (r *c06Route) Connect(_ context.Context, dest boson.Address) error {
	if r.nd.IsPeer(dest) {
		return nil
	}
	return fmt.Errorf("c06Route: %s is not a neighbour", dest)
}
func (r *c06Route) GetTargetNeighbor(_ context.Context, dest boson.Address, _ int) ([]boson.Address, error) {
	if r.nd.IsPeer(dest) {
		return []boson.Address{dest}, nil
	}
	if v, ok := r.via(dest); ok && r.nd.IsPeer(v) {
		return []boson.Address{v}, nil
	}
	return nil, routetab.ErrNotFound
}
func (r *c06Route) IsNeighbor(dest boson.Address) bool { return r.nd.IsPeer(dest) }
func (r *c06Route) FindUnderlay(context.Context, boson.Address, ...time.Duration) (*aurora.Address, error) {
	return nil, routetab.ErrNotFound
}

// --- content ---

func c06Content(id int64, size int) []byte {
	b := make([]byte, size)
	x := uint64(id+1)*0x9e3779b97f4a7c15 + uint64(size)
	for i := range b {
		if i%8 == 0 {
			x ^= x << 13
			x ^= x >> 7
			x ^= x << 17
		}
		b[i] = byte(x >> (8 * uint(i%8)))
	}
	return b
}

// --- byzantine link ---

func (w *c06World) nodeIdx(a boson.Address) int {
	for i, n := range w.nodes {
		if n.Addr.Equal(a) {
			return i
		}
	}
	return -1
}

func (w *c06World) otherValid(not []byte, p int64) (boson.Address, []byte, bool) {
	if len(w.poolKeys) == 0 {
		return boson.ZeroAddress, nil, false
	}
	for i := 0; i < len(w.poolKeys); i++ {
		k := w.poolKeys[(int(p%int64(len(w.poolKeys)))+i+len(w.poolKeys))%len(w.poolKeys)]
		if !bytes.Equal(w.pool[k], not) {
			return boson.MustParseHexAddress(k), w.pool[k], true
		}
	}
	return boson.ZeroAddress, nil, false
}

func (w *c06World) randBytes(n int) []byte {
	b := make([]byte, n)
	w.rng.Read(b)
	return b
}

func c06Abs(x int64) int64 {
	if x < 0 {
		return -x
	}
	return x
}

// alterData applies a payload-level alteration shared by deliveries and pyramid entries.
// ok=false: not applicable to this data (the fault does not fire).
func (w *c06World) alterData(kind, p1, p2 int64, data []byte) (out []byte, name string, ok bool) {
	p1, p2 = c06Abs(p1), c06Abs(p2)
	d := append([]byte(nil), data...)
	switch kind {
	case 0:
		if len(d) == 0 {
			return nil, "", false
		}
		bit := p1 % int64(len(d)*8)
		d[bit/8] ^= 1 << uint(bit%8)
		return d, "flip", true
	case 1:
		if len(d) == 0 {
			return nil, "", false
		}
		cut := 1 + p1%int64(len(d))
		if p2%2 == 0 && cut > 64 {
			cut = 1 + p1%64
		}
		return d[:int64(len(d))-cut], "trunc", true
	case 2:
		n := 1 + int(p1%64)
		if p2%2 == 0 {
			n = 1 + int(p1%9) // just past the end: up to one span's worth and one more
		}
		return append(d, w.randBytes(n)...), "extend", true
	case 3:
		n := 1 + int(p1%4096)
		if p2%2 == 0 {
			n = 1 + int(p1%9)
		}
		return append(d, make([]byte, n)...), "extend-zero", true
	case 4:
		need := c06MaxData + c06SpanSize + 1 - len(d)
		if need < 1 {
			need = 1
		}
		ext := w.randBytes(need + int(p1%100))
		if p2%3 == 0 {
			ext = make([]byte, len(ext))
		}
		return append(d, ext...), "oversize", true
	case 5:
		_, od, ok := w.otherValid(data, p1)
		if !ok {
			return nil, "", false
		}
		return append([]byte(nil), od...), "other-chunk", true
	case 6:
		return nil, "empty", true
	case 7:
		if len(d) < 1 {
			return nil, "", false
		}
		n := int(p1 % 8)
		if n > len(d) {
			n = len(d)
		}
		return d[:n], "short", true
	case 8:
		if len(d) < 8 {
			return nil, "", false
		}
		d[p1%8] ^= byte(1 + p2%255)
		return d, "span", true
	}
	return nil, "", false
}

func (w *c06World) mutate(f *simnet.Frame) ([]byte, bool) {
	w.mu.Lock()
	defer w.mu.Unlock()
	from := w.nodeIdx(f.From)
	switch {
	case f.Protocol == "retrieval" && f.Dir == 0:
		if msgs, _ := c06Unframe(f.Data); len(msgs) == 1 {
			var req rpb.RequestChunk
			if req.Unmarshal(msgs[0]) == nil {
				w.rreq[f.StreamID] = boson.NewAddress(req.ChunkAddr)
			}
		}
	case f.Protocol == "retrieval" && f.Dir == 1:
		msgs, rest := c06Unframe(f.Data)
		if len(msgs) != 1 || rest != nil {
			return f.Data, false
		}
		var d rpb.Delivery
		if d.Unmarshal(msgs[0]) != nil {
			return f.Data, false
		}
		// what an honest node delivers must itself be valid for the requested address
		if want, ok := w.rreq[f.StreamID]; ok {
			if v, why := c06ValidChunk(want, d.Data); !v {
				w.r.Violate("invalid-delivered", "node %d delivered for request %s: %s", from, want, why)
			}
			w.r.Count("probe_delivery_checked")
		}
		fid, known := w.chunkOf[w.rreq[f.StreamID].String()]
		if !known {
			return f.Data, false
		}
		n := w.dcount[[2]int64{int64(from), fid}]
		w.dcount[[2]int64{int64(from), fid}] = n + 1
		for i, ft := range w.faults {
			if ft.K != "dmut" || w.fired[i] || ft.Arg(0) != int64(from) || ft.Arg(1) != fid || ft.Arg(2) != n {
				continue
			}
			ft = gosim.Op{K: ft.K, A: append([]int64{ft.Arg(0)}, ft.A[2:]...)}
			kind := ft.Arg(2)
			var out []byte
			var name string
			switch kind {
			case 9:
				out, name = w.randBytes(1+int(c06Abs(ft.Arg(3))%200)), "garbage"
			case 10:
				out, name = nil, "drop"
			default:
				nd, nm, ok := w.alterData(kind, ft.Arg(3), ft.Arg(4), d.Data)
				if !ok {
					continue
				}
				b, _ := (&rpb.Delivery{Data: nd}).Marshal()
				out, name = c06Frame(b), nm
			}
			w.fired[i] = true
			w.anyFault = true
			w.mutated[f.StreamID] = true
			w.r.Count("fault_delivery_" + name)
			w.r.Logf("fault: delivery #%d of file %d from node %d to node %d (chunk %s, %d bytes): %s", n, fid, from, w.nodeIdx(f.To), w.rreq[f.StreamID], len(d.Data), name)
			return out, false
		}
	case f.Protocol == "chunkinfo" && f.Stream == "chunkpyramid" && f.Dir == 0:
		if msgs, _ := c06Unframe(f.Data); len(msgs) == 1 {
			var req cipb.ChunkPyramidReq
			if req.Unmarshal(msgs[0]) == nil {
				w.preq[f.StreamID] = req.RootCid
			}
		}
	case f.Protocol == "chunkinfo" && f.Stream == "chunkpyramid" && f.Dir == 1:
		msgs, rest := c06Unframe(f.Data)
		if len(msgs) != 1 || rest != nil {
			return f.Data, false
		}
		var e cipb.ChunkPyramidResp
		if e.Unmarshal(msgs[0]) != nil {
			return f.Data, false
		}
		ps := w.pstreams[f.StreamID]
		if ps == nil {
			fid, known := w.rootOf[boson.NewAddress(w.preq[f.StreamID]).String()]
			if !known {
				fid = -1
			}
			ps = &c06PStream{file: fid, idx: w.pcount[[2]int64{int64(from), fid}], root: w.preq[f.StreamID]}
			w.pcount[[2]int64{int64(from), fid}]++
			w.pstreams[f.StreamID] = ps
		}
		if e.Ok || ps.file < 0 {
			return f.Data, false
		}
		ei := ps.entry
		ps.entry++
		w.r.Count("probe_pyramid_entries")
		full := len(e.Chunk) == c06MaxData+c06SpanSize
		if full {
			w.r.Count("probe_pyramid_full_entry")
		}
		for i, ft := range w.faults {
			if ft.K != "pmut" || w.fired[i] || ft.Arg(0) != int64(from) || ft.Arg(1) != ps.file || ft.Arg(2) != ps.idx {
				continue
			}
			ft = gosim.Op{K: ft.K, A: append([]int64{ft.Arg(0)}, ft.A[2:]...)}
			switch ft.Arg(2) {
			case 0:
				if ft.Arg(3) != ei {
					continue
				}
			case 1:
				if !full || ps.fullHit {
					continue
				}
			case 2:
				if !bytes.Equal(e.Hash, ps.root) {
					continue
				}
			default:
				continue
			}
			kind, p1, p2 := ft.Arg(4), ft.Arg(5), ft.Arg(6)
			enc := func(es ...*cipb.ChunkPyramidResp) []byte {
				var out []byte
				for _, x := range es {
					b, _ := x.Marshal()
					out = append(out, c06Frame(b)...)
				}
				return out
			}
			var out []byte
			var name string
			switch {
			case kind <= 8:
				nd, nm, ok := w.alterData(kind, p1, p2, e.Chunk)
				if !ok {
					continue
				}
				out, name = enc(&cipb.ChunkPyramidResp{Hash: e.Hash, Chunk: nd}), nm
			case kind == 9: // entry under the hash of another valid chunk
				oa, _, ok := w.otherValid(e.Chunk, p1)
				if !ok {
					continue
				}
				out, name = enc(&cipb.ChunkPyramidResp{Hash: oa.Bytes(), Chunk: e.Chunk}), "wrong-hash"
			case kind == 10:
				out, name = []byte{}, "drop-entry"
			case kind == 11:
				out, name = enc(&e, &e), "dup-entry"
			case kind == 12: // extra valid entry that is not part of the tree
				oa, od, ok := w.otherValid(e.Chunk, p1)
				if !ok {
					continue
				}
				out, name = enc(&cipb.ChunkPyramidResp{Hash: oa.Bytes(), Chunk: od}, &e), "extra-valid"
			case kind == 13: // extra bogus entry
				out, name = enc(&cipb.ChunkPyramidResp{Hash: w.randBytes(32), Chunk: w.randBytes(8 + int(c06Abs(p1)%300))}, &e), "extra-bogus"
			case kind == 14: // same hash again with altered bytes (the later one wins in a map)
				nd, _, ok := w.alterData(c06Abs(p2)%5, p1, p2, e.Chunk)
				if !ok {
					continue
				}
				out, name = enc(&e, &cipb.ChunkPyramidResp{Hash: e.Hash, Chunk: nd}), "dup-altered"
			case kind == 15:
				out, name = enc(&cipb.ChunkPyramidResp{Ok: true}), "early-ok"
			case kind == 16:
				out, name = enc(&cipb.ChunkPyramidResp{Hash: e.Hash[:int(c06Abs(p1))%len(e.Hash)], Chunk: e.Chunk}), "short-hash"
			case kind == 17:
				out, name = enc(&cipb.ChunkPyramidResp{Hash: w.randBytes(32), Chunk: e.Chunk}), "random-hash"
			default:
				continue
			}
			if ft.Arg(2) == 1 {
				ps.fullHit = true
			}
			w.fired[i] = true
			w.anyFault = true
			w.mutated[f.StreamID] = true
			w.r.Count("fault_pyramid_" + name)
			if full {
				w.r.Count("probe_full_entry_altered")
			}
			w.r.Logf("fault: pyramid stream #%d of file %d from node %d to node %d, entry %d (%x.., %d bytes, root=%v): %s", ps.idx, ps.file, from, w.nodeIdx(f.To), ei, e.Hash[:4], len(e.Chunk), bytes.Equal(e.Hash, ps.root), name)
			if len(out) == 0 {
				return nil, false
			}
			return out, false
		}
	}
	return f.Data, false
}

// --- operations ---

func (w *c06World) file(id int64) *c06File {
	w.mu.Lock()
	defer w.mu.Unlock()
	return w.files[id]
}

func (w *c06World) ensureUploaded(f *c06File) {
	w.upMu.Lock()
	defer w.upMu.Unlock()
	if f.hasRef {
		return
	}
	p := w.nodes[1]
	p.Rec.start()
	ref, err := p.Upload(f.name, f.content, false)
	chunks := p.Rec.stop()
	if err != nil {
		w.r.Violate("setup-upload", "provider upload of file %d (%d bytes) failed: %v", f.id, len(f.content), err)
	}
	w.mu.Lock()
	f.ref, f.hasRef, f.chunks = ref, true, chunks
	w.rootOf[ref.String()] = f.id
	for _, c := range chunks {
		w.chunkOf[c] = f.id
	}
	w.mu.Unlock()
	w.c.Oracle.set(ref, p.Addr)
	w.r.Logf("provider uploaded f=%d size=%d ref=%s chunks=%d", f.id, len(f.content), ref, len(chunks))
}

func (w *c06World) faulty() bool {
	w.mu.Lock()
	defer w.mu.Unlock()
	return w.anyFault
}

func (w *c06World) exec(phase int, o gosim.Op) {
	done := make(chan struct{})
	go func() {
		defer close(done)
		w.exec1(o)
	}()
	select {
	case <-done:
	case <-time.After(180 * time.Second):
		w.r.Logf("op %s abandoned after 180 simulated seconds", o)
		w.r.Count("op_abandoned")
		if len(w.r.Plan.Faults) == 0 {
			w.r.Violate("honest-hang", "without any fault, %s did not return within 180 simulated seconds", o)
		}
	}
}

func (w *c06World) exec1(o gosim.Op) {
	r := w.r
	n0 := w.nodes[0]
	switch o.K {
	case "dl":
		f := w.file(o.Arg(1))
		if f == nil {
			return
		}
		w.ensureUploaded(f)
		code, body := n0.Download(f.ref, f.name)
		r.Logf("dl f=%d -> %d len=%d", f.id, code, len(body))
		if code == 200 {
			if len(body) > len(f.content) || !bytes.Equal(body, f.content[:len(body)]) {
				r.Violate("wrong-content", "download of file %d returned %d bytes that are not a prefix of the %d uploaded bytes", f.id, len(body), len(f.content))
			}
			if len(body) == len(f.content) {
				r.Count("probe_download_ok")
			}
		}
		if len(r.Plan.Faults) == 0 && (code != 200 || len(body) != len(f.content)) {
			r.Violate("honest-rejected", "no fault injected, yet the download of file %d (%d bytes) returned status %d with %d bytes", f.id, len(f.content), code, len(body))
		}
	case "get":
		f := w.file(o.Arg(1))
		if f == nil {
			return
		}
		w.ensureUploaded(f)
		if len(f.chunks) == 0 {
			return
		}
		addr := boson.MustParseHexAddress(f.chunks[int(c06Abs(o.Arg(2)))%len(f.chunks)])
		ctx := nkRootCtx(f.ref)
		if o.Arg(3) == 1 {
			ctx = sctx.SetTargets(ctx, w.nodes[1].Addr.String())
		}
		ctx, cancel := context.WithTimeout(ctx, 60*time.Second)
		ch, err := n0.NS.Get(ctx, storage.ModeGetRequest, addr)
		cancel()
		r.Logf("get f=%d chunk=%s direct=%d err=%v", f.id, addr.String()[:8], o.Arg(3), err)
		if err == nil {
			w.checkChunk("invalid-get", "node 0 netstore.Get result", addr, ch.Data())
			r.Count("probe_get_ok")
		}
	case "del":
		f := w.file(o.Arg(1))
		if f == nil || !f.hasRef {
			return
		}
		code := n0.Delete(f.ref)
		r.Logf("del f=%d -> %d", f.id, code)
	case "sleep":
		time.Sleep(time.Duration(c06Abs(o.Arg(1))%600000) * time.Millisecond)
	}
}

func (w *c06World) scanStores(when string) {
	for _, n := range w.nodes {
		d, err := n.LS.VerifDump()
		if err != nil {
			w.r.Violate("dump", "node %d: %v", n.idx, err)
		}
		for _, e := range d.Data {
			w.checkChunk("invalid-stored", fmt.Sprintf("%s scan of node %d's store", when, n.idx), boson.NewAddress(e.Address), e.Data)
			w.r.Count("probe_stored_checked")
		}
	}
}

func c06Exec(r *gosim.Run) {
	w := &c06World{r: r, files: map[int64]*c06File{}, pool: map[string][]byte{},
		dcount: map[[2]int64]int64{}, pcount: map[[2]int64]int64{}, chunkOf: map[string]int64{}, rootOf: map[string]int64{}, pstreams: map[int64]*c06PStream{},
		preq: map[int64][]byte{}, rreq: map[int64]boson.Address{}, mutated: map[int64]bool{},
		faults: r.Plan.Faults, fired: make([]bool, len(r.Plan.Faults)),
		rng: rand.New(rand.NewSource(int64(r.Plan.Seed) ^ 0xc06))}
	w.c = nkNewCluster(r)
	w.topo = r.Plan.P("topo", 0)
	nNodes := 2
	if w.topo > 0 {
		nNodes = 3
	}
	addrOf := func(i int) boson.Address { return nkAddr(i) }
	for i := 0; i < nNodes; i++ {
		i := i
		o := nkOpts{Capacity: uint64(r.Plan.P("capacity", 500))}
		o.WrapStorer = func(n *nkNode, s storage.Storer) storage.Storer { return &c06Storer{Storer: s, w: w, n: n} }
		o.WrapRetrieval = func(n *nkNode, x retrieval.Interface) retrieval.Interface {
			return &c06Retr{Interface: x, w: w, n: n}
		}
		o.Route = func(n *nkNode) routetab.RouteTab {
			return &c06Route{nd: n.Net, via: func(dest boson.Address) (boson.Address, bool) {
				// the relay (node 2) is the way to everybody who is not a neighbour
				if nNodes == 3 && i != 2 && !dest.Equal(addrOf(2)) {
					return addrOf(2), true
				}
				return boson.ZeroAddress, false
			}}
		}
		n, err := w.c.AddNode(o)
		if err != nil {
			r.Violate("setup", "%v", err)
		}
		w.nodes = append(w.nodes, n)
	}
	link := func(a, b int) {
		if err := w.c.Net.Link(w.nodes[a].Net, w.nodes[b].Net); err != nil {
			r.Violate("setup", "link %d-%d: %v", a, b, err)
		}
	}
	switch w.topo {
	case 0:
		link(0, 1)
	case 1: // line: 0 - 2 - 1
		link(0, 2)
		link(2, 1)
	default: // triangle
		link(0, 1)
		link(0, 2)
		link(2, 1)
	}
	w.c.Net.Mutate = w.mutate

	for _, o := range r.Plan.Ops {
		if o.K == "file" {
			size := c06Sizes[int(c06Abs(o.Arg(1)))%len(c06Sizes)]
			w.files[o.Arg(0)] = &c06File{id: o.Arg(0), name: fmt.Sprintf("f%d.bin", o.Arg(0)), content: c06Content(o.Arg(0), size)}
		}
	}
	var ops []gosim.Op
	for _, o := range r.Plan.Ops {
		if o.K != "file" {
			ops = append(ops, o)
		}
	}
	r.RunPhases(ops, w.exec, func(phase int) {
		w.scanStores(fmt.Sprintf("phase-%d", phase))
	})
	time.Sleep(40 * time.Second)
	gosim.Idle()
	w.scanStores("final")
	fired := 0
	for _, b := range w.fired {
		if b {
			fired++
		}
	}
	r.Add("c06_faults_fired", int64(fired))
	ids := make([]int64, 0)
	for id := range w.files {
		ids = append(ids, id)
	}
	sort.Slice(ids, func(i, j int) bool { return ids[i] < ids[j] })
	r.Logf("end: files=%d faults fired %d/%d", len(ids), fired, len(w.faults))
}

func c06Gen(rng *rand.Rand, tier string) *gosim.Plan {
	p := &gosim.Plan{Params: map[string]int64{}}
	p.Params["topo"] = int64(rng.Intn(3))
	p.Params["capacity"] = 500
	nFiles := 2 + rng.Intn(3)
	if tier == "thorough" {
		nFiles = 2 + rng.Intn(5)
	}
	// size classes: small single-chunk, exactly full single chunk, multi-chunk
	small := []int64{0, 1, 2, 3, 4}
	multi := []int64{6, 7, 8, 9}
	sizeOf := map[int64]int64{}
	for f := 0; f < nFiles; f++ {
		var s int64
		switch x := rng.Intn(10); {
		case x < 3 || (f == 0 && x < 5):
			s = 5 // exactly 256 KiB
		case x < 6:
			s = small[rng.Intn(len(small))]
		default:
			s = multi[rng.Intn(len(multi))]
		}
		sizeOf[int64(f)] = s
		p.Ops = append(p.Ops, gosim.Op{K: "file", A: []int64{int64(f), s}})
	}
	nCli := 1 + rng.Intn(2)
	nPhase := 1 + rng.Intn(3)
	for ph := 0; ph < nPhase; ph++ {
		n := 1 + rng.Intn(4)
		for i := 0; i < n; i++ {
			c := int64(rng.Intn(nCli))
			f := int64(rng.Intn(nFiles))
			switch x := rng.Intn(10); {
			case x < 6:
				p.Ops = append(p.Ops, gosim.Op{K: "dl", A: []int64{c, f}})
			case x < 8:
				p.Ops = append(p.Ops, gosim.Op{K: "get", A: []int64{c, f, int64(rng.Intn(8)), int64(rng.Intn(2))}})
			case x < 9:
				p.Ops = append(p.Ops, gosim.Op{K: "del", A: []int64{c, f}})
			default:
				p.Ops = append(p.Ops, gosim.Op{K: "sleep", A: []int64{c, int64(rng.Intn(20000))}})
			}
		}
		p.Ops = append(p.Ops, gosim.Op{K: "barrier"})
	}
	if rng.Intn(10) < 7 {
		nf := 1 + rng.Intn(4)
		if tier == "thorough" {
			nf = 1 + rng.Intn(8)
		}
		froms := []int64{1}
		if p.Params["topo"] > 0 {
			froms = []int64{1, 1, 2}
		}
		small3 := func() int64 { // small index, biased to the first streams / frames
			switch x := rng.Intn(20); {
			case x < 11:
				return 0
			case x < 16:
				return 1
			default:
				return int64(2 + rng.Intn(3))
			}
		}
		for i := 0; i < nf; i++ {
			from := froms[rng.Intn(len(froms))]
			if rng.Intn(2) == 0 {
				p.Faults = append(p.Faults, gosim.Op{K: "dmut", A: []int64{from, int64(rng.Intn(nFiles)), small3(), int64(rng.Intn(11)), rng.Int63n(1 << 40), rng.Int63n(1 << 20)}})
			} else {
				sel := int64(0)
				switch x := rng.Intn(10); {
				case x < 4:
					sel = 1
				case x < 6:
					sel = 2
				}
				kind := int64(rng.Intn(18))
				if rng.Intn(10) < 4 {
					kind = int64(2 + rng.Intn(3)) // the extension family
				}
				p.Faults = append(p.Faults, gosim.Op{K: "pmut", A: []int64{from, int64(rng.Intn(nFiles)), small3(), sel, int64(rng.Intn(4)), kind, rng.Int63n(1 << 40), rng.Int63n(1 << 20)}})
			}
		}
	}
	return p
}

func init() {
	gosim.Register(&gosim.World{
		Prop: "C06", Gen: c06Gen, Exec: c06Exec,
		Native: []string{"github.com/gauss-project/aurorafs/pkg/bmt."},
		Real: []string{"pkg/retrieval (client retrieveChunk, handler, forwarding)", "pkg/chunkinfo (Init, pyramid request/response, discovery)",
			"pkg/traversal (GetPyramid, GetChunkHashes with a supplied pyramid)", "pkg/netstore", "pkg/localstore (leveldb in memory)",
			"pkg/api (upload, download, delete)", "pkg/file/joiner, pkg/manifest", "pkg/cac, pkg/bmt, pkg/bmtpool", "pkg/p2p/protobuf"},
		Stubs: []string{"simnet (libp2p host: streams, frame mutation hook)", "route table stub (neighbours + one relay)", "accounting (accepts all)", "chain resolver (scripted: provider announces the root)"},
	})
}
