package worlds

import (
	"bytes"
	"encoding/binary"
	"errors"
	"fmt"
	"math/rand"
	"os"
	"sort"
	"strings"
	"sync"
	"time"

	"github.com/gauss-project/aurorafs/pkg/shed"
	"github.com/gauss-project/aurorafs/pkg/shed/driver"

	"verifharness/gosim"
)

// C19 — Indexed storage behaves as isolated sorted maps.
//
// One shed.DB with 2-4 indexes of different key encodings, two uint64 fields, one
// uint64 vector and two string fields, driven by a sequential history and
// compared after every step with one flat reference map (namespaced keys).
//
// Params
//   backend   0 leveldb driver on MemStorage (path ""), 1 leveldb driver on a
//             private temp directory, 2 simdisk (driver "sim", fault plan in Faults)
//   nidx      number of indexes (2..4); order = rotation of the kind catalogue
//   rot       rotation; after every reopen the indexes are re-created in another
//             order (names decide the prefix byte, not the order)
//   wbuf      0 default leveldb options, 1 tiny write buffer (memtable rotation)
//   snap      simdisk runs: op number at which model and write-log length are
//             remembered; at the end a disk rebuilt from that log prefix must
//             hold exactly that state (crash-point replay, as C14 uses it)
//
// Ops (i = index slot, (a,n) = key alphabet indexes, v = value alphabet index,
// b = batch slot 0/1)
//   put[i,a,n,v] del[i,a,n] get[i,a,n] has[i,a,n] hasmulti[i,a1,n1,a2,n2,...]
//   fill[i,a1,n1,...] count[i] countfrom[i,a,n] first[i,a,n,cut] last[i,a,n,cut]
//   iter[i, pa,pn,pcut, sa,sn, skip, rev, stopAt, errAt]   (pcut<0: no prefix, sa<0: no StartFrom)
//   nest[i, pa,pn,pcut, qa,qn,qcut]    First/Last with prefix q from inside an Iterate(prefix p) callback
//   par[i, 3x(pa,pn,pcut)]             three goroutines read the index concurrently (Iterate fwd/rev, First/Last)
//   bput[b,i,a,n,v] bdel[b,i,a,n] bcommit[b] bdrop[b]
//   fput[f,v] fget[f] finc[f] fdec[f]   bfput[b,f,v] bfinc[b,f] bfdec[b,f]
//   vput[x,v] vget[x] vinc[x] vdec[x]   bvput[b,x,v] bvinc[b,x] bvdec[b,x]
//   sput[s,v] sget[s] bsput[b,s,v]
//   reopen
// Faults (simdisk only): fail[k] full[from,len] crash[k,keep] delay[ms]; write
// indexes count from the end of the initial schema set-up.

var c19Addrs = [][]byte{
	{}, {0}, {2}, {3}, {3, 0}, {3, 0xFF}, {4}, {0xFF}, {0xFF, 0xFF}, {0xFF, 0xFF, 0xFF}, {0xFF, 0},
	{'a'}, {'a', 'b'}, {'a', 'b', 'c'}, {'a', 0xFF}, {0xFE, 0xFF},
}

var c19Nums = []uint64{0, 1, 2, 255, 256, 1 << 63, 1<<64 - 1}

var c19FieldVals = []uint64{0, 1, 2, 255, 1 << 32, 1 << 63}
var c19VecIdx = []uint64{0, 1, 255, 1 << 63, 1<<64 - 1}
var c19Strs = []string{"", "x", "hello", "\x00\xff\x00", "a somewhat longer string value, with spaces"}

func c19Data(v int) []byte {
	switch v % 5 {
	case 0:
		return []byte{}
	case 1:
		return []byte("x")
	case 2:
		return []byte("twenty bytes of data")
	case 3:
		return []byte{0xFF, 0, 0xFF}
	}
	b := make([]byte, 5000)
	for i := range b {
		b[i] = byte(i*7 + v)
	}
	return b
}

func c19BE(x uint64) []byte {
	b := make([]byte, 8)
	binary.BigEndian.PutUint64(b, x)
	return b
}

// c19Kind is one key/value encoding (these functions are the index definition
// handed to shed, i.e. inputs, as a user of the package would write them).
type c19Kind struct {
	name   string
	encKey func(shed.Item) ([]byte, error)
	decKey func([]byte) (shed.Item, error)
	encVal func(shed.Item) ([]byte, error)
	decVal func(shed.Item, []byte) (shed.Item, error)
	item   func(a, n, v int) shed.Item
}

func c19Pos(x int64, n int) int {
	i := int(x % int64(n))
	if i < 0 {
		i += n
	}
	return i
}

var c19Kinds = []*c19Kind{
	{ // address -> data (retrievalDataIndex-like), variable-length keys
		name:   "addr",
		encKey: func(i shed.Item) ([]byte, error) { return append([]byte{}, i.Address...), nil },
		decKey: func(k []byte) (shed.Item, error) { return shed.Item{Address: k}, nil },
		encVal: func(i shed.Item) ([]byte, error) { return append([]byte{}, i.Data...), nil },
		decVal: func(_ shed.Item, v []byte) (shed.Item, error) { return shed.Item{Data: v}, nil },
		item: func(a, n, v int) shed.Item {
			return shed.Item{Address: c19Addrs[a], Data: c19Data(v)}
		},
	},
	{ // binID|address -> store timestamp (pullIndex-like)
		name: "bin",
		encKey: func(i shed.Item) ([]byte, error) {
			return append(c19BE(i.BinID), i.Address...), nil
		},
		decKey: func(k []byte) (shed.Item, error) {
			if len(k) < 8 {
				return shed.Item{}, fmt.Errorf("c19 bin key too short: %x", k)
			}
			return shed.Item{BinID: binary.BigEndian.Uint64(k[:8]), Address: k[8:]}, nil
		},
		encVal: func(i shed.Item) ([]byte, error) { return c19BE(uint64(i.StoreTimestamp)), nil },
		decVal: func(_ shed.Item, v []byte) (shed.Item, error) {
			if len(v) != 8 {
				return shed.Item{}, fmt.Errorf("c19 bin value length %d", len(v))
			}
			return shed.Item{StoreTimestamp: int64(binary.BigEndian.Uint64(v))}, nil
		},
		item: func(a, n, v int) shed.Item {
			return shed.Item{Address: c19Addrs[a], BinID: c19Nums[n], StoreTimestamp: int64(1000 + v)}
		},
	},
	{ // accessTimestamp|address -> nil (gcIndex-like)
		name: "gc",
		encKey: func(i shed.Item) ([]byte, error) {
			return append(c19BE(uint64(i.AccessTimestamp)), i.Address...), nil
		},
		decKey: func(k []byte) (shed.Item, error) {
			if len(k) < 8 {
				return shed.Item{}, fmt.Errorf("c19 gc key too short: %x", k)
			}
			return shed.Item{AccessTimestamp: int64(binary.BigEndian.Uint64(k[:8])), Address: k[8:]}, nil
		},
		encVal: func(shed.Item) ([]byte, error) { return nil, nil },
		decVal: func(_ shed.Item, v []byte) (shed.Item, error) {
			if len(v) != 0 {
				return shed.Item{}, fmt.Errorf("c19 gc value not empty: %x", v)
			}
			return shed.Item{}, nil
		},
		item: func(a, n, v int) shed.Item {
			return shed.Item{Address: c19Addrs[a], AccessTimestamp: int64(c19Nums[n])}
		},
	},
	{ // tag byte|address -> pin counter; tag bytes collide with index prefix bytes
		name: "tag",
		encKey: func(i shed.Item) ([]byte, error) {
			return append([]byte{byte(i.Tag)}, i.Address...), nil
		},
		decKey: func(k []byte) (shed.Item, error) {
			if len(k) < 1 {
				return shed.Item{}, fmt.Errorf("c19 tag key empty")
			}
			return shed.Item{Tag: uint32(k[0]), Address: k[1:]}, nil
		},
		encVal: func(i shed.Item) ([]byte, error) { return c19BE(i.PinCounter), nil },
		decVal: func(_ shed.Item, v []byte) (shed.Item, error) {
			if len(v) != 8 {
				return shed.Item{}, fmt.Errorf("c19 tag value length %d", len(v))
			}
			return shed.Item{PinCounter: binary.BigEndian.Uint64(v)}, nil
		},
		item: func(a, n, v int) shed.Item {
			return shed.Item{Address: c19Addrs[a], Tag: uint32(c19Nums[n] & 0xFF), PinCounter: uint64(v) * 3}
		},
	},
}

func (k *c19Kind) key(a, n int64) shed.Item {
	return k.item(c19Pos(a, len(c19Addrs)), c19Pos(n, len(c19Nums)), 0)
}
func (k *c19Kind) full(a, n, v int64) shed.Item {
	return k.item(c19Pos(a, len(c19Addrs)), c19Pos(n, len(c19Nums)), c19Pos(v, 1000))
}
func (k *c19Kind) raw(it shed.Item) []byte { b, _ := k.encKey(it); return b }
func (k *c19Kind) rawVal(it shed.Item) []byte {
	b, _ := k.encVal(it)
	return b
}

// ---------------------------------------------------------------- generation

func c19Gen(rng *rand.Rand, tier string) *gosim.Plan {
	p := &gosim.Plan{Params: map[string]int64{}}
	backend := gosim.Pick(rng, 0, 1, 1, 2, 2, 2)
	p.Params["backend"] = backend
	p.Params["nidx"] = int64(2 + rng.Intn(3))
	p.Params["rot"] = int64(rng.Intn(4))
	p.Params["wbuf"] = int64(gosim.Pick(rng, 0, 0, 1))
	nidx := int(p.Params["nidx"])
	n := 15 + rng.Intn(70)
	if tier == "thorough" {
		n = 15 + rng.Intn(400)
	}
	p.Params["snap"] = int64(rng.Intn(n)) // simdisk: state after this many ops is re-created from the write-log prefix at the end
	// dense working set
	na := 3 + rng.Intn(6)
	offA := rng.Intn(len(c19Addrs))
	if rng.Intn(4) == 0 {
		na = len(c19Addrs)
	}
	nn := 1 + rng.Intn(3)
	offN := rng.Intn(len(c19Nums))
	A := func() int64 { return int64((offA + rng.Intn(na)) % len(c19Addrs)) }
	N := func() int64 { return int64((offN + rng.Intn(nn)) % len(c19Nums)) }
	I := func() int64 { return int64(rng.Intn(nidx)) }
	V := func() int64 { return int64(rng.Intn(12)) }
	B := func() int64 { return int64(rng.Intn(2)) }
	cut := func() int64 { return int64(gosim.Pick(rng, 0, 1, 1, 2, 3, 8, 8, 9, 10, 20)) }
	writes := 0
	add := func(k string, a ...int64) { p.Ops = append(p.Ops, gosim.Op{K: k, A: a}) }
	for i := 0; i < n; i++ {
		switch x := rng.Intn(100); {
		case x < 20:
			add("put", I(), A(), N(), V())
			writes++
		case x < 26:
			add("del", I(), A(), N())
			writes++
		case x < 29:
			add("get", I(), A(), N())
		case x < 31:
			add("has", I(), A(), N())
		case x < 33:
			add("hasmulti", I(), A(), N(), A(), N(), A(), N())
		case x < 36:
			if rng.Intn(2) == 0 {
				add("fill", I(), A(), N(), A(), N())
			} else {
				add("fill", I(), A(), N())
			}
		case x < 37:
			add("count", I())
		case x < 40:
			add("countfrom", I(), A(), N())
		case x < 44:
			add("first", I(), A(), N(), cut())
		case x < 49:
			add("last", I(), A(), N(), cut())
		case x < 66:
			pa, pn, pc := A(), N(), cut()
			if rng.Intn(3) == 0 {
				pc = -1
			}
			sa, sn := int64(-1), int64(0)
			skip := int64(0)
			if rng.Intn(2) == 0 {
				sa, sn = A(), N()
				if pc >= 0 && rng.Intn(3) > 0 {
					sa, sn = pa, pn // start key shares the prefix
				}
				skip = int64(rng.Intn(2))
			} else if rng.Intn(8) == 0 {
				skip = 1
			}
			rev := int64(rng.Intn(2))
			stop, errAt := int64(-1), int64(-1)
			switch rng.Intn(4) {
			case 0:
				stop = int64(rng.Intn(4))
			case 1:
				errAt = int64(rng.Intn(4))
			}
			add("iter", I(), pa, pn, pc, sa, sn, skip, rev, stop, errAt)
		case x < 68:
			if rng.Intn(2) == 0 {
				add("nest", I(), A(), N(), cut(), A(), N(), cut())
			} else {
				add("par", I(), A(), N(), cut(), A(), N(), cut(), A(), N(), cut())
			}
		case x < 77:
			add("bput", B(), I(), A(), N(), V())
		case x < 80:
			add("bdel", B(), I(), A(), N())
		case x < 84:
			add("bcommit", B())
			writes++
		case x < 85:
			add("bdrop", B())
		case x < 93:
			f := []string{"fput", "fget", "finc", "fdec", "vput", "vget", "vinc", "vdec", "sput", "sget"}[rng.Intn(10)]
			add(f, int64(rng.Intn(5)), int64(rng.Intn(6)))
			writes++
		case x < 97:
			f := []string{"bfput", "bfinc", "bfdec", "bvput", "bvinc", "bvdec", "bsput"}[rng.Intn(7)]
			add(f, B(), int64(rng.Intn(5)), int64(rng.Intn(6)))
		default:
			add("reopen")
			writes += 5
		}
	}
	if backend == 2 && rng.Intn(10) < 7 {
		w := writes
		if w < 4 {
			w = 4
		}
		for _, k := range []string{"fail", "full", "crash", "delay"} {
			if rng.Intn(2) == 0 {
				continue
			}
			switch k {
			case "fail":
				for j := 0; j < 1+rng.Intn(3); j++ {
					p.Faults = append(p.Faults, gosim.Op{K: "fail", A: []int64{int64(rng.Intn(w))}})
				}
			case "full":
				p.Faults = append(p.Faults, gosim.Op{K: "full", A: []int64{int64(rng.Intn(w)), int64(1 + rng.Intn(6))}})
			case "crash":
				p.Faults = append(p.Faults, gosim.Op{K: "crash", A: []int64{int64(rng.Intn(w)), int64(rng.Intn(2))}})
			case "delay":
				p.Faults = append(p.Faults, gosim.Op{K: "delay", A: []int64{int64(1 + rng.Intn(5000))}})
			}
		}
	}
	return p
}

// ---------------------------------------------------------------- world

type c19Pend struct {
	key string
	del bool
	val string
}

type c19Batch struct {
	b    driver.Batching
	pend []c19Pend
}

type c19Idx struct {
	kind *c19Kind
	h    shed.Index
	ns   string // model namespace
}

type c19World struct {
	r       *gosim.Run
	backend int64
	path    string // temp dir or simdisk id
	drv     string
	db      *shed.DB
	idx     []*c19Idx // slot -> index
	f64     [2]shed.Uint64Field
	vec     shed.Uint64Vector
	str     [2]shed.StringField
	model   map[string]string
	batches [2]*c19Batch
	opens   int
	rot     int
	keep    bool // crash variant B planned

	ctx      string // non-empty: class for mismatches of re-entrant / concurrent reads
	dmu      sync.Mutex
	deferred *gosim.Violation
}

var c19F64Names = []string{"f", "fa"}
var c19StrNames = []string{"s", "name"}

func (w *c19World) cleanup() {
	if w.backend == 1 && w.path != "" {
		_ = os.RemoveAll(w.path)
		w.path = ""
	}
}

// violate ends the run — except for two kinds of mismatch that are reported when
// the run ends, so that the rest of the history is still checked and every other
// class takes precedence: mismatches of Last, and mismatches of reads issued from
// inside an iteration callback / concurrently with other reads (w.ctx).
func (w *c19World) violate(class, format string, a ...interface{}) {
	if w.ctx != "" || class == "last-mismatch" {
		if w.ctx != "" {
			class = w.ctx
		}
		msg := fmt.Sprintf(format, a...)
		w.r.Logf("DEFERRED %s: %s", class, msg)
		w.dmu.Lock()
		if w.deferred == nil {
			w.deferred = &gosim.Violation{Class: class, Msg: msg}
		}
		w.dmu.Unlock()
		return
	}
	w.cleanup()
	w.r.Violate(class, format, a...)
}

func (w *c19World) crashed() bool {
	return w.backend == 2 && simdiskStats(w.path).Crashed
}

// open (re)creates the DB handle and all indexes/fields. Returns false if the
// simulated disk crashed during set-up (the caller retries).
func (w *c19World) open() bool {
	var opts *shed.Options
	if w.drv != "" {
		opts = &shed.Options{Driver: w.drv}
	}
	db, err := shed.NewDB(w.path, opts)
	if err != nil {
		if w.crashed() {
			return false
		}
		w.violate("open-failed", "shed.NewDB: %v", err)
	}
	w.db = db
	w.opens++
	nidx := len(w.idx)
	// indexes are created in a different order at every open
	order := make([]int, nidx)
	for i := range order {
		order[i] = (i + w.opens - 1) % nidx
	}
	for _, slot := range order {
		ix := w.idx[slot]
		k := ix.kind
		h, err := db.NewIndex("index-"+k.name, shed.IndexFuncs{EncodeKey: k.encKey, DecodeKey: k.decKey, EncodeValue: k.encVal, DecodeValue: k.decVal})
		if err != nil {
			if w.crashed() {
				return false
			}
			w.violate("open-failed", "NewIndex(%s): %v", k.name, err)
		}
		ix.h = h
	}
	for i, name := range c19F64Names {
		f, err := db.NewUint64Field(name)
		if err != nil {
			if w.crashed() {
				return false
			}
			w.violate("open-failed", "NewUint64Field(%s): %v", name, err)
		}
		w.f64[i] = f
	}
	v, err := db.NewUint64Vector("v")
	if err != nil {
		if w.crashed() {
			return false
		}
		w.violate("open-failed", "NewUint64Vector: %v", err)
	}
	w.vec = v
	for i, name := range c19StrNames {
		f, err := db.NewStringField(name)
		if err != nil {
			if w.crashed() {
				return false
			}
			w.violate("open-failed", "NewStringField(%s): %v", name, err)
		}
		w.str[i] = f
	}
	return true
}

func (w *c19World) reopen(why string) {
	w.r.Logf("reopen (%s)", why)
	w.batches = [2]*c19Batch{}
	for try := 0; ; try++ {
		if w.db != nil {
			err := w.db.Close()
			if err != nil && !w.crashed() {
				w.violate("close-failed", "DB.Close: %v", err)
			}
			w.db = nil
		}
		if w.open() {
			break
		}
		w.r.Logf("disk crashed during set-up; restarting again")
		if try > 3 {
			w.violate("harness-reopen", "cannot reopen")
		}
	}
	w.checkAll("after reopen: " + why)
}

// ---- model access ----

func (w *c19World) keysOf(ix *c19Idx) [][]byte {
	var ks []string
	for k := range w.model {
		if strings.HasPrefix(k, ix.ns) {
			ks = append(ks, k[len(ix.ns):])
		}
	}
	sort.Strings(ks)
	out := make([][]byte, len(ks))
	for i, k := range ks {
		out[i] = []byte(k)
	}
	return out
}

func (w *c19World) u64(key string) uint64 {
	v, ok := w.model[key]
	if !ok {
		return 0
	}
	return binary.BigEndian.Uint64([]byte(v))
}

// checkItem: the returned item re-encodes to the given raw key and to the value
// the model holds for it.
func (w *c19World) checkItem(ix *c19Idx, what string, got shed.Item, rawKey []byte) {
	k := ix.kind
	if !bytes.Equal(k.raw(got), rawKey) {
		w.violate("item-key", "%s on index %s: item re-encodes to key %x, expected key %x", what, k.name, k.raw(got), rawKey)
	}
	mv, ok := w.model[ix.ns+string(rawKey)]
	if !ok {
		w.violate("item-ghost", "%s on index %s returned key %x which is not in the index", what, k.name, rawKey)
	}
	if !bytes.Equal(k.rawVal(got), []byte(mv)) {
		w.violate("item-value", "%s on index %s key %x: value %.40x, last written %.40x", what, k.name, rawKey, k.rawVal(got), mv)
	}
}

var c19ErrCallback = errors.New("c19: callback error")

type c19IterSpec struct {
	prefix   []byte
	hasStart bool
	start    shed.Item
	skip     bool
	rev      bool
	stopAt   int64
	errAt    int64
}

func c19Reverse(in [][]byte) [][]byte {
	out := make([][]byte, len(in))
	for i, k := range in {
		out[len(in)-1-i] = k
	}
	return out
}

// expectIter returns the sequence of raw keys a sorted map yields; strict=false
// when IterateOptions does not say what happens (see assumptions in props.py);
// alt is a second accepted sequence (nil if none).
func (w *c19World) expectIter(ix *c19Idx, s c19IterSpec) (seq [][]byte, alt [][]byte, strict bool) {
	var K [][]byte
	for _, k := range w.keysOf(ix) {
		if bytes.HasPrefix(k, s.prefix) {
			K = append(K, k)
		}
	}
	strict = true
	if !s.hasStart {
		seq = K
		if s.rev {
			seq = c19Reverse(K)
		}
		if s.skip && len(seq) > 0 && bytes.Equal(seq[0], s.prefix) {
			// SkipStartFromItem without StartFrom: nothing documented to skip
			alt = seq[1:]
		}
		return seq, alt, true
	}
	S := ix.kind.raw(s.start)
	_, present := w.model[ix.ns+string(S)]
	hasP := bytes.HasPrefix(S, s.prefix)
	if !s.rev {
		for _, k := range K {
			if bytes.Compare(k, S) >= 0 {
				seq = append(seq, k)
			}
		}
		if !hasP && bytes.Compare(S, s.prefix) < 0 {
			strict = false // start item below the prefix range
		}
	} else {
		for _, k := range K {
			if bytes.Compare(k, S) <= 0 {
				seq = append(seq, k)
			}
		}
		seq = c19Reverse(seq)
		if !present || !hasP {
			strict = false // reverse from an item that is not stored / outside the prefix
		}
	}
	if s.skip && len(seq) > 0 && bytes.Equal(seq[0], S) {
		seq = seq[1:]
	}
	return seq, nil, strict
}

func c19SeqEq(a, b [][]byte) bool {
	if len(a) != len(b) {
		return false
	}
	for i := range a {
		if !bytes.Equal(a[i], b[i]) {
			return false
		}
	}
	return true
}

func c19Hex(ks [][]byte) string {
	var sb strings.Builder
	sb.WriteByte('[')
	for i, k := range ks {
		if i > 0 {
			sb.WriteByte(' ')
		}
		fmt.Fprintf(&sb, "%x", k)
		if len(k) == 0 {
			sb.WriteString("''")
		}
	}
	sb.WriteByte(']')
	return sb.String()
}

func (w *c19World) guard(what string, f func()) {
	done := make(chan struct{})
	go func() { f(); close(done) }()
	select {
	case <-done:
	case <-time.After(time.Hour):
		w.violate("hang", "%s did not return within one simulated hour", what)
	}
}

func (w *c19World) iterate(ix *c19Idx, s c19IterSpec, log bool, inner func(n int)) {
	r := w.r
	var opts *shed.IterateOptions
	if s.prefix != nil || s.hasStart || s.skip || s.rev {
		opts = &shed.IterateOptions{Prefix: s.prefix, SkipStartFromItem: s.skip, Reverse: s.rev}
		if s.hasStart {
			st := s.start
			opts.StartFrom = &st
		}
	}
	var seen [][]byte
	var items []shed.Item
	var ret error
	w.guard("Index.Iterate", func() {
		ret = ix.h.Iterate(func(it shed.Item) (bool, error) {
			i := int64(len(seen))
			seen = append(seen, ix.kind.raw(it))
			items = append(items, it)
			if inner != nil {
				inner(int(i))
			}
			if s.errAt == i {
				return false, c19ErrCallback
			}
			if s.stopAt == i {
				return true, nil
			}
			return false, nil
		}, opts)
	})
	seq, alt, strict := w.expectIter(ix, s)
	cut := int64(-1)
	if s.stopAt >= 0 {
		cut = s.stopAt
	}
	if s.errAt >= 0 && (cut < 0 || s.errAt < cut) {
		cut = s.errAt
	}
	trim := func(x [][]byte) [][]byte {
		if cut >= 0 && cut+1 < int64(len(x)) {
			return x[:cut+1]
		}
		return x
	}
	if log {
		st := "-"
		if s.hasStart {
			st = fmt.Sprintf("%x", ix.kind.raw(s.start))
		}
		r.Logf("iter %s prefix=%x start=%s skip=%v rev=%v stop=%d err=%d -> %s ret=%v (strict=%v)", ix.kind.name, s.prefix, st, s.skip, s.rev, s.stopAt, s.errAt, c19Hex(seen), ret, strict)
	}
	desc := fmt.Sprintf("Iterate(index %s, Prefix=%x, StartFrom=%v", ix.kind.name, s.prefix, s.hasStart)
	if s.hasStart {
		desc += fmt.Sprintf(" key %x", ix.kind.raw(s.start))
	}
	desc += fmt.Sprintf(", SkipStartFromItem=%v, Reverse=%v, stopAt=%d, errAt=%d)", s.skip, s.rev, s.stopAt, s.errAt)
	// item contents
	for i, k := range seen {
		if !bytes.HasPrefix(k, s.prefix) {
			w.violate("iter-beyond-prefix", "%s visited key %x", desc, k)
		}
		w.checkItem(ix, desc, items[i], k)
	}
	if strict {
		ok := c19SeqEq(seen, trim(seq))
		if !ok && alt != nil {
			ok = c19SeqEq(seen, trim(alt))
			if ok {
				r.Count("info_skip_without_start_skipped_prefix_key")
			}
		}
		if !ok {
			class := "iter-mismatch"
			if s.rev {
				class = "iter-reverse-mismatch"
			}
			if cut >= 0 && int64(len(seen)) > cut+1 {
				class = "iter-stop-ignored"
			}
			w.violate(class, "%s visited %s, a sorted map yields %s (index holds %s)", desc, c19Hex(seen), c19Hex(trim(seq)), c19Hex(w.keysOf(ix)))
		}
		if len(seq) > 0 {
			r.Count("probe_iter_nonempty")
			if s.rev {
				r.Count("probe_iter_reverse_nonempty")
			}
			if s.hasStart && s.skip {
				r.Count("probe_iter_skipstart")
			}
			if len(s.prefix) > 0 && len(seq) < len(w.keysOf(ix)) {
				r.Count("probe_iter_prefix_filters")
			}
		}
	} else {
		r.Count("info_iter_unspecified_combo")
		if !c19SeqEq(seen, trim(seq)) {
			r.Count("info_iter_unspecified_differs_from_sorted_map")
		}
		// weak checks: strictly monotonic, contiguous run of the matching keys, bounded by the cut
		if cut >= 0 && int64(len(seen)) > cut+1 {
			w.violate("iter-stop-ignored", "%s visited %d items", desc, len(seen))
		}
		var K [][]byte
		for _, k := range w.keysOf(ix) {
			if bytes.HasPrefix(k, s.prefix) {
				K = append(K, k)
			}
		}
		if s.rev {
			K = c19Reverse(K)
		}
		pos := -1
		for i, k := range seen {
			j := -1
			for x := range K {
				if bytes.Equal(K[x], k) {
					j = x
				}
			}
			if i > 0 && j != pos+1 {
				w.violate("iter-order", "%s visited %s: not a contiguous monotonic run of %s", desc, c19Hex(seen), c19Hex(K))
			}
			pos = j
		}
	}
	// return value
	if s.errAt >= 0 && int64(len(seen)) > s.errAt {
		r.Count("probe_iter_callback_error")
		if ret == nil {
			w.violate("iter-error-lost", "%s: the callback failed at item #%d but Iterate returned nil", desc, s.errAt)
		}
		if !errors.Is(ret, c19ErrCallback) {
			w.violate("iter-error-changed", "%s: the callback failed with %v but Iterate returned %v", desc, c19ErrCallback, ret)
		}
	} else if ret != nil {
		w.violate("iter-spurious-error", "%s returned %v", desc, ret)
	}
}

func (w *c19World) prefixOf(ix *c19Idx, a, n, cut int64) []byte {
	if cut < 0 {
		return nil
	}
	raw := ix.kind.raw(ix.kind.key(a, n))
	if int(cut) < len(raw) {
		raw = raw[:cut]
	}
	return append([]byte{}, raw...)
}

func (w *c19World) firstLast(ix *c19Idx, prefix []byte, last bool, log bool) {
	var K [][]byte
	for _, k := range w.keysOf(ix) {
		if bytes.HasPrefix(k, prefix) {
			K = append(K, k)
		}
	}
	name := "First"
	var got shed.Item
	var err error
	if last {
		name = "Last"
		got, err = ix.h.Last(prefix)
	} else {
		got, err = ix.h.First(prefix)
	}
	if log {
		w.r.Logf("%s %s prefix=%x -> key=%x err=%v (matching %s)", name, ix.kind.name, prefix, ix.kind.raw(got), err, c19Hex(K))
	}
	class := strings.ToLower(name) + "-mismatch"
	what := fmt.Sprintf("%s(%x) on index %s", name, prefix, ix.kind.name)
	if len(K) == 0 {
		if err == nil {
			w.violate(class, "%s returned key %x but no key of the index has that prefix (index holds %s)", what, ix.kind.raw(got), c19Hex(w.keysOf(ix)))
		} else if !errors.Is(err, driver.ErrNotFound) {
			w.violate(class, "%s with no matching key returned %v, want driver.ErrNotFound", what, err)
		}
		return
	}
	want := K[0]
	if last {
		want = K[len(K)-1]
		w.r.Count("probe_last_nonempty")
	}
	if err != nil {
		w.violate(class, "%s returned %v, a sorted map yields key %x (index holds %s)", what, err, want, c19Hex(w.keysOf(ix)))
		return
	}
	if !bytes.Equal(ix.kind.raw(got), want) {
		w.violate(class, "%s returned key %x, a sorted map yields key %x (index holds %s)", what, ix.kind.raw(got), want, c19Hex(w.keysOf(ix)))
		return
	}
	w.checkItem(ix, what, got, want)
}

// checkAll compares the complete observable state with the model.
func (w *c19World) checkAll(why string) {
	w.r.Count("probe_full_check")
	for _, ix := range w.idx {
		w.iterate(ix, c19IterSpec{stopAt: -1, errAt: -1}, false, nil)
		n, err := ix.h.Count()
		if err != nil || n != len(w.keysOf(ix)) {
			w.violate("count-mismatch", "%s: Count(index %s) = %d, %v; the index holds %d keys %s", why, ix.kind.name, n, err, len(w.keysOf(ix)), c19Hex(w.keysOf(ix)))
		}
	}
	for i := range w.f64 {
		w.fieldGet(i, false)
	}
	for i := range c19VecIdx {
		w.vecGet(i, false)
	}
	for i := range w.str {
		w.strGet(i, false)
	}
}

func (w *c19World) fieldGet(i int, log bool) {
	got, err := w.f64[i].Get()
	want := w.u64("F" + c19F64Names[i])
	if log {
		w.r.Logf("fget %s -> %d, %v", c19F64Names[i], got, err)
	}
	if err != nil || got != want {
		w.violate("field-mismatch", "Uint64Field %q Get = %d, %v; last written value %d", c19F64Names[i], got, err, want)
	}
}

func (w *c19World) vecGet(i int, log bool) {
	x := c19VecIdx[i]
	got, err := w.vec.Get(x)
	want := w.u64("V" + string(c19BE(x)))
	if log {
		w.r.Logf("vget [%d] -> %d, %v", x, got, err)
	}
	if err != nil || got != want {
		w.violate("vector-mismatch", "Uint64Vector[%d] Get = %d, %v; last written value %d", x, got, err, want)
	}
}

func (w *c19World) strGet(i int, log bool) {
	got, err := w.str[i].Get()
	want := w.model["S"+c19StrNames[i]]
	if log {
		w.r.Logf("sget %s -> %q, %v", c19StrNames[i], got, err)
	}
	if err != nil || got != want {
		w.violate("string-field-mismatch", "StringField %q Get = %q, %v; last written value %q", c19StrNames[i], got, err, want)
	}
}

// write runs one direct write and reconciles result, injected faults and model.
// apply is invoked iff the write took effect.
func (w *c19World) write(what string, op func() error, apply func()) {
	var before simdiskStat
	if w.backend == 2 {
		before = simdiskStats(w.path)
	}
	var err error
	w.guard(what, func() { err = op() })
	mustFail := false
	if w.backend == 2 {
		after := simdiskStats(w.path)
		d := func(k string) int { return after.Fired[k] - before.Fired[k] }
		if d("fail")+d("full")+d("dead") > 0 {
			mustFail = true
		}
		if d("crash") > 0 && !w.keep {
			mustFail = true
		}
		if d("crash") > 0 {
			w.r.Count("probe_crash_during_write")
		}
	}
	w.r.Logf("%s -> %v", what, err)
	if mustFail {
		w.r.Count("probe_write_failed_by_fault")
		if err == nil {
			w.violate("write-error-swallowed", "%s returned nil although the driver write failed", what)
		}
		return
	}
	if err != nil {
		w.violate("write-failed", "%s = %v", what, err)
	}
	apply()
}

func (w *c19World) batch(b int64) *c19Batch {
	s := c19Pos(b, 2)
	if w.batches[s] == nil {
		w.batches[s] = &c19Batch{b: w.db.NewBatch()}
		w.r.Logf("batch %d opened", s)
	}
	return w.batches[s]
}

func (w *c19World) u64put(key string, v uint64) func() {
	return func() { w.model[key] = string(c19BE(v)) }
}

func c19Exec(r *gosim.Run) {
	shedTuneGC()
	w := &c19World{r: r, backend: r.Plan.P("backend", 0), model: map[string]string{}}
	nidx := int(r.Plan.P("nidx", 2))
	if nidx < 1 {
		nidx = 1
	}
	if nidx > len(c19Kinds) {
		nidx = len(c19Kinds)
	}
	rot := c19Pos(r.Plan.P("rot", 0), len(c19Kinds))
	for i := 0; i < nidx; i++ {
		k := c19Kinds[(rot+i)%len(c19Kinds)]
		w.idx = append(w.idx, &c19Idx{kind: k, ns: "I" + k.name + ":"})
	}
	cfg := ""
	if r.Plan.P("wbuf", 0) == 1 {
		cfg = `{"WriteBuffer":16384}`
	}
	switch w.backend {
	case 0:
		w.path = ""
		if cfg != "" {
			w.drv = "leveldb:" + cfg
		}
	case 1:
		d, err := os.MkdirTemp("", "c19-")
		if err != nil {
			r.Violate("harness-tempdir", "%v", err)
		}
		w.path = d
		if cfg != "" {
			w.drv = "leveldb:" + cfg
		}
	default:
		w.backend = 2
		w.path = "c19-disk"
		w.drv = "sim"
		if cfg != "" {
			w.drv = "sim:" + cfg
		}
		simdiskOnFault(w.path, func(kind string) { r.Count("fault_" + kind) })
	}
	defer w.cleanup()
	if !w.open() {
		w.violate("harness-open", "initial open failed")
	}
	if w.backend == 2 {
		f := simdiskNoFaults()
		for _, o := range r.Plan.Faults {
			switch o.K {
			case "fail":
				f.FailAt = append(f.FailAt, int(o.Arg(0)))
			case "full":
				f.FullFrom, f.FullLen = int(o.Arg(0)), int(o.Arg(1))
			case "crash":
				f.CrashAt, f.CrashKeep = int(o.Arg(0)), o.Arg(1) == 1
				w.keep = f.CrashKeep
			case "delay":
				f.Delay = time.Duration(o.Arg(0)) * time.Millisecond
			}
		}
		simdiskSetFaults(w.path, f)
	}
	w.checkAll("fresh")

	snapAt := r.Plan.P("snap", -1)
	snapK := -1
	var snapModel map[string]string
	for opNo, o := range r.Plan.Ops {
		if w.backend == 2 && int64(opNo) == snapAt && !w.crashed() {
			snapK = simdiskLogLen(w.path)
			snapModel = map[string]string{}
			for k, v := range w.model {
				snapModel[k] = v
			}
			r.Logf("snapshot of the model at write-log length %d", snapK)
		}
		mut := false
		var ix *c19Idx
		idxArg := 0
		if strings.HasPrefix(o.K, "b") && o.K != "bcommit" && o.K != "bdrop" {
			idxArg = 1
		}
		ix = w.idx[c19Pos(o.Arg(idxArg), len(w.idx))]
		k := ix.kind
		switch o.K {
		case "put":
			it := k.full(o.Arg(1), o.Arg(2), o.Arg(3))
			w.write(fmt.Sprintf("put %s key=%x val=%.16x", k.name, k.raw(it), k.rawVal(it)),
				func() error { return ix.h.Put(it) },
				func() { w.model[ix.ns+string(k.raw(it))] = string(k.rawVal(it)) })
			mut = true
		case "del":
			it := k.key(o.Arg(1), o.Arg(2))
			if _, ok := w.model[ix.ns+string(k.raw(it))]; ok {
				r.Count("probe_delete_present")
			}
			w.write(fmt.Sprintf("del %s key=%x", k.name, k.raw(it)),
				func() error { return ix.h.Delete(it) },
				func() { delete(w.model, ix.ns+string(k.raw(it))) })
			mut = true
		case "get":
			it := k.key(o.Arg(1), o.Arg(2))
			raw := k.raw(it)
			got, err := ix.h.Get(it)
			_, present := w.model[ix.ns+string(raw)]
			r.Logf("get %s key=%x -> err=%v present=%v", k.name, raw, err, present)
			if present {
				if err != nil {
					w.violate("get-failed", "Get(index %s, key %x) = %v; the key is stored", k.name, raw, err)
				}
				w.checkItem(ix, "Get", got, raw)
			} else {
				if err == nil {
					w.violate("get-ghost", "Get(index %s, key %x) succeeded; the key is not stored (index holds %s)", k.name, raw, c19Hex(w.keysOf(ix)))
				}
				if !errors.Is(err, driver.ErrNotFound) {
					w.violate("get-error", "Get(index %s, key %x) of an absent key returned %v, want driver.ErrNotFound", k.name, raw, err)
				}
			}
		case "has":
			it := k.key(o.Arg(1), o.Arg(2))
			raw := k.raw(it)
			got, err := ix.h.Has(it)
			_, present := w.model[ix.ns+string(raw)]
			r.Logf("has %s key=%x -> %v, %v", k.name, raw, got, err)
			if err != nil || got != present {
				w.violate("has-mismatch", "Has(index %s, key %x) = %v, %v; stored: %v", k.name, raw, got, err, present)
			}
		case "hasmulti", "fill":
			var items []shed.Item
			var raws [][]byte
			all := true
			for j := 1; j+1 < len(o.A); j += 2 {
				it := k.key(o.A[j], o.A[j+1])
				items = append(items, it)
				raws = append(raws, k.raw(it))
				if _, ok := w.model[ix.ns+string(k.raw(it))]; !ok {
					all = false
				}
			}
			if len(items) == 0 {
				break
			}
			if o.K == "hasmulti" {
				got, err := ix.h.HasMulti(items...)
				r.Logf("hasmulti %s %s -> %v, %v", k.name, c19Hex(raws), got, err)
				if err != nil || len(got) != len(items) {
					w.violate("hasmulti-mismatch", "HasMulti(index %s, %s) = %v, %v", k.name, c19Hex(raws), got, err)
				}
				for j := range items {
					_, present := w.model[ix.ns+string(raws[j])]
					if got[j] != present {
						w.violate("hasmulti-mismatch", "HasMulti(index %s, %s) = %v; key %x stored: %v", k.name, c19Hex(raws), got, raws[j], present)
					}
				}
			} else {
				err := ix.h.Fill(items)
				r.Logf("fill %s %s -> %v (all present: %v)", k.name, c19Hex(raws), err, all)
				if all {
					r.Count("probe_fill_all_present")
					if err != nil {
						w.violate("fill-failed", "Fill(index %s, %s) = %v; all keys are stored", k.name, c19Hex(raws), err)
					}
					for j := range items {
						w.checkItem(ix, "Fill", items[j], raws[j])
					}
				} else {
					if err == nil {
						w.violate("fill-ghost", "Fill(index %s, %s) succeeded although a key is not stored (index holds %s)", k.name, c19Hex(raws), c19Hex(w.keysOf(ix)))
					}
					if !errors.Is(err, driver.ErrNotFound) {
						w.violate("fill-error", "Fill(index %s, %s) with an absent key returned %v, want driver.ErrNotFound", k.name, c19Hex(raws), err)
					}
				}
			}
		case "count":
			n, err := ix.h.Count()
			r.Logf("count %s -> %d, %v", k.name, n, err)
			if err != nil || n != len(w.keysOf(ix)) {
				w.violate("count-mismatch", "Count(index %s) = %d, %v; the index holds %s", k.name, n, err, c19Hex(w.keysOf(ix)))
			}
		case "countfrom":
			it := k.key(o.Arg(1), o.Arg(2))
			raw := k.raw(it)
			want := 0
			for _, x := range w.keysOf(ix) {
				if bytes.Compare(x, raw) >= 0 {
					want++
				}
			}
			n, err := ix.h.CountFrom(it)
			r.Logf("countfrom %s key=%x -> %d, %v", k.name, raw, n, err)
			if want > 0 {
				r.Count("probe_countfrom_nonzero")
			}
			if err != nil || n != want {
				w.violate("countfrom-mismatch", "CountFrom(index %s, key %x) = %d, %v; %d keys are >= it (index holds %s)", k.name, raw, n, err, want, c19Hex(w.keysOf(ix)))
			}
		case "first", "last":
			w.firstLast(ix, w.prefixOf(ix, o.Arg(1), o.Arg(2), o.Arg(3)), o.K == "last", true)
		case "iter":
			s := c19IterSpec{prefix: w.prefixOf(ix, o.Arg(1), o.Arg(2), o.Arg(3)), skip: o.Arg(6) == 1, rev: o.Arg(7) == 1, stopAt: o.Arg(8), errAt: o.Arg(9)}
			if len(o.A) < 10 {
				s.stopAt, s.errAt = -1, -1
			}
			if o.Arg(4) >= 0 && len(o.A) > 5 {
				s.hasStart = true
				s.start = k.key(o.Arg(4), o.Arg(5))
			}
			w.iterate(ix, s, true, nil)
		case "nest":
			// a read of the same index from inside an iteration callback
			p := w.prefixOf(ix, o.Arg(1), o.Arg(2), o.Arg(3))
			q := w.prefixOf(ix, o.Arg(4), o.Arg(5), o.Arg(6))
			r.Logf("nest %s outer prefix=%x inner prefix=%x", k.name, p, q)
			// the same reads one after the other first: their mismatches are not re-entrancy
			w.iterate(ix, c19IterSpec{prefix: p, stopAt: -1, errAt: -1}, false, nil)
			w.firstLast(ix, q, false, false)
			w.firstLast(ix, q, true, false)
			w.ctx = "reentrant-read-mismatch"
			w.iterate(ix, c19IterSpec{prefix: p, stopAt: -1, errAt: -1}, true, func(n int) {
				r.Count("probe_nested_read")
				w.firstLast(ix, q, n%2 == 0, false)
			})
			w.ctx = ""
		case "par":
			// concurrent readers of one index (no writer): every result equals the model
			r.Logf("par %s", k.name)
			for g := 0; g < 3; g++ {
				p := w.prefixOf(ix, o.Arg(1+3*g), o.Arg(2+3*g), o.Arg(3+3*g))
				w.iterate(ix, c19IterSpec{prefix: p, rev: g == 1, stopAt: -1, errAt: -1}, false, nil)
				w.firstLast(ix, p, g != 2, false)
			}
			w.ctx = "concurrent-read-mismatch"
			done := make(chan struct{}, 3)
			for g := 0; g < 3; g++ {
				p := w.prefixOf(ix, o.Arg(1+3*g), o.Arg(2+3*g), o.Arg(3+3*g))
				go func(g int) {
					defer func() { done <- struct{}{} }()
					r.Count("probe_concurrent_read")
					w.iterate(ix, c19IterSpec{prefix: p, rev: g == 1, stopAt: -1, errAt: -1}, false, nil)
					w.firstLast(ix, p, g != 2, false)
				}(g)
			}
			for g := 0; g < 3; g++ {
				select {
				case <-done:
				case <-time.After(time.Hour):
					w.ctx = ""
					w.violate("hang", "concurrent readers did not finish")
				}
			}
			w.ctx = ""
		case "bput":
			it := k.full(o.Arg(2), o.Arg(3), o.Arg(4))
			b := w.batch(o.Arg(0))
			err := ix.h.PutInBatch(b.b, it)
			r.Logf("bput b%d %s key=%x val=%.16x -> %v", c19Pos(o.Arg(0), 2), k.name, k.raw(it), k.rawVal(it), err)
			if err != nil {
				w.violate("batch-op-failed", "PutInBatch = %v", err)
			}
			b.pend = append(b.pend, c19Pend{key: ix.ns + string(k.raw(it)), val: string(k.rawVal(it))})
			mut = true // nothing may have become visible
		case "bdel":
			it := k.key(o.Arg(2), o.Arg(3))
			b := w.batch(o.Arg(0))
			err := ix.h.DeleteInBatch(b.b, it)
			r.Logf("bdel b%d %s key=%x -> %v", c19Pos(o.Arg(0), 2), k.name, k.raw(it), err)
			if err != nil {
				w.violate("batch-op-failed", "DeleteInBatch = %v", err)
			}
			b.pend = append(b.pend, c19Pend{key: ix.ns + string(k.raw(it)), del: true})
			mut = true
		case "bcommit":
			s := c19Pos(o.Arg(0), 2)
			b := w.batches[s]
			if b == nil {
				break
			}
			w.batches[s] = nil
			if len(b.pend) > 0 {
				r.Count("probe_commit_nonempty")
			}
			w.write(fmt.Sprintf("commit b%d (%d ops)", s, len(b.pend)),
				func() error { return b.b.Commit() },
				func() {
					for _, p := range b.pend {
						if p.del {
							delete(w.model, p.key)
						} else {
							w.model[p.key] = p.val
						}
					}
				})
			mut = true
		case "bdrop":
			s := c19Pos(o.Arg(0), 2)
			if w.batches[s] != nil {
				r.Logf("batch %d dropped", s)
			}
			w.batches[s] = nil
		case "fput", "finc", "fdec", "fget":
			i := c19Pos(o.Arg(0), 2)
			key := "F" + c19F64Names[i]
			f := w.f64[i]
			cur := w.u64(key)
			switch o.K {
			case "fget":
				w.fieldGet(i, true)
			case "fput":
				v := c19FieldVals[c19Pos(o.Arg(1), len(c19FieldVals))]
				w.write(fmt.Sprintf("fput %s=%d", c19F64Names[i], v), func() error { return f.Put(v) }, w.u64put(key, v))
			case "finc":
				var got uint64
				w.write("finc "+c19F64Names[i], func() (err error) { got, err = f.Inc(); return }, func() {
					if got != cur+1 {
						w.violate("field-mismatch", "Uint64Field %q Inc returned %d, value was %d", c19F64Names[i], got, cur)
					}
					w.model[key] = string(c19BE(cur + 1))
				})
			case "fdec":
				want := cur
				if want > 0 {
					want--
				}
				var got uint64
				w.write("fdec "+c19F64Names[i], func() (err error) { got, err = f.Dec(); return }, func() {
					if got != want {
						w.violate("field-mismatch", "Uint64Field %q Dec returned %d, value was %d", c19F64Names[i], got, cur)
					}
					w.model[key] = string(c19BE(want))
				})
			}
			mut = o.K != "fget"
		case "vput", "vinc", "vdec", "vget":
			xi := c19Pos(o.Arg(0), len(c19VecIdx))
			x := c19VecIdx[xi]
			key := "V" + string(c19BE(x))
			cur := w.u64(key)
			switch o.K {
			case "vget":
				w.vecGet(xi, true)
			case "vput":
				v := c19FieldVals[c19Pos(o.Arg(1), len(c19FieldVals))]
				w.write(fmt.Sprintf("vput [%d]=%d", x, v), func() error { return w.vec.Put(x, v) }, w.u64put(key, v))
			case "vinc":
				var got uint64
				w.write(fmt.Sprintf("vinc [%d]", x), func() (err error) { got, err = w.vec.Inc(x); return }, func() {
					if got != cur+1 {
						w.violate("vector-mismatch", "Uint64Vector[%d] Inc returned %d, value was %d", x, got, cur)
					}
					w.model[key] = string(c19BE(cur + 1))
				})
			case "vdec":
				want := cur
				if want > 0 {
					want--
				}
				var got uint64
				w.write(fmt.Sprintf("vdec [%d]", x), func() (err error) { got, err = w.vec.Dec(x); return }, func() {
					if got != want {
						w.violate("vector-mismatch", "Uint64Vector[%d] Dec returned %d, value was %d", x, got, cur)
					}
					w.model[key] = string(c19BE(want))
				})
			}
			mut = o.K != "vget"
		case "sput", "sget":
			i := c19Pos(o.Arg(0), 2)
			if o.K == "sget" {
				w.strGet(i, true)
				break
			}
			v := c19Strs[c19Pos(o.Arg(1), len(c19Strs))]
			w.write(fmt.Sprintf("sput %s=%q", c19StrNames[i], v), func() error { return w.str[i].Put(v) }, func() { w.model["S"+c19StrNames[i]] = v })
			mut = true
		case "bfput", "bfinc", "bfdec":
			b := w.batch(o.Arg(0))
			i := c19Pos(o.Arg(1), 2)
			key := "F" + c19F64Names[i]
			cur := w.u64(key) // the database value, not the batch (documented)
			var err error
			var nv, got uint64
			switch o.K {
			case "bfput":
				nv = c19FieldVals[c19Pos(o.Arg(2), len(c19FieldVals))]
				err = w.f64[i].PutInBatch(b.b, nv)
				got = nv
			case "bfinc":
				nv = cur + 1
				got, err = w.f64[i].IncInBatch(b.b)
			case "bfdec":
				nv = cur
				if nv > 0 {
					nv--
				}
				got, err = w.f64[i].DecInBatch(b.b)
			}
			r.Logf("%s b%d %s -> %d, %v", o.K, c19Pos(o.Arg(0), 2), c19F64Names[i], got, err)
			if err != nil || got != nv {
				w.violate("field-mismatch", "Uint64Field %q %s = %d, %v; database value %d", c19F64Names[i], o.K, got, err, cur)
			}
			b.pend = append(b.pend, c19Pend{key: key, val: string(c19BE(nv))})
			mut = true
		case "bvput", "bvinc", "bvdec":
			b := w.batch(o.Arg(0))
			x := c19VecIdx[c19Pos(o.Arg(1), len(c19VecIdx))]
			key := "V" + string(c19BE(x))
			cur := w.u64(key)
			var err error
			var nv, got uint64
			switch o.K {
			case "bvput":
				nv = c19FieldVals[c19Pos(o.Arg(2), len(c19FieldVals))]
				err = w.vec.PutInBatch(b.b, x, nv)
				got = nv
			case "bvinc":
				nv = cur + 1
				got, err = w.vec.IncInBatch(b.b, x)
			case "bvdec":
				nv = cur
				if nv > 0 {
					nv--
				}
				got, err = w.vec.DecInBatch(b.b, x)
			}
			r.Logf("%s b%d [%d] -> %d, %v", o.K, c19Pos(o.Arg(0), 2), x, got, err)
			if err != nil || got != nv {
				w.violate("vector-mismatch", "Uint64Vector[%d] %s = %d, %v; database value %d", x, o.K, got, err, cur)
			}
			b.pend = append(b.pend, c19Pend{key: key, val: string(c19BE(nv))})
			mut = true
		case "bsput":
			b := w.batch(o.Arg(0))
			i := c19Pos(o.Arg(1), 2)
			v := c19Strs[c19Pos(o.Arg(2), len(c19Strs))]
			err := w.str[i].PutInBatch(b.b, v)
			r.Logf("bsput b%d %s=%q -> %v", c19Pos(o.Arg(0), 2), c19StrNames[i], v, err)
			if err != nil {
				w.violate("batch-op-failed", "StringField.PutInBatch = %v", err)
			}
			b.pend = append(b.pend, c19Pend{key: "S" + c19StrNames[i], val: v})
			mut = true
		case "reopen":
			if w.backend == 0 {
				break // MemStorage cannot be reopened
			}
			r.Count("probe_reopen")
			w.reopen("op")
		}
		if w.crashed() {
			r.Count("probe_crash_recovered")
			w.reopen("crash")
		} else if mut {
			w.checkAll("after " + o.K)
		}
		r.OpDone()
	}
	w.checkAll("end")
	if w.backend != 0 {
		w.reopen("end")
	}
	if err := w.db.Close(); err != nil {
		w.violate("close-failed", "DB.Close: %v", err)
	}
	if w.backend == 2 {
		st := simdiskStats(w.path)
		r.Add("sim_writes", int64(st.Attempts))
		if snapK >= 0 {
			// a disk rebuilt from the first snapK log entries holds exactly the state of that moment
			orig := w.path
			w.path = simdiskReopen(orig, snapK)
			w.model = snapModel
			w.db = nil
			r.Logf("reopen from write-log prefix %d/%d", snapK, st.Applied)
			r.Count("probe_log_prefix_reopen")
			w.reopen("log prefix")
			if err := w.db.Close(); err != nil {
				w.violate("close-failed", "DB.Close: %v", err)
			}
			simdiskDrop(w.path)
			w.path = orig
		}
		simdiskDrop(w.path)
	}
	w.cleanup()
	if w.deferred != nil {
		r.Violate(w.deferred.Class, "%s", w.deferred.Msg)
	}
}

func init() {
	gosim.Register(&gosim.World{
		Prop: "C19", Gen: c19Gen, Exec: c19Exec,
		Real: []string{
			"pkg/shed (DB, Index, Uint64Field, Uint64Vector, StringField, schema)",
			"pkg/shed/leveldb driver + goleveldb (MemStorage, private temp directory)",
		},
		Stubs: []string{"simdisk (fault-injecting driver wrapping the real leveldb driver on MemStorage; 40% of runs)"},
	})
}
