//go:build g_heavy

package worlds

// filekit: shared parts of world W-FILE (C01, C02, C07): procedural content,
// faultable in-memory chunk store, short-read reader, write segmentations.

import (
	"context"
	crand "crypto/rand"
	"encoding/binary"
	"errors"
	"io"
	randv2 "math/rand/v2"
	"runtime"
	"sync"
	"sync/atomic"
	"time"

	"github.com/gauss-project/aurorafs/pkg/boson"
	"github.com/gauss-project/aurorafs/pkg/storage"

	"verifharness/gosim"
)

const (
	fkCS = int64(256 * 1024) // chunk payload size named by the statements of C01/C02 ("256 KiB chunks")
)

func fkMix(a, b uint64) uint64 {
	x := a ^ (b+0x9e3779b97f4a7c15)*0xbf58476d1ce4e5b9
	x ^= x >> 31
	x *= 0x94d049bb133111eb
	x ^= x >> 29
	x *= 0xd6e8feb86659fd93
	x ^= x >> 32
	return x
}

// ---- procedural content: byte i of a file is a cheap function of (kind, seed, i) ----

const (
	fkKindRandom   = 0 // every 8-byte word is a hash of (seed, word index)
	fkKindZero     = 1 // all zero: every data chunk identical, BMT zero padding everywhere
	fkKindPeriodic = 2 // period = one chunk: identical full chunks (store de-duplication), distinct tail
	fkKindOnes     = 3 // 0xff everywhere
	fkKindSparse   = 4 // zeros, except pseudo-random bytes in the 4 KiB before/after every 64th chunk boundary and in the last chunk
	fkKinds        = 5
)

func fkWord(kind int, seed uint64, w int64) uint64 {
	switch kind {
	case fkKindZero:
		return 0
	case fkKindOnes:
		return ^uint64(0)
	case fkKindPeriodic:
		return fkMix(seed, uint64(w%(fkCS/8)))
	case fkKindSparse:
		off := w * 8
		c := off / fkCS
		in := off % fkCS
		if (c%64 == 0 && in < 4096) || (c%64 == 63 && in >= fkCS-4096) {
			return fkMix(seed, uint64(w))
		}
		return 0
	default:
		return fkMix(seed, uint64(w))
	}
}

// fkFill writes content bytes [off, off+len(dst)) into dst.
func fkFill(dst []byte, kind int, seed uint64, off int64) {
	if kind == fkKindZero {
		for i := range dst {
			dst[i] = 0
		}
		return
	}
	i := 0
	for i < len(dst) {
		w := (off + int64(i)) / 8
		v := fkWord(kind, seed, w)
		sh := uint((off + int64(i)) % 8)
		for ; sh < 8 && i < len(dst); sh++ {
			dst[i] = byte(v >> (8 * sh))
			i++
		}
	}
}

// fkFirstDiff returns the first index where a and b differ, or -1.
func fkFirstDiff(a, b []byte) int {
	n := len(a)
	if len(b) < n {
		n = len(b)
	}
	for i := 0; i < n; i++ {
		if a[i] != b[i] {
			return i
		}
	}
	if len(a) != len(b) {
		return n
	}
	return -1
}

// ---- per-operation context handed to the store through context.Context ----

type fkCtxKey struct{}

type fkOpCtx struct {
	file   int
	ctx    context.Context
	cancel context.CancelFunc
	fired  int64 // faults fired against calls made under this context
	putErr int64 // injected Put failures among them
}

func fkWithOp(parent context.Context, file int) (context.Context, *fkOpCtx) {
	ctx, cancel := context.WithCancel(parent)
	oc := &fkOpCtx{file: file, cancel: cancel}
	oc.ctx = context.WithValue(ctx, fkCtxKey{}, oc)
	return oc.ctx, oc
}

func (oc *fkOpCtx) firedN() int64 { return atomic.LoadInt64(&oc.fired) }

// ---- faultable in-memory chunk store ----

var errFkPut = errors.New("fkstore: injected put failure")
var errFkGet = errors.New("fkstore: injected get failure")

type fkPutRec struct {
	addr string
	n    int
	dup  bool
	file int
}

type fkStore struct {
	r      *gosim.Run
	mu     sync.Mutex
	chunks map[string][]byte
	nPut   int64
	nGet   int64
	puts   []fkPutRec
	bytes  int64

	putFail   map[int64]bool
	putCancel map[int64]int64 // call -> 0 cancel before storing (Put fails), 1 cancel after storing (Put succeeds)
	getFail   map[int64]int64 // call -> 0 generic error, 1 storage.ErrNotFound
	getCancel map[int64]bool
	getDelay  int64 // every Get sleeps 0..getDelay ms of fake time, a function of the call number
	putDelay  int64
	dseed     uint64
}

func fkNewStore(r *gosim.Run) *fkStore {
	s := &fkStore{r: r, chunks: map[string][]byte{}, putFail: map[int64]bool{}, putCancel: map[int64]int64{},
		getFail: map[int64]int64{}, getCancel: map[int64]bool{}}
	s.getDelay = r.Plan.P("get_delay_ms", 0)
	s.putDelay = r.Plan.P("put_delay_ms", 0)
	s.dseed = r.Plan.Seed
	for _, f := range r.Plan.Faults {
		switch f.K {
		case "putfail":
			s.putFail[f.Arg(0)] = true
		case "putcancel":
			s.putCancel[f.Arg(0)] = f.Arg(1)
		case "getfail":
			s.getFail[f.Arg(0)] = f.Arg(1)
		case "getcancel":
			s.getCancel[f.Arg(0)] = true
		}
	}
	return s
}

func fkOpOf(ctx context.Context) *fkOpCtx {
	oc, _ := ctx.Value(fkCtxKey{}).(*fkOpCtx)
	return oc
}

func fkSleepCtx(ctx context.Context, ms int64) error {
	if ms <= 0 {
		return nil
	}
	t := time.NewTimer(time.Duration(ms) * time.Millisecond)
	defer t.Stop()
	select {
	case <-t.C:
		return nil
	case <-ctx.Done():
		return ctx.Err()
	}
}

func (s *fkStore) Put(ctx context.Context, mode storage.ModePut, chs ...boson.Chunk) ([]bool, error) {
	exist := make([]bool, len(chs))
	oc := fkOpOf(ctx)
	for i, ch := range chs {
		s.mu.Lock()
		s.nPut++
		k := s.nPut
		fail := s.putFail[k]
		cmode, doCancel := s.putCancel[k]
		s.mu.Unlock()
		if err := ctx.Err(); err != nil {
			return nil, err
		}
		if s.putDelay > 0 {
			if err := fkSleepCtx(ctx, int64(fkMix(s.dseed, uint64(k)*2+1)%uint64(s.putDelay+1))); err != nil {
				return nil, err
			}
		}
		if fail {
			s.r.Count("fault_put_error")
			s.r.Logf("store: put #%d fails (injected)", k)
			if oc != nil {
				atomic.AddInt64(&oc.fired, 1)
				atomic.AddInt64(&oc.putErr, 1)
			}
			return nil, errFkPut
		}
		if doCancel && cmode == 0 && oc != nil {
			s.r.Count("fault_cancel_upload")
			s.r.Logf("store: context cancelled before put #%d", k)
			atomic.AddInt64(&oc.fired, 1)
			oc.cancel()
			return nil, ctx.Err()
		}
		a := ch.Address().ByteString()
		d := ch.Data()
		if len(d) < boson.SpanSize || int64(len(d)) > fkCS+boson.SpanSize {
			s.r.Violate("bad-chunk-put", "Put of a chunk with %d bytes (span+payload must be within 8..%d)", len(d), fkCS+8)
		}
		s.mu.Lock()
		old, ok := s.chunks[a]
		if ok {
			exist[i] = true
			if fkFirstDiff(old, d) >= 0 {
				s.mu.Unlock()
				s.r.Violate("address-collision", "two different chunk payloads stored under address %x", a[:8])
			}
		} else {
			s.chunks[a] = append([]byte(nil), d...)
			s.bytes += int64(len(d))
		}
		fid := -1
		if oc != nil {
			fid = oc.file
		}
		s.puts = append(s.puts, fkPutRec{a, len(d), ok, fid})
		s.mu.Unlock()
		s.r.Logf("store: put #%d f=%d addr=%x len=%d dup=%v", k, fid, a[:6], len(d), ok)
		if ok {
			s.r.Count("probe_put_dedup")
		}
		if doCancel && cmode == 1 && oc != nil {
			s.r.Count("fault_cancel_upload")
			s.r.Logf("store: context cancelled after put #%d", k)
			atomic.AddInt64(&oc.fired, 1)
			oc.cancel()
		}
	}
	return exist, nil
}

func (s *fkStore) Get(ctx context.Context, mode storage.ModeGet, addr boson.Address) (boson.Chunk, error) {
	oc := fkOpOf(ctx)
	s.mu.Lock()
	s.nGet++
	k := s.nGet
	fmode, fail := s.getFail[k]
	doCancel := s.getCancel[k]
	s.mu.Unlock()
	if err := ctx.Err(); err != nil {
		return nil, err
	}
	if doCancel && oc != nil {
		s.r.Count("fault_cancel_read")
		s.r.Logf("store: context cancelled at get #%d", k)
		atomic.AddInt64(&oc.fired, 1)
		oc.cancel()
		return nil, ctx.Err()
	}
	if s.getDelay > 0 {
		d := int64(fkMix(s.dseed, uint64(k)*2) % uint64(s.getDelay+1))
		if d > 0 {
			s.r.Count("probe_get_delayed")
		}
		if err := fkSleepCtx(ctx, d); err != nil {
			return nil, err
		}
	}
	if fail {
		if oc != nil {
			atomic.AddInt64(&oc.fired, 1)
		}
		s.r.Logf("store: get #%d fails (injected, mode %d)", k, fmode)
		if fmode == 1 {
			s.r.Count("fault_get_notfound")
			return nil, storage.ErrNotFound
		}
		s.r.Count("fault_get_error")
		return nil, errFkGet
	}
	s.mu.Lock()
	d, ok := s.chunks[addr.ByteString()]
	s.mu.Unlock()
	if !ok {
		return nil, storage.ErrNotFound
	}
	return boson.NewChunk(boson.NewAddress(append([]byte(nil), addr.Bytes()...)), append([]byte(nil), d...)), nil
}

func (s *fkStore) counts() (puts, gets int64) {
	s.mu.Lock()
	defer s.mu.Unlock()
	return s.nPut, s.nGet
}

// ---- write segmentation: the sequence of piece lengths a content is cut into ----

// fkSeg yields piece lengths from its own generator; mode selects the flavour.
type fkSeg struct {
	x    uint64
	mode int
}

const fkSegModes = 7

func (g *fkSeg) next64() uint64 {
	g.x = fkMix(g.x, 0x5e9)
	return g.x
}

// piece returns the length of the next piece, 1..left (left > 0).
func (g *fkSeg) piece(left int64) int64 {
	var n int64
	v := g.next64()
	switch g.mode {
	case 0: // whole content at once
		n = left
	case 1: // tiny
		n = 1 + int64(v%64)
	case 2: // below a few KiB
		n = 1 + int64(v%8192)
	case 3: // around the chunk size
		n = fkCS - 2 + int64(v%5)
	case 4: // several chunks at once
		n = 1 + int64(v%uint64(3*fkCS+7))
	case 5: // exactly chunk sized
		n = fkCS
	default: // mixture
		switch (v >> 40) % 6 {
		case 0:
			n = 1 + int64(v%64)
		case 1:
			n = 1 + int64(v%8192)
		case 2:
			n = fkCS - 2 + int64(v%5)
		case 3:
			n = 1 + int64(v%uint64(3*fkCS+7))
		case 4:
			n = 1 + int64(v%uint64(fkCS))
		default:
			n = 2*fkCS - 1 + int64(v%3)
		}
	}
	if n > left {
		n = left
	}
	if n < 1 {
		n = 1
	}
	return n
}

// ---- reader with seeded short reads ----

// fkReader delivers the content through io.Reader with arbitrary short reads:
// zero-byte reads with a nil error (at most two in a row), reads of 1 byte, of
// len(p)-1, of len(p), and the last bytes either together with io.EOF or
// followed by a separate (0, io.EOF).
type fkReader struct {
	kind    int
	seed    uint64
	size    int64
	pos     int64
	g       fkSeg
	zeros   int
	eofWith bool // deliver the final bytes together with io.EOF
	calls   int64
	nZero   int64
	nDataEO int64
	failAt  int64 // if > 0: the failAt-th call returns an error (reader fault)
	r       *gosim.Run
}

var errFkReader = errors.New("fkreader: injected read failure")

func (rd *fkReader) Read(p []byte) (int, error) {
	rd.calls++
	if rd.failAt > 0 && rd.calls == rd.failAt {
		rd.r.Count("fault_reader_error")
		return 0, errFkReader
	}
	left := rd.size - rd.pos
	if left == 0 {
		return 0, io.EOF
	}
	if len(p) == 0 {
		return 0, nil
	}
	v := rd.g.next64()
	var n int64
	switch rd.g.mode {
	case 0:
		n = int64(len(p))
	default:
		switch v % 8 {
		case 0:
			if rd.zeros < 2 {
				rd.zeros++
				rd.nZero++
				return 0, nil
			}
			n = 1
		case 1:
			n = 1
		case 2:
			n = int64(len(p)) - 1
		case 3, 4:
			n = int64(len(p))
		case 5:
			n = 1 + int64((v>>8)%uint64(len(p)))
		case 6:
			n = 1 + int64((v>>8)%4096)
		default:
			n = rd.g.piece(left)
		}
	}
	rd.zeros = 0
	if n < 1 {
		n = 1
	}
	if n > int64(len(p)) {
		n = int64(len(p))
	}
	if n > left {
		n = left
	}
	fkFill(p[:n], rd.kind, rd.seed, rd.pos)
	rd.pos += n
	if rd.pos == rd.size && rd.eofWith {
		rd.nDataEO++
		return int(n), io.EOF
	}
	return int(n), nil
}

// ---- crypto/rand for managed goroutines only ----
//
// github.com/gogf/gf/v2/util/grand (linked through pkg/routetab's gcache) starts
// a goroutine in its package init that pulls 1 KiB blocks from crypto/rand until
// a 10000-entry channel is full. On a loaded machine it is still pulling when the
// run starts and steals blocks from the seeded stream installed by gosim.Main, so
// chunk encryption keys differed between executions of one seed. This reader
// gives every goroutine that does not descend from the run (GosimID 0) a
// separate stream; the seeded stream is consumed by the run alone, in schedule
// order (one managed goroutine runs at a time and Read has no scheduling point).
type fkCryptoRand struct {
	det   *randv2.ChaCha8
	other *randv2.ChaCha8
	busy  atomic.Int32
}

func (c *fkCryptoRand) Read(b []byte) (int, error) {
	if runtime.GosimID() == 0 {
		for !c.busy.CompareAndSwap(0, 1) {
			runtime.Gosched()
		}
		n, err := c.other.Read(b)
		c.busy.Store(0)
		return n, err
	}
	return c.det.Read(b)
}

func fkInstallRand(seed uint64) {
	var s1, s2 [32]byte
	for i := 0; i < 4; i++ {
		binary.LittleEndian.PutUint64(s1[8*i:], fkMix(seed, uint64(0xc0+i)))
		binary.LittleEndian.PutUint64(s2[8*i:], fkMix(seed, uint64(0xd0+i)))
	}
	crand.Reader = &fkCryptoRand{det: randv2.NewChaCha8(s1), other: randv2.NewChaCha8(s2)}
}
