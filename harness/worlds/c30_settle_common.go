package worlds

// W-SETTLE common parts, shared by the worlds of C30, C31 and C33.
//
// Real code: settlement/traffic (Service, address book), traffic/cheque (cheque
// store, EIP-712 signer and recovery with real secp256k1 keys),
// traffic/trafficprotocol (both ends, over the in-memory stream pair of
// p2p/streamtest), subscribe, statestore/mock (behind a write-counting wrapper).
// Stubs: chain.Traffic (c30Chain), cheque.CashoutService (c30Cashout),
// p2p.Service (repository mock, Disconnect only), remote peers' traffic logic
// (c30PeerTraffic: records what the real protocol handler hands over).

import (
	"context"
	"crypto/sha256"
	"errors"
	"fmt"
	"io"
	"math/big"
	"sort"
	"strings"
	"sync"
	"time"

	"github.com/ethereum/go-ethereum/common"
	"github.com/ethereum/go-ethereum/core/types"

	"github.com/gauss-project/aurorafs/pkg/boson"
	"github.com/gauss-project/aurorafs/pkg/crypto"
	"github.com/gauss-project/aurorafs/pkg/logging"
	"github.com/gauss-project/aurorafs/pkg/p2p"
	p2pmock "github.com/gauss-project/aurorafs/pkg/p2p/mock"
	"github.com/gauss-project/aurorafs/pkg/p2p/streamtest"
	"github.com/gauss-project/aurorafs/pkg/settlement/traffic"
	"github.com/gauss-project/aurorafs/pkg/shed/driver"
	chequePkg "github.com/gauss-project/aurorafs/pkg/settlement/traffic/cheque"
	"github.com/gauss-project/aurorafs/pkg/settlement/traffic/trafficprotocol"
	statemock "github.com/gauss-project/aurorafs/pkg/statestore/mock"
	"github.com/gauss-project/aurorafs/pkg/storage"
	"github.com/gauss-project/aurorafs/pkg/subscribe"

	"verifharness/gosim"
)

const (
	c30ChainID   = int64(7)
	c30ProtoName = "pseudosettle"
	c30ProtoVer  = "1.0.0"
	c30Stream    = "traffic"
)

// ---- parties: real secp256k1 keys derived from the plan ----

type c30Party struct {
	idx     int
	signer  crypto.Signer
	cheques chequePkg.ChequeSigner
	addr    common.Address
	overlay boson.Address
}

func c30NewParty(keyseed int64, idx int) *c30Party {
	h := sha256.Sum256([]byte(fmt.Sprintf("w-settle-key-%d-%d", keyseed, idx)))
	key := crypto.Secp256k1PrivateKeyFromBytes(h[:])
	signer := crypto.NewDefaultSigner(key)
	addr, err := signer.EthereumAddress()
	if err != nil {
		panic(err)
	}
	return &c30Party{
		idx: idx, signer: signer, addr: addr,
		cheques: chequePkg.NewChequeSigner(signer, c30ChainID),
		overlay: crypto.NewOverlayFromEthereumAddress(addr.Bytes(), 1),
	}
}

func (p *c30Party) sign(recipient, beneficiary common.Address, cum int64) *chequePkg.SignedCheque {
	c := chequePkg.Cheque{Recipient: recipient, Beneficiary: beneficiary, CumulativePayout: big.NewInt(cum)}
	sig, err := p.cheques.Sign(&c)
	if err != nil {
		panic(err)
	}
	return &chequePkg.SignedCheque{Cheque: c, Signature: sig}
}

// ---- state store: statestore/mock behind a wrapper ----

// c30Store counts writes, can "crash" (every write from the k-th on is lost) and
// iterates over a sorted snapshot (like the leveldb store; the mock would call
// back under its read lock).
type c30Store struct {
	r       *gosim.Run
	inner   storage.StateStorer
	mu      sync.Mutex
	writes  int64
	crashAt int64 // <0: never
	lost    int64
	// transient write errors: the nth write (counted while failOn) whose key has
	// the prefix fails with an error and is not applied
	failOn  bool
	fails   []*c30WriteFail
	failed  []string // keys whose write failed
}

type c30WriteFail struct {
	prefix string
	nth    int64
	seen   int64
	fired  bool
}

var c30ErrWrite = errors.New("state store: write failed (injected)")

// c30Raw is stored byte for byte (the mock store asks BinaryMarshaler first).
type c30Raw []byte

func (r c30Raw) MarshalBinary() ([]byte, error) { return []byte(r), nil }

// snapshot returns a copy of everything in the store ("backup").
func (s *c30Store) snapshot() map[string][]byte {
	out := map[string][]byte{}
	_ = s.inner.Iterate("", func(k, v []byte) (bool, error) {
		out[string(k)] = append([]byte(nil), v...)
		return false, nil
	})
	return out
}

// restore replaces the content of the store by a snapshot ("restore from backup").
func (s *c30Store) restore(snap map[string][]byte) {
	inner := statemock.NewStateStore()
	keys := make([]string, 0, len(snap))
	for k := range snap {
		keys = append(keys, k)
	}
	sort.Strings(keys)
	for _, k := range keys {
		_ = inner.Put(k, c30Raw(snap[k]))
	}
	s.inner = inner
}

func c30NewStore(r *gosim.Run) *c30Store {
	return &c30Store{r: r, inner: statemock.NewStateStore(), crashAt: -1}
}

func (s *c30Store) Get(key string, i interface{}) error { return s.inner.Get(key, i) }

func (s *c30Store) Put(key string, i interface{}) error {
	s.mu.Lock()
	n := s.writes
	s.writes++
	crashed := s.crashAt >= 0 && n >= s.crashAt
	if crashed {
		s.lost++
	}
	fail := false
	if s.failOn && !crashed {
		for _, f := range s.fails {
			if f.fired || !strings.HasPrefix(key, f.prefix) {
				continue
			}
			if f.seen == f.nth {
				f.fired = true
				fail = true
				s.failed = append(s.failed, key)
			}
			f.seen++
		}
	}
	s.mu.Unlock()
	if fail {
		s.r.Count("fault_store_write_error")
		return c30ErrWrite
	}
	if crashed {
		s.r.Count("fault_store_write_lost")
		return nil
	}
	return s.inner.Put(key, i)
}

func (s *c30Store) Delete(key string) error { return s.inner.Delete(key) }

func (s *c30Store) Iterate(prefix string, f storage.StateIterFunc) error {
	type kv struct {
		k string
		v []byte
	}
	var all []kv
	if err := s.inner.Iterate(prefix, func(k, v []byte) (bool, error) {
		all = append(all, kv{string(k), append([]byte(nil), v...)})
		return false, nil
	}); err != nil {
		return err
	}
	sort.Slice(all, func(i, j int) bool { return all[i].k < all[j].k })
	for _, e := range all {
		stop, err := f([]byte(e.k), e.v)
		if err != nil {
			return err
		}
		if stop {
			return nil
		}
	}
	return nil
}

// c30StoreFront is what one service instance sees; once the instance is
// retired (node stopped) every call blocks forever, as the process is gone.
type c30StoreFront struct {
	s     *c30Store
	alive *c30Alive
}

func (f *c30StoreFront) Get(key string, i interface{}) error { f.alive.check(); return f.s.Get(key, i) }
func (f *c30StoreFront) Put(key string, i interface{}) error { f.alive.check(); return f.s.Put(key, i) }
func (f *c30StoreFront) Delete(key string) error             { f.alive.check(); return f.s.Delete(key) }
func (f *c30StoreFront) Iterate(prefix string, fn storage.StateIterFunc) error {
	f.alive.check()
	return f.s.Iterate(prefix, fn)
}
func (f *c30StoreFront) DB() driver.BatchDB { return nil }
func (f *c30StoreFront) Close() error       { return nil }

type c30Alive struct {
	mu   sync.Mutex
	dead bool
}

func (a *c30Alive) check() {
	a.mu.Lock()
	d := a.dead
	a.mu.Unlock()
	if d {
		select {}
	}
}
func (a *c30Alive) kill() { a.mu.Lock(); a.dead = true; a.mu.Unlock() }

// ---- chain stub ----

type c30Pair struct{ from, to common.Address } // from = issuer of cheques, to = who cashed them

type c30Chain struct {
	mu      sync.Mutex
	balance map[common.Address]*big.Int
	cashed  map[c30Pair]*big.Int
	// failure switches (set by the world around a refresh / cash-out)
	failLists   bool
	failBalance bool
	failTrans   map[c30Pair]bool
	calls       int64
}

func c30NewChain() *c30Chain {
	return &c30Chain{balance: map[common.Address]*big.Int{}, cashed: map[c30Pair]*big.Int{}, failTrans: map[c30Pair]bool{}}
}

var c30ErrChain = errors.New("chain rpc unavailable")

func (c *c30Chain) truthCashed(from, to common.Address) *big.Int {
	c.mu.Lock()
	defer c.mu.Unlock()
	if v, ok := c.cashed[c30Pair{from, to}]; ok {
		return new(big.Int).Set(v)
	}
	return big.NewInt(0)
}

func (c *c30Chain) truthBalance(a common.Address) *big.Int {
	c.mu.Lock()
	defer c.mu.Unlock()
	if v, ok := c.balance[a]; ok {
		return new(big.Int).Set(v)
	}
	return big.NewInt(0)
}

// cash moves the on-chain state as the contract would when `to` cashes a cheque
// of `from` with the given cumulative payout. Returns the amount paid out.
func (c *c30Chain) cash(from, to common.Address, cum *big.Int) *big.Int {
	c.mu.Lock()
	defer c.mu.Unlock()
	k := c30Pair{from, to}
	old := c.cashed[k]
	if old == nil {
		old = big.NewInt(0)
	}
	if cum.Cmp(old) <= 0 {
		return big.NewInt(0)
	}
	delta := new(big.Int).Sub(cum, old)
	c.cashed[k] = new(big.Int).Set(cum)
	fb := c.balance[from]
	if fb == nil {
		fb = big.NewInt(0)
	}
	c.balance[from] = new(big.Int).Sub(fb, delta)
	tb := c.balance[to]
	if tb == nil {
		tb = big.NewInt(0)
	}
	c.balance[to] = new(big.Int).Add(tb, delta)
	return delta
}

func (c *c30Chain) setBalance(a common.Address, v int64) {
	c.mu.Lock()
	c.balance[a] = big.NewInt(v)
	c.mu.Unlock()
}

func (c *c30Chain) addrList(match func(p c30Pair) (common.Address, bool)) []common.Address {
	var out []common.Address
	for p, v := range c.cashed {
		if v.Sign() <= 0 {
			continue
		}
		if a, ok := match(p); ok {
			out = append(out, a)
		}
	}
	sort.Slice(out, func(i, j int) bool { return out[i].Hex() < out[j].Hex() })
	return out
}

type c30ChainFront struct {
	c     *c30Chain
	alive *c30Alive
}

func (f *c30ChainFront) TransferredAddress(a common.Address) ([]common.Address, error) {
	f.alive.check()
	c := f.c
	c.mu.Lock()
	defer c.mu.Unlock()
	c.calls++
	if c.failLists {
		return nil, c30ErrChain
	}
	// accounts whose cheques `a` cashed
	return c.addrList(func(p c30Pair) (common.Address, bool) { return p.from, p.to == a }), nil
}

func (f *c30ChainFront) RetrievedAddress(a common.Address) ([]common.Address, error) {
	f.alive.check()
	c := f.c
	c.mu.Lock()
	defer c.mu.Unlock()
	c.calls++
	if c.failLists {
		return nil, c30ErrChain
	}
	// accounts that cashed cheques of `a`
	return c.addrList(func(p c30Pair) (common.Address, bool) { return p.to, p.from == a }), nil
}

func (f *c30ChainFront) BalanceOf(a common.Address) (*big.Int, error) {
	f.alive.check()
	c := f.c
	c.mu.Lock()
	defer c.mu.Unlock()
	c.calls++
	if c.failBalance {
		return nil, c30ErrChain
	}
	if v, ok := c.balance[a]; ok {
		return new(big.Int).Set(v), nil
	}
	return big.NewInt(0), nil
}

func (f *c30ChainFront) RetrievedTotal(a common.Address) (*big.Int, error) {
	f.alive.check()
	c := f.c
	c.mu.Lock()
	defer c.mu.Unlock()
	sum := big.NewInt(0)
	for p, v := range c.cashed {
		if p.from == a {
			sum.Add(sum, v)
		}
	}
	return sum, nil
}

func (f *c30ChainFront) TransferredTotal(a common.Address) (*big.Int, error) {
	f.alive.check()
	c := f.c
	c.mu.Lock()
	defer c.mu.Unlock()
	c.calls++
	if c.failBalance {
		return nil, c30ErrChain
	}
	sum := big.NewInt(0)
	for p, v := range c.cashed {
		if p.to == a {
			sum.Add(sum, v)
		}
	}
	return sum, nil
}

func (f *c30ChainFront) TransAmount(beneficiary, recipient common.Address) (*big.Int, error) {
	f.alive.check()
	c := f.c
	c.mu.Lock()
	defer c.mu.Unlock()
	c.calls++
	k := c30Pair{beneficiary, recipient}
	if c.failTrans[k] {
		return nil, c30ErrChain
	}
	if v, ok := c.cashed[k]; ok {
		return new(big.Int).Set(v), nil
	}
	return big.NewInt(0), nil
}

func (f *c30ChainFront) CashChequeBeneficiary(ctx context.Context, peer boson.Address, beneficiary, recipient common.Address, cumulativePayout *big.Int, signature []byte) (*types.Transaction, error) {
	return nil, errors.New("not used: the cash-out service is a stub")
}

// ---- cash-out stub ----

type c30CashTx struct {
	issuer common.Address // whose cheque is cashed
	cum    *big.Int
	status int64 // 1 success, 0 reverted, 2 receipt error
}

type c30Cashout struct {
	mu       sync.Mutex
	chain    *c30Chain
	self     common.Address
	cs       chequePkg.ChequeStore
	nextFail bool
	nextStat int64
	n        int64
	txs      map[common.Hash]*c30CashTx
	alive    *c30Alive
	receipts int64
}

func (c *c30Cashout) CashCheque(ctx context.Context, peer boson.Address, beneficiary, recipient common.Address) (common.Hash, error) {
	c.alive.check()
	c.mu.Lock()
	defer c.mu.Unlock()
	if c.nextFail {
		return common.Hash{}, errors.New("cash-out transaction rejected")
	}
	last, err := c.cs.LastReceivedCheque(beneficiary)
	if err != nil {
		return common.Hash{}, err
	}
	c.n++
	h := common.BigToHash(big.NewInt(1000 + c.n))
	c.txs[h] = &c30CashTx{issuer: beneficiary, cum: new(big.Int).Set(last.CumulativePayout), status: c.nextStat}
	return h, nil
}

func (c *c30Cashout) WaitForReceipt(ctx context.Context, h common.Hash) (uint64, error) {
	c.alive.check()
	time.Sleep(3 * time.Second) // mining takes (fake) time
	c.mu.Lock()
	tx := c.txs[h]
	c.receipts++
	c.mu.Unlock()
	if tx == nil || tx.status == 2 {
		return 0, errors.New("receipt unavailable")
	}
	if tx.status == 1 {
		c.chain.cash(tx.issuer, c.self, tx.cum)
		return 1, nil
	}
	return 0, nil
}

// ---- cheque store recorder (pure pass-through) ----

type c30Credit struct {
	issuer common.Address
	amount *big.Int
	cum    *big.Int
}

type c30CSRec struct {
	chequePkg.ChequeStore
	mu      *sync.Mutex
	credits *[]c30Credit
}

func (c *c30CSRec) ReceiveCheque(ctx context.Context, ch *chequePkg.SignedCheque) (*big.Int, error) {
	amt, err := c.ChequeStore.ReceiveCheque(ctx, ch)
	if err == nil {
		c.mu.Lock()
		*c.credits = append(*c.credits, c30Credit{ch.Beneficiary, new(big.Int).Set(amt), new(big.Int).Set(ch.CumulativePayout)})
		c.mu.Unlock()
	}
	return amt, err
}

// ---- remote peer: real protocol end + recording traffic logic ----

type c30Got struct {
	cheque *chequePkg.SignedCheque
	issuer common.Address // recovered
	sigErr error
}

type c30PeerTraffic struct {
	mu   sync.Mutex
	got  []c30Got
	last *chequePkg.SignedCheque
}

func (t *c30PeerTraffic) ReceiveCheque(ctx context.Context, peer boson.Address, ch *chequePkg.SignedCheque) error {
	iss, err := chequePkg.RecoverCheque(ch, c30ChainID)
	t.mu.Lock()
	t.got = append(t.got, c30Got{ch, iss, err})
	if err == nil && (t.last == nil || ch.CumulativePayout.Cmp(t.last.CumulativePayout) > 0) {
		t.last = ch
	}
	t.mu.Unlock()
	return nil
}
func (t *c30PeerTraffic) Handshake(peer boson.Address, beneficiary common.Address, ch chequePkg.SignedCheque) error {
	return nil
}
func (t *c30PeerTraffic) LastReceivedCheque(peer boson.Address) (*chequePkg.SignedCheque, error) {
	t.mu.Lock()
	defer t.mu.Unlock()
	if t.last != nil {
		return t.last, nil
	}
	return &chequePkg.SignedCheque{}, nil
}
func (t *c30PeerTraffic) UpdatePeerBalance(peer boson.Address) error { return nil }
func (t *c30PeerTraffic) snapshot() []c30Got {
	t.mu.Lock()
	defer t.mu.Unlock()
	return append([]c30Got(nil), t.got...)
}

type c30Peer struct {
	*c30Party
	tr    *c30PeerTraffic
	proto *trafficprotocol.Service // the peer's own protocol end (handler for cheques we send)
}

// ---- the node under test ----

type c30Env struct {
	r      *gosim.Run
	logger logging.Logger
	self   *c30Party
	peers  []*c30Peer
	store  *c30Store
	chain  *c30Chain

	mu       sync.Mutex
	credits  []c30Credit
	failSend map[string]int // peer overlay -> number of next streams to fail
	notified []string
}

type c30Node struct {
	env   *c30Env
	alive *c30Alive
	svc   *traffic.Service
	proto *trafficprotocol.Service
	cs    chequePkg.ChequeStore // raw real store (no recorder)
	book  traffic.Addressbook
	cash  *c30Cashout
}

func c30NewEnv(r *gosim.Run, keyseed int64, nPeers int) *c30Env {
	e := &c30Env{r: r, logger: logging.New(io.Discard, 0), store: c30NewStore(r), chain: c30NewChain(), failSend: map[string]int{}}
	e.self = c30NewParty(keyseed, 0)
	for i := 0; i < nPeers; i++ {
		p := &c30Peer{c30Party: c30NewParty(keyseed, i+1), tr: &c30PeerTraffic{}}
		e.peers = append(e.peers, p)
	}
	return e
}

// start builds a fresh service instance over the surviving store and the chain
// (what node.InitTraffic + Init do) and returns it.
func (e *c30Env) start() (*c30Node, error) {
	n := &c30Node{env: e, alive: &c30Alive{}}
	sf := &c30StoreFront{e.store, n.alive}
	cf := &c30ChainFront{e.chain, n.alive}
	n.cs = chequePkg.NewChequeStore(sf, e.self.addr, chequePkg.RecoverCheque, c30ChainID)
	rec := &c30CSRec{ChequeStore: n.cs, mu: &e.mu, credits: &e.credits}
	n.cash = &c30Cashout{chain: e.chain, self: e.self.addr, cs: n.cs, txs: map[common.Hash]*c30CashTx{}, alive: n.alive}
	n.book = traffic.NewAddressBook(sf)

	// outgoing streams of the node end in the peers' real protocol handlers
	byPeer := map[string]p2p.ProtocolSpec{}
	for _, p := range e.peers {
		p.proto = trafficprotocol.New(nil, e.logger, p.addr)
		p.proto.SetTraffic(p.tr)
		byPeer[p.overlay.String()] = p.proto.Protocol()
	}
	out := streamtest.New(streamtest.WithBaseAddr(e.self.overlay), streamtest.WithPeerProtocols(byPeer),
		streamtest.WithStreamError(func(a boson.Address, _, _, _ string) error {
			e.mu.Lock()
			defer e.mu.Unlock()
			if e.failSend[a.String()] > 0 {
				e.failSend[a.String()]--
				e.r.Count("fault_cheque_delivery")
				return errors.New("stream: peer unreachable")
			}
			return nil
		}))
	n.proto = trafficprotocol.New(out, e.logger, e.self.addr)
	p2ps := p2pmock.New(p2pmock.WithDisconnectFunc(func(boson.Address, string) error { return nil }))
	n.svc = traffic.New(e.logger, e.self.addr, sf, cf, rec, n.cash, p2ps, n.book, e.self.cheques, n.proto, c30ChainID, subscribe.NewSubPub())
	n.proto.SetTraffic(n.svc)
	n.svc.SetNotifyPaymentFunc(func(peer boson.Address, amount *big.Int) error {
		e.mu.Lock()
		e.notified = append(e.notified, fmt.Sprintf("%s:%s", peer.String()[:8], amount.String()))
		e.mu.Unlock()
		return nil
	})
	if err := n.svc.Init(); err != nil {
		return n, err
	}
	return n, nil
}

func (n *c30Node) stop() { n.alive.kill() }

// register makes the node learn peer -> chain address through the real init
// handshake (peer connects out, node's initHandler -> Service.Handshake).
func (n *c30Node) register(p *c30Peer) error {
	rec := streamtest.New(streamtest.WithBaseAddr(p.overlay), streamtest.WithProtocols(n.proto.Protocol()))
	pp := trafficprotocol.New(rec, n.env.logger, p.addr)
	pp.SetTraffic(p.tr)
	ctx, cancel := context.WithTimeout(context.Background(), time.Minute)
	defer cancel()
	return pp.Protocol().ConnectOut(ctx, p2p.Peer{Address: n.env.self.overlay})
}

// deliver sends a signed cheque to the node as `from` over the real protocol
// and returns the node-side handler's verdict.
func (n *c30Node) deliver(fromOverlay boson.Address, fromAddr common.Address, ch *chequePkg.SignedCheque) (accepted bool, herr error) {
	rec := streamtest.New(streamtest.WithBaseAddr(fromOverlay), streamtest.WithProtocols(n.proto.Protocol()))
	pp := trafficprotocol.New(rec, n.env.logger, fromAddr)
	ctx, cancel := context.WithTimeout(context.Background(), time.Minute)
	defer cancel()
	if err := pp.EmitCheque(ctx, n.env.self.overlay, ch); err != nil {
		return false, err
	}
	recs, err := rec.Records(n.env.self.overlay, c30ProtoName, c30ProtoVer, c30Stream)
	if err != nil || len(recs) != 1 {
		return false, fmt.Errorf("no stream record: %v", err)
	}
	if e := recs[0].Err(); e != nil {
		return false, e
	}
	return true, nil
}

// c30Guard runs f under a fake-time watchdog.
func c30Guard(r *gosim.Run, what string, f func()) {
	done := make(chan struct{})
	go func() { defer close(done); f() }()
	select {
	case <-done:
	case <-time.After(2 * time.Hour):
		r.Violate("hang", "%s did not return within 2 simulated hours", what)
	}
}

// c30Phases is RunPhases with additional separator kinds: an op for which
// sep(o) is true ends the phase and is handed to after() (nil for "barrier"
// and for the end of the plan).
func c30Phases(r *gosim.Run, ops []gosim.Op, sep func(gosim.Op) bool, exec func(phase int, o gosim.Op), after func(phase int, s *gosim.Op)) {
	phase := 0
	i := 0
	for i <= len(ops) {
		j := i
		for j < len(ops) && ops[j].K != "barrier" && !sep(ops[j]) {
			j++
		}
		seg := ops[i:j]
		var clients []int64
		by := map[int64][]gosim.Op{}
		for _, o := range seg {
			c := o.Arg(0)
			if _, ok := by[c]; !ok {
				clients = append(clients, c)
			}
			by[c] = append(by[c], o)
		}
		var wg sync.WaitGroup
		for _, c := range clients {
			wg.Add(1)
			go func(list []gosim.Op) {
				defer wg.Done()
				for _, o := range list {
					exec(phase, o)
					r.OpDone()
				}
			}(by[c])
		}
		wg.Wait()
		gosim.Idle()
		var s *gosim.Op
		if j < len(ops) && ops[j].K != "barrier" {
			s = &ops[j]
		}
		after(phase, s)
		if s != nil {
			r.OpDone()
		}
		phase++
		i = j + 1
	}
}

func c30Big(v *big.Int) string {
	if v == nil {
		return "nil"
	}
	return v.String()
}
