package worlds

import (
	"context"
	"errors"
	"fmt"
	"io"
	"math/big"
	"math/rand"
	"sort"
	"strings"
	"sync"

	"github.com/anishathalye/porcupine"

	"github.com/gauss-project/aurorafs/pkg/accounting"
	"github.com/gauss-project/aurorafs/pkg/boson"
	"github.com/gauss-project/aurorafs/pkg/logging"
	"github.com/gauss-project/aurorafs/pkg/settlement"
	statemock "github.com/gauss-project/aurorafs/pkg/statestore/mock"

	"verifharness/gosim"
)

// C32 — Per-peer debt tracking is exact and race-free (pkg/accounting).
//
// Ops (first argument = client goroutine, second = peer index):
//   credit  [client, peer, traffic]   Accounting.Credit
//   notify  [client, peer, amount]    Accounting.NotifyPayment
//   reserve [client, peer, traffic]   Accounting.Reserve            (the threshold read)
//   debit   [client, peer, traffic]   Accounting.Debit
//   recv    [client, peer, amount]    settlement stub: the peer settles served traffic
//   read    [client, peer]            Accounting.VerifUnpaid        (exact read, hook)
//   barrier                           all clients join, system quiesces, one snapshot op per peer
// Faults:
//   err [kind, nth]                   the nth call of the settlement stub method <kind> fails
//
// Oracle: every invoke/return is stamped with a global sequence number; the
// per-peer histories are checked for linearizability (porcupine) against the
// sequential model of the statement (c32Step). Plus direct checks: the balance
// is never negative, no unexpected errors, and a phase whose credits leave the
// balance at/above the threshold has requested at least one payment.

const (
	c32MaxPeers = 3
	c32MaxHist  = 1024
	c32MaxFail  = 4
	c32CliSnap  = 8 // the harness goroutine (quiescent snapshots)
	c32CliPay   = 9 // the accounting settle goroutine (payments confirmed inside Pay)
)

const (
	c32KCredit = iota
	c32KNotify
	c32KReserve
	c32KDebit
	c32KRecv
	c32KRead
	c32KSnap
)

var c32KindName = [...]string{"credit", "notify", "reserve", "debit", "recv", "read", "snap"}

const (
	c32Ok      = iota // nil error
	c32Refused        // Reserve: low available balance; Debit: tolerance reached
	c32Fault          // the injected settlement error came back
)

var c32CodeName = [...]string{"ok", "refused", "fault"}

const (
	c32FPutRetrieve = iota
	c32FTransfer
	c32FAvail
	c32FPutTransfer
	c32FRetrieve
	c32FPay
	c32NFault
)

var c32FaultName = [...]string{"put_retrieve", "transfer", "avail", "put_transfer", "retrieve", "pay"}

var c32ErrInjected = errors.New("c32: injected settlement failure")

type c32Out struct {
	code    int
	a, b, c int64
}

type c32In struct {
	kind int
	arg  int64
}

type c32Rec struct {
	peer, client, kind int
	arg, call, ret     int64
	out                c32Out
	done               bool
}

// c32World records the history. Its mutex is hidden from the race detector and
// its methods are not instrumented (fixed arrays, no maps, no append), so the
// recorder neither masks nor causes race reports.
type c32World struct {
	r     *gosim.Run
	acc   *accounting.Accounting
	peers []boson.Address

	hmu      sync.Mutex
	seq      int64
	nh       int
	overflow bool
	hist     [c32MaxHist]c32Rec
	// facts of the current phase, per peer, for the direct payment check
	phCreditsOk  [c32MaxPeers]int64
	phCreditsErr [c32MaxPeers]int64
	phNotifies   [c32MaxPeers]int64
}

//go:norace
func (w *c32World) begin(peer, client, kind int, arg int64) int {
	gosim.RaceOff()
	w.hmu.Lock()
	idx := -1
	if w.nh < c32MaxHist {
		idx = w.nh
		w.nh++
		w.seq++
		w.hist[idx] = c32Rec{peer: peer, client: client, kind: kind, arg: arg, call: w.seq}
	} else {
		w.overflow = true
	}
	if kind == c32KNotify {
		w.phNotifies[peer]++
	}
	w.hmu.Unlock()
	gosim.RaceOn()
	return idx
}

//go:norace
func (w *c32World) end(idx int, out c32Out) {
	gosim.RaceOff()
	w.hmu.Lock()
	if idx >= 0 {
		w.seq++
		h := &w.hist[idx]
		h.ret = w.seq
		h.out = out
		h.done = true
		if h.kind == c32KCredit {
			if out.code == c32Ok {
				w.phCreditsOk[h.peer]++
			} else {
				w.phCreditsErr[h.peer]++
			}
		}
	}
	w.hmu.Unlock()
	gosim.RaceOn()
}

//go:norace
func (w *c32World) phaseFacts(peer int) (creditsOk, creditsErr, notifies int64) {
	gosim.RaceOff()
	w.hmu.Lock()
	creditsOk, creditsErr, notifies = w.phCreditsOk[peer], w.phCreditsErr[peer], w.phNotifies[peer]
	w.phCreditsOk[peer], w.phCreditsErr[peer], w.phNotifies[peer] = 0, 0, 0
	w.hmu.Unlock()
	gosim.RaceOn()
	return
}

// opNotify is Accounting.NotifyPayment as a recorded operation.
func (w *c32World) opNotify(client, pi int, amount int64) {
	idx := w.begin(pi, client, c32KNotify, amount)
	err := w.acc.NotifyPayment(w.peers[pi], big.NewInt(amount))
	out := c32Out{code: c32Ok}
	if err != nil {
		if !errors.Is(err, c32ErrInjected) {
			w.r.Violate("unexpected-error", "NotifyPayment(p%d, %d) returned %v", pi, amount, err)
		}
		out.code = c32Fault
	}
	w.end(idx, out)
	w.r.Logf("c%d notify p%d %d -> %s", client, pi, amount, c32CodeName[out.code])
}

// ---- settlement stub: scripted and recording ----

type c32Stub struct {
	w       *c32World
	mu      sync.Mutex
	avail   int64
	payMode int64
	retr    [c32MaxPeers]int64 // retrieve traffic not covered by a cheque yet
	served  [c32MaxPeers]int64 // served (transfer) traffic the peer has not settled yet
	pays    [c32MaxPeers]int64 // Pay requests recorded
	calls   [c32NFault]int64
	failAt  [c32NFault][c32MaxFail]int64
}

var _ settlement.Interface = (*c32Stub)(nil)

//go:norace
func c32PeerIdx(peer boson.Address) int {
	b := peer.Bytes()
	if len(b) == 0 || int(b[0]) < 1 || int(b[0]) > c32MaxPeers {
		return 0
	}
	return int(b[0]) - 1
}

// inject is called with s.mu held.
//
//go:norace
func (s *c32Stub) inject(kind int) bool {
	s.calls[kind]++
	for j := 0; j < c32MaxFail; j++ {
		if s.failAt[kind][j] != 0 && s.failAt[kind][j] == s.calls[kind] {
			return true
		}
	}
	return false
}

func (s *c32Stub) fired(kind int) error {
	s.w.r.Count("fault_" + c32FaultName[kind])
	s.w.r.Logf("stub fault %s", c32FaultName[kind])
	return c32ErrInjected
}

//go:norace
func (s *c32Stub) Pay(ctx context.Context, peer boson.Address, paymentThreshold *big.Int) error {
	i := c32PeerIdx(peer)
	t := paymentThreshold.Int64()
	gosim.RaceOff()
	s.mu.Lock()
	fail := s.inject(c32FPay)
	s.pays[i]++
	n := s.pays[i]
	var settle int64
	if !fail && s.payMode == 1 && s.retr[i] >= t && s.retr[i] > 0 {
		settle = s.retr[i]
		s.retr[i] = 0
	}
	s.mu.Unlock()
	gosim.RaceOn()
	s.w.r.Logf("stub pay p%d thr=%d n=%d settle=%d", i, t, n, settle)
	if fail {
		return s.fired(c32FPay)
	}
	if settle > 0 {
		// like the real traffic service: the cheque is issued and accounting is
		// told about the payment from inside Pay
		s.w.r.Count("probe_pay_confirms")
		s.w.opNotify(c32CliPay, i, settle)
	}
	return nil
}

//go:norace
func (s *c32Stub) TransferTraffic(peer boson.Address) (*big.Int, error) {
	i := c32PeerIdx(peer)
	gosim.RaceOff()
	s.mu.Lock()
	fail := s.inject(c32FTransfer)
	v := s.served[i]
	s.mu.Unlock()
	gosim.RaceOn()
	if fail {
		return nil, s.fired(c32FTransfer)
	}
	return big.NewInt(v), nil
}

//go:norace
func (s *c32Stub) RetrieveTraffic(peer boson.Address) (*big.Int, error) {
	i := c32PeerIdx(peer)
	gosim.RaceOff()
	s.mu.Lock()
	fail := s.inject(c32FRetrieve)
	v := s.retr[i]
	s.mu.Unlock()
	gosim.RaceOn()
	if fail {
		return nil, s.fired(c32FRetrieve)
	}
	return big.NewInt(v), nil
}

//go:norace
func (s *c32Stub) PutRetrieveTraffic(peer boson.Address, traffic *big.Int) error {
	i := c32PeerIdx(peer)
	t := traffic.Int64()
	gosim.RaceOff()
	s.mu.Lock()
	fail := s.inject(c32FPutRetrieve)
	if !fail {
		s.retr[i] += t
	}
	s.mu.Unlock()
	gosim.RaceOn()
	if fail {
		return s.fired(c32FPutRetrieve)
	}
	return nil
}

//go:norace
func (s *c32Stub) PutTransferTraffic(peer boson.Address, traffic *big.Int) error {
	i := c32PeerIdx(peer)
	t := traffic.Int64()
	gosim.RaceOff()
	s.mu.Lock()
	fail := s.inject(c32FPutTransfer)
	if !fail {
		s.served[i] += t
	}
	v := s.served[i]
	s.mu.Unlock()
	gosim.RaceOn()
	if fail {
		return s.fired(c32FPutTransfer)
	}
	s.w.r.Logf("stub put_transfer p%d +%d = %d", i, t, v)
	return nil
}

//go:norace
func (s *c32Stub) AvailableBalance() (*big.Int, error) {
	gosim.RaceOff()
	s.mu.Lock()
	fail := s.inject(c32FAvail)
	v := s.avail
	s.mu.Unlock()
	gosim.RaceOn()
	if fail {
		return nil, s.fired(c32FAvail)
	}
	return big.NewInt(v), nil
}

func (s *c32Stub) SetNotifyPaymentFunc(settlement.NotifyPaymentFunc) {}
func (s *c32Stub) GetPeerBalance(boson.Address) (*big.Int, error)    { return big.NewInt(0), nil }
func (s *c32Stub) GetUnPaidBalance(boson.Address) (*big.Int, error) {
	return big.NewInt(0), nil
}

// recvSettle: the peer settles up to amount of the traffic we served it.
//
//go:norace
func (s *c32Stub) recvSettle(i int, amount int64) {
	gosim.RaceOff()
	s.mu.Lock()
	if amount > s.served[i] {
		amount = s.served[i]
	}
	s.served[i] -= amount
	s.mu.Unlock()
	gosim.RaceOn()
}

//go:norace
func (s *c32Stub) snapshot(i int) (served, pays int64) {
	gosim.RaceOff()
	s.mu.Lock()
	served, pays = s.served[i], s.pays[i]
	s.mu.Unlock()
	gosim.RaceOn()
	return
}

// ---- sequential model (from the statement) ----

type c32St struct{ unpaid, served, cross int64 }

// c32Step: all states the model can be in after the operation returned out, or
// none if the sequential specification cannot produce out.
//
//	unpaid  = credits − notified payments, clamped at 0
//	cross   = number of credits that left unpaid at or above the threshold
//	served  = unsettled served traffic recorded for the peer
func c32Step(s c32St, in c32In, out c32Out, thr, tol, avail int64) []interface{} {
	one := func(x c32St) []interface{} { return []interface{}{x} }
	switch in.kind {
	case c32KCredit:
		switch out.code {
		case c32Ok:
			s.unpaid += in.arg
			if s.unpaid >= thr {
				s.cross++
			}
			return one(s)
		case c32Fault:
			// a credit that failed in the settlement layer may or may not count,
			// and owes no payment request
			t := s
			t.unpaid += in.arg
			return []interface{}{s, t}
		}
	case c32KNotify:
		if out.code == c32Ok {
			s.unpaid -= in.arg
			if s.unpaid < 0 {
				s.unpaid = 0
			}
			return one(s)
		}
		if out.code == c32Fault {
			return one(s)
		}
	case c32KReserve:
		switch out.code {
		case c32Ok:
			if s.unpaid+in.arg <= avail {
				return one(s)
			}
		case c32Refused:
			if s.unpaid+in.arg > avail {
				return one(s)
			}
		case c32Fault:
			return one(s)
		}
	case c32KDebit:
		switch out.code {
		case c32Ok:
			if s.served < tol {
				s.served += in.arg
				return one(s)
			}
		case c32Refused:
			if s.served >= tol {
				return one(s) // refused and not recorded
			}
		case c32Fault:
			return one(s) // the stub records nothing when it fails
		}
	case c32KRecv:
		d := in.arg
		if d > s.served {
			d = s.served
		}
		s.served -= d
		return one(s)
	case c32KRead:
		if out.a == s.unpaid {
			return one(s)
		}
	case c32KSnap:
		if (out.a == -1 || out.a == s.unpaid) && out.b == s.served && out.c >= s.cross {
			return one(s)
		}
	}
	return nil
}

func c32Describe(h c32Rec) string {
	o := c32CodeName[h.out.code]
	switch h.kind {
	case c32KRead:
		o = fmt.Sprintf("%d", h.out.a)
	case c32KSnap:
		o = fmt.Sprintf("unpaid=%d served=%d pays=%d", h.out.a, h.out.b, h.out.c)
	}
	return fmt.Sprintf("[%d,%d] c%d %s(%d)->%s", h.call, h.ret, h.client, c32KindName[h.kind], h.arg, o)
}

// ---- plan generation ----

func c32Near(rng *rand.Rand, target int64) int64 {
	v := target + gosim.Pick(rng, -1, 0, 0, 1)
	if v < 0 {
		v = 0
	}
	return v
}

func c32Gen(rng *rand.Rand, tier string) *gosim.Plan {
	p := &gosim.Plan{Params: map[string]int64{}}
	thr := gosim.Pick(rng, 4, 8, 10, 16, 100)
	tol := gosim.Pick(rng, 3, 5, 10, 20)
	nPeers := 2 + rng.Intn(2)
	nCli := 1 + rng.Intn(4)
	maxPhase, maxOps, capPeer := 4, 7, 28
	if tier == "thorough" {
		maxPhase, maxOps, capPeer = 6, 10, 34
	}
	nPhase := 2 + rng.Intn(maxPhase-1)
	avail := thr*gosim.Pick(rng, 1, 2, 3) + gosim.Pick(rng, -1, 0, 1, 5)
	payMode := int64(0)
	if rng.Intn(3) == 0 {
		payMode = 1
	}
	p.Params["threshold"] = thr
	p.Params["tolerance"] = tol
	p.Params["peers"] = int64(nPeers)
	p.Params["available"] = avail
	p.Params["pay_mode"] = payMode
	estU := make([]int64, nPeers)
	estS := make([]int64, nPeers)
	cnt := make([]int, nPeers)
	for i := 0; i < nPeers; i++ {
		estU[i] = gosim.Pick(rng, 0, 0, 0, 0, thr-1, thr, 3)
		estS[i] = gosim.Pick(rng, 0, 0, 0, 0, tol-1, tol, 2)
		p.Params[fmt.Sprintf("retrieve0_%d", i)] = estU[i]
		p.Params[fmt.Sprintf("served0_%d", i)] = estS[i]
	}
	for ph := 0; ph < nPhase; ph++ {
		n := 2 + rng.Intn(maxOps-1)
		hot := -1
		if rng.Intn(10) < 4 {
			hot = rng.Intn(nPeers)
		}
		// burst phase: every client hits the same peer at the same boundary at once
		if b := rng.Intn(10); b < 3 && nCli >= 2 {
			pi := rng.Intn(nPeers)
			if cnt[pi]+nCli+1 <= capPeer {
				for c := 0; c < nCli; c++ {
					cnt[pi]++
					switch {
					case b == 0: // concurrent debits around the tolerance
						amt := c32Near(rng, tol-estS[pi])
						if amt < 1 {
							amt = 1 + rng.Int63n(tol)
						}
						p.Ops = append(p.Ops, gosim.Op{K: "debit", A: []int64{int64(c), int64(pi), amt}})
					case c%2 == 0: // credits that reach the threshold ...
						amt := c32Near(rng, thr-estU[pi])
						if amt < 1 {
							amt = 1
						}
						p.Ops = append(p.Ops, gosim.Op{K: "credit", A: []int64{int64(c), int64(pi), amt}})
					default: // ... racing with payment notifications
						p.Ops = append(p.Ops, gosim.Op{K: "notify", A: []int64{int64(c), int64(pi), gosim.Pick(rng, 1, 2, thr, thr-1)}})
					}
				}
				// the estimates are only aiming aids; resynchronise them roughly
				if b == 0 {
					if estS[pi] < tol {
						estS[pi] = tol
					}
				} else {
					estU[pi] = 1
				}
				n = rng.Intn(3)
			}
		}
		for k := 0; k < n; k++ {
			pi := hot
			if pi < 0 {
				pi = rng.Intn(nPeers)
			}
			if cnt[pi] >= capPeer {
				continue
			}
			cnt[pi]++
			c := int64(rng.Intn(nCli))
			var o gosim.Op
			switch x := rng.Intn(100); {
			case x < 32: // credit, aimed at the threshold
				var amt int64
				d := thr - estU[pi]
				switch y := rng.Intn(10); {
				case y < 6 && d >= 1:
					amt = c32Near(rng, d)
				case y < 8 && d >= 2:
					amt = c32Near(rng, d/2)
				default:
					amt = 1 + rng.Int63n(thr/2+1)
				}
				if amt < 1 {
					amt = 1
				}
				estU[pi] += amt
				if payMode == 1 && estU[pi] >= thr {
					estU[pi] = 0
				}
				o = gosim.Op{K: "credit", A: []int64{c, int64(pi), amt}}
			case x < 46: // payment notification, aimed at the balance (clamp)
				var amt int64
				switch y := rng.Intn(10); {
				case y < 5:
					amt = c32Near(rng, estU[pi])
				case y < 7:
					amt = 1 + rng.Int63n(thr)
				case y < 8:
					amt = thr
				case y < 9:
					amt = 2 * thr
				default:
					amt = 0
				}
				estU[pi] -= amt
				if estU[pi] < 0 {
					estU[pi] = 0
				}
				o = gosim.Op{K: "notify", A: []int64{c, int64(pi), amt}}
			case x < 60: // reserve: succeeds iff unpaid <= level
				level := c32Near(rng, estU[pi]) + gosim.Pick(rng, 0, 0, 0, -1, 1)
				t := avail - level
				if t < 0 {
					t = int64(rng.Intn(3))
				}
				o = gosim.Op{K: "reserve", A: []int64{c, int64(pi), t}}
			case x < 76: // debit, aimed at the tolerance
				var amt int64
				d := tol - estS[pi]
				if d >= 1 && rng.Intn(10) < 6 {
					amt = c32Near(rng, d)
				} else {
					amt = 1 + rng.Int63n(tol)
				}
				if amt < 1 {
					amt = 1
				}
				if estS[pi] < tol {
					estS[pi] += amt
				}
				o = gosim.Op{K: "debit", A: []int64{c, int64(pi), amt}}
			case x < 83: // the peer settles served traffic
				amt := c32Near(rng, estS[pi])
				if rng.Intn(2) == 0 {
					amt = 1 + rng.Int63n(tol)
				}
				d := amt
				if d > estS[pi] {
					d = estS[pi]
				}
				estS[pi] -= d
				o = gosim.Op{K: "recv", A: []int64{c, int64(pi), amt}}
			default:
				o = gosim.Op{K: "read", A: []int64{c, int64(pi)}}
			}
			p.Ops = append(p.Ops, o)
		}
		p.Ops = append(p.Ops, gosim.Op{K: "barrier"})
	}
	// 60 % of the runs are fault-free
	if rng.Intn(10) < 4 {
		nf := 1 + rng.Intn(3)
		for i := 0; i < nf; i++ {
			p.Faults = append(p.Faults, gosim.Op{K: "err", A: []int64{int64(rng.Intn(c32NFault)), int64(1 + rng.Intn(4))}})
		}
	}
	return p
}

// ---- execution ----

func c32Exec(r *gosim.Run) {
	pl := r.Plan
	thr := pl.P("threshold", 10)
	tol := pl.P("tolerance", 5)
	avail := pl.P("available", 20)
	nPeers := int(pl.P("peers", 2))
	if nPeers < 1 {
		nPeers = 1
	}
	if nPeers > c32MaxPeers {
		nPeers = c32MaxPeers
	}
	w := &c32World{r: r}
	stub := &c32Stub{w: w, avail: avail, payMode: pl.P("pay_mode", 0)}
	init0 := make([]c32St, nPeers)
	for i := 0; i < nPeers; i++ {
		a := make([]byte, 32)
		a[0] = byte(i + 1)
		w.peers = append(w.peers, boson.NewAddress(a))
		stub.retr[i] = pl.P(fmt.Sprintf("retrieve0_%d", i), 0)
		stub.served[i] = pl.P(fmt.Sprintf("served0_%d", i), 0)
		init0[i] = c32St{unpaid: stub.retr[i], served: stub.served[i]}
	}
	nFail := [c32NFault]int{}
	for _, f := range pl.Faults {
		k := int(f.Arg(0))
		if f.K != "err" || k < 0 || k >= c32NFault || f.Arg(1) < 1 || nFail[k] >= c32MaxFail {
			continue
		}
		stub.failAt[k][nFail[k]] = f.Arg(1)
		nFail[k]++
	}
	acc := accounting.NewAccounting(big.NewInt(tol), big.NewInt(thr), logging.New(io.Discard, 0), statemock.NewStateStore(), stub)
	w.acc = acc
	ctx := context.Background()

	classify := func(what string, err error, refused error) int {
		switch {
		case err == nil:
			return c32Ok
		case refused != nil && errors.Is(err, refused):
			return c32Refused
		case errors.Is(err, c32ErrInjected):
			return c32Fault
		}
		r.Violate("unexpected-error", "%s returned %v", what, err)
		return 0
	}
	readUnpaid := func(pi int) int64 {
		u := acc.VerifUnpaid(w.peers[pi])
		if u == nil {
			return -1
		}
		if u.Sign() < 0 {
			r.Violate("negative-unpaid", "unpaid balance of peer %d is %s", pi, u.String())
		}
		return u.Int64()
	}

	paysBefore := make([]int64, nPeers)
	r.RunPhases(pl.Ops, func(phase int, o gosim.Op) {
		cli, pi, amt := int(o.Arg(0)), int(o.Arg(1)), o.Arg(2)
		if pi < 0 || pi >= nPeers || amt < 0 {
			return
		}
		switch o.K {
		case "credit":
			idx := w.begin(pi, cli, c32KCredit, amt)
			err := acc.Credit(ctx, w.peers[pi], uint64(amt))
			code := classify(fmt.Sprintf("Credit(p%d, %d)", pi, amt), err, nil)
			w.end(idx, c32Out{code: code})
			r.Logf("c%d credit p%d %d -> %s", cli, pi, amt, c32CodeName[code])
		case "notify":
			w.opNotify(cli, pi, amt)
		case "reserve":
			idx := w.begin(pi, cli, c32KReserve, amt)
			err := acc.Reserve(w.peers[pi], uint64(amt))
			code := classify(fmt.Sprintf("Reserve(p%d, %d)", pi, amt), err, accounting.ErrLowAvailableExceeded)
			w.end(idx, c32Out{code: code})
			if code == c32Refused {
				r.Count("probe_reserve_refused")
			}
			r.Logf("c%d reserve p%d %d -> %s", cli, pi, amt, c32CodeName[code])
		case "debit":
			idx := w.begin(pi, cli, c32KDebit, amt)
			err := acc.Debit(w.peers[pi], uint64(amt))
			code := classify(fmt.Sprintf("Debit(p%d, %d)", pi, amt), err, accounting.ErrDisconnectThresholdExceeded)
			w.end(idx, c32Out{code: code})
			if code == c32Refused {
				r.Count("probe_debit_refused")
			}
			r.Logf("c%d debit p%d %d -> %s", cli, pi, amt, c32CodeName[code])
		case "recv":
			idx := w.begin(pi, cli, c32KRecv, amt)
			stub.recvSettle(pi, amt)
			w.end(idx, c32Out{code: c32Ok})
			r.Logf("c%d recv p%d %d", cli, pi, amt)
		case "read":
			idx := w.begin(pi, cli, c32KRead, 0)
			u := readUnpaid(pi)
			if u < 0 {
				// no record yet: says nothing; keep the op legal in every state
				w.end(idx, c32Out{code: c32Ok, a: -1})
				r.Logf("c%d read p%d -> none", cli, pi)
				return
			}
			w.end(idx, c32Out{code: c32Ok, a: u})
			r.Logf("c%d read p%d -> %d", cli, pi, u)
		}
	}, func(phase int) {
		// quiescent: the settle goroutine has drained the payment channel
		for pi := 0; pi < nPeers; pi++ {
			idx := w.begin(pi, c32CliSnap, c32KSnap, 0)
			u := readUnpaid(pi)
			served, pays := stub.snapshot(pi)
			w.end(idx, c32Out{a: u, b: served, c: pays})
			r.Logf("snap phase=%d p%d unpaid=%d served=%d pays=%d", phase, pi, u, served, pays)
			ok, bad, notifies := w.phaseFacts(pi)
			if u >= thr {
				r.Count("probe_unpaid_at_or_above_threshold")
			}
			if served >= tol {
				r.Count("probe_served_at_or_above_tolerance")
			}
			// Only credits changed the balance in this phase and all of them
			// succeeded: the balance grew monotonically, so the last credit left it
			// at its final value; if that is at/above the threshold a payment was due.
			if ok > 0 && bad == 0 && notifies == 0 && u >= thr {
				r.Count("probe_pay_due")
				if pays == paysBefore[pi] {
					r.Violate("pay-missing", "peer %d: %d credits in phase %d left unpaid=%d >= threshold %d, no payment notification intervened, but no payment was requested (requests so far %d)",
						pi, ok, phase, u, thr, pays)
				}
			}
			paysBefore[pi] = pays
		}
	})

	// ---- linearizability of each peer's history against the sequential model ----
	if w.overflow {
		r.Count("inconclusive")
		return
	}
	for pi := 0; pi < nPeers; pi++ {
		var recs []c32Rec
		for i := 0; i < w.nh; i++ {
			if h := w.hist[i]; h.peer == pi && h.done {
				if h.kind == c32KRead && h.out.a == -1 {
					continue
				}
				recs = append(recs, h)
			}
		}
		if len(recs) == 0 {
			continue
		}
		if len(recs) > 60 {
			r.Count("inconclusive")
			continue
		}
		ops := make([]porcupine.Operation, 0, len(recs))
		for _, h := range recs {
			ops = append(ops, porcupine.Operation{ClientId: h.client, Input: c32In{h.kind, h.arg}, Call: h.call, Output: h.out, Return: h.ret})
		}
		start := init0[pi]
		nm := porcupine.NondeterministicModel{
			Init: func() []interface{} { return []interface{}{start} },
			Step: func(st, in, out interface{}) []interface{} {
				return c32Step(st.(c32St), in.(c32In), out.(c32Out), thr, tol, avail)
			},
			Equal: func(a, b interface{}) bool { return a.(c32St) == b.(c32St) },
		}
		res := porcupine.CheckOperations(nm.ToModel(), ops)
		r.Count("probe_histories_checked")
		r.Add("history_ops", int64(len(ops)))
		if !res {
			sort.Slice(recs, func(i, j int) bool { return recs[i].call < recs[j].call })
			var sb strings.Builder
			for _, h := range recs {
				sb.WriteString(c32Describe(h))
				sb.WriteString("; ")
			}
			r.Violate("not-linearizable", "peer %d (threshold=%d tolerance=%d available=%d, initial unpaid=%d served=%d): no sequential order of the operations explains the observed results: %s",
				pi, thr, tol, avail, start.unpaid, start.served, sb.String())
		}
	}
}

func init() {
	gosim.Register(&gosim.World{
		Prop: "C32", Gen: c32Gen, Exec: c32Exec,
		Real:  []string{"pkg/accounting (Accounting: Reserve, Credit, Debit, NotifyPayment, settle loop, per-peer records)", "pkg/statestore/mock", "pkg/logging (discarding)"},
		Stubs: []string{"settlement.Interface (c32Stub: scripted available balance / traffic totals, records Pay requests, optional payment confirmation from inside Pay, injected errors)"},
	})
}
