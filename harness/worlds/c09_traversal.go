//go:build g_heavy

package worlds

import (
	"bytes"
	"context"
	"encoding/hex"
	"errors"
	"fmt"
	"math/rand"
	"sort"
	"sync"
	"time"

	"github.com/gauss-project/aurorafs/pkg/boson"
	"github.com/gauss-project/aurorafs/pkg/file/loadsave"
	"github.com/gauss-project/aurorafs/pkg/file/pipeline"
	"github.com/gauss-project/aurorafs/pkg/file/pipeline/builder"
	"github.com/gauss-project/aurorafs/pkg/manifest"
	"github.com/gauss-project/aurorafs/pkg/storage"
	"github.com/gauss-project/aurorafs/pkg/traversal"

	"verifharness/gosim"
)

// C09 — Traversal reports exactly the chunks of a file or directory.
//
// Ops (first argument = client goroutine):
//   file  [client, fid, size, enc, pattern, contentSeed]       upload a file as its own session "f<fid>"
//   dir   [client, did, enc, rootmeta, (kind, path, x, seed)*] build + store a directory manifest, session "d<did>";
//                                                              kind 0: new file of size x uploaded in the dir session,
//                                                              kind 1: entry refers to the standalone file fid=x
//   trav  [client, tid, kind(0 file|1 dir), id]                Traverse, GetPyramid, GetChunkHashes(nil) and (plain
//                                                              targets) the receiving side GetChunkHashes(pyramid)
//   barrier
// Faults (refer to a traversal by its tid, never by position):
//   getfail  [tid, call, k]       the k-th Get of call (0 Traverse, 1 GetPyramid, 2 GetChunkHashes) fails
//   getdelay [tid, call, k, ms]   the k-th Get of that call takes ms of simulated time

// ---- chunk store -----------------------------------------------------------

var c09ErrInjectedGet = errors.New("c09: injected get failure")
var c09ErrInjectedPut = errors.New("c09: injected put failure")

// c09Store is the shared in-memory chunk store; de-duplicated by address, every
// Put is recorded under the upload session of the view it came through.
type c09Store struct {
	mu     sync.Mutex
	chunks map[string][]byte
	puts   map[string]map[string]int // session -> address(hex) -> number of puts
	dups   int64
}

func c09NewStore() *c09Store {
	return &c09Store{chunks: map[string][]byte{}, puts: map[string]map[string]int{}}
}

func (s *c09Store) sessionSet(session string) map[string]bool {
	s.mu.Lock()
	defer s.mu.Unlock()
	out := map[string]bool{}
	for a := range s.puts[session] {
		out[a] = true
	}
	return out
}

// c09View is one client's handle on the store: it tags puts with a session and
// carries the fault plan (k-th Put/Get fails or is delayed in fake time).
type c09View struct {
	base    *c09Store
	r       *gosim.Run
	session string

	mu       sync.Mutex
	nGet     int64
	nPut     int64
	failGet  map[int64]bool
	failPut  map[int64]bool
	delayGet map[int64]time.Duration
	delayPut map[int64]time.Duration
	firedGet int64 // injected get failures that fired
	firedPut int64
}

func (s *c09Store) view(r *gosim.Run, session string) *c09View {
	return &c09View{base: s, r: r, session: session}
}

func c09Sleep(ctx context.Context, d time.Duration) error {
	t := time.NewTimer(d)
	defer t.Stop()
	select {
	case <-t.C:
		return nil
	case <-ctx.Done():
		return ctx.Err()
	}
}

func (v *c09View) Put(ctx context.Context, mode storage.ModePut, chs ...boson.Chunk) ([]bool, error) {
	exist := make([]bool, len(chs))
	for i, ch := range chs {
		v.mu.Lock()
		v.nPut++
		n := v.nPut
		d := v.delayPut[n]
		fail := v.failPut[n]
		if fail {
			v.firedPut++
		}
		v.mu.Unlock()
		if d > 0 {
			v.r.Count("fault_putdelay")
			if err := c09Sleep(ctx, d); err != nil {
				return nil, err
			}
		}
		if fail {
			v.r.Count("fault_putfail")
			return nil, c09ErrInjectedPut
		}
		if l := len(ch.Address().Bytes()); l != boson.HashSize {
			v.r.Violate("bad-put-address", "Put with an address of %d bytes", l)
		}
		a := hex.EncodeToString(ch.Address().Bytes())
		data := append([]byte(nil), ch.Data()...)
		s := v.base
		s.mu.Lock()
		if _, ok := s.chunks[a]; ok {
			exist[i] = true
			s.dups++
		} else {
			s.chunks[a] = data
		}
		if v.session != "" {
			m := s.puts[v.session]
			if m == nil {
				m = map[string]int{}
				s.puts[v.session] = m
			}
			m[a]++
		}
		s.mu.Unlock()
	}
	return exist, nil
}

func (v *c09View) Get(ctx context.Context, mode storage.ModeGet, addr boson.Address) (boson.Chunk, error) {
	v.mu.Lock()
	v.nGet++
	n := v.nGet
	d := v.delayGet[n]
	fail := v.failGet[n]
	if fail {
		v.firedGet++
	}
	v.mu.Unlock()
	if d > 0 {
		v.r.Count("fault_getdelay")
		if err := c09Sleep(ctx, d); err != nil {
			return nil, err
		}
	}
	if fail {
		v.r.Count("fault_getfail")
		return nil, c09ErrInjectedGet
	}
	a := hex.EncodeToString(addr.Bytes())
	v.base.mu.Lock()
	data, ok := v.base.chunks[a]
	v.base.mu.Unlock()
	if !ok {
		return nil, storage.ErrNotFound
	}
	return boson.NewChunk(boson.NewAddress(append([]byte(nil), addr.Bytes()...)), data), nil
}

func (v *c09View) fired() (int64, int64) {
	v.mu.Lock()
	defer v.mu.Unlock()
	return v.firedGet, v.firedPut
}

func (v *c09View) gets() int64 {
	v.mu.Lock()
	defer v.mu.Unlock()
	return v.nGet
}

// ---- workload alphabet -----------------------------------------------------

const c09CS = int64(boson.ChunkSize)

var c09Paths = []string{
	"index.html", "a", "ab", "abc", "a/b", "a/b/c", "a/b/d", "a/c.txt",
	"img/1.png", "img/2.png", "img/icons/x.svg", "robots.txt",
	"d/0123456789012345678901234567890123456789.bin",
	"d/0123456789012345678901234567890123456-other.bin",
	"d/e/f/g/h/i/j/k/l/m/n/o/p/q/r/s/t/u/v/w/x/y/z/deep",
}

func c09Size(rng *rand.Rand, tier string, budget *int64) int64 {
	var sz int64
	switch x := rng.Intn(100); {
	case x < 15:
		sz = []int64{0, 1, 31, 32, 33, 4095, 4096}[rng.Intn(7)]
	case x < 35:
		sz = []int64{c09CS - 1, c09CS, c09CS + 1}[rng.Intn(3)]
	case x < 45:
		sz = 1 + rng.Int63n(c09CS)
	case x < 80:
		sz = int64(2+rng.Intn(4))*c09CS + []int64{0, 1, -1, 17, c09CS / 2}[rng.Intn(5)]
	case x < 94:
		sz = int64(6+rng.Intn(15))*c09CS + rng.Int63n(c09CS)
	default:
		max := 20
		if tier == "thorough" {
			max = 180
		}
		sz = int64(21+rng.Intn(max))*c09CS + rng.Int63n(c09CS)
	}
	if sz > *budget {
		sz = *budget
		if sz < 0 {
			sz = 0
		}
	}
	*budget -= sz
	return sz
}

func c09Content(size, pattern, seed int64) []byte {
	b := make([]byte, size)
	switch pattern {
	case 1: // all zero: every full data chunk has the same address
	case 2: // period of two chunks
		rr := rand.New(rand.NewSource(seed))
		per := make([]byte, 2*c09CS)
		rr.Read(per)
		for off := int64(0); off < size; off += int64(len(per)) {
			copy(b[off:], per)
		}
	default:
		rr := rand.New(rand.NewSource(seed))
		rr.Read(b)
	}
	return b
}

func c09Gen(rng *rand.Rand, tier string) *gosim.Plan {
	p := &gosim.Plan{Params: map[string]int64{}}
	nCli := int64(1 + rng.Intn(3))
	budget := int64(10) * 1024 * 1024
	if tier == "thorough" {
		budget = 64 * 1024 * 1024
	}
	nFiles := rng.Intn(4)
	nDirs := rng.Intn(3)
	if nFiles+nDirs == 0 {
		if rng.Intn(2) == 0 {
			nFiles = 1
		} else {
			nDirs = 1
		}
	}
	type tgt struct{ kind, id int64 }
	var targets []tgt
	fileEnc := map[int64]int64{}
	for f := 0; f < nFiles; f++ {
		enc := int64(rng.Intn(2))
		fileEnc[int64(f)] = enc
		p.Ops = append(p.Ops, gosim.Op{K: "file", A: []int64{rng.Int63n(nCli), int64(f), c09Size(rng, tier, &budget), enc,
			int64(rng.Intn(4)), int64(rng.Intn(5))}})
		targets = append(targets, tgt{0, int64(f)})
	}
	p.Ops = append(p.Ops, gosim.Op{K: "barrier"})
	for d := 0; d < nDirs; d++ {
		enc := int64(rng.Intn(2))
		rootmeta := int64(0)
		if enc == 0 && rng.Intn(2) == 0 {
			rootmeta = 1
		}
		a := []int64{rng.Int63n(nCli), int64(d), enc, rootmeta}
		nEnt := rng.Intn(7)
		if rng.Intn(10) > 0 && nEnt == 0 {
			nEnt = 1
		}
		if rng.Intn(8) == 0 {
			nEnt = 8 + rng.Intn(8)
		}
		for e := 0; e < nEnt; e++ {
			path := int64(rng.Intn(len(c09Paths)))
			if nFiles > 0 && rng.Intn(4) == 0 {
				a = append(a, 1, path, int64(rng.Intn(nFiles)), 0)
			} else {
				// directories are mostly made of small files
				var sz int64
				if rng.Intn(3) == 0 {
					sz = c09Size(rng, tier, &budget)
				} else {
					sz = rng.Int63n(5000)
					if rng.Intn(4) == 0 {
						sz = c09CS + rng.Int63n(2*c09CS)
					}
					if sz > budget {
						sz = 0
					}
					budget -= sz
				}
				a = append(a, 0, path, sz, int64(rng.Intn(5)))
			}
		}
		p.Ops = append(p.Ops, gosim.Op{K: "dir", A: a})
		targets = append(targets, tgt{1, int64(d)})
	}
	p.Ops = append(p.Ops, gosim.Op{K: "barrier"})
	nTrav := 1 + rng.Intn(4)
	withFaults := rng.Intn(10) < 6
	for t := 0; t < nTrav; t++ {
		tg := targets[rng.Intn(len(targets))]
		p.Ops = append(p.Ops, gosim.Op{K: "trav", A: []int64{rng.Int63n(nCli), int64(t), tg.kind, tg.id}})
		if withFaults && rng.Intn(2) == 0 {
			n := 1 + rng.Intn(2)
			for i := 0; i < n; i++ {
				k := int64(1 + rng.Intn(4))
				if rng.Intn(3) == 0 {
					k = int64(1 + rng.Intn(40))
				}
				call := int64(rng.Intn(3))
				if rng.Intn(3) > 0 {
					p.Faults = append(p.Faults, gosim.Op{K: "getfail", A: []int64{int64(t), call, k}})
				} else {
					p.Faults = append(p.Faults, gosim.Op{K: "getdelay", A: []int64{int64(t), call, k, int64(1 + rng.Intn(8000))}})
				}
			}
		}
		if rng.Intn(3) == 0 {
			p.Ops = append(p.Ops, gosim.Op{K: "barrier"})
		}
	}
	return p
}

// ---- execution -------------------------------------------------------------

type c09Target struct {
	ref      boson.Address
	enc      bool
	sessions []string // upload sessions whose puts make up the expected set
	size     int64    // file size (files) or number of entries (dirs)
}

// c09Norm maps a reported reference to the address of the chunk it denotes: an
// encrypted reference is address||key. ok=false for any other length.
func c09Norm(b []byte) (string, bool) {
	switch len(b) {
	case boson.HashSize, 2 * boson.HashSize:
		return hex.EncodeToString(b[:boson.HashSize]), true
	}
	return "", false
}

func c09Short(a string) string {
	if len(a) > 10 {
		return a[:10]
	}
	return a
}

func c09SortedKeys(m map[string]bool) []string {
	out := make([]string, 0, len(m))
	for k := range m {
		out = append(out, k)
	}
	sort.Strings(out)
	return out
}

func c09Diff(a, b map[string]bool) []string { // a \ b
	var out []string
	for _, k := range c09SortedKeys(a) {
		if !b[k] {
			out = append(out, c09Short(k))
		}
	}
	return out
}

func c09Upload(ctx context.Context, v *c09View, data []byte, enc bool) (boson.Address, error) {
	pipe := builder.NewPipelineBuilder(ctx, v, storage.ModePutUpload, enc)
	return builder.FeedPipeline(ctx, pipe, bytes.NewReader(data))
}

// c09Watch runs fn under a fake-time watchdog.
func c09Watch(r *gosim.Run, what string, fn func()) {
	done := make(chan struct{})
	go func() {
		fn()
		close(done)
	}()
	select {
	case <-done:
	case <-time.After(60 * time.Second):
		r.Violate("hang", "%s did not return within 60 simulated seconds", what)
	}
}

func c09Exec(r *gosim.Run) {
	st := c09NewStore()
	ctx := context.Background()
	var tmu sync.Mutex
	files := map[int64]*c09Target{}
	dirs := map[int64]*c09Target{}

	type fkey struct{ tid, call int64 }
	failGet := map[fkey]map[int64]bool{}
	delayGet := map[fkey]map[int64]time.Duration{}
	for _, f := range r.Plan.Faults {
		k := fkey{f.Arg(0), f.Arg(1)}
		switch f.K {
		case "getfail":
			if failGet[k] == nil {
				failGet[k] = map[int64]bool{}
			}
			failGet[k][f.Arg(2)] = true
		case "getdelay":
			if delayGet[k] == nil {
				delayGet[k] = map[int64]time.Duration{}
			}
			d := time.Duration(f.Arg(3)) * time.Millisecond
			if d > 10*time.Second {
				d = 10 * time.Second
			}
			delayGet[k][f.Arg(2)] += d
		}
	}

	doFile := func(o gosim.Op) {
		fid, size, enc := o.Arg(1), o.Arg(2), o.Arg(3) == 1
		if size < 0 || size > 256*1024*1024 {
			return
		}
		tmu.Lock()
		_, dup := files[fid]
		tmu.Unlock()
		if dup {
			return
		}
		sess := fmt.Sprintf("f%d", fid)
		v := st.view(r, sess)
		data := c09Content(size, o.Arg(4), o.Arg(5))
		var ref boson.Address
		var err error
		c09Watch(r, "file upload", func() { ref, err = c09Upload(ctx, v, data, enc) })
		if err != nil {
			r.Violate("upload-error", "upload of file %d (size %d enc %v) on a fault-free store: %v", fid, size, enc, err)
		}
		r.Logf("file %d size=%d enc=%v pattern=%d ref=%s chunks=%d", fid, size, enc, o.Arg(4), c09Short(ref.String()), len(st.sessionSet(sess)))
		if size > c09CS {
			r.Count("probe_multi_chunk_file")
		}
		if enc {
			r.Count("probe_encrypted_file")
		}
		tmu.Lock()
		files[fid] = &c09Target{ref: ref, enc: enc, sessions: []string{sess}, size: size}
		tmu.Unlock()
	}

	doDir := func(o gosim.Op) {
		did, enc, rootmeta := o.Arg(1), o.Arg(2) == 1, o.Arg(3) == 1
		tmu.Lock()
		_, dup := dirs[did]
		tmu.Unlock()
		if dup {
			return
		}
		sess := fmt.Sprintf("d%d", did)
		v := st.view(r, sess)
		ls := loadsave.New(v, func() pipeline.Interface {
			return builder.NewPipelineBuilder(ctx, v, storage.ModePutUpload, enc)
		})
		m, err := manifest.NewDefaultManifest(ls, enc)
		if err != nil {
			r.Violate("manifest-error", "NewDefaultManifest: %v", err)
		}
		tg := &c09Target{enc: enc}
		final := map[string]string{} // path -> upload session of the file it maps to last
		added := 0
		for i := 4; i+3 < len(o.A); i += 4 {
			kind, pi, x, seed := o.A[i], o.A[i+1], o.A[i+2], o.A[i+3]
			if pi < 0 || int(pi) >= len(c09Paths) {
				continue
			}
			path := c09Paths[pi]
			var ref boson.Address
			if kind == 1 {
				tmu.Lock()
				f := files[x]
				tmu.Unlock()
				if f == nil || f.enc != enc {
					continue // never uploaded (or a reference of the other width): no entry
				}
				ref = f.ref
				final[path] = f.sessions[0]
				r.Count("probe_dir_refers_to_earlier_file")
			} else {
				if x < 0 || x > 256*1024*1024 {
					continue
				}
				data := c09Content(x, 0, seed)
				// each file of the directory is its own sub-session: a path that is
				// overwritten later no longer belongs to the directory
				fs := fmt.Sprintf("%s/e%d", sess, i)
				fv := st.view(r, fs)
				final[path] = fs
				c09Watch(r, "dir file upload", func() { ref, err = c09Upload(ctx, fv, data, enc) })
				if err != nil {
					r.Violate("upload-error", "upload of a file of dir %d: %v", did, err)
				}
			}
			md := map[string]string{
				manifest.EntryMetadataContentTypeKey: "application/octet-stream",
				manifest.EntryMetadataFilenameKey:    path,
			}
			if err := m.Add(ctx, path, manifest.NewEntry(ref, md)); err != nil {
				r.Violate("manifest-error", "Add(%q) to dir %d: %v", path, did, err)
			}
			r.Logf("dir %d add %q -> %s", did, path, c09Short(ref.String()))
			added++
		}
		if rootmeta && !enc && added > 0 {
			md := map[string]string{manifest.WebsiteIndexDocumentSuffixKey: "index.html"}
			if err := m.Add(ctx, manifest.RootPath, manifest.NewEntry(boson.ZeroAddress, md)); err != nil {
				r.Violate("manifest-error", "Add(/) to dir %d: %v", did, err)
			}
			r.Count("probe_dir_root_metadata")
		}
		var ref boson.Address
		c09Watch(r, "manifest store", func() { ref, err = m.Store(ctx) })
		if err != nil {
			r.Violate("manifest-error", "Store of dir %d on a fault-free store: %v", did, err)
		}
		tg.ref = ref
		tg.size = int64(added)
		tg.sessions = []string{sess}
		seenS := map[string]bool{}
		for _, pth := range c09Paths {
			if s, ok := final[pth]; ok && !seenS[s] {
				seenS[s] = true
				tg.sessions = append(tg.sessions, s)
			}
		}
		if len(final) < added {
			r.Count("probe_dir_path_overwritten")
		}
		r.Logf("dir %d entries=%d paths=%d enc=%v ref=%s manifest-chunks=%d", did, added, len(final), enc, c09Short(ref.String()), len(st.sessionSet(sess)))
		r.Count("probe_dir")
		if enc {
			r.Count("probe_encrypted_dir")
		}
		tmu.Lock()
		dirs[did] = tg
		tmu.Unlock()
	}

	doTrav := func(o gosim.Op) {
		tid, kind, id := o.Arg(1), o.Arg(2), o.Arg(3)
		tmu.Lock()
		var tg *c09Target
		if kind == 0 {
			tg = files[id]
		} else {
			tg = dirs[id]
		}
		tmu.Unlock()
		if tg == nil {
			return
		}
		name := fmt.Sprintf("trav %d (%s %d)", tid, map[int64]string{0: "file", 1: "dir"}[kind], id)
		want := map[string]bool{}
		for _, s := range tg.sessions {
			for a := range st.sessionSet(s) {
				want[a] = true
			}
		}
		mkView := func(call int64) *c09View {
			v := st.view(r, "")
			v.failGet = failGet[fkey{tid, call}]
			v.delayGet = delayGet[fkey{tid, call}]
			return v
		}
		// outcome: faulted (error was returned, as it must), or clean
		outcome := func(v *c09View, what string, err error) bool {
			fg, _ := v.fired()
			if fg > 0 {
				if err == nil {
					r.Violate("silent-partial", "%s: %s returned no error although %d of its chunk reads failed", name, what, fg)
				}
				r.Count("probe_fault_error_returned")
				r.Logf("%s %s: error after injected get failure (gets=%d)", name, what, v.gets())
				return false
			}
			if err != nil {
				r.Violate("traverse-error", "%s: %s failed on a store without failures: %v", name, what, err)
			}
			return true
		}

		// (1) Traverse
		{
			v := mkView(0)
			svc := traversal.New(v)
			got := map[string]bool{}
			var gmu sync.Mutex
			n := 0
			var err error
			c09Watch(r, name+" Traverse", func() {
				err = svc.Traverse(ctx, tg.ref, func(a boson.Address) error {
					k, ok := c09Norm(a.Bytes())
					if !ok {
						r.Violate("bad-address", "%s: Traverse reported a reference of %d bytes", name, len(a.Bytes()))
					}
					gmu.Lock()
					got[k] = true
					n++
					gmu.Unlock()
					return nil
				})
			})
			if outcome(v, "Traverse", err) {
				r.Logf("%s Traverse: %d reports, %d distinct, want %d, gets=%d", name, n, len(got), len(want), v.gets())
				if d := c09Diff(want, got); len(d) > 0 {
					r.Violate("missing-chunk", "%s (ref %s enc %v size %d): Traverse did not report %d of the %d chunks written: %v",
						name, c09Short(tg.ref.String()), tg.enc, tg.size, len(d), len(want), d)
				}
				if d := c09Diff(got, want); len(d) > 0 {
					r.Violate("extra-chunk", "%s (ref %s enc %v size %d): Traverse reported %d chunks that were not written for it: %v",
						name, c09Short(tg.ref.String()), tg.enc, tg.size, len(d), d)
				}
				r.Count("probe_traverse_checked")
				if len(want) > 2 && kind == 0 {
					r.Count("probe_traverse_checked_multi_level")
				}
				if kind == 1 {
					r.Count("probe_traverse_checked_dir")
				}
			}
		}

		// (2) GetPyramid, (3) GetChunkHashes(nil)
		var pyr map[string][]byte
		var hashes [][][]byte
		pyrOK, hashOK := false, false
		{
			v := mkView(1)
			svc := traversal.New(v)
			var err error
			c09Watch(r, name+" GetPyramid", func() { pyr, err = svc.GetPyramid(ctx, tg.ref) })
			pyrOK = outcome(v, "GetPyramid", err)
		}
		{
			v := mkView(2)
			svc := traversal.New(v)
			var err error
			c09Watch(r, name+" GetChunkHashes", func() { hashes, _, err = svc.GetChunkHashes(ctx, tg.ref, nil) })
			hashOK = outcome(v, "GetChunkHashes", err)
		}
		pset := map[string]bool{}
		hset := map[string]bool{}
		if pyrOK {
			for k := range pyr {
				b, err := hex.DecodeString(k)
				a, ok := c09Norm(b)
				if err != nil || !ok {
					r.Violate("bad-address", "%s: GetPyramid key %q is not a reference", name, k)
				}
				pset[a] = true
			}
			if d := c09Diff(pset, want); len(d) > 0 {
				r.Violate("pyramid-extra", "%s (enc %v): GetPyramid contains %d chunks that were not written for it: %v", name, tg.enc, len(d), d)
			}
		}
		if hashOK {
			for _, l := range hashes {
				for _, h := range l {
					a, ok := c09Norm(h)
					if !ok {
						r.Violate("bad-address", "%s: GetChunkHashes reported a reference of %d bytes", name, len(h))
					}
					hset[a] = true
				}
			}
			if d := c09Diff(hset, want); len(d) > 0 {
				r.Violate("hashes-extra", "%s (enc %v): GetChunkHashes lists %d chunks that were not written for it: %v", name, tg.enc, len(d), d)
			}
		}
		if pyrOK && hashOK {
			both := map[string]bool{}
			for k := range pset {
				both[k] = true
			}
			for k := range hset {
				both[k] = true
			}
			r.Logf("%s pyramid=%d hashes=%d union=%d want=%d", name, len(pset), len(hset), len(both), len(want))
			if d := c09Diff(want, both); len(d) > 0 {
				r.Violate("not-covered", "%s (ref %s enc %v size %d): %d of the %d written chunks are neither in GetPyramid (%d) nor in GetChunkHashes (%d): %v",
					name, c09Short(tg.ref.String()), tg.enc, tg.size, len(d), len(want), len(pset), len(hset), d)
			}
			r.Count("probe_cover_checked")
		}

		// (4) pyramid exchange, receiving side (plain content only: the pyramid of an
		// encrypted reference is keyed by address||key and cannot be re-hashed):
		// from the pyramid alone the receiver derives the same data-chunk lists and
		// stores exactly the pyramid chunks.
		// Only for directory manifests: the node exchanges pyramids of manifest
		// references only (every API upload is wrapped in a manifest).
		if pyrOK && hashOK && !tg.enc && kind == 1 {
			recv := c09NewStore()
			rv := recv.view(r, "rx")
			svc := traversal.New(rv)
			var h2 [][][]byte
			var err error
			c09Watch(r, name+" GetChunkHashes(pyramid)", func() { h2, _, err = svc.GetChunkHashes(ctx, tg.ref, pyr) })
			if err != nil {
				r.Violate("exchange-error", "%s: GetChunkHashes over the pyramid returned by GetPyramid failed: %v", name, err)
			}
			h2set := map[string]bool{}
			for _, l := range h2 {
				for _, h := range l {
					a, _ := c09Norm(h)
					h2set[a] = true
				}
			}
			if len(c09Diff(h2set, hset)) > 0 || len(c09Diff(hset, h2set)) > 0 {
				r.Violate("exchange-mismatch", "%s: data chunks derived from the pyramid differ from those of the uploader: only receiver %v, only uploader %v",
					name, c09Diff(h2set, hset), c09Diff(hset, h2set))
			}
			stored := recv.sessionSet("rx")
			if d := c09Diff(stored, want); len(d) > 0 {
				r.Violate("exchange-extra", "%s: receiver stored %d chunks that were never written for the reference: %v", name, len(d), d)
			}
			r.Count("probe_exchange_checked")
		}
	}

	r.RunPhases(r.Plan.Ops, func(phase int, o gosim.Op) {
		switch o.K {
		case "file":
			doFile(o)
		case "dir":
			doDir(o)
		case "trav":
			doTrav(o)
		}
	}, nil)
	st.mu.Lock()
	r.Add("chunks", int64(len(st.chunks)))
	if st.dups > 0 {
		r.Add("probe_dedup_put", st.dups)
	}
	st.mu.Unlock()
}

func init() {
	gosim.Register(&gosim.World{
		Prop: "C09", Gen: c09Gen, Exec: c09Exec,
		Native: []string{"github.com/gauss-project/aurorafs/pkg/bmt."},
		Real: []string{"pkg/traversal (Traverse, GetPyramid, GetChunkHashes incl. receiving side)", "pkg/file/joiner", "pkg/file/loadsave",
			"pkg/file/pipeline/* (builder, feeder, bmt, encryption, store, hashtrie)", "pkg/encryption/*", "pkg/bmt (native goroutines)",
			"pkg/manifest + gauss-project/manifest/mantaray"},
		Stubs: []string{"in-memory chunk store (storage.Putter/Getter) recording puts per upload session, k-th Get fails / is delayed"},
	})
}
