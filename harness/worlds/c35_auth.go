package worlds

import (
	"encoding/base64"
	"errors"
	"fmt"
	"io"
	"math/rand"
	"strings"
	"time"

	"github.com/gauss-project/aurorafs/pkg/auth"
	"github.com/gauss-project/aurorafs/pkg/logging"
	"github.com/sirupsen/logrus"

	"verifharness/gosim"
)

// C35 — API access tokens are checked soundly.
//
// The real auth.Authenticator (AES-GCM sealed role + expiry, casbin policy) runs
// on the simulator's fake clock. One sequential client issues tokens, lets time
// pass, refreshes, enforces requests, and presents altered / foreign / random
// strings.
//
// Ops:
//   gen     [slot, role, ttl_s]        GenerateKey(role, ttl) into a token slot
//   sleep   [ms]
//   refresh [src, dst, ttl_s]          RefreshKey(token[src], ttl) into slot dst
//   enforce [slot, req]                Enforce(token[slot], path, method)
//   sweep   [slot]                     every sampled request with token[slot]
//   flip    [slot, bit, req]           one bit of the sealed bytes flipped
//   fliptxt [slot, pos, bit, req]      one bit of one character of the text flipped
//   trunc   [slot, req, mode]          truncation to EVERY shorter length (mode 0:
//                                      of the text, 1: of the sealed bytes; lengths
//                                      from c35ShortLen up — see "short")
//   extend  [slot, n, req]             n extra bytes appended to the sealed bytes
//   foreign [role, ttl_s, req]         token sealed by an authenticator with another key
//   random  [kind, len, req]           random base64 of len>=c35ShortLen bytes / non-base64 text
//   short   [slot, kind, len, req]     strings shorter than a sealed token can be:
//                                      truncations / random base64 below 16 bytes, ""
//
// "short" is a separate operation kind only so that one defect found there does
// not hide everything else in the same run; the oracle is the same for all
// altered strings: an error, never true, never a panic.

var c35Roles = []string{"consumer", "creator", "maintainer", "master",
	// not roles:
	"", "root", "Consumer", "master ", "admin", "consumer,creator", "*",
	// long role names: the sealed token has no fixed size
	strings.Repeat("r", 150), "consumer" + strings.Repeat(" ", 400)}

const c35KnownRoles = 4

type c35Req struct {
	method, path string
	// documented / obviously intended decisions by role (1 allow, 0 deny); roles
	// missing from the map are only checked for consistency.
	want map[string]int
}

// The handful of pairs read off the policy in pkg/auth/auth.go: a consumer can
// fetch content but not upload, touch peers, or reach the node's keys; only
// the maintainer (and master, who matches every rule) reaches the debug API.
var c35Reqs = []c35Req{
	{"GET", "/bytes/5f3b0c6e2d", map[string]int{"consumer": 1, "master": 1}},
	{"GET", "/v1/bytes/5f3b0c6e2d", map[string]int{"consumer": 1, "master": 1}},
	{"POST", "/bytes", map[string]int{"consumer": 0, "creator": 1, "master": 1, "maintainer": 0}},
	{"GET", "/privatekey", map[string]int{"consumer": 0, "creator": 0, "maintainer": 1, "master": 1}},
	{"POST", "/transaction", map[string]int{"consumer": 0, "creator": 0, "maintainer": 1, "master": 1}},
	{"DELETE", "/peers/aa11", map[string]int{"consumer": 0, "creator": 0, "maintainer": 1, "master": 1}},
	{"POST", "/blocklist/aa11", map[string]int{"consumer": 0, "creator": 0, "maintainer": 1, "master": 1}},
	{"GET", "/addresses", map[string]int{"consumer": 0, "creator": 0, "maintainer": 1, "master": 1}},
	{"POST", "/keystore", map[string]int{"consumer": 0, "creator": 0, "maintainer": 1, "master": 1}},
	{"GET", "/aurora/abcd/index.html", map[string]int{"consumer": 1, "master": 1}},
	{"DELETE", "/aurora/abcd", map[string]int{"consumer": 0, "creator": 1, "master": 1}},
	{"POST", "/pins/abcd", map[string]int{"consumer": 0, "creator": 1, "master": 1}},
	// consistency only
	{"GET", "/chunks/abcd", nil},
	{"DELETE", "/chunks/abcd", nil},
	{"GET", "/pins", nil},
	{"GET", "/topology", nil},
	{"PUT", "/bytes/abcd", nil},
	{"GET", "/", nil},
	{"GET", "/nonexistent/x", nil},
	{"get", "/bytes/abcd", nil},
	{"POST", "/group/join/g1", nil},
	{"GET", "/v1/v1/bytes/abcd", nil},
	{"GET", "/bytes", nil},
	{"", "", nil},
}

// c35ShortLen: tokens whose sealed part is shorter than this many bytes go
// through the "short" operation (a sealed token is never that short: it carries
// at least a nonce and an authentication tag).
const c35ShortLen = 16

type c35Tok struct {
	s      string
	role   string
	expiry time.Time
}

func c35Gen(rng *rand.Rand, tier string) *gosim.Plan {
	p := &gosim.Plan{Params: map[string]int64{}}
	nSlots := 1 + rng.Intn(4)
	p.Params["slots"] = int64(nSlots)
	p.Params["key"] = int64(rng.Intn(1000))
	p.Params["yield_pct"] = 0
	nOps := 10 + rng.Intn(40)
	if tier == "thorough" {
		nOps = 10 + rng.Intn(150)
	}
	wShort := int(gosim.Pick(rng, 0, 0, 1, 2)) // about half of the runs present no short strings
	wTamper := 1 + rng.Intn(4)
	scale := rng.Intn(3)
	var ttls []int64
	pickTTL := func() int64 {
		if rng.Intn(25) == 0 {
			return 0
		}
		if rng.Intn(25) == 0 {
			return -int64(1 + rng.Intn(100))
		}
		var t int64
		switch scale {
		case 0:
			t = int64(1 + rng.Intn(20))
		case 1:
			t = int64(1 + rng.Intn(7200))
		default:
			t = int64(1+rng.Intn(400)) * 86400
		}
		ttls = append(ttls, t)
		return t
	}
	pickSleep := func() int64 {
		switch x := rng.Intn(10); {
		case x < 4 && len(ttls) > 0:
			d := ttls[rng.Intn(len(ttls))]*1000 + gosim.Pick(rng, -1, 0, 0, 1, 1000, -1000)
			if rng.Intn(3) == 0 {
				d /= 2
			}
			if d < 0 {
				d = 0
			}
			return d
		case x < 7:
			return int64(rng.Intn(3000))
		case x < 9:
			return int64(rng.Intn(3600000))
		default:
			return int64(rng.Intn(90*86400)) * 1000
		}
	}
	role := func() int64 {
		if rng.Intn(5) == 0 {
			return int64(c35KnownRoles + rng.Intn(len(c35Roles)-c35KnownRoles))
		}
		return int64(rng.Intn(c35KnownRoles))
	}
	req := func() int64 { return int64(rng.Intn(len(c35Reqs))) }
	slot := func() int64 { return int64(rng.Intn(nSlots)) }
	for i := 0; i < nSlots; i++ {
		p.Ops = append(p.Ops, gosim.Op{K: "gen", A: []int64{int64(i), role(), pickTTL()}})
	}
	for i := 0; i < nOps; i++ {
		x := rng.Intn(30 + 3*wTamper + 3*wShort)
		switch {
		case x < 4:
			p.Ops = append(p.Ops, gosim.Op{K: "gen", A: []int64{slot(), role(), pickTTL()}})
		case x < 11:
			p.Ops = append(p.Ops, gosim.Op{K: "sleep", A: []int64{pickSleep()}})
		case x < 16:
			p.Ops = append(p.Ops, gosim.Op{K: "refresh", A: []int64{slot(), slot(), pickTTL()}})
		case x < 26:
			p.Ops = append(p.Ops, gosim.Op{K: "enforce", A: []int64{slot(), req()}})
		case x < 30:
			p.Ops = append(p.Ops, gosim.Op{K: "sweep", A: []int64{slot()}})
		case x < 30+3*wTamper:
			switch rng.Intn(8) {
			case 0, 1:
				p.Ops = append(p.Ops, gosim.Op{K: "flip", A: []int64{slot(), int64(rng.Intn(1 << 20)), req()}})
			case 2:
				p.Ops = append(p.Ops, gosim.Op{K: "fliptxt", A: []int64{slot(), int64(rng.Intn(1 << 20)), int64(rng.Intn(8)), req()}})
			case 3:
				p.Ops = append(p.Ops, gosim.Op{K: "trunc", A: []int64{slot(), req(), int64(rng.Intn(2))}})
			case 4:
				n := 1 + rng.Intn(40)
				if rng.Intn(3) == 0 {
					n = 1 + rng.Intn(600)
				}
				p.Ops = append(p.Ops, gosim.Op{K: "extend", A: []int64{slot(), int64(n), req()}})
			case 5, 6:
				p.Ops = append(p.Ops, gosim.Op{K: "foreign", A: []int64{role(), pickTTL(), req()}})
			default:
				n := c35ShortLen + rng.Intn(120)
				if rng.Intn(3) == 0 {
					n = c35ShortLen + rng.Intn(900)
				}
				p.Ops = append(p.Ops, gosim.Op{K: "random", A: []int64{int64(rng.Intn(3)), int64(n), req()}})
			}
		default:
			p.Ops = append(p.Ops, gosim.Op{K: "short", A: []int64{slot(), int64(rng.Intn(4)), int64(rng.Intn(c35ShortLen)), req()}})
		}
	}
	return p
}

func c35Exec(r *gosim.Run) {
	nSlots := int(r.Plan.P("slots", 2))
	if nSlots < 1 {
		nSlots = 1
	}
	if nSlots > 16 {
		nSlots = 16
	}
	logger := logging.New(io.Discard, logrus.PanicLevel)
	key := fmt.Sprintf("c35-node-key-%d", r.Plan.P("key", 0))
	// placeholder password hash (Authorize is not part of the property)
	const pwHash = "$2a$04$kR1LpoxHEX0A6xx3rwfaQOBUfUJbF4xBykqr5.0V9GEWcGXvB7NrK"
	a, err := auth.New(key, pwHash, logger)
	if err != nil {
		r.Violate("harness-auth", "auth.New: %v", err)
	}
	other, err := auth.New(key+"-other", pwHash, logger)
	if err != nil {
		r.Violate("harness-auth", "auth.New (foreign): %v", err)
	}
	start := time.Now()
	rel := func(t time.Time) time.Duration { return t.Sub(start) }
	slots := make([]*c35Tok, nSlots)
	// decisions observed for (role, request) with fresh tokens in this run
	type rk struct {
		role string
		req  int
	}
	seen := map[rk]bool{}

	type res struct {
		allow bool
		err   error
		tok   string
		pan   interface{}
	}
	enforce := func(x *auth.Authenticator, tok string, q c35Req) (out res) {
		defer func() {
			if p := recover(); p != nil {
				out.pan = p
			}
		}()
		out.allow, out.err = x.Enforce(tok, q.path, q.method)
		return
	}
	refresh := func(x *auth.Authenticator, tok string, ttl int) (out res) {
		defer func() {
			if p := recover(); p != nil {
				out.pan = p
			}
		}()
		out.tok, out.err = x.RefreshKey(tok, ttl)
		return
	}
	show := func(s string) string {
		if len(s) > 24 {
			return fmt.Sprintf("%q…(%d chars)", s[:24], len(s))
		}
		return fmt.Sprintf("%q", s)
	}
	// reject: an altered / foreign / random string must be refused with an error
	reject := func(what, tok string, q c35Req) {
		r.Count("probe_reject_checked")
		e := enforce(a, tok, q)
		if e.pan != nil {
			r.Violate("panic", "Enforce panicked on %s %s (%d chars): %v", what, show(tok), len(tok), e.pan)
		}
		if e.allow {
			r.Violate("forged-accepted", "Enforce honoured %s %s for %s %s", what, show(tok), q.method, q.path)
		}
		if e.err == nil {
			r.Violate("forged-no-error", "Enforce returned no error for %s %s", what, show(tok))
		}
		f := refresh(a, tok, 3600)
		if f.pan != nil {
			r.Violate("panic", "RefreshKey panicked on %s %s (%d chars): %v", what, show(tok), len(tok), f.pan)
		}
		if f.err == nil {
			r.Violate("forged-refreshed", "RefreshKey accepted %s %s and returned a token", what, show(tok))
		}
	}
	// decide: decision of a token for one request, compared with a brand-new
	// token of the same role and with the documented pairs
	decide := func(t *c35Tok, qi int, label string) {
		q := c35Reqs[qi]
		e := enforce(a, t.s, q)
		if e.pan != nil {
			r.Violate("panic", "Enforce panicked on a %s token: %v", label, e.pan)
		}
		if e.err != nil {
			r.Violate("valid-rejected", "Enforce failed on an unexpired untouched %s token (role %q, expires t=%v, now t=%v): %v", label, t.role, rel(t.expiry), rel(time.Now()), e.err)
		}
		known := false
		for _, kr := range c35Roles[:c35KnownRoles] {
			if kr == t.role {
				known = true
			}
		}
		if !known {
			r.Count("probe_unknown_role_checked")
			if e.allow {
				r.Violate("unknown-role-allowed", "a token with the unknown role %q was allowed %s %s", t.role, q.method, q.path)
			}
		}
		// reference: a brand-new token of the same role
		fresh, gerr := a.GenerateKey(t.role, 1000)
		if gerr != nil {
			r.Violate("generate-error", "GenerateKey(%q, 1000) failed: %v", t.role, gerr)
		}
		fe := enforce(a, fresh, q)
		if fe.pan != nil || fe.err != nil {
			r.Violate("valid-rejected", "Enforce failed on a brand-new token of role %q: %v %v", t.role, fe.err, fe.pan)
		}
		if fe.allow != e.allow {
			r.Violate("role-inconsistent", "%s token of role %q decides %s %s = %v, a brand-new token of the same role decides %v", label, t.role, q.method, q.path, e.allow, fe.allow)
		}
		if w, ok := q.want[t.role]; ok {
			r.Count("probe_documented_pair_checked")
			if e.allow != (w == 1) {
				r.Violate("policy", "role %q %s %s: got allow=%v, the policy intends %v", t.role, q.method, q.path, e.allow, w == 1)
			}
		}
		seen[rk{t.role, qi}] = true
		if e.allow {
			r.Count("probe_allowed")
		} else {
			r.Count("probe_denied")
		}
	}
	// use: present an untouched issued token
	use := func(t *c35Tok, qi int) {
		now := time.Now()
		label := "fresh"
		switch {
		case now.After(t.expiry):
			r.Count("probe_expired_checked")
			e := enforce(a, t.s, c35Reqs[qi])
			if e.pan != nil {
				r.Violate("panic", "Enforce panicked on an expired token: %v", e.pan)
			}
			if e.allow {
				r.Violate("expired-accepted", "token of role %q expired at t=%v, honoured at t=%v for %s %s", t.role, rel(t.expiry), rel(now), c35Reqs[qi].method, c35Reqs[qi].path)
			}
			if e.err == nil {
				r.Violate("expired-no-error", "token expired at t=%v, Enforce at t=%v returned no error", rel(t.expiry), rel(now))
			}
			if !errors.Is(e.err, auth.ErrTokenExpired) {
				r.Violate("expired-wrong-error", "token expired at t=%v, Enforce at t=%v returned %v instead of ErrTokenExpired", rel(t.expiry), rel(now), e.err)
			}
		case now.Before(t.expiry):
			decide(t, qi, label)
		default:
			// exactly at the expiry instant: the statement does not say; no crash
			e := enforce(a, t.s, c35Reqs[qi])
			if e.pan != nil {
				r.Violate("panic", "Enforce panicked: %v", e.pan)
			}
			r.Count("probe_at_expiry_instant")
		}
	}
	rawOf := func(t *c35Tok) []byte {
		raw, derr := base64.StdEncoding.DecodeString(t.s)
		if derr != nil {
			r.Violate("token-format", "issued token is not standard base64: %v", derr)
		}
		return raw
	}

	for _, o := range r.Plan.Ops {
		now := time.Now()
		switch o.K {
		case "sleep":
			d := o.Arg(0)
			if d < 0 {
				d = 0
			}
			r.Logf("sleep %dms", d)
			time.Sleep(time.Duration(d) * time.Millisecond)
		case "gen":
			si := int(o.Arg(0)) % nSlots
			role := c35Roles[int(o.Arg(1))%len(c35Roles)]
			ttl := int(o.Arg(2))
			tok, gerr := a.GenerateKey(role, ttl)
			r.Logf("t=%v gen slot=%d role=%q ttl=%ds err=%v", rel(now), si, role, ttl, gerr)
			if gerr != nil {
				if ttl > 0 {
					r.Violate("generate-error", "GenerateKey(%q, %d) failed: %v", role, ttl, gerr)
				}
				break // a refused issue leaves the slot as it was
			}
			slots[si] = &c35Tok{s: tok, role: role, expiry: now.Add(time.Duration(ttl) * time.Second)}
		case "refresh":
			src, dst := int(o.Arg(0))%nSlots, int(o.Arg(1))%nSlots
			ttl := int(o.Arg(2))
			t := slots[src]
			if t == nil {
				continue
			}
			f := refresh(a, t.s, ttl)
			r.Logf("t=%v refresh src=%d dst=%d ttl=%ds (src role=%q expires t=%v) err=%v", rel(now), src, dst, ttl, t.role, rel(t.expiry), f.err)
			if f.pan != nil {
				r.Violate("panic", "RefreshKey panicked on an issued token: %v", f.pan)
			}
			switch {
			case now.After(t.expiry):
				r.Count("probe_refresh_expired_checked")
				if f.err == nil {
					r.Violate("expired-refreshed", "token of role %q expired at t=%v was refreshed at t=%v", t.role, rel(t.expiry), rel(now))
				}
			case now.Before(t.expiry) && ttl > 0:
				if f.err != nil {
					r.Violate("refresh-error", "RefreshKey(ttl %d) failed on an unexpired token (expires t=%v, now t=%v): %v", ttl, rel(t.expiry), rel(now), f.err)
				}
			}
			if f.err != nil {
				break
			}
			r.Count("probe_refreshed")
			nt := &c35Tok{s: f.tok, role: t.role, expiry: now.Add(time.Duration(ttl) * time.Second)}
			slots[dst] = nt
			// the refreshed token decides like a fresh token of the same role
			if now.Before(nt.expiry) {
				for k := 0; k < 3; k++ {
					decide(nt, r.Rng.Intn(len(c35Reqs)), "refreshed")
				}
			}
		case "enforce":
			t := slots[int(o.Arg(0))%nSlots]
			if t == nil {
				continue
			}
			qi := int(o.Arg(1)) % len(c35Reqs)
			r.Logf("t=%v enforce slot=%d role=%q expires t=%v req=%s %s", rel(now), int(o.Arg(0))%nSlots, t.role, rel(t.expiry), c35Reqs[qi].method, c35Reqs[qi].path)
			use(t, qi)
		case "sweep":
			t := slots[int(o.Arg(0))%nSlots]
			if t == nil {
				continue
			}
			r.Logf("t=%v sweep slot=%d role=%q expires t=%v", rel(now), int(o.Arg(0))%nSlots, t.role, rel(t.expiry))
			for qi := range c35Reqs {
				use(t, qi)
			}
		case "flip":
			t := slots[int(o.Arg(0))%nSlots]
			if t == nil {
				continue
			}
			raw := rawOf(t)
			bit := int(o.Arg(1)) % (len(raw) * 8)
			raw[bit/8] ^= 1 << uint(bit%8)
			r.Logf("t=%v flip bit %d of %d sealed bytes", rel(now), bit, len(raw))
			reject(fmt.Sprintf("a token with bit %d of its sealed bytes flipped", bit), base64.StdEncoding.EncodeToString(raw), c35Reqs[int(o.Arg(2))%len(c35Reqs)])
			r.Count("probe_bitflip")
		case "fliptxt":
			t := slots[int(o.Arg(0))%nSlots]
			if t == nil {
				continue
			}
			b := []byte(t.s)
			pos := int(o.Arg(1)) % len(b)
			b[pos] ^= 1 << uint(o.Arg(2)%8)
			alt := string(b)
			r.Logf("t=%v fliptxt char %d bit %d", rel(now), pos, o.Arg(2)%8)
			// a different spelling of the same sealed bytes is the same token
			if raw2, derr := base64.StdEncoding.DecodeString(alt); derr == nil && string(raw2) == string(rawOf(t)) {
				r.Count("probe_fliptxt_same_bytes")
				break
			}
			reject(fmt.Sprintf("a token with character %d altered", pos), alt, c35Reqs[int(o.Arg(3))%len(c35Reqs)])
			r.Count("probe_fliptxt")
		case "trunc":
			t := slots[int(o.Arg(0))%nSlots]
			if t == nil {
				continue
			}
			q := c35Reqs[int(o.Arg(1))%len(c35Reqs)]
			raw := rawOf(t)
			r.Logf("t=%v trunc mode=%d token of %d chars / %d bytes", rel(now), o.Arg(2), len(t.s), len(raw))
			if o.Arg(2) == 0 {
				minTxt := (c35ShortLen + 2) / 3 * 4
				for n := minTxt; n < len(t.s); n++ {
					reject(fmt.Sprintf("a token cut to its first %d characters", n), t.s[:n], q)
				}
			} else {
				for n := c35ShortLen; n < len(raw); n++ {
					reject(fmt.Sprintf("a token cut to its first %d sealed bytes", n), base64.StdEncoding.EncodeToString(raw[:n]), q)
				}
			}
			r.Count("probe_truncation")
		case "extend":
			t := slots[int(o.Arg(0))%nSlots]
			if t == nil {
				continue
			}
			raw := rawOf(t)
			extra := make([]byte, int(o.Arg(1))%1024+1)
			r.Rng.Read(extra)
			r.Logf("t=%v extend by %d bytes", rel(now), len(extra))
			reject("a token with bytes appended", base64.StdEncoding.EncodeToString(append(raw, extra...)), c35Reqs[int(o.Arg(2))%len(c35Reqs)])
			// and the text of two tokens glued together
			reject("two tokens glued together", t.s+t.s, c35Reqs[int(o.Arg(2))%len(c35Reqs)])
			r.Count("probe_extended")
		case "foreign":
			role := c35Roles[int(o.Arg(0))%len(c35Roles)]
			ttl := int(o.Arg(1))
			if ttl <= 0 {
				ttl = 3600
			}
			tok, gerr := other.GenerateKey(role, ttl)
			if gerr != nil {
				r.Violate("generate-error", "foreign GenerateKey(%q, %d) failed: %v", role, ttl, gerr)
			}
			r.Logf("t=%v foreign role=%q ttl=%d", rel(now), role, ttl)
			reject(fmt.Sprintf("a token of role %q sealed under another node's key", role), tok, c35Reqs[int(o.Arg(2))%len(c35Reqs)])
			// sanity: the issuing node itself honours it like its own
			if e := enforce(other, tok, c35Reqs[0]); e.err != nil || e.pan != nil {
				r.Violate("valid-rejected", "the issuing authenticator rejects its own fresh token: %v %v", e.err, e.pan)
			}
			r.Count("probe_foreign")
		case "random":
			n := int(o.Arg(1))
			if n < c35ShortLen {
				n = c35ShortLen
			}
			buf := make([]byte, n)
			r.Rng.Read(buf)
			q := c35Reqs[int(o.Arg(2))%len(c35Reqs)]
			var s string
			switch o.Arg(0) % 3 {
			case 0:
				s = base64.StdEncoding.EncodeToString(buf)
			case 1:
				s = base64.RawURLEncoding.EncodeToString(buf) + "-_"
			default:
				for i := range buf {
					buf[i] = 0x20 + buf[i]%0x5f
				}
				s = string(buf) + "!"
			}
			r.Logf("t=%v random kind=%d len=%d", rel(now), o.Arg(0)%3, n)
			reject("a random string", s, q)
			r.Count("probe_random")
		case "short":
			q := c35Reqs[int(o.Arg(3))%len(c35Reqs)]
			n := int(o.Arg(2)) % c35ShortLen
			var s, what string
			switch o.Arg(1) % 4 {
			case 0:
				s, what = "", "the empty string"
			case 1:
				buf := make([]byte, n)
				r.Rng.Read(buf)
				s, what = base64.StdEncoding.EncodeToString(buf), fmt.Sprintf("random base64 of %d bytes", n)
			case 2:
				t := slots[int(o.Arg(0))%nSlots]
				if t == nil {
					continue
				}
				s, what = base64.StdEncoding.EncodeToString(rawOf(t)[:n]), fmt.Sprintf("a token cut to its first %d sealed bytes", n)
			default:
				t := slots[int(o.Arg(0))%nSlots]
				if t == nil {
					continue
				}
				c := n * 4 / 3
				s, what = t.s[:c], fmt.Sprintf("a token cut to its first %d characters", c)
			}
			r.Logf("t=%v short %s", rel(now), what)
			reject(what, s, q)
			r.Count("probe_short")
		default:
			continue
		}
		r.OpDone()
	}
	r.Add("role_request_pairs_seen", int64(len(seen)))
}

func init() {
	gosim.Register(&gosim.World{
		Prop: "C35", Gen: c35Gen, Exec: c35Exec,
		Real:  []string{"pkg/auth (Authenticator: New, GenerateKey, RefreshKey, Enforce; AES-GCM encrypter; casbin enforcer with the repository's policy)"},
		Stubs: []string{"clock: synctest fake time (auth reads time.Now)", "crypto/rand: seeded stream (nonces)"},
	})
}
