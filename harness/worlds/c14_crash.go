//go:build g_heavy

package worlds

import (
	"context"
	"fmt"
	"math/rand"
	"sort"
	"strings"
	"time"

	"github.com/gauss-project/aurorafs/pkg/boson"
	"github.com/gauss-project/aurorafs/pkg/chunkinfo"
	"github.com/gauss-project/aurorafs/pkg/localstore"
	"github.com/gauss-project/aurorafs/pkg/storage"

	"verifharness/gosim"
)

// C14 — Local store stays consistent across crashes (fault enumeration).
//
// One run = one history (<= 25 operations) and ALL its crash points:
//   1. the history is executed crash-free on a simdisk; after the open and after
//      every operation (background goroutines joined) the write-log length and the
//      complete index dump are recorded: reference states S[0..n];
//   2. for every driver write attempt k in [0, W) and both crash variants (write
//      k lost / write k is the last one applied) the history is executed again on
//      a fresh simdisk that crashes at attempt k; the interrupted operation is
//      allowed to return, the store is closed, reopened from the write log with
//      localstore.New and dumped; k = W is the clean shutdown;
//   3. the reopened dump must be S[j] or S[j+1] for the interrupted operation j
//      (data rows, access rows, per-root gc rows, pin rows - timestamps and bin
//      ids included, the re-execution is deterministic), with the one relaxation
//      of the statement: gcSize >= sum of the per-root cached counts.
// Mismatches are classified per address (rows of one address in neither state:
// torn-chunk / pin-count-neither / root-count-neither) or, when every address on
// its own is in its before- or after-state but the combination is neither, as
// mixed-state (suffix @direct-write-in-<op> when the operation wrote an index
// row outside its batch).
//
// Ops (c = chunk index, f = file id or -1: no file context)
//   file    [f, root, m1, m2, ...]  definition: root chunk and member chunks (repeats allowed)
//   creq    [f, c]                  Put(ModePutRequest) of chunk c under the context of file f (retrieval caching)
//   put     [mode, f, c1, ...]      as C11
//   set     [mode, f, c1, ...]      as C11 (0 sync 1 remove 2 pin 3 unpin)
//   get     [c, f]                  Get(ModeGetRequest) + its background gc update
//   collect                         one synchronous collection run
//
// chunkinfo is a stub with the two behaviours collectGarbage relies on: DelFile
// (unknown file: storage.ErrNotFound; else run the callback, forget the file) and
// GetChunkPyramid (distinct chunks of the file with their multiplicity, without
// chunks that another known file uses). A file is known from the moment its root
// chunk was cached under its own context.

type c14File struct {
	id      int
	root    int
	members []int
}

type c14CI struct {
	chunkinfo.Interface // nil: any other call panics
	u                   *c11Uni
	files               []*c14File // definitions
	known               map[int]bool
	pyrRoot             bool // the pyramid lists the root chunk too
	calls               int
}

func (ci *c14CI) byRoot(addr boson.Address) *c14File {
	i, ok := ci.u.index[string(addr.Bytes())]
	if !ok {
		return nil
	}
	var hit *c14File
	for _, f := range ci.files {
		if f.root == i && ci.known[f.id] {
			hit = f
		}
	}
	return hit
}

func (ci *c14CI) IsDiscover(boson.Address) bool { return false }
func (ci *c14CI) DelDiscover(boson.Address)     {}

func (ci *c14CI) DelFile(root boson.Address, del func() error) error {
	f := ci.byRoot(root)
	if f == nil {
		return storage.ErrNotFound
	}
	ci.calls++
	if err := del(); err != nil {
		return err
	}
	ci.known[f.id] = false
	return nil
}

func (f *c14File) all(withRoot bool) []int {
	var out []int
	if withRoot {
		out = append(out, f.root)
	}
	return append(out, f.members...)
}

func (ci *c14CI) GetChunkPyramid(root boson.Address) []*chunkinfo.PyramidCidNum {
	f := ci.byRoot(root)
	if f == nil {
		return nil
	}
	var out []*chunkinfo.PyramidCidNum
	seen := map[int]int{}
	var order []int
	for _, c := range f.all(ci.pyrRoot) {
		if _, ok := seen[c]; !ok {
			order = append(order, c)
		}
		seen[c]++
	}
	for _, c := range order {
		shared := false
		for _, g := range ci.files {
			if g == f || !ci.known[g.id] {
				continue
			}
			for _, x := range g.all(true) {
				if x == c {
					shared = true
				}
			}
		}
		if shared {
			continue
		}
		out = append(out, &chunkinfo.PyramidCidNum{Cid: ci.u.chunks[c].Address(), Number: seen[c]})
	}
	return out
}

// c14State is a complete index dump rendered per address.
type c14State struct {
	ent    map[string][4]string // address name -> data / access / pin / gc rows
	gcSize uint64
	gcSum  uint64
}

func c14Render(u *c11Uni, d localstore.VerifDump) c14State {
	s := c14State{ent: map[string][4]string{}, gcSize: d.GCSize}
	set := func(name string, k int, v string) {
		e := s.ent[name]
		if e[k] != "" {
			v = e[k] + "," + v
		}
		e[k] = v
		s.ent[name] = e
	}
	for _, e := range d.Data {
		set(u.nameOf(e.Address), 0, fmt.Sprintf("bin=%d st=%d %s", e.BinID, e.StoreTimestamp, c11Digest(e.Data)))
	}
	for _, e := range d.Access {
		set(u.nameOf(e.Address), 1, fmt.Sprintf("at=%d", e.AccessTimestamp))
	}
	for _, e := range d.Pin {
		set(u.nameOf(e.Address), 2, fmt.Sprintf("%d", e.PinCounter))
	}
	for _, e := range d.GC {
		set(u.nameOf(e.Address), 3, fmt.Sprintf("(at=%d bin=%d n=%d)", e.AccessTimestamp, e.BinID, e.GCounter))
		s.gcSum += e.GCounter
	}
	return s
}

func (s c14State) names() []string {
	var out []string
	for k := range s.ent {
		out = append(out, k)
	}
	sort.Strings(out)
	return out
}

func (s c14State) String() string {
	var sb strings.Builder
	for _, n := range s.names() {
		e := s.ent[n]
		fmt.Fprintf(&sb, "%s{", n)
		for k, lbl := range []string{"data", "access", "pin", "gc"} {
			if e[k] != "" {
				fmt.Fprintf(&sb, " %s:%s", lbl, e[k])
			}
		}
		sb.WriteString(" } ")
	}
	fmt.Fprintf(&sb, "gcSize=%d", s.gcSize)
	return sb.String()
}

func (s c14State) equal(o c14State) bool {
	if len(s.ent) != len(o.ent) {
		return false
	}
	for k, v := range s.ent {
		if o.ent[k] != v {
			return false
		}
	}
	return true
}

type c14World struct {
	r     *gosim.Run
	u     *c11Uni
	files []*c14File
	ops   []gosim.Op
	base  []byte
	seq   int
	nowC  int64

	deferred *gosim.Violation
}

// c14Outcome is what one execution of the history leaves behind.
type c14Outcome struct {
	disk        string
	bounds      []int      // write-log length after the open and after every executed op
	states      []c14State // crash-free only
	results     []string   // op results
	interrupted int        // op index during which the disk crashed; -1: during the open; -2: no crash
	attempts    int
	openErr     error
}

func (w *c14World) guard(what string, f func()) {
	done := make(chan struct{})
	go func() { f(); close(done) }()
	select {
	case <-done:
	case <-time.After(time.Hour):
		w.r.Violate("hang", "%s did not return within one simulated hour", what)
	}
}

func (w *c14World) fileOf(x int64) *c14File {
	if x < 0 {
		return nil
	}
	for _, f := range w.files {
		if int64(f.id) == x {
			return f
		}
	}
	return nil
}

func (w *c14World) ctxOf(f *c14File) context.Context {
	if f == nil {
		return context.Background()
	}
	return w.u.ctx(f.root)
}

func (w *c14World) dump(db *localstore.DB, what string) (c14State, localstore.VerifDump) {
	var d localstore.VerifDump
	var err error
	w.guard("VerifDump", func() { d, err = db.VerifDump() })
	if err != nil {
		w.r.Violate("dump-failed", "%s: VerifDump: %v", what, err)
	}
	return c14Render(w.u, d), d
}

const c14Capacity = 1000

func (w *c14World) open(disk string) (*localstore.DB, error) {
	var db *localstore.DB
	var err error
	w.guard("localstore.New", func() {
		db, err = localstore.New(disk, w.base, &localstore.Options{Capacity: c14Capacity, Driver: "sim"}, c11Logger())
	})
	return db, err
}

// execOp runs one operation and returns its result rendered as text.
func (w *c14World) execOp(db *localstore.DB, ci *c14CI, o gosim.Op) string {
	u := w.u
	var res string
	switch o.K {
	case "creq":
		f := w.fileOf(o.Arg(0))
		if f == nil {
			return "no such file"
		}
		c := u.pos(o.Arg(1))
		var ex []bool
		var err error
		w.guard("Put", func() { ex, err = db.Put(w.ctxOf(f), storage.ModePutRequest, u.chunks[c]) })
		if err == nil && c == f.root {
			ci.known[f.id] = true
		}
		res = fmt.Sprintf("%v,%v", ex, err)
	case "put":
		f := w.fileOf(o.Arg(1))
		var idx []int
		for j := 2; j < len(o.A); j++ {
			idx = append(idx, u.pos(o.A[j]))
		}
		if len(idx) == 0 {
			return "empty"
		}
		chs := make([]boson.Chunk, len(idx))
		for i, x := range idx {
			chs[i] = u.chunks[x]
		}
		var ex []bool
		var err error
		w.guard("Put", func() { ex, err = db.Put(w.ctxOf(f), c11PutModes[c11Mode(o.Arg(0), 4)], chs...) })
		res = fmt.Sprintf("%v,%v", ex, err)
	case "set":
		f := w.fileOf(o.Arg(1))
		var addrs []boson.Address
		for j := 2; j < len(o.A); j++ {
			addrs = append(addrs, u.chunks[u.pos(o.A[j])].Address())
		}
		if len(addrs) == 0 {
			return "empty"
		}
		var err error
		w.guard("Set", func() { err = db.Set(w.ctxOf(f), c11SetModes[c11Mode(o.Arg(0), 4)], addrs...) })
		res = fmt.Sprintf("%v", err)
	case "get":
		var f *c14File
		if len(o.A) > 1 {
			f = w.fileOf(o.Arg(1))
		}
		var err error
		w.guard("Get", func() { _, err = db.Get(w.ctxOf(f), storage.ModeGetRequest, u.chunks[u.pos(o.Arg(0))].Address()) })
		res = fmt.Sprintf("%v", err)
	case "collect":
		var n uint64
		var done bool
		var err error
		w.guard("collectGarbage", func() { n, done, err = db.VerifCollectGarbage() })
		res = fmt.Sprintf("%d,%v,%v", n, done, err)
	default:
		return "?"
	}
	// the operation includes the background work it started
	gosim.Idle()
	return res
}

// execute runs the history on a fresh disk that crashes at write attempt crashAt
// (< 0: never). The store is closed at the end.
func (w *c14World) execute(crashAt int, keep bool, record bool) c14Outcome {
	w.seq++
	out := c14Outcome{disk: fmt.Sprintf("c14-%d", w.seq), interrupted: -2}
	f := simdiskNoFaults()
	f.CrashAt, f.CrashKeep = crashAt, keep
	simdiskSetFaults(out.disk, f)
	w.nowC = 0
	ci := &c14CI{u: w.u, files: w.files, known: map[int]bool{}, pyrRoot: w.r.Plan.P("pyr_root", 0) == 1}
	db, err := w.open(out.disk)
	if err != nil {
		out.openErr = err
		if !simdiskStats(out.disk).Crashed {
			w.r.Violate("open-failed", "localstore.New on an empty disk: %v", err)
		}
		out.interrupted = -1
		out.attempts = simdiskStats(out.disk).Attempts
		return out
	}
	db.SetChunkInfo(ci)
	if simdiskStats(out.disk).Crashed {
		out.interrupted = -1
	}
	out.bounds = append(out.bounds, simdiskLogLen(out.disk))
	if record {
		s, _ := w.dump(db, "after the open")
		out.states = append(out.states, s)
	}
	if out.interrupted == -2 {
		for j, o := range w.ops {
			res := w.execOp(db, ci, o)
			out.results = append(out.results, res)
			out.bounds = append(out.bounds, simdiskLogLen(out.disk))
			if record {
				s, _ := w.dump(db, "after "+o.String())
				out.states = append(out.states, s)
				w.r.Logf("op %d %s -> %s | log=%d", j, o, res, out.bounds[len(out.bounds)-1])
			}
			if simdiskStats(out.disk).Crashed {
				out.interrupted = j
				break
			}
		}
	}
	w.guard("Close", func() { _ = db.Close() })
	out.attempts = simdiskStats(out.disk).Attempts
	return out
}

// c14LogEqual: the same sequence of atomic writes. Inside one batch the order of
// operations on different keys is irrelevant (put() ranges over a map of bin ids).
func c14LogEqual(a, b []simdiskEntry) bool {
	if len(a) != len(b) {
		return false
	}
	eff := func(e simdiskEntry) map[string]string {
		m := map[string]string{}
		for _, kv := range e.Ops {
			if kv.Del {
				m[string(kv.Key)] = "D"
			} else {
				m[string(kv.Key)] = "P" + string(kv.Val)
			}
		}
		return m
	}
	for i := range a {
		if a[i].Batch != b[i].Batch || a[i].Schema != b[i].Schema {
			return false
		}
		x, y := eff(a[i]), eff(b[i])
		if len(x) != len(y) {
			return false
		}
		for k, v := range x {
			if w, ok := y[k]; !ok || w != v {
				return false
			}
		}
	}
	return true
}

// judge compares the state found after the restart with the states before and
// after the interrupted operation. It returns the class of the mismatch ("" if
// none) and the rows (data/access/pin/gc) in which the found state has left the
// before-state.
func (w *c14World) judge(got, before, after c14State) (class, msg string, ahead []string) {
	if got.gcSize < got.gcSum {
		return "gcsize-low", fmt.Sprintf("after the restart gcSize=%d is below the recomputed total %d\n found: %s", got.gcSize, got.gcSum, got), nil
	}
	if got.equal(before) {
		w.r.Count("crash_state_before")
		return "", "", nil
	}
	if got.equal(after) {
		w.r.Count("crash_state_after")
		return "", "", nil
	}
	lbl := []string{"data", "access", "pin", "gc"}
	names := map[string]bool{}
	for _, s := range []c14State{got, before, after} {
		for k := range s.ent {
			names[k] = true
		}
	}
	var sorted []string
	for k := range names {
		sorted = append(sorted, k)
	}
	sort.Strings(sorted)
	aheadSet := map[string]bool{}
	for _, n := range sorted {
		g, b := got.ent[n], before.ent[n]
		for k := range g {
			if g[k] != b[k] {
				aheadSet[lbl[k]] = true
			}
		}
	}
	for _, l := range lbl {
		if aheadSet[l] {
			ahead = append(ahead, l)
		}
	}
	// per address
	for _, n := range sorted {
		g, b, a := got.ent[n], before.ent[n], after.ent[n]
		if g == b || g == a {
			continue
		}
		class := "torn-chunk"
		var off []string
		for k := range g {
			if g[k] != b[k] && g[k] != a[k] {
				off = append(off, lbl[k])
			}
		}
		if len(off) == 1 && off[0] == "pin" {
			class = "pin-count-neither"
		} else if len(off) == 1 && off[0] == "gc" {
			class = "root-count-neither"
		}
		return class, fmt.Sprintf("after the restart the rows of %s are neither those before nor those after the interrupted operation (rows in neither state: %v)\n found:  data:%q access:%q pin:%q gc:%q\n before: data:%q access:%q pin:%q gc:%q\n after:  data:%q access:%q pin:%q gc:%q",
			n, off, g[0], g[1], g[2], g[3], b[0], b[1], b[2], b[3], a[0], a[1], a[2], a[3]), ahead
	}
	var mix []string
	for _, n := range sorted {
		g, b, a := got.ent[n], before.ent[n], after.ent[n]
		if b == a {
			continue
		}
		if g == b {
			mix = append(mix, n+"=before")
		} else {
			mix = append(mix, n+"=after")
		}
	}
	return "mixed-state", fmt.Sprintf("after the restart every address is in its state before or after the interrupted operation, but the combination is neither: %s\n found:  %s\n before: %s\n after:  %s",
		strings.Join(mix, " "), got, before, after), ahead
}

func c14Exec(r *gosim.Run) {
	shedTuneGC()
	w := &c14World{r: r, u: c11Universe(int(r.Plan.P("n", 8)))}
	w.base = make([]byte, 32)
	w.base[0] = byte(r.Plan.P("base", 0))
	for _, o := range r.Plan.Ops {
		if o.K != "file" {
			w.ops = append(w.ops, o)
			continue
		}
		if len(o.A) < 2 {
			continue
		}
		f := &c14File{id: int(o.Arg(0)), root: w.u.pos(o.Arg(1))}
		for j := 2; j < len(o.A); j++ {
			f.members = append(f.members, w.u.pos(o.A[j]))
		}
		w.files = append(w.files, f)
	}
	target := r.Plan.P("gc_target", 0)
	localstore.VerifSetGCParams((float64(target)+0.5)/float64(c14Capacity), uint64(r.Plan.P("gc_batch", 10000)))
	localstore.VerifSetHooks(nil, nil, nil)
	restore := localstore.VerifSetNow(func() int64 { w.nowC++; return 1000000 + w.nowC })
	defer restore()

	// 1. crash-free execution
	ref := w.execute(-1, false, true)
	if ref.interrupted != -2 {
		r.Violate("harness-crashfree", "the crash-free execution crashed")
	}
	W := ref.attempts
	refLog := simdiskLog(ref.disk)
	if W != len(refLog) {
		r.Violate("harness-crashfree", "crash-free execution: %d write attempts but %d log entries", W, len(refLog))
	}
	for i := range w.ops {
		r.OpDone()
		lo, hi := ref.bounds[i], ref.bounds[i+1]
		if hi-lo >= 2 {
			r.Count("probe_multi_write_op")
		}
		for _, e := range refLog[lo:hi] {
			if !e.Batch && !e.Schema {
				r.Count("probe_direct_write")
			}
		}
		if w.ops[i].K == "collect" && !strings.HasPrefix(ref.results[i], "0,") {
			r.Count("probe_collected")
		}
	}
	r.Add("driver_writes", int64(W))
	r.Logf("crash-free: %d driver writes, bounds %v", W, ref.bounds)

	// the clean shutdown: k = W
	check := func(k int, keep bool) {
		variant := "lost"
		if keep {
			variant = "kept"
		}
		out := w.execute(k, keep, false)
		p := k // durable prefix
		if keep {
			p = k + 1
		}
		if k >= W {
			p = W
			if out.interrupted != -2 {
				r.Violate("harness-rerun-diverged", "crash point %d beyond the last write fired", k)
			}
		} else if out.interrupted == -2 {
			r.Violate("harness-rerun-diverged", "crash point %d/%d (%s) never fired in the re-execution", k, W, variant)
		}
		log := simdiskLog(out.disk)
		if !c14LogEqual(log, refLog[:p]) {
			r.Violate("harness-rerun-diverged", "crash point %d/%d (%s): the write log of the re-execution (%d entries) is not the prefix %d of the crash-free log", k, W, variant, len(log), p)
		}
		// the interrupted operation according to the crash-free execution
		j := -1 // -1: the open
		for i := range w.ops {
			if k >= ref.bounds[i] && k < ref.bounds[i+1] {
				j = i
			}
		}
		if k >= W {
			j = len(w.ops) // nothing interrupted
		}
		if k < W && j != out.interrupted && !(j == -1 && out.interrupted == -1) {
			r.Violate("harness-rerun-diverged", "crash point %d/%d (%s): interrupted op %d, expected %d", k, W, variant, out.interrupted, j)
		}
		// restart
		simdiskSetFaults(out.disk, simdiskNoFaults())
		db, err := w.open(out.disk)
		where := fmt.Sprintf("crash at driver write %d/%d (%s)", k, W, variant)
		opKind := "open"
		if j >= 0 && j < len(w.ops) {
			where += fmt.Sprintf(" during op %d %s", j, w.ops[j])
			opKind = w.ops[j].K
			// the operation's mode is part of the class: the recorded defects are
			// about the pinning paths only, a direct write in any other mode is new
			switch opKind {
			case "set":
				opKind += "-" + []string{"sync", "remove", "pin", "unpin"}[c11Mode(w.ops[j].Arg(0), 4)]
			case "put":
				opKind += "-" + []string{"request", "requestpin", "upload", "uploadpin"}[c11Mode(w.ops[j].Arg(0), 4)]
			}
		} else if j == -1 {
			where += " during the first open"
		} else {
			where = "clean shutdown"
		}
		if err != nil {
			r.Violate("reopen-failed", "%s: localstore.New on the surviving log prefix (%d entries): %v", where, p, err)
		}
		got, _ := w.dump(db, where)
		w.guard("Close", func() { _ = db.Close() })
		simdiskDrop(out.disk)
		var before, after c14State
		direct := false
		switch {
		case j == -1:
			before, after = ref.states[0], ref.states[0]
		case j >= len(w.ops):
			before, after = ref.states[len(w.ops)], ref.states[len(w.ops)]
		default:
			before, after = ref.states[j], ref.states[j+1]
			for _, e := range refLog[ref.bounds[j]:ref.bounds[j+1]] {
				if !e.Batch && !e.Schema {
					direct = true
				}
			}
		}
		r.Logf("%s -> prefix %d, gcSize=%d sum=%d", where, p, got.gcSize, got.gcSum)
		class, msg, ahead := w.judge(got, before, after)
		if class != "" {
			// a crash after a write that the operation made outside its batch and
			// before the batch commit: reported when all crash points are done
			inWindow := direct && j >= 0 && j < len(w.ops) && p > ref.bounds[j] && p < ref.bounds[j+1]
			if inWindow {
				for _, e := range refLog[ref.bounds[j]:p] {
					if e.Batch {
						inWindow = false
					}
				}
			}
			if inWindow && class != "gcsize-low" {
				class += "@direct-" + strings.Join(ahead, "+") + "-write-in-" + opKind
				r.Logf("DEFERRED %s: %s: %s", class, where, msg)
				r.Count("deferred_direct_write_mismatch")
				if w.deferred == nil {
					w.deferred = &gosim.Violation{Class: class, Msg: where + ": " + msg}
				}
			} else {
				r.Violate(class, "%s: %s", where, msg)
			}
		}
		r.Count("crash_points")
		if j >= 0 && j < len(w.ops) {
			r.Count("crash_in_" + opKind)
		}
	}
	limit := int(r.Plan.P("max_points", 400))
	step := 1
	if W > limit {
		step = (W + limit - 1) / limit
		r.Count("info_sampled")
	}
	for k := 0; k < W; k += step {
		check(k, false)
		check(k, true)
	}
	check(W, false)
	simdiskDrop(ref.disk)
	if w.deferred != nil {
		r.Violate(w.deferred.Class, "%s", w.deferred.Msg)
	}
}

func c14Gen(rng *rand.Rand, tier string) *gosim.Plan {
	p := &gosim.Plan{Params: map[string]int64{}}
	n := 5 + rng.Intn(6)
	p.Params["n"] = int64(n)
	p.Params["base"] = int64(rng.Intn(256))
	p.Params["gc_target"] = gosim.Pick(rng, 0, 0, 1, 2, 4)
	p.Params["gc_batch"] = gosim.Pick(rng, 10000, 10000, 10000, 1, 3)
	p.Params["pyr_root"] = int64(rng.Intn(2))
	// sequential history: scheduling noise is irrelevant, keep it cheap
	p.Params["yield_pct"] = gosim.Pick(rng, 0, 0, 5)
	nf := 1 + rng.Intn(3)
	if nf > n-2 {
		nf = n - 2
	}
	type gf struct {
		root    int64
		members []int64
		cached  bool
	}
	var files []*gf
	add := func(k string, a ...int64) { p.Ops = append(p.Ops, gosim.Op{K: k, A: a}) }
	pool := n - nf // members come from chunks nf..n-1
	for f := 0; f < nf; f++ {
		g := &gf{root: int64(f)}
		k := 1 + rng.Intn(4)
		for i := 0; i < k; i++ {
			c := int64(nf + rng.Intn(pool))
			if len(g.members) > 0 && rng.Intn(4) == 0 {
				c = g.members[rng.Intn(len(g.members))] // repeated chunk inside the file
			}
			g.members = append(g.members, c)
		}
		files = append(files, g)
		add("file", append([]int64{int64(f), g.root}, g.members...)...)
	}
	nops := 8 + rng.Intn(18)
	if tier == "thorough" {
		nops = 10 + rng.Intn(16)
	}
	C := func() int64 { return int64(rng.Intn(n)) }
	F := func(pNone int) int64 {
		if rng.Intn(100) < pNone {
			return -1
		}
		return int64(rng.Intn(nf))
	}
	member := func(f int64) int64 {
		if f < 0 {
			return C()
		}
		g := files[f]
		if rng.Intn(6) == 0 {
			return g.root
		}
		if rng.Intn(8) == 0 {
			return C()
		}
		return g.members[rng.Intn(len(g.members))]
	}
	for i := 0; i < nops; i++ {
		switch x := rng.Intn(100); {
		case x < 30:
			f := int64(rng.Intn(nf))
			g := files[f]
			if !g.cached {
				add("creq", f, g.root)
				g.cached = true
				// usually the rest of the file follows
				for _, m := range g.members {
					if rng.Intn(4) > 0 && i < nops {
						add("creq", f, m)
						i++
					}
				}
			} else {
				add("creq", f, member(f))
			}
		case x < 40:
			f := F(50)
			mode := int64(rng.Intn(4))
			if rng.Intn(2) == 0 {
				add("put", mode, f, member(f))
			} else {
				add("put", mode, f, member(f), member(f), C())
			}
		case x < 58:
			f := F(40)
			switch rng.Intn(4) {
			case 0:
				add("set", 2, f, member(f), member(f))
			case 1:
				// pinned more often than the chunk occurs in its file
				g := int64(rng.Intn(nf))
				m := member(g)
				add("set", 2, -1, m)
				add("set", 2, -1, m)
				i++
			default:
				add("set", 2, f, member(f))
			}
		case x < 66:
			f := F(40)
			add("set", 3, f, member(f))
		case x < 74:
			f := F(40)
			add("set", 1, f, member(f))
		case x < 77:
			add("set", 0, -1, C())
		case x < 85:
			f := F(30)
			add("get", member(f), f)
		default:
			add("collect")
		}
	}
	if rng.Intn(3) > 0 {
		add("collect")
	}
	return p
}

func init() {
	gosim.Register(&gosim.World{
		Prop: "C14", Gen: c14Gen, Exec: c14Exec,
		Real: []string{
			"pkg/localstore (New, Put, Set, Get + updateGC, collectGarbage, Close; reopen from the surviving write log)",
			"pkg/shed + pkg/shed/leveldb driver (behind simdisk)",
		},
		Stubs: []string{
			"simdisk: crash at the k-th driver write (lost / last applied), restart from the write log",
			"chunkinfo stub: DelFile / GetChunkPyramid / IsDiscover over the files of the plan",
		},
	})
}
