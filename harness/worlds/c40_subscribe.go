package worlds

import (
	"fmt"
	"math/rand"
	"sync"

	"github.com/gauss-project/aurorafs/pkg/subscribe"

	"verifharness/gosim"
)

// C40 — Subscribers get every later message and none after leaving.
//
// Ops (first argument = client goroutine):
//   sub   [client, notifier, key]
//   pub   [client, key, msgid]
//   unsub [client, notifier]        closes the notifier's error channel
//   barrier                         all clients join, system quiesces
//
// Keys: index into c40Keys (namespace, kind, param).

type c40Key struct{ ns, kind, param string }

var c40Keys = []c40Key{
	{"a", "x", ""}, {"a", "x", "p"}, {"a", "x", "q"}, {"b", "x", ""}, {"b", "x", "p"}, {"a", "y", "p"},
}

func (k c40Key) full() string {
	if k.param == "" {
		return k.ns + "_" + k.kind
	}
	return k.ns + "_" + k.kind + "_" + k.param
}

type c40Notifier struct {
	id   int
	errc chan error
	w    *c40World
}

type c40Note struct {
	notifier int
	key      string
	msg      int64
	phase    int
}

type c40World struct {
	r     *gosim.Run
	mu    sync.Mutex
	notes []c40Note
	phase int
}

func (n *c40Notifier) Notify(key string, data interface{}) error {
	n.w.mu.Lock()
	n.w.notes = append(n.w.notes, c40Note{n.id, key, data.(int64), n.w.phase})
	n.w.mu.Unlock()
	n.w.r.Logf("notify n=%d key=%s msg=%d", n.id, key, data.(int64))
	return nil
}
func (n *c40Notifier) Err() <-chan error { return n.errc }

func c40Gen(rng *rand.Rand, tier string) *gosim.Plan {
	p := &gosim.Plan{Params: map[string]int64{}}
	nNot := 1 + rng.Intn(4)
	nCli := 1 + rng.Intn(3)
	nPhase := 2 + rng.Intn(4)
	// few keys per run, so that several notifiers meet on one key (a key that
	// already has a subscriber behaves differently from a fresh one)
	nKeys := 1 + rng.Intn(3)
	keys := rng.Perm(len(c40Keys))[:nKeys]
	key := func() int64 { return int64(keys[rng.Intn(nKeys)]) }
	msg := int64(0)
	for ph := 0; ph < nPhase; ph++ {
		n := 1 + rng.Intn(8)
		for i := 0; i < n; i++ {
			c := int64(rng.Intn(nCli))
			switch x := rng.Intn(10); {
			case x < 3:
				p.Ops = append(p.Ops, gosim.Op{K: "sub", A: []int64{c, int64(rng.Intn(nNot)), key()}})
			case x < 5:
				p.Ops = append(p.Ops, gosim.Op{K: "unsub", A: []int64{c, int64(rng.Intn(nNot))}})
			case x < 6:
				// subscribe and leave at once: the removal is queued right behind the subscription
				nn := int64(rng.Intn(nNot))
				p.Ops = append(p.Ops, gosim.Op{K: "sub", A: []int64{c, nn, key()}}, gosim.Op{K: "unsub", A: []int64{c, nn}})
			default:
				msg++
				p.Ops = append(p.Ops, gosim.Op{K: "pub", A: []int64{c, key(), msg}})
			}
		}
		p.Ops = append(p.Ops, gosim.Op{K: "barrier"})
	}
	// a last phase publishing on every key of the run: whoever is wrongly still
	// registered, or wrongly missing, shows
	for _, k := range keys {
		msg++
		p.Ops = append(p.Ops, gosim.Op{K: "pub", A: []int64{0, int64(k), msg}})
	}
	p.Ops = append(p.Ops, gosim.Op{K: "barrier"})
	p.Params["notifiers"] = int64(nNot)
	return p
}

func c40Exec(r *gosim.Run) {
	w := &c40World{r: r}
	sp := subscribe.NewSubPub()
	nots := map[int64]*c40Notifier{}
	closed := map[int64]bool{}
	var nmu sync.Mutex
	getN := func(id int64) *c40Notifier {
		nmu.Lock()
		defer nmu.Unlock()
		n := nots[id]
		if n == nil {
			n = &c40Notifier{id: int(id), errc: make(chan error), w: w}
			nots[id] = n
		}
		return n
	}
	// model, filled while executing; only phase-level facts are used by the oracle
	type subRec struct {
		n     int64
		key   string
		phase int
	}
	type pubRec struct {
		keys  []string // keys the message is published under
		msg   int64
		phase int
		cli   int64
		seq   int
	}
	var mmu sync.Mutex
	var subs []subRec
	var pubs []pubRec
	unsubPhase := map[int64]int{} // first phase in which unsub was issued
	subInvoked := map[string]bool{}

	r.RunPhases(r.Plan.Ops, func(phase int, o gosim.Op) {
		switch o.K {
		case "sub":
			n := getN(o.Arg(1))
			nmu.Lock()
			dead := closed[o.Arg(1)]
			nmu.Unlock()
			if dead {
				return // a notifier that left is not reused
			}
			k := c40Keys[int(o.Arg(2))%len(c40Keys)]
			mmu.Lock()
			subInvoked[fmt.Sprintf("%d/%s", n.id, k.full())] = true
			mmu.Unlock()
			r.Logf("sub n=%d key=%s", n.id, k.full())
			if err := sp.Subscribe(n, k.ns, k.kind, k.param); err != nil {
				r.Violate("subscribe-error", "Subscribe returned %v", err)
			}
			mmu.Lock()
			subs = append(subs, subRec{o.Arg(1), k.full(), phase})
			mmu.Unlock()
		case "unsub":
			nmu.Lock()
			n := nots[o.Arg(1)]
			already := closed[o.Arg(1)]
			if n != nil && !already {
				closed[o.Arg(1)] = true
			}
			nmu.Unlock()
			if n == nil || already {
				return
			}
			r.Logf("unsub n=%d", n.id)
			mmu.Lock()
			unsubPhase[o.Arg(1)] = phase
			mmu.Unlock()
			close(n.errc)
		case "pub":
			k := c40Keys[int(o.Arg(1))%len(c40Keys)]
			keys := []string{k.ns + "_" + k.kind}
			if k.param != "" {
				keys = append(keys, k.full())
			}
			mmu.Lock()
			pubs = append(pubs, pubRec{keys, o.Arg(2), phase, o.Arg(0), len(pubs)})
			mmu.Unlock()
			r.Logf("pub key=%s msg=%d", k.full(), o.Arg(2))
			if err := sp.Publish(k.ns, k.kind, k.param, o.Arg(2)); err != nil {
				r.Violate("publish-error", "Publish returned %v", err)
			}
		}
	}, func(phase int) {
		w.mu.Lock()
		w.phase = phase + 1
		w.mu.Unlock()
	})

	// ---- oracle over the recorded history ----
	w.mu.Lock()
	notes := append([]c40Note(nil), w.notes...)
	w.mu.Unlock()
	pubByMsg := map[int64]pubRec{}
	for _, p := range pubs {
		pubByMsg[p.msg] = p
	}
	// (1) nothing spurious, nothing after leaving
	for _, nt := range notes {
		p, ok := pubByMsg[nt.msg]
		if !ok {
			r.Violate("spurious", "notifier %d got unknown message %d", nt.notifier, nt.msg)
		}
		match := false
		for _, k := range p.keys {
			if k == nt.key {
				match = true
			}
		}
		if !match {
			r.Violate("wrong-key", "notifier %d got message %d under key %s, published under %v", nt.notifier, nt.msg, nt.key, p.keys)
		}
		if !subInvoked[fmt.Sprintf("%d/%s", nt.notifier, nt.key)] {
			r.Violate("not-subscribed", "notifier %d notified for key %s it never subscribed to", nt.notifier, nt.key)
		}
		if up, ok := unsubPhase[int64(nt.notifier)]; ok && p.phase > up {
			r.Count("probe_checked_after_leave")
			r.Violate("after-leave", "notifier %d left in phase %d (system quiesced since) but received message %d published in phase %d under %s",
				nt.notifier, up, nt.msg, p.phase, nt.key)
		}
	}
	// (1b) a message is delivered to a notifier under a key at most as often as the
	// notifier subscribed to that key
	subCount := map[string]int{}
	for _, sb := range subs {
		subCount[fmt.Sprintf("%d/%s", sb.n, sb.key)]++
	}
	got := map[string]int{}
	for _, nt := range notes {
		k := fmt.Sprintf("%d/%s/%d", nt.notifier, nt.key, nt.msg)
		got[k]++
		if got[k] > subCount[fmt.Sprintf("%d/%s", nt.notifier, nt.key)] {
			r.Violate("duplicate", "notifier %d received message %d under key %s %d times but subscribed to that key %d time(s)",
				nt.notifier, nt.msg, nt.key, got[k], subCount[fmt.Sprintf("%d/%s", nt.notifier, nt.key)])
		}
	}
	// (2) every later message is delivered
	for _, s := range subs {
		for _, p := range pubs {
			if p.phase <= s.phase {
				continue
			}
			if up, ok := unsubPhase[s.n]; ok && up <= p.phase {
				continue // leaving concurrently with or before the publication
			}
			for _, k := range p.keys {
				if k != s.key {
					continue
				}
				r.Count("probe_must_deliver")
				found := false
				for _, nt := range notes {
					if int64(nt.notifier) == s.n && nt.key == k && nt.msg == p.msg {
						found = true
					}
				}
				if !found {
					r.Violate("lost", "notifier %d subscribed to %s in phase %d but did not receive message %d published in phase %d",
						s.n, s.key, s.phase, p.msg, p.phase)
				}
			}
		}
	}
	// (3) publication order per (notifier, key) for messages of one sequential publisher
	type nk struct {
		n int
		k string
	}
	last := map[nk]map[int64]int{} // per client: last pub seq seen
	for _, nt := range notes {
		p := pubByMsg[nt.msg]
		key := nk{nt.notifier, nt.key}
		if last[key] == nil {
			last[key] = map[int64]int{}
		}
		if prev, ok := last[key][p.cli]; ok && p.seq < prev {
			r.Violate("order", "notifier %d key %s: message %d delivered after a later message of the same publisher", nt.notifier, nt.key, nt.msg)
		}
		// phases are totally ordered for all publishers
		for c, prev := range last[key] {
			if pubs[prev].phase > p.phase {
				r.Violate("order", "notifier %d key %s: message %d (phase %d) delivered after message of client %d from phase %d", nt.notifier, nt.key, nt.msg, p.phase, c, pubs[prev].phase)
			}
		}
		if prev, ok := last[key][p.cli]; !ok || p.seq > prev {
			last[key][p.cli] = p.seq
		}
	}
	r.Add("notes", int64(len(notes)))
}

func init() {
	gosim.Register(&gosim.World{
		Prop: "C40", Gen: c40Gen, Exec: c40Exec,
		Real:  []string{"pkg/subscribe (subPub: Subscribe, Publish, process loop)"},
		Stubs: []string{"INotifier sinks (recording)"},
	})
}
