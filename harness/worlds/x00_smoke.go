//go:build g_heavy

package worlds

import (
	"bytes"
	"math/rand"
	"time"

	"verifharness/gosim"
)

// X00: smoke test of the node kit (not a property): upload on node 1, download on node 0.
func x00Exec(r *gosim.Run) {
	c := nkNewCluster(r)
	n0, err := c.AddNode(nkOpts{Capacity: 50})
	if err != nil {
		r.Violate("setup", "%v", err)
	}
	n1, err := c.AddNode(nkOpts{Capacity: 50})
	if err != nil {
		r.Violate("setup", "%v", err)
	}
	if err := c.Net.Link(n0.Net, n1.Net); err != nil {
		r.Violate("setup", "link %v", err)
	}
	content := bytes.Repeat([]byte("0123456789abcdef"), 40000) // 640000 bytes: 3 chunks
	ref, err := n1.Upload("f.bin", content, false)
	if err != nil {
		r.Violate("upload", "%v", err)
	}
	r.Logf("uploaded ref=%s t=%v", ref, r.Now())
	c.Oracle.set(ref, n1.Addr)
	code, body := n1.Download(ref, "f.bin")
	r.Logf("local download code=%d len=%d equal=%v", code, len(body), bytes.Equal(body, content))
	code, body = n0.Download(ref, "f.bin")
	r.Logf("remote download code=%d len=%d equal=%v t=%v", code, len(body), bytes.Equal(body, content), r.Now())
	if code != 200 || !bytes.Equal(body, content) {
		r.Violate("download", "code %d len %d", code, len(body))
	}
	time.Sleep(3 * time.Second)
	gosim.Idle()
	d, _ := n0.Dump()
	r.Logf("n0 dump: data=%d pin=%d gc=%v gcsize=%d", len(d.Data), len(d.Pin), d.GC, d.GCSize)
	r.OpDone()
}

func init() {
	gosim.Register(&gosim.World{Prop: "X00", Exec: x00Exec,
		Gen:    func(rng *rand.Rand, tier string) *gosim.Plan { return &gosim.Plan{} },
		Native: []string{"github.com/gauss-project/aurorafs/pkg/bmt."}})
}
