//go:build g_heavy

package worlds

// Independent implementation of the Aurora file-hash format, written from the
// statements of C02/C03 only. It deliberately shares no code with pkg/bmt,
// pkg/bmt/reference or pkg/file/pipeline: only keccak256 is imported.
//
//   chunk hash  = keccak256( span(8 bytes, little endian) || root )
//   root        = root of the binary Merkle tree (keccak256 of the two children)
//                 over the 32-byte segments of the chunk payload, the payload
//                 being zero-padded to the hasher capacity (cap segments)
//   file tree   = payload cut into chunks of chunkSize bytes (span = payload
//                 length of the chunk); the references of one level are grouped
//                 by `branches`; a group of >= 2 references becomes an
//                 intermediate chunk (payload = the references, span = number of
//                 content bytes below it); a lone reference is carried up
//                 unchanged; repeat until one reference is left.

import (
	"encoding/binary"
	"hash"

	"golang.org/x/crypto/sha3"
)

type fkSpec struct {
	h         hash.Hash
	capSegs   int        // hasher capacity in 32-byte segments (a power of two)
	depth     int        // log2(capSegs)
	zero      [][32]byte // zero[l] = root of an all-zero subtree spanning 2^l segments
	chunkSize int64
	branches  int
	nHashed   int64
}

func fkNewSpec(chunkSize int64, branches int, capSegs int) *fkSpec {
	s := &fkSpec{h: sha3.NewLegacyKeccak256(), capSegs: capSegs, chunkSize: chunkSize, branches: branches}
	for 1<<uint(s.depth) < capSegs {
		s.depth++
	}
	s.zero = make([][32]byte, s.depth+1)
	for l := 1; l <= s.depth; l++ {
		s.zero[l] = s.pair(s.zero[l-1][:], s.zero[l-1][:])
	}
	return s
}

func (s *fkSpec) pair(a, b []byte) (out [32]byte) {
	s.h.Reset()
	s.h.Write(a)
	s.h.Write(b)
	s.h.Sum(out[:0])
	return
}

// root of the subtree spanning 2^level segments whose (unpadded) bytes are data.
func (s *fkSpec) root(level int, data []byte) [32]byte {
	if len(data) == 0 {
		return s.zero[level] // by definition: every segment below is zero
	}
	if level == 0 {
		var seg [32]byte
		copy(seg[:], data)
		return seg
	}
	half := 32 << uint(level-1)
	var l, r [32]byte
	if len(data) <= half {
		l = s.root(level-1, data)
		r = s.zero[level-1]
	} else {
		l = s.root(level-1, data[:half])
		r = s.root(level-1, data[half:])
	}
	return s.pair(l[:], r[:])
}

// chunk returns the hash of one chunk: payload at most capSegs*32 bytes.
func (s *fkSpec) chunk(span uint64, payload []byte) [32]byte {
	if len(payload) > s.capSegs*32 {
		panic("fkSpec: payload larger than the hasher capacity")
	}
	rt := s.root(s.depth, payload)
	var sp [8]byte
	binary.LittleEndian.PutUint64(sp[:], span)
	s.nHashed++
	return s.pair(sp[:], rt[:])
}

type fkSpecRef struct {
	ref  [32]byte
	span uint64
}

// file returns the reference of a content of `size` bytes; fill delivers content bytes.
func (s *fkSpec) file(size int64, fill func(dst []byte, off int64)) [32]byte {
	var refs []fkSpecRef
	if size == 0 {
		refs = append(refs, fkSpecRef{s.chunk(0, nil), 0})
	}
	buf := make([]byte, s.chunkSize)
	for off := int64(0); off < size; off += s.chunkSize {
		n := s.chunkSize
		if size-off < n {
			n = size - off
		}
		fill(buf[:n], off)
		refs = append(refs, fkSpecRef{s.chunk(uint64(n), buf[:n]), uint64(n)})
	}
	for len(refs) > 1 {
		var next []fkSpecRef
		for i := 0; i < len(refs); i += s.branches {
			j := i + s.branches
			if j > len(refs) {
				j = len(refs)
			}
			g := refs[i:j]
			if len(g) == 1 {
				next = append(next, g[0]) // lone reference: carried up unchanged
				continue
			}
			payload := make([]byte, 0, 32*len(g))
			span := uint64(0)
			for _, c := range g {
				payload = append(payload, c.ref[:]...)
				span += c.span
			}
			next = append(next, fkSpecRef{s.chunk(span, payload), span})
		}
		refs = next
	}
	return refs[0].ref
}
