package worlds

import (
	"fmt"
	"io"
	"math/rand"
	"sort"
	"time"

	"github.com/gauss-project/aurorafs/pkg/boson"
	"github.com/gauss-project/aurorafs/pkg/logging"
	"github.com/gauss-project/aurorafs/pkg/p2p/libp2p/verifx"
	ldbstate "github.com/gauss-project/aurorafs/pkg/statestore/leveldb"
	mockstate "github.com/gauss-project/aurorafs/pkg/statestore/mock"
	"github.com/gauss-project/aurorafs/pkg/storage"
	"github.com/sirupsen/logrus"

	"verifharness/gosim"
)

// C25 — Blocklisting never shortens a block.
//
// One sequential client drives the real libp2p blocklist (internal/blocklist,
// reached through the verif-tagged verifx package) over a real state store
// (param store: 0 = statestore/mock, 1 = statestore/leveldb in memory) on the
// simulator's fake clock.
//
// Ops:
//   sleep  [ms]            let fake time pass
//   add    [peer, dur_ms]  Add(peer, dur); 0 = forever; (rarely) negative
//   remove [peer]
//   exists [peer]          Exists(peer), checked against the interval model
//   peers  []              Peers(), membership checked against the interval model
//   audit  []              Peers(), Exists(every peer), Peers() at one instant: must agree
//
// Reference model per peer (exactly the statement): the requests since the last
// removal. mustEnd = max(request time + duration) (blocked during every
// requested period), mayEnd = latest request time + longest duration requested
// since the last removal, forever if any duration was zero. Between mustEnd and
// mayEnd, and exactly at an interval end, the statement is silent and both
// answers are accepted.

type c25Peer struct {
	n        int // requests since the last removal
	forever  bool
	mustEnd  time.Time
	latest   time.Time
	maxDur   time.Duration
	repEnd   time.Time // last block end reported by Peers since the last removal
	repInf   bool      // Peers reported an infinite block since the last removal
	repValid bool
}

func c25Addr(i int) boson.Address {
	b := make([]byte, 32)
	for j := range b {
		b[j] = byte(i*37 + j*11 + 1)
	}
	b[0] = byte(0x10 + i)
	return boson.NewAddress(b)
}

func c25Gen(rng *rand.Rand, tier string) *gosim.Plan {
	p := &gosim.Plan{Params: map[string]int64{}}
	nPeers := 1 + rng.Intn(5)
	p.Params["peers"] = int64(nPeers)
	p.Params["store"] = int64(rng.Intn(2))
	// The client is sequential and the blocklist starts no goroutines; voluntary
	// yields would only reshuffle goleveldb's housekeeping goroutines (and make
	// their same-instant ticker wake-ups schedule-dependent), so none are taken.
	_ = gosim.Pick(rng, 0, 5, 20)
	p.Params["yield_pct"] = 0
	nOps := 10 + rng.Intn(50)
	if tier == "thorough" {
		nOps = 10 + rng.Intn(200)
	}
	// swarm: per-run weights
	wForever := rng.Intn(3)       // 0: never, 1: sometimes, 2: often
	wRemove := 1 + rng.Intn(3)    // weight of remove
	wAudit := rng.Intn(3)         // audits delete expired entries (lazy expiry on query)
	wExists := 1 + rng.Intn(3)    // single queries
	scale := gosim.Pick(rng, 0, 1, 2) // 0: seconds, 1: minutes/hours, 2: days/weeks
	if scale == 2 && rng.Intn(4) != 0 {
		// goleveldb's 30 s housekeeping ticker makes simulated months expensive
		p.Params["store"] = 0
	}
	var durs []int64
	pickDur := func() int64 {
		switch x := rng.Intn(100); {
		case x < 5*wForever*wForever:
			return 0
		case x < 5*wForever*wForever+2:
			return -int64(1 + rng.Intn(10000))
		}
		if len(durs) > 0 && rng.Intn(4) == 0 {
			return durs[rng.Intn(len(durs))]
		}
		var d int64
		switch scale {
		case 0:
			d = int64(1 + rng.Intn(20000)) // ms .. 20 s
		case 1:
			d = int64(1+rng.Intn(180)) * 60000 // minutes .. 3 h
			if rng.Intn(3) == 0 {
				d += int64(rng.Intn(60000))
			}
		default:
			d = int64(1+rng.Intn(21*24)) * 3600000 // hours .. 3 weeks
			if rng.Intn(3) == 0 {
				d += int64(rng.Intn(3600000))
			}
		}
		if rng.Intn(8) == 0 {
			d = int64(1+rng.Intn(10)) * 86400000 // whole days
		}
		durs = append(durs, d)
		return d
	}
	pickSleep := func() int64 {
		switch x := rng.Intn(10); {
		case x < 3 && len(durs) > 0:
			// land on / next to the end of a requested period
			d := durs[rng.Intn(len(durs))]
			d += gosim.Pick(rng, -1, 0, 0, 1)
			if rng.Intn(3) == 0 {
				d /= 2
			}
			if d < 0 {
				d = 0
			}
			return d
		case x < 5:
			return int64(rng.Intn(1000))
		case x < 7:
			return int64(rng.Intn(60000))
		case x < 9:
			return int64(rng.Intn(86400000))
		default:
			return int64(rng.Intn(4*7*86400)) * 1000 // up to 4 weeks
		}
	}
	for i := 0; i < nOps; i++ {
		peer := int64(rng.Intn(nPeers))
		tot := 6 + 4 + wRemove + wExists*2 + 2 + wAudit
		x := rng.Intn(tot)
		switch {
		case x < 6:
			p.Ops = append(p.Ops, gosim.Op{K: "add", A: []int64{peer, pickDur()}})
		case x < 10:
			p.Ops = append(p.Ops, gosim.Op{K: "sleep", A: []int64{pickSleep()}})
		case x < 10+wRemove:
			p.Ops = append(p.Ops, gosim.Op{K: "remove", A: []int64{peer}})
		case x < 10+wRemove+wExists*2:
			p.Ops = append(p.Ops, gosim.Op{K: "exists", A: []int64{peer}})
		case x < 10+wRemove+wExists*2+2:
			p.Ops = append(p.Ops, gosim.Op{K: "peers"})
		default:
			p.Ops = append(p.Ops, gosim.Op{K: "audit"})
		}
	}
	return p
}

func c25Exec(r *gosim.Run) {
	nPeers := int(r.Plan.P("peers", 3))
	if nPeers < 1 {
		nPeers = 1
	}
	if nPeers > 16 {
		nPeers = 16
	}
	logger := logging.New(io.Discard, logrus.PanicLevel)
	var store storage.StateStorer
	if r.Plan.P("store", 0) == 1 {
		s, err := ldbstate.NewInMemoryStateStore(logger)
		if err != nil {
			r.Violate("harness-store", "in-memory leveldb state store: %v", err)
		}
		store = s
	} else {
		store = mockstate.NewStateStore()
	}
	// unrelated state-store content that the listing must ignore
	_ = store.Put("blocklis", "x")
	_ = store.Put("blocklisu-00", "y")
	_ = store.Put("addressbook-entry", "z")

	bl := verifx.NewBlocklist(store)
	addrs := make([]boson.Address, nPeers)
	byHex := map[string]int{}
	model := make([]*c25Peer, nPeers)
	for i := range addrs {
		addrs[i] = c25Addr(i)
		byHex[addrs[i].String()] = i
		model[i] = &c25Peer{}
	}
	start := time.Now()
	rel := func(t time.Time) time.Duration { return t.Sub(start) }

	// must / may at instant now
	must := func(m *c25Peer, now time.Time) bool {
		return m.n > 0 && (m.forever || now.Before(m.mustEnd))
	}
	may := func(m *c25Peer, now time.Time) bool {
		if m.n == 0 {
			return false
		}
		return m.forever || !now.After(m.latest.Add(m.maxDur))
	}
	describe := func(i int, now time.Time) string {
		m := model[i]
		if m.n == 0 {
			return fmt.Sprintf("peer %d: no request since its last removal", i)
		}
		return fmt.Sprintf("peer %d: %d requests since last removal, forever=%v, requested periods end at t=%v, latest request t=%v, longest duration %v, now t=%v",
			i, m.n, m.forever, rel(m.mustEnd), rel(m.latest), m.maxDur, rel(now))
	}
	checkOne := func(i int, got bool, now time.Time, via string) {
		m := model[i]
		if must(m, now) {
			r.Count("probe_must_blocked")
			if !got {
				r.Violate("unblocked-early", "%s reports peer %d not blocked inside a requested period (%s)", via, i, describe(i, now))
			}
			return
		}
		if !may(m, now) {
			if m.n == 0 {
				r.Count("probe_must_free_removed")
			} else {
				r.Count("probe_must_free_expired")
			}
			if got {
				if m.n == 0 {
					r.Violate("blocked-after-remove", "%s reports peer %d blocked (%s)", via, i, describe(i, now))
				}
				r.Violate("blocked-too-long", "%s reports peer %d blocked beyond latest request + longest duration (%s)", via, i, describe(i, now))
			}
			return
		}
		r.Count("probe_silent_window")
	}
	exists := func(i int) bool {
		ok, err := bl.Exists(addrs[i])
		if err != nil {
			r.Violate("exists-error", "Exists(peer %d) returned %v", i, err)
		}
		return ok
	}
	// list returns the membership reported by Peers and checks the reported ends.
	list := func(now time.Time) map[int]bool {
		ps, err := bl.Peers()
		if err != nil {
			r.Violate("peers-error", "Peers returned %v", err)
		}
		set := map[int]bool{}
		for _, bp := range ps {
			i, ok := byHex[bp.Address.String()]
			if !ok {
				r.Violate("peers-unknown", "Peers lists an address that was never added: %s", bp.Address.String())
			}
			if set[i] {
				r.Violate("peers-duplicate", "Peers lists peer %d twice", i)
			}
			set[i] = true
			// reported block end (documented fields of p2p.BlockPeers; the
			// timestamp has RFC 3339 second resolution)
			ts, perr := time.Parse(time.RFC3339, bp.Timestamp)
			if perr != nil {
				r.Violate("peers-timestamp", "Peers reports an unparsable timestamp %q for peer %d", bp.Timestamp, i)
			}
			m := model[i]
			inf := bp.Duration == 0
			end := ts.Add(time.Duration(bp.Duration * float64(time.Second)))
			if m.repValid {
				if m.repInf && !inf {
					r.Violate("end-decreased", "peer %d was listed as blocked forever and is now listed with duration %vs (%s)", i, bp.Duration, describe(i, now))
				}
				if !m.repInf && !inf && end.Before(m.repEnd.Add(-time.Second-time.Millisecond)) {
					r.Violate("end-decreased", "peer %d: listed block end moved back from t=%v to t=%v (%s)", i, rel(m.repEnd), rel(end), describe(i, now))
				}
				r.Count("probe_checked_end_monotone")
			}
			m.repValid, m.repInf = true, m.repInf || inf
			if !inf && (end.After(m.repEnd) || m.repEnd.IsZero()) {
				m.repEnd = end
			}
		}
		return set
	}
	setStr := func(s map[int]bool) string {
		var k []int
		for i := range s {
			k = append(k, i)
		}
		sort.Ints(k)
		return fmt.Sprint(k)
	}

	for _, o := range r.Plan.Ops {
		now := time.Now()
		switch o.K {
		case "sleep":
			d := o.Arg(0)
			if d < 0 {
				d = 0
			}
			r.Logf("sleep %dms", d)
			time.Sleep(time.Duration(d) * time.Millisecond)
		case "add":
			i := int(o.Arg(0)) % nPeers
			d := time.Duration(o.Arg(1)) * time.Millisecond
			r.Logf("t=%v add peer=%d dur=%v", rel(now), i, d)
			if err := bl.Add(addrs[i], d); err != nil {
				r.Violate("add-error", "Add(peer %d, %v) returned %v", i, d, err)
			}
			m := model[i]
			if m.n == 0 {
				m.maxDur = d
				m.mustEnd = now.Add(d)
			}
			m.n++
			m.latest = now
			if d == 0 {
				m.forever = true
				r.Count("probe_add_forever")
			}
			if d > m.maxDur {
				m.maxDur = d
			}
			if e := now.Add(d); e.After(m.mustEnd) {
				m.mustEnd = e
			} else if m.n > 1 && d > 0 && !m.forever && now.Add(d).Before(m.mustEnd) {
				r.Count("probe_add_shorter_than_existing")
			}
			// the answer right after the request
			got := exists(i)
			if d >= 0 && !got {
				r.Violate("unblocked-early", "peer %d not blocked immediately after Add with duration %v (%s)", i, d, describe(i, now))
			}
			checkOne(i, got, now, "Exists after Add")
		case "remove":
			i := int(o.Arg(0)) % nPeers
			r.Logf("t=%v remove peer=%d", rel(now), i)
			if err := bl.Remove(addrs[i]); err != nil {
				r.Violate("remove-error", "Remove(peer %d) returned %v", i, err)
			}
			if model[i].n > 0 {
				r.Count("probe_remove_blocked")
			}
			model[i] = &c25Peer{}
			if exists(i) {
				r.Violate("blocked-after-remove", "peer %d still blocked immediately after Remove", i)
			}
		case "exists":
			i := int(o.Arg(0)) % nPeers
			got := exists(i)
			r.Logf("t=%v exists peer=%d -> %v", rel(now), i, got)
			checkOne(i, got, now, "Exists")
		case "peers":
			set := list(now)
			r.Logf("t=%v peers -> %s", rel(now), setStr(set))
			for i := range model {
				checkOne(i, set[i], now, "Peers")
			}
		case "audit":
			before := list(now)
			ex := map[int]bool{}
			for i := range model {
				if exists(i) {
					ex[i] = true
				}
			}
			after := list(now)
			r.Logf("t=%v audit peers=%s exists=%s peers=%s", rel(now), setStr(before), setStr(ex), setStr(after))
			if time.Since(now) != 0 {
				r.Violate("harness-time", "fake time advanced inside an audit")
			}
			for i := range model {
				if before[i] != ex[i] {
					r.Violate("list-disagrees", "Peers lists peer %d = %v but Exists at the same instant says %v (%s)", i, before[i], ex[i], describe(i, now))
				}
				if after[i] != ex[i] {
					r.Violate("list-disagrees", "Exists says peer %d = %v but Peers right after, at the same instant, lists %v (%s)", i, ex[i], after[i], describe(i, now))
				}
				checkOne(i, ex[i], now, "Exists")
			}
			r.Count("probe_audit")
		default:
			continue
		}
		r.OpDone()
	}
	_ = store.Close()
}

func init() {
	gosim.Register(&gosim.World{
		Prop: "C25", Gen: c25Gen, Exec: c25Exec,
		Real: []string{"pkg/p2p/libp2p/internal/blocklist (Add, Remove, Exists, Peers; via verif-tagged pkg/p2p/libp2p/verifx)",
			"pkg/statestore/mock", "pkg/statestore/leveldb (in memory) + pkg/shed/driver leveldb"},
		Stubs: []string{"clock: synctest fake time (blocklist reads time.Now)"},
	})
}
