package worlds

// C28 — Route discovery and relaying are loop-free and terminate (W-NET).
//
// Real: pkg/routetab Service (FindRoute, GetRoute, GetTargetNeighbor, Connect,
// FindUnderlay, onRouteReq/onRouteResp, onRelay/onRelayConnChain, PackRelayReq/
// PackRelayResp, GetNextHopRandomOrFind), Table, pending table; pkg/topology/
// kademlia (New + notifier calls, manage loop not started); pkg/addressbook;
// leveldb state stores.
// Stubs: simnet (streams, links, faults) and simnet/relay.go, a line-by-line
// mirror of the libp2p host's relay functions (NewRelayStream,
// NewConnChainRelayStream, CallHandler, CallHandlerWithConnChain, Connect);
// simnet.NodeCache replaces the process-global gcache of pkg/routetab by a
// node-scoped fake-time one (verif hook VerifSetCache); discovery switched off.
//
// Ops (A[0] = client goroutine):
//   link     [0, a, b]              a dials b (kademlia.Connection -> p2p.Connect -> Kad.Outbound)
//   find     [c, src, dst, toMs]    FindRoute(dst) at src (toMs>0: explicit timeout)
//   getroute [c, src, dst]          GetRoute(dst)
//   neighbor [c, src, dst, limit]   GetTargetNeighbor(dst, limit)
//   connect  [c, src, dst]          Connect(dst) (FindUnderlay over a mid-call relay stream, then dial)
//   relay    [c, src, dst, kind]    echo over NewRelayStream (0) / NewConnChainRelayStream (1)
//   sleep    [c, ms]
//   barrier
// Faults (A[0] = delay in ms after the previous fault; run by one fault goroutine
// concurrently with the phases after the link phase):
//   cut [d,a,b]  heal [d,a,b] (un-cut and re-dial)  unlink [d,a,b]  reset [d,node]  restart [d,node]
//
// Oracle (from the statement): see c28CheckPath (recorded / returned / wire
// paths), c28Tap (relay forwarding), the per-op watchdogs and c28Final
// (quiescence and message bound).

import (
	"context"
	"encoding/binary"
	"errors"
	"fmt"
	"io"
	"math/rand"
	"runtime"
	"sync"
	"time"

	"github.com/gauss-project/aurorafs/pkg/boson"
	"github.com/gauss-project/aurorafs/pkg/p2p"
	"github.com/gauss-project/aurorafs/pkg/routetab"
	"github.com/gauss-project/aurorafs/pkg/routetab/pb"
	"github.com/gogo/protobuf/proto"

	"verifharness/gosim"
	"verifharness/simnet"
)

const (
	c28EchoProto   = "c28echo"
	c28EchoVersion = "1.0.0"
	c28EchoStream  = "echo"
	c28OpWatchdog  = 120 * time.Second
)

type c28World struct {
	r      *gosim.Run
	c      *c28Cluster
	n      int
	alpha  int
	ttl    int
	mu     sync.Mutex
	frames int64 // route request/response frames on the wire
	roots  int64 // request frames whose path holds the originator only
	relays int64
	chain  map[int64]bool // relayConnChain streams whose first frame was seen
	lastOp time.Duration
	defClass, defMsg string
}

// ---- plan ----

func c28Gen(rng *rand.Rand, tier string) *gosim.Plan {
	p := &gosim.Plan{Params: map[string]int64{}}
	n := 4 + rng.Intn(4)
	if tier == "thorough" {
		n = 4 + rng.Intn(6)
	}
	p.Params["n"] = int64(n)
	p.Params["alpha"] = int64(1 + rng.Intn(3))
	p.Params["ttl"] = int64(2 + rng.Intn(9))
	if rng.Intn(4) == 0 {
		p.Params["ttl"] = int64(2 + rng.Intn(3)) // short hop limits matter most
	}
	p.Params["ordered_reset"] = int64(gosim.Pick(rng, 1, 1, 1, 0))
	// topology: a random spanning tree (chain-like or bushy) plus extra edges
	extra := []int{0, 0, 1, 2, 4, 8}[rng.Intn(6)]
	shape := rng.Intn(3)
	edge := map[[2]int]bool{}
	add := func(a, b int) {
		if a == b || edge[[2]int{a, b}] || edge[[2]int{b, a}] {
			return
		}
		edge[[2]int{a, b}] = true
		if rng.Intn(2) == 0 {
			a, b = b, a
		}
		p.Ops = append(p.Ops, gosim.Op{K: "link", A: []int64{0, int64(a), int64(b)}})
	}
	perm := rng.Perm(n)
	for i := 1; i < n; i++ {
		var j int
		switch shape {
		case 0:
			j = i - 1 // line
		case 1:
			j = rng.Intn(i)
		default:
			j = i - 1 - rng.Intn(min(i, 2))
		}
		add(perm[i], perm[j])
	}
	if shape == 0 && rng.Intn(2) == 0 {
		add(perm[n-1], perm[0]) // ring
	}
	for i := 0; i < extra; i++ {
		add(rng.Intn(n), rng.Intn(n))
	}
	p.Ops = append(p.Ops, gosim.Op{K: "barrier"})
	phases := 2 + rng.Intn(3)
	clients := 1 + rng.Intn(3)
	hot := rng.Intn(n)
	pair := func() (int64, int64) {
		s := rng.Intn(n)
		d := rng.Intn(n)
		if rng.Intn(3) == 0 {
			d = hot
		}
		if d == s && rng.Intn(8) != 0 { // mostly distinct; self-targets now and then
			d = (s + 1 + rng.Intn(n-1)) % n
		}
		return int64(s), int64(d)
	}
	for ph := 0; ph < phases; ph++ {
		k := 3 + rng.Intn(8)
		if tier == "thorough" {
			k += rng.Intn(8)
		}
		for i := 0; i < k; i++ {
			c := int64(rng.Intn(clients))
			s, d := pair()
			switch x := rng.Intn(100); {
			case x < 30:
				to := int64(0)
				if rng.Intn(4) == 0 {
					to = gosim.Pick(rng, 50, 300, 1000, 6000)
				}
				p.Ops = append(p.Ops, gosim.Op{K: "find", A: []int64{c, s, d, to}})
			case x < 40:
				p.Ops = append(p.Ops, gosim.Op{K: "getroute", A: []int64{c, s, d}})
			case x < 50:
				p.Ops = append(p.Ops, gosim.Op{K: "neighbor", A: []int64{c, s, d, int64(1 + rng.Intn(3))}})
			case x < 58:
				p.Ops = append(p.Ops, gosim.Op{K: "connect", A: []int64{c, s, d}})
			case x < 90:
				p.Ops = append(p.Ops, gosim.Op{K: "relay", A: []int64{c, s, d, int64(rng.Intn(2))}})
			default:
				p.Ops = append(p.Ops, gosim.Op{K: "sleep", A: []int64{c, gosim.Pick(rng, 5, 50, 500, 2500, 6000)}})
			}
		}
		if ph < phases-1 {
			p.Ops = append(p.Ops, gosim.Op{K: "barrier"})
		}
	}
	if rng.Intn(100) < 60 {
		nf := 1 + rng.Intn(5)
		for i := 0; i < nf; i++ {
			d := gosim.Pick(rng, 0, 10, 100, 700, 2000)
			a := rng.Intn(n)
			b := (a + 1 + rng.Intn(n-1)) % n
			switch x := rng.Intn(100); {
			case x < 25:
				p.Faults = append(p.Faults, gosim.Op{K: "cut", A: []int64{d, int64(a), int64(b)}})
			case x < 40:
				p.Faults = append(p.Faults, gosim.Op{K: "heal", A: []int64{d, int64(a), int64(b)}})
			case x < 55:
				p.Faults = append(p.Faults, gosim.Op{K: "unlink", A: []int64{d, int64(a), int64(b)}})
			case x < 80:
				p.Faults = append(p.Faults, gosim.Op{K: "reset", A: []int64{d, int64(a)}})
			default:
				p.Faults = append(p.Faults, gosim.Op{K: "restart", A: []int64{d, int64(a)}})
			}
		}
	}
	return p
}

// ---- oracle on paths ----

// c28CheckPath checks one path (items in the order of the message: originator
// first, every relaying node appended) against the statement. recorder: the node
// that records/returns the path (-1: a path on the wire, holder = the node it is
// sent to, which may legitimately be on it and then discards the message).
func (w *c28World) c28CheckPath(where string, items []boson.Address, recorder int, holder boson.Address, maxLen int) {
	c := w.c
	// Known defect family (finding C28-resp-forwarder-appended-twice): a node
	// that forwards one response to several pending requesters appends itself
	// once more for every further requester, so the same node sits in adjacent
	// positions. It has its own class, is reported at the end of the run (any
	// other violation takes precedence) and the remaining checks look at the
	// path with adjacent repetitions collapsed.
	for i := 1; i < len(items); i++ {
		if items[i].Equal(items[i-1]) {
			w.deferred("path-repeat-adjacent", fmt.Sprintf("%s path %s lists %s twice in a row", where, c.Names(items), c.Name(items[i])))
			col := []boson.Address{items[0]}
			for _, a := range items[1:] {
				if !a.Equal(col[len(col)-1]) {
					col = append(col, a)
				}
			}
			items = col
			break
		}
	}
	desc := func() string { return fmt.Sprintf("%s path %s", where, c.Names(items)) }
	if len(items) > maxLen {
		w.r.Violate("path-too-long", "%s has %d nodes, hop limit %d (allowed here: %d)", desc(), len(items), w.ttl, maxLen)
	}
	for i, a := range items {
		if c.Index(a) < 0 {
			w.r.Violate("path-nolink", "%s holds an address that is no node", desc())
		}
		for j := 0; j < i; j++ {
			if items[j].Equal(a) {
				w.r.Violate("path-repeat", "%s visits %s twice", desc(), c.Name(a))
			}
		}
		if recorder >= 0 && a.Equal(c.Nodes[recorder].Addr) {
			w.r.Violate("path-self", "%s contains the recording node n%d", desc(), recorder)
		}
		if i > 0 && !c.Net.EverLinked(items[i-1], a) {
			w.r.Violate("path-nolink", "%s: %s and %s were never neighbours", desc(), c.Name(items[i-1]), c.Name(a))
		}
	}
	if len(items) > 0 && !holder.IsZero() {
		last := items[len(items)-1]
		if !last.Equal(holder) && !c.Net.EverLinked(last, holder) {
			w.r.Violate("path-nolink", "%s: its last node %s was never a neighbour of %s", desc(), c.Name(last), c.Name(holder))
		}
	}
}

// deferred records the first violation of a known-defect class; c28Exec raises it
// at the end of the run unless another violation ended the run before.
func (w *c28World) deferred(class, msg string) {
	w.mu.Lock()
	if w.defClass == "" {
		w.defClass, w.defMsg = class, msg
		w.mu.Unlock()
		w.r.Logf("KNOWN-DEFECT %s: %s", class, msg)
		return
	}
	w.mu.Unlock()
}

func c28Items(b [][]byte) []boson.Address {
	out := make([]boson.Address, 0, len(b))
	for _, x := range b {
		out = append(out, boson.NewAddress(x))
	}
	return out
}

// c28ScanNode checks every path in the node's table: all stored paths and what
// Get returns for every other node.
func (w *c28World) c28ScanNode(n *c28Node, when string) {
	_, rt, _ := n.services()
	t := rt.VerifTable()
	for _, p := range t.VerifAllPaths() {
		w.c28CheckPath(fmt.Sprintf("%s: n%d stored", when, n.idx), p.Items, n.idx, n.Addr, w.ttl)
		w.r.Count("probe_table_path")
		if len(p.Items) >= 3 {
			w.r.Count("probe_table_path_3plus")
		}
	}
	for _, o := range w.c.Nodes {
		if o == n {
			continue
		}
		paths, err := t.Get(o.Addr)
		if err != nil {
			continue
		}
		for _, p := range paths {
			w.c28CheckPath(fmt.Sprintf("%s: n%d Get(n%d)", when, n.idx, o.idx), p.Items, n.idx, n.Addr, w.ttl)
		}
	}
}

func (w *c28World) c28ScanAll(when string) {
	for _, n := range w.c.Nodes {
		w.c28ScanNode(n, when)
	}
}

func (w *c28World) c28CheckReturned(what string, src int, paths []*routetab.Path) {
	for _, p := range paths {
		w.c28CheckPath(fmt.Sprintf("%s returned at n%d", what, src), p.Items, src, w.c.Nodes[src].Addr, w.ttl)
	}
}

// ---- wire tap ----

func c28Delimited(data []byte, each func(body []byte)) {
	for len(data) > 0 {
		l, k := binary.Uvarint(data)
		if k <= 0 || uint64(len(data)-k) < l {
			return
		}
		each(data[k : k+int(l)])
		data = data[k+int(l):]
	}
}

func (w *c28World) c28Tap(f *simnet.Frame) {
	if f.Protocol != routetab.ProtocolName || f.Dir != 0 {
		return
	}
	c := w.c
	switch f.Stream {
	case "onRouteReq":
		c28Delimited(f.Data, func(body []byte) {
			var m pb.RouteReq
			if proto.Unmarshal(body, &m) != nil {
				return
			}
			w.mu.Lock()
			w.frames++
			root := false
			for _, p := range m.Paths {
				if len(p.Items) == 1 {
					root = true
				}
			}
			if root {
				w.roots++
			}
			w.mu.Unlock()
			w.r.Count("probe_route_req")
			for _, p := range m.Paths {
				// a forwarder appends itself: one more than the hop limit can be on
				// the wire, the receiver drops it
				w.c28CheckPath(fmt.Sprintf("wire req %s->%s target %s", c.Name(f.From), c.Name(f.To), c.Name(boson.NewAddress(m.Dest))),
					c28Items(p.Items), -1, f.To, w.ttl+1)
				if len(p.Items) >= 2 {
					w.r.Count("probe_req_forwarded")
				}
			}
		})
	case "onRouteResp":
		c28Delimited(f.Data, func(body []byte) {
			var m pb.RouteResp
			if proto.Unmarshal(body, &m) != nil {
				return
			}
			w.mu.Lock()
			w.frames++
			w.mu.Unlock()
			w.r.Count("probe_route_resp")
			for _, p := range m.Paths {
				w.c28CheckPath(fmt.Sprintf("wire resp %s->%s target %s", c.Name(f.From), c.Name(f.To), c.Name(boson.NewAddress(m.Dest))),
					c28Items(p.Items), -1, f.To, w.ttl+1)
			}
		})
	case routetab.StreamOnRelay, routetab.StreamOnRelayConnChain:
		if f.Stream == routetab.StreamOnRelayConnChain {
			// only the first frame of a conn-chain stream is the relay request
			w.mu.Lock()
			seen := w.chain[f.StreamID]
			w.chain[f.StreamID] = true
			w.mu.Unlock()
			if seen {
				return
			}
		}
		first := true
		c28Delimited(f.Data, func(body []byte) {
			if !first && f.Stream == routetab.StreamOnRelayConnChain {
				return
			}
			first = false
			var m pb.RouteRelayReq
			if proto.Unmarshal(body, &m) != nil {
				return
			}
			w.mu.Lock()
			w.relays++
			w.mu.Unlock()
			dest := boson.NewAddress(m.Dest)
			path := c28Items(m.Paths)
			if len(path) > 0 {
				w.r.Count("probe_relay_forwarded")
			}
			if len(path) > 1 {
				w.r.Count("probe_relay_2hops")
			}
			if f.To.Equal(dest) {
				return
			}
			if f.To.MemberOf(path) {
				w.r.Violate("relay-loop", "%s stream to %s (source %s): %s forwards to %s which is already on the path %s",
					f.Stream, c.Name(dest), c.Name(boson.NewAddress(m.Src)), c.Name(f.From), c.Name(f.To), c.Names(path))
			}
			if f.To.Equal(boson.NewAddress(m.Src)) {
				// Known defect family (finding C28-relay-back-to-source): the request's
				// path lists the relays only, so the source is not skipped. Own class,
				// reported at the end of the run like path-repeat-adjacent.
				w.deferred("relay-to-source", fmt.Sprintf("%s stream to %s: %s forwards back to the source %s, path %s",
					f.Stream, c.Name(dest), c.Name(f.From), c.Name(f.To), c.Names(path)))
			}
		})
	}
}

// ---- echo protocol carried by relayed streams ----

func (w *c28World) c28EchoSpec(n *c28Node) p2p.ProtocolSpec {
	return p2p.ProtocolSpec{Name: c28EchoProto, Version: c28EchoVersion, StreamSpecs: []p2p.StreamSpec{{
		Name: c28EchoStream,
		Handler: func(ctx context.Context, peer p2p.Peer, stream p2p.Stream) (err error) {
			defer func() {
				if err != nil {
					_ = stream.Reset()
				} else {
					go stream.FullClose()
				}
			}()
			buf := make([]byte, 9)
			if _, err = io.ReadFull(stream, buf); err != nil {
				return err
			}
			buf[8] = byte(n.idx)
			_, err = stream.Write(buf)
			return err
		}}}}
}

// c28Echo sends a nonce over the stream and waits for the reply; returns the responder's index.
func c28Echo(ctx context.Context, st p2p.Stream, nonce uint64) (int, error) {
	buf := make([]byte, 9)
	binary.BigEndian.PutUint64(buf, nonce)
	buf[8] = 0xff
	type res struct {
		who int
		err error
	}
	ch := make(chan res, 1)
	go func() {
		if _, err := st.Write(buf); err != nil {
			ch <- res{-1, fmt.Errorf("write: %w", err)}
			return
		}
		in := make([]byte, 9)
		if _, err := io.ReadFull(st, in); err != nil {
			ch <- res{-1, fmt.Errorf("read: %w", err)}
			return
		}
		if binary.BigEndian.Uint64(in) != nonce {
			ch <- res{-1, errors.New("nonce mismatch")}
			return
		}
		ch <- res{int(in[8]), nil}
	}()
	select {
	case x := <-ch:
		return x.who, x.err
	case <-ctx.Done():
		return -1, ctx.Err()
	}
}

// ---- execution ----

func c28ErrStr(err error) string {
	if err == nil {
		return "ok"
	}
	s := err.Error()
	if len(s) > 90 {
		s = s[:90]
	}
	return s
}

func (w *c28World) node(i int64) *c28Node {
	if i < 0 || int(i) >= len(w.c.Nodes) {
		return nil
	}
	return w.c.Nodes[i]
}

func (w *c28World) touch() {
	w.mu.Lock()
	w.lastOp = w.r.Now()
	w.mu.Unlock()
}

// guarded runs f under a simulated-time watchdog: every operation of the route
// service has to terminate.
func (w *c28World) guarded(o gosim.Op, f func()) {
	done := make(chan struct{})
	node := runtime.GosimNode()
	go func() {
		runtime.GosimSetNode(node)
		defer close(done)
		f()
	}()
	select {
	case <-done:
	case <-time.After(c28OpWatchdog):
		w.r.Violate("no-termination", "%v did not return within %v", o, c28OpWatchdog)
	}
}

func (w *c28World) exec(phase int, o gosim.Op) {
	r := w.r
	w.touch()
	defer w.touch()
	if o.K == "sleep" {
		time.Sleep(time.Duration(o.Arg(1)) * time.Millisecond)
		return
	}
	a, b := w.node(o.Arg(1)), w.node(o.Arg(2))
	if a == nil || b == nil {
		return
	}
	runtime.GosimSetNode(uint64(a.idx + 1))
	defer runtime.GosimSetNode(0)
	_, rt, nd := a.services()
	ctx, cancel := context.WithTimeout(context.Background(), 30*time.Second)
	defer cancel()
	switch o.K {
	case "link":
		if a == b {
			return
		}
		err := a.Dial(ctx, b)
		r.Logf("link n%d->n%d: %s", a.idx, b.idx, c28ErrStr(err))
	case "find":
		timeout := routetab.VerifFindTimeout()
		var tos []time.Duration
		if o.Arg(3) > 0 {
			timeout = time.Duration(o.Arg(3)) * time.Millisecond
			tos = []time.Duration{timeout}
		}
		w.guarded(o, func() {
			t0 := r.Now()
			paths, err := rt.FindRoute(ctx, b.Addr, tos...)
			el := r.Now() - t0
			r.Logf("find n%d->n%d timeout=%v: %d paths, %s, took %v", a.idx, b.idx, timeout, len(paths), c28ErrStr(err), el)
			if el > timeout+2*time.Second {
				r.Violate("find-overrun", "FindRoute(n%d) at n%d with timeout %v returned after %v", b.idx, a.idx, timeout, el)
			}
			if err == nil {
				r.Count("probe_find_ok")
				w.c28CheckReturned("FindRoute", a.idx, paths)
				for _, p := range paths {
					if len(p.Items) >= 2 {
						r.Count("probe_find_multihop")
					}
				}
			} else {
				r.Count("find_err")
			}
		})
	case "getroute":
		paths, err := rt.GetRoute(ctx, b.Addr)
		r.Logf("getroute n%d->n%d: %d paths, %s", a.idx, b.idx, len(paths), c28ErrStr(err))
		if err == nil {
			r.Count("probe_getroute_ok")
			w.c28CheckReturned("GetRoute", a.idx, paths)
		}
	case "neighbor":
		w.guarded(o, func() {
			list, err := rt.GetTargetNeighbor(ctx, b.Addr, int(o.Arg(3)))
			r.Logf("neighbor n%d->n%d limit %d: %s, %s", a.idx, b.idx, o.Arg(3), w.c.Names(list), c28ErrStr(err))
			if err == nil {
				r.Count("probe_neighbor_ok")
			}
		})
	case "connect":
		w.guarded(o, func() {
			was := nd.IsPeer(b.Addr)
			err := rt.Connect(ctx, b.Addr)
			r.Logf("connect n%d->n%d (was peer %v): %s", a.idx, b.idx, was, c28ErrStr(err))
			if err == nil && !was && a != b {
				r.Count("probe_connect_new_link")
			}
		})
	case "relay":
		if a == b {
			return
		}
		if nd.IsPeer(b.Addr) {
			// relayed streams are for non-neighbours (every caller in aurorafs asks
			// IsNeighbor / isConnected first and opens a direct stream then)
			r.Logf("relay n%d->n%d skipped: direct neighbour", a.idx, b.idx)
			return
		}
		w.guarded(o, func() {
			var st p2p.Stream
			var err error
			kind := "relay"
			if o.Arg(3) == 0 {
				st, err = nd.NewRelayStream(ctx, b.Addr, nil, c28EchoProto, c28EchoVersion, c28EchoStream, false)
			} else {
				kind = "connchain"
				st, err = nd.NewConnChainRelayStream(ctx, b.Addr, nil, c28EchoProto, c28EchoVersion, c28EchoStream)
			}
			if err != nil {
				r.Logf("%s n%d->n%d: open: %s", kind, a.idx, b.idx, c28ErrStr(err))
				return
			}
			ectx, ecancel := context.WithTimeout(ctx, 5*time.Second)
			who, err := c28Echo(ectx, st, uint64(r.Now())+uint64(a.idx))
			ecancel()
			if err != nil {
				_ = st.Reset()
			} else {
				_ = st.Close()
			}
			r.Logf("%s n%d->n%d: echo from %d, %s", kind, a.idx, b.idx, who, c28ErrStr(err))
			if err == nil {
				r.Count("probe_echo_ok")
				if who != b.idx {
					r.Violate("echo-wrong-target", "%s stream from n%d to n%d was answered by n%d", kind, a.idx, b.idx, who)
				}
			}
		})
	}
}

func (w *c28World) faults(done chan struct{}) {
	defer close(done)
	r := w.r
	ctx := context.Background()
	for _, f := range r.Plan.Faults {
		time.Sleep(time.Duration(f.Arg(0)) * time.Millisecond)
		w.touch()
		a, b := w.node(f.Arg(1)), w.node(f.Arg(2))
		if a == nil {
			continue
		}
		switch f.K {
		case "cut", "heal", "unlink":
			if b == nil || a == b {
				continue
			}
			_, _, na := a.services()
			_, _, nb := b.services()
			switch f.K {
			case "cut":
				was := na.IsPeer(b.Addr)
				w.c.Net.Cut(na, nb) // counts fault_partition
				r.Logf("fault cut n%d-n%d (was linked %v)", a.idx, b.idx, was)
			case "heal":
				if w.c.Net.IsCut(a.Addr, b.Addr) {
					w.c.Net.Heal(na, nb)
					dctx, cancel := context.WithTimeout(ctx, 20*time.Second)
					err := a.Dial(dctx, b)
					cancel()
					r.Count("fault_heal")
					r.Logf("fault heal n%d-n%d: redial %s", a.idx, b.idx, c28ErrStr(err))
				}
			case "unlink":
				if na.IsPeer(b.Addr) {
					c28AsNode(a.idx, func() { _ = na.Disconnect(b.Addr, "fault: unlink") })
					r.Count("fault_unlink")
					r.Logf("fault unlink n%d-n%d", a.idx, b.idx)
				}
			}
		case "reset":
			_, _, na := a.services()
			k := w.c.Net.ResetStreamsOf(na)
			if k > 0 {
				r.Count("fault_reset")
			}
			r.Logf("fault reset n%d: %d streams", a.idx, k)
		case "restart":
			prev := a.Neighbours()
			if err := a.Restart(); err != nil {
				r.Violate("setup", "restart n%d: %v", a.idx, err)
			}
			r.Count("fault_restart")
			r.Logf("fault restart n%d (neighbours before %v)", a.idx, prev)
			for _, p := range prev {
				dctx, cancel := context.WithTimeout(ctx, 20*time.Second)
				err := a.Dial(dctx, w.c.Nodes[p])
				cancel()
				r.Logf("  redial n%d->n%d: %s", a.idx, p, c28ErrStr(err))
			}
		}
		w.touch()
	}
}

// c28Bound: generous bound on route request/response frames caused by one root
// request frame (a request leaving its originator towards one neighbour).
// A request frame carries a path of L distinct nodes that never holds its
// receiver-to-be (forwarders skip path members), so L <= N-1, and a frame whose
// path has more than MaxTTL nodes is dropped by its receiver, so L <= MaxTTL+1;
// every receiver forwards to at most alpha peers: at most alpha^(L-1) frames
// with L nodes. Every received request causes at most one direct response and at
// most alpha pending entries, each pending entry at most one forwarded response.
func c28Bound(n, alpha, ttl int) int64 {
	lmax := ttl + 1
	if n-1 < lmax {
		lmax = n - 1
	}
	var req, pow int64 = 0, 1
	for l := 1; l <= lmax; l++ {
		req += pow
		pow *= int64(alpha)
	}
	return req * int64(alpha+2)
}

func (w *c28World) counts() (frames, roots, relays int64) {
	w.mu.Lock()
	defer w.mu.Unlock()
	return w.frames, w.roots, w.relays
}

func c28Exec(r *gosim.Run) {
	p := r.Plan
	n := int(p.P("n", 5))
	alpha := int(p.P("alpha", 2))
	ttl := int(p.P("ttl", 10))
	w := &c28World{r: r, n: n, alpha: alpha, ttl: ttl, chain: map[int64]bool{}}
	w.c = c28NewCluster(r, int32(alpha), int32(ttl))
	w.c.Net.OrderedReset = p.P("ordered_reset", 1) == 1
	w.c.Net.Tap = w.c28Tap
	for i := 0; i < n; i++ {
		if _, err := w.c.AddNode(func(nd *c28Node) error {
			return nd.Net.AddProtocol(w.c28EchoSpec(nd))
		}); err != nil {
			r.Violate("setup", "node %d: %v", i, err)
		}
	}
	var faultsDone chan struct{}
	r.RunPhases(p.Ops, w.exec, func(phase int) {
		w.c28ScanAll(fmt.Sprintf("after phase %d", phase))
		if phase == 0 {
			for _, nd := range w.c.Nodes {
				r.Logf("topology n%d: %v", nd.idx, nd.Neighbours())
			}
			faultsDone = make(chan struct{})
			go w.faults(faultsDone)
		}
	})
	if faultsDone != nil {
		<-faultsDone
	}
	gosim.Idle()
	// termination: 15 simulated seconds after the last request / fault nothing of
	// the route protocol is on the wire any more
	time.Sleep(15 * time.Second)
	gosim.Idle()
	f1, roots, relays := w.counts()
	time.Sleep(10 * time.Second)
	gosim.Idle()
	f2, roots2, _ := w.counts()
	r.Logf("route frames %d (roots %d), relay request frames %d; 10 s later %d", f1, roots, relays, f2)
	if f2 != f1 {
		r.Violate("route-traffic-after-quiescence", "%d route frames were sent more than 15 s after the last request/fault (total %d, roots %d)", f2-f1, f2, roots2)
	}
	if bound := roots2 * c28Bound(n, alpha, ttl); f2 > bound {
		r.Violate("route-message-bound", "%d route frames for %d root requests: more than %d per request (N=%d alpha=%d MaxTTL=%d)",
			f2, roots2, c28Bound(n, alpha, ttl), n, alpha, ttl)
	}
	w.c28ScanAll("end")
	if w.c.Cache.Unlabelled > 0 {
		r.Violate("harness-unlabelled", "%d cache accesses from goroutines without a node label", w.c.Cache.Unlabelled)
	}
	if w.defClass != "" {
		r.Violate(w.defClass, "%s", w.defMsg)
	}
}

func init() {
	gosim.Register(&gosim.World{Prop: "C28", Gen: c28Gen, Exec: c28Exec,
		Real: []string{
			"pkg/routetab (Service: FindRoute, GetRoute, GetTargetNeighbor, Connect, FindUnderlay, onRouteReq/onRouteResp, onRelay/onRelayConnChain, PackRelayReq/PackRelayResp, GetNextHopRandomOrFind; Table; pending table)",
			"pkg/topology/kademlia (New, Pick/Connected/Outbound/Disconnected, Connection; manage loop not started)",
			"pkg/addressbook, pkg/aurora signed addresses, pkg/statestore/leveldb (in memory), pkg/p2p/protobuf",
		},
		Stubs: []string{
			"simnet (streams, links, latency, resets, partitions, restarts)",
			"simnet/relay.go: line-by-line mirror of pkg/p2p/libp2p/libp2p.go NewRelayStream, NewConnChainRelayStream, CallHandler, CallHandlerWithConnChain, Connect/handleIncoming and stream_virtual.go (the libp2p package does not compile in the sandbox)",
			"simnet.NodeCache: node-scoped fake-time replacement of pkg/routetab's process-global gcache (hook VerifSetCache)",
			"discovery driver (switched off), pinger (none), trivial echo protocol on the relayed streams",
		}})
}
