//go:build g_heavy

package worlds

import (
	"bytes"
	"encoding/hex"
	"math/rand"
	"sort"
	"sync"
	"time"

	"golang.org/x/crypto/sha3"

	"github.com/gauss-project/aurorafs/pkg/bmt"
	"github.com/gauss-project/aurorafs/pkg/bmtpool"
	"github.com/gauss-project/aurorafs/pkg/boson"

	"verifharness/gosim"
)

// C03 — BMT chunk hash matches its recursive definition (pkg/bmt, pkg/bmtpool).
//
// The section workers of pkg/bmt are ordinary managed goroutines here: every
// `go h.processSection(...)` parks at its start hook and the seeded scheduler
// decides in which order sections run, which sibling reaches a node first and
// how the workers of concurrently used hashers interleave.
//
// Params: segs (segment count given to bmt.NewConf), poolcap, clients,
//   viapool=1: the process-wide bmtpool instance is used instead of an own pool
//   (keep = number of its 32 trees left in circulation, the others are held
//   back by the main goroutine so that trees are reused quickly).
// Ops (first argument = client goroutine):
//   hash [c, mode, len, dseed, yieldbits, cut...]
//        mode 0: Get, SetHeader, Write pieces, Hash, Put
//        mode 1: keep the Hasher afterwards; the client's next hash reuses it
//                through Reset
//        data = dseed-derived bytes (dseed%5==0: all zero, dseed%5==1: zero tail)
//        span = 8 dseed-derived bytes; pieces = data cut at the given offsets;
//        yieldbits bit i: offer a switch after the i-th Write (bit 30: after
//        SetHeader, bit 31: before Hash)
//   put  [c]           release the kept Hasher
//   over [c, extra, dseed, cut...]
//        writes capacity+extra bytes to a hasher of a private pool: the
//        statement covers lengths <= capacity only, so any outcome but a panic
//        is accepted
//   barrier

func c03Keccak(parts ...[]byte) []byte {
	h := sha3.NewLegacyKeccak256()
	for _, p := range parts {
		h.Write(p)
	}
	return h.Sum(nil)
}

// c03Ref is the reference: keccak256(span || root), root = binary Merkle root
// over the 32-byte segments of the data zero-padded to 32<<k bytes. zero[j] is
// the memoised root of an all-zero subtree of 32<<j bytes (same definition).
type c03Ref struct{ zero [][]byte }

func c03NewRef(maxK int) *c03Ref {
	z := &c03Ref{zero: [][]byte{make([]byte, 32)}}
	for j := 1; j <= maxK; j++ {
		z.zero = append(z.zero, c03Keccak(z.zero[j-1], z.zero[j-1]))
	}
	return z
}

func (z *c03Ref) root(data []byte, k int) []byte {
	if len(data) == 0 {
		return z.zero[k]
	}
	if k == 0 {
		seg := make([]byte, 32)
		copy(seg, data)
		return seg
	}
	half := 32 << uint(k-1)
	var left, right []byte = data, nil
	if len(data) > half {
		left, right = data[:half], data[half:]
	}
	return c03Keccak(z.root(left, k-1), z.root(right, k-1))
}

func (z *c03Ref) hash(span, data []byte, k int) []byte {
	return c03Keccak(span, z.root(data, k))
}

// c03CapOf: capacity the generator assumes for shaping lengths (lengths are
// clamped to the real Capacity() at execution).
func c03CapOf(segs int) int {
	c := 2
	for c < segs {
		c *= 2
	}
	return c * 32
}

func c03PickLen(rng *rand.Rand, capacity, limit int) int {
	var l int
	switch rng.Intn(12) {
	case 0:
		l = int(gosim.Pick(rng, 0, 1, 31, 32, 33, 63, 64, 65, 95, 96, 97, 127, 128, 129))
	case 1:
		l = capacity - int(gosim.Pick(rng, 0, 0, 0, 1, 2, 31, 32, 33, 63, 64, 65))
	case 2:
		l = (1 << uint(rng.Intn(19))) + rng.Intn(3) - 1
	case 3:
		l = 64*rng.Intn(capacity/64+1) + rng.Intn(3) - 1
	case 4:
		l = 32*rng.Intn(capacity/32+1) + rng.Intn(3) - 1
	case 5:
		l = capacity/2 + rng.Intn(131) - 65
	case 6:
		l = capacity/4 + rng.Intn(131) - 65
	case 7, 8:
		l = rng.Intn(capacity + 1)
	case 9:
		l = rng.Intn(200)
	default:
		l = capacity - rng.Intn(capacity/4+1)
	}
	if limit > 0 && l > limit && rng.Intn(10) != 0 {
		l = rng.Intn(limit + 1)
	}
	if l < 0 {
		l = 0
	}
	if l > capacity {
		l = capacity
	}
	return l
}

func c03Cuts(rng *rand.Rand, l int) []int64 {
	var cuts []int64
	n := rng.Intn(7)
	if rng.Intn(4) == 0 {
		n = 0
	}
	if rng.Intn(25) == 0 {
		n = 8 + rng.Intn(30)
	}
	for i := 0; i < n; i++ {
		var c int
		switch rng.Intn(6) {
		case 0:
			c = 64*rng.Intn(l/64+1) + rng.Intn(3) - 1
		case 1:
			c = 32*rng.Intn(l/32+1) + rng.Intn(3) - 1
		case 2:
			c = int(gosim.Pick(rng, 0, int64(l), 1, int64(l-1)))
		case 3:
			if len(cuts) > 0 {
				c = int(cuts[rng.Intn(len(cuts))]) // empty write
			}
		default:
			c = rng.Intn(l + 1)
		}
		if c < 0 {
			c = 0
		}
		if c > l {
			c = l
		}
		cuts = append(cuts, int64(c))
	}
	return cuts
}

func c03Gen(rng *rand.Rand, tier string) *gosim.Plan {
	p := &gosim.Plan{Params: map[string]int64{}}
	segs := 1 + rng.Intn(128)
	switch x := rng.Intn(100); {
	case x < 12:
		segs = int(gosim.Pick(rng, 1, 2, 3, 4, 5, 7, 8, 9, 16, 17, 32, 64, 127, 128))
	case x < 15 || (tier == "thorough" && x < 20):
		segs = 8192
	}
	viapool := rng.Intn(100) < 12
	nCli := 1 + rng.Intn(4)
	poolcap := 1 + rng.Intn(4)
	capacity := c03CapOf(segs)
	nHash := 20 + rng.Intn(60)
	limit := 0
	if viapool {
		segs = 8192
		capacity = c03CapOf(segs)
		p.Params["viapool"] = 1
		p.Params["keep"] = int64(poolcap)
		nHash = 10 + rng.Intn(25)
		limit = int(gosim.Pick(rng, 300, 2048, 8192, 20000))
	} else if segs == 8192 {
		nHash = 4 + rng.Intn(8)
		limit = int(gosim.Pick(rng, 4096, 40000, 262144))
	}
	if tier == "thorough" {
		nHash *= 2
	}
	p.Params["segs"] = int64(segs)
	p.Params["poolcap"] = int64(poolcap)
	p.Params["clients"] = int64(nCli)
	nPhase := 1 + rng.Intn(4)
	holdPct := int(gosim.Pick(rng, 0, 10, 40, 90))
	yieldPct := int(gosim.Pick(rng, 0, 20, 60, 100))
	prev := capacity
	for ph := 0; ph < nPhase; ph++ {
		for i := 0; i < nHash/nPhase+1; i++ {
			c := int64(rng.Intn(nCli))
			if rng.Intn(100) < 3 && segs <= 128 {
				extra := int64(gosim.Pick(rng, 1, 2, 31, 32, 33, 64, 65, 200, int64(capacity)))
				a := []int64{c, extra, int64(rng.Uint32())}
				a = append(a, c03Cuts(rng, capacity+int(extra))...)
				p.Ops = append(p.Ops, gosim.Op{K: "over", A: a})
				continue
			}
			if rng.Intn(100) < 8 {
				p.Ops = append(p.Ops, gosim.Op{K: "put", A: []int64{c}})
				continue
			}
			l := c03PickLen(rng, capacity, limit)
			if rng.Intn(3) == 0 && prev > 1 {
				// shorter than the previous payload: stale bytes in the reused buffer
				l = prev - 1 - rng.Intn(min(prev-1, 70)+1)
				if rng.Intn(3) == 0 {
					l = rng.Intn(prev)
				}
			}
			prev = l
			mode := int64(0)
			if rng.Intn(100) < holdPct {
				mode = 1
			}
			yb := int64(0)
			for b := 0; b < 32; b++ {
				if rng.Intn(100) < yieldPct {
					yb |= 1 << uint(b)
				}
			}
			a := []int64{c, mode, int64(l), int64(rng.Uint32()), yb}
			a = append(a, c03Cuts(rng, l)...)
			p.Ops = append(p.Ops, gosim.Op{K: "hash", A: a})
		}
		p.Ops = append(p.Ops, gosim.Op{K: "barrier"})
	}
	return p
}

func c03Data(dseed int64, l int) (span, data []byte) {
	rg := rand.New(rand.NewSource(dseed))
	span = make([]byte, 8)
	rg.Read(span)
	data = make([]byte, l)
	switch dseed % 5 {
	case 0: // all zero: every subtree equals a padding subtree
	case 1:
		if l > 0 {
			rg.Read(data[:rg.Intn(l)])
		}
	default:
		rg.Read(data)
	}
	return
}

func c03Pieces(data []byte, cuts []int64) [][]byte {
	cs := make([]int, 0, len(cuts)+2)
	for _, c := range cuts {
		if c < 0 {
			c = 0
		}
		if c > int64(len(data)) {
			c = int64(len(data))
		}
		cs = append(cs, int(c))
	}
	sort.Ints(cs)
	cs = append(cs, len(data))
	var out [][]byte
	at := 0
	for _, c := range cs {
		out = append(out, data[at:c])
		at = c
	}
	return out
}

func c03Exec(r *gosim.Run) {
	segs := int(r.Plan.P("segs", 128))
	poolcap := int(r.Plan.P("poolcap", 1))
	viapool := r.Plan.P("viapool", 0) == 1
	if segs < 1 || segs > 8192 || poolcap < 1 || poolcap > 8 {
		return
	}
	var pool *bmt.Pool
	var drained []*bmt.Hasher
	get := func() *bmt.Hasher { return pool.Get() }
	put := func(h *bmt.Hasher) { pool.Put(h) }
	shared := poolcap
	if viapool {
		segs = boson.BmtBranches
		get, put = bmtpool.Get, bmtpool.Put
		keep := int(r.Plan.P("keep", 1))
		if keep < 1 {
			keep = 1
		}
		if keep > bmtpool.Capacity {
			keep = bmtpool.Capacity
		}
		for i := 0; i < bmtpool.Capacity-keep; i++ {
			drained = append(drained, bmtpool.Get())
		}
		shared = keep
	} else {
		pool = bmt.NewPool(bmt.NewConf(boson.NewHasher, segs, poolcap))
	}
	// capacity as reported by the hasher; must be 32 * 2^K and hold segs segments
	probe := get()
	capacity := probe.Capacity()
	put(probe)
	K := 0
	for 32<<uint(K) < capacity {
		K++
	}
	if 32<<uint(K) != capacity || capacity < 32*segs {
		r.Violate("capacity", "hasher for %d segments reports capacity %d, not a power-of-two number of segments holding them", segs, capacity)
	}
	ref := c03NewRef(K)
	r.Logf("segs=%d capacity=%d poolcap=%d viapool=%v", segs, capacity, shared, viapool)

	const maxCli = 8
	held := make([]*bmt.Hasher, maxCli)
	heldPrev := make([]int, maxCli)
	lastLen := -1 // previous payload length when exactly one tree circulates

	doHash := func(c int, o gosim.Op) {
		l := int(o.Arg(2))
		if l < 0 {
			l = 0
		}
		if l > capacity {
			l = capacity
		}
		span, data := c03Data(o.Arg(3), l)
		var cuts []int64
		if len(o.A) > 5 {
			cuts = o.A[5:]
		}
		pieces := c03Pieces(data, cuts)
		yb := o.Arg(4)
		want := ref.hash(span, data, K)

		h := held[c]
		reused := h != nil
		if reused {
			h.Reset()
			r.Count("probe_reset_reuse")
			if heldPrev[c] > l {
				r.Count("probe_reset_after_longer")
			}
		} else {
			h = get()
		}
		if shared == 1 && !reused {
			if lastLen > l {
				r.Count("probe_pool_tree_after_longer")
			}
			lastLen = l
		}
		wd := time.AfterFunc(60*time.Second, func() {
			r.Violate("hang", "Hash of %d bytes (%d segments, pieces %d) did not return", l, segs, len(pieces))
		})
		h.SetHeader(span)
		if yb&(1<<30) != 0 {
			gosim.Yield()
		}
		for i, pc := range pieces {
			n, err := h.Write(pc)
			if err != nil || n != len(pc) {
				r.Violate("short-write", "Write of %d bytes at offset within capacity returned (%d, %v)", len(pc), n, err)
			}
			if i < 30 && yb&(1<<uint(i)) != 0 {
				gosim.Yield()
			}
		}
		if yb&(1<<31) != 0 {
			gosim.Yield()
		}
		got, err := h.Hash(nil)
		wd.Stop()
		if err != nil {
			r.Violate("hash-error", "Hash returned error %v for %d bytes", err, l)
		}
		r.Logf("hash c=%d len=%d pieces=%d reuse=%v -> %s", c, l, len(pieces), reused, hex.EncodeToString(got[:min(6, len(got))]))
		if !bytes.Equal(got, want) {
			lens := make([]int, len(pieces))
			for i, pc := range pieces {
				lens[i] = len(pc)
			}
			r.Violate("wrong-hash", "%d segments (capacity %d), %d bytes written as %v, span %x, hasher reused via Reset=%v, pool trees %d: got %x, keccak256(span||root of zero-padded data) = %x",
				segs, capacity, l, lens, span, reused, shared, got, want)
		}
		r.Count("hashes")
		if l == capacity {
			r.Count("probe_full_capacity")
		}
		if l == 0 {
			r.Count("probe_empty")
		}
		if o.Arg(1) == 1 {
			held[c] = h
			heldPrev[c] = l
		} else {
			held[c] = nil
			put(h)
		}
	}

	doOver := func(c int, o gosim.Op) {
		if viapool || segs > 128 {
			return
		}
		priv := bmt.NewPool(bmt.NewConf(boson.NewHasher, segs, 1))
		h := priv.Get()
		l := capacity + int(o.Arg(1))
		if l <= capacity || l > 2*capacity+1000 {
			return
		}
		span, data := c03Data(o.Arg(2), l)
		var cuts []int64
		if len(o.A) > 3 {
			cuts = o.A[3:]
		}
		h.SetHeader(span)
		for _, pc := range c03Pieces(data, cuts) {
			h.Write(pc) // may truncate or fail: not covered by the statement
		}
		done := make(chan struct{})
		go func() {
			h.Hash(nil)
			close(done)
		}()
		select {
		case <-done:
			r.Count("probe_over_capacity_returned")
		case <-time.After(30 * time.Second):
			r.Count("over_capacity_hang")
		}
		r.Logf("over c=%d len=%d", c, l)
	}

	// phases: per client one goroutine; a kept Hasher is released when the
	// client has no more operations in the phase (others may wait for the tree)
	ops := r.Plan.Ops
	for i := 0; i <= len(ops); {
		j := i
		for j < len(ops) && ops[j].K != "barrier" {
			j++
		}
		var order []int
		by := map[int][]gosim.Op{}
		for _, o := range ops[i:j] {
			c := int(((o.Arg(0) % maxCli) + maxCli) % maxCli)
			if _, ok := by[c]; !ok {
				order = append(order, c)
			}
			by[c] = append(by[c], o)
		}
		if len(order) > 1 {
			r.Count("probe_concurrent_phase")
		}
		var wg sync.WaitGroup
		for _, c := range order {
			wg.Add(1)
			go func(c int, list []gosim.Op) {
				defer wg.Done()
				for _, o := range list {
					switch o.K {
					case "hash":
						doHash(c, o)
					case "put":
						if held[c] != nil {
							put(held[c])
							held[c] = nil
						}
					case "over":
						doOver(c, o)
					}
					r.OpDone()
				}
				if held[c] != nil {
					put(held[c])
					held[c] = nil
				}
			}(c, by[c])
		}
		wg.Wait()
		gosim.Idle()
		i = j + 1
	}
	for _, h := range drained {
		bmtpool.Put(h)
	}
}

func init() {
	gosim.Register(&gosim.World{
		Prop: "C03", Gen: c03Gen, Exec: c03Exec,
		Real:  []string{"pkg/bmt (Conf, Pool, Hasher, tree, section workers scheduled by the simulator)", "pkg/bmtpool (process-wide pool)", "golang.org/x/crypto/sha3 keccak"},
		Stubs: []string{},
	})
}
