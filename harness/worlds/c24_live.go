package worlds

// C24 — Topology tracks exactly the live connections.
//
// A real, started Kad (manage loop, connectors, pinger loop, blocker) runs over
// a scripted p2p service. Client goroutines issue inbound connections, drops,
// forced disconnections, address-book additions (which make the manage loop
// dial), script changes and sleeps; at the barrier after every phase the system
// is quiescent and the topology's view is compared with the registry of live
// connections kept by the p2p stub (the ground truth, maintained exactly like
// libp2p's peer registry).
//
// Ops (first argument = client unless noted):
//   pre      [_, peer]                 address-book entry that exists before Start
//   add      [c, peer, withBook]       AddPeers (hive), optionally with address-book entry
//   script   [c, peer, behaviour, ms]  how the next dials to the peer end
//   in       [c, peer, force, pick]    inbound connection (libp2p order: Pick, registry, Connected)
//   drop     [c, peer, spurious]       remote side closes; spurious: notify even if unknown
//   dforce   [c, peer]                 DisconnectForce
//   protect  [c, peers...]             RefreshProtectPeer
//   reach    [c, peer, status]         Reachable
//   sat      [c, bin, over]            harness saturation function: bin is (not) oversaturated
//   sleep    [c, ms]
//   pingfail [c, peer, on]   busy [c, peer, on]   bfail [c, peer, on]   net [c, down]
//   apiconn  [c, peer]                 debug API: p2p.Connect + Outbound
//   conn     [c, peer]                 Kad.Connection (route-table path)
//   self     [c, status]               UpdateReachability
//   barrier
//   inq      [peer, force]             (after the barrier, system quiet) inbound with Pick cross-check
//   q1 / qn                            (after the barrier) C23 queries

import (
	"context"
	"errors"
	"fmt"
	"math/rand"
	"sort"
	"sync"
	"time"

	"github.com/gauss-project/aurorafs/pkg/aurora"
	"github.com/gauss-project/aurorafs/pkg/boson"
	"github.com/gauss-project/aurorafs/pkg/p2p"
	"github.com/gauss-project/aurorafs/pkg/topology"
	"github.com/gauss-project/aurorafs/pkg/topology/kademlia"
	"github.com/gauss-project/aurorafs/pkg/topology/pslice"
	ma "github.com/multiformats/go-multiaddr"

	"verifharness/gosim"
)

type c24SatCall struct {
	seq  int
	bin  int
	over bool
}

type c24World struct {
	r    *gosim.Run
	al   *c24Alphabet
	node *c24Node

	mu       sync.Mutex
	protect  map[int]bool
	protGen  int // changes while and after RefreshProtectPeer runs
	reach    map[int]int64
	self     int64
	satMode  int64
	overFlag [32]bool
	satLimit int
	satCalls []c24SatCall
	satSeq   int
	bootMode bool
	c24On    bool
	c23On    bool
}

func c24NewWorld(r *gosim.Run, c24On, c23On bool) *c24World {
	w := &c24World{r: r, protect: map[int]bool{}, reach: map[int]int64{}, self: -1, c24On: c24On, c23On: c23On}
	p := r.Plan
	w.al = c24NewAlphabet(p.P("addr_seed", 1))
	w.satMode = p.P("satmode", 0)
	w.satLimit = int(p.P("satlimit", 3))
	w.bootMode = p.P("bootmode", 0) == 1
	o := kademlia.Options{BinMaxPeers: int(p.P("binmax", 5))}
	if w.bootMode {
		o.NodeMode = c24Model(c24ModeBoot)
	} else {
		o.NodeMode = c24Model(c24ModeFull)
	}
	nboot := int(p.P("nboot", 0))
	for i := 0; i < nboot; i++ {
		o.Bootnodes = append(o.Bootnodes, w.al.underlay(c24BootBase+i))
	}
	if w.satMode != 0 {
		c24SetSatFunc(&o, func(bin uint8, connected *pslice.PSlice) (bool, bool) {
			w.mu.Lock()
			defer w.mu.Unlock()
			over := false
			if w.satMode == 1 {
				over = w.overFlag[bin&31]
			} else {
				over = connected.BinSize(bin) >= w.satLimit
			}
			w.satSeq++
			w.satCalls = append(w.satCalls, c24SatCall{w.satSeq, int(bin), over})
			return over, over
		})
	}
	w.node = c24NewNode(r, w.al, o, p.P("disc_start", 0) == 1)
	for id := 0; id < c24MaxID; id++ {
		w.node.p2p.knowUnderlay(id)
	}
	for i := 0; i < 8; i++ {
		w.node.p2p.knowUnderlay(c24BootBase + i)
		w.node.p2p.script[c24BootBase+i] = c24Script{beh: c24DialBoot}
	}
	return w
}

func (w *c24World) book(id int) {
	_ = w.node.ab.Put(w.al.addr(id), aurora.Address{Underlay: w.al.underlay(id), Overlay: w.al.addr(id), Signature: []byte{1}})
}

func (w *c24World) peerMu(id int) *sync.Mutex { return w.node.p2p.peerMu(id) }

func (w *c24World) isProtected(id int) bool {
	w.mu.Lock()
	defer w.mu.Unlock()
	return w.protect[id]
}

// inbound mirrors libp2p's handling of an incoming full node.
func (w *c24World) inbound(id int, force, usePick, quiet bool) {
	r := w.r
	s := w.node.p2p
	k := w.node.kad
	pm := w.peerMu(id)
	pm.Lock()
	defer pm.Unlock()
	if s.has(id) {
		return // libp2p keeps one connection per peer
	}
	s.mu.Lock()
	blocked := s.isBlocked(id)
	s.mu.Unlock()
	if blocked {
		r.Logf("inbound p%d: on blocklist, rejected by p2p", id)
		return
	}
	p := s.peer(id, c24ModeFull)
	protected := w.isProtected(id)
	w.mu.Lock()
	protGen0 := w.protGen
	w.mu.Unlock()
	pick := true
	if usePick || quiet {
		pick = k.Pick(p)
		if !pick && usePick {
			r.Count("probe_pick_refused")
			r.Logf("inbound p%d (bin %d): Pick=false", id, w.al.bin(id))
			return
		}
	}
	w.mu.Lock()
	seq0 := w.satSeq
	w.mu.Unlock()
	s.mu.Lock()
	if s.reg[id] != nil { // raced with a dial
		s.mu.Unlock()
		return
	}
	s.reg[id] = &c24Conn{mode: c24ModeFull}
	s.gen[id]++
	delete(s.endSeq, id)
	s.mu.Unlock()
	w.book(id)
	err := k.Connected(context.Background(), p, force)
	r.Logf("inbound p%d (bin %d) force=%v protected=%v -> %v", id, w.al.bin(id), force, protected, err)
	if err != nil {
		if errors.Is(err, topology.ErrOversaturated) {
			r.Count("probe_inbound_oversaturated")
		}
		_ = s.Disconnect(p.Address, c24Refused)
		return
	}
	r.Count("probe_inbound_admitted")
	if !s.has(id) {
		// the connection ended while the topology was being notified of it (the
		// node itself disconnected the peer): a p2p layer that notifies in order
		// reports the end after the beginning
		r.Count("probe_inbound_ended_during_notification")
		k.Disconnected(p, "connection ended during notification")
	}
	if !w.c24On || force || protected || w.bootMode {
		return
	}
	w.mu.Lock()
	protChanged := w.protGen != protGen0
	w.mu.Unlock()
	if protChanged {
		r.Count("admission_check_skipped_protect_list_changed")
		return // the protect list changed during the call: either reading is possible
	}
	// admission: an unprotected, unforced inbound full node was admitted
	bin := w.al.bin(id)
	if w.satMode != 0 {
		w.mu.Lock()
		ok, asked := false, false
		for _, c := range w.satCalls {
			if c.seq > seq0 && c.bin == bin {
				asked = true
				if !c.over {
					ok = true
				}
			}
		}
		w.mu.Unlock()
		r.Count("probe_admission_checked")
		if !asked {
			r.Violate("admitted-unchecked", "p%d admitted into bin %d without consulting the saturation function", id, bin)
		}
		if !ok {
			r.Violate("admitted-oversaturated", "unprotected unforced inbound p%d admitted although the saturation function said bin %d is oversaturated", id, bin)
		}
	} else if quiet {
		r.Count("probe_admission_checked")
		if !pick {
			r.Violate("admitted-oversaturated", "unprotected unforced inbound p%d admitted into bin %d although Pick (same state, system quiet) reports the bin oversaturated", id, bin)
		}
	}
}

func (w *c24World) exec(o gosim.Op) {
	r := w.r
	k := w.node.kad
	s := w.node.p2p
	id := int(o.Arg(1))
	needPeer := func() bool { return w.al.validID(o.Arg(1)) }
	switch o.K {
	case "add":
		if !needPeer() {
			return
		}
		if o.Arg(2) == 1 {
			w.book(id)
		}
		r.Logf("add p%d book=%d", id, o.Arg(2))
		k.AddPeers(w.al.addr(id))
	case "script":
		if !needPeer() {
			return
		}
		s.mu.Lock()
		s.script[id] = c24Script{beh: int(o.Arg(2)) % c24NDial, latMs: o.Arg(3)}
		s.mu.Unlock()
		r.Logf("script p%d beh=%d lat=%dms", id, o.Arg(2)%c24NDial, o.Arg(3))
	case "in":
		if !needPeer() || id >= c24BootBase {
			return
		}
		w.inbound(id, o.Arg(2) == 1, o.Arg(3) == 1, false)
	case "drop":
		if !needPeer() {
			return
		}
		pm := w.peerMu(id)
		pm.Lock()
		defer pm.Unlock()
		s.mu.Lock()
		c := s.reg[id]
		delete(s.reg, id)
		if c != nil {
			s.noteEnded(id)
		}
		s.mu.Unlock()
		if c != nil {
			r.Logf("drop p%d", id)
			k.Disconnected(s.peer(id, c.mode), "remote closed")
		} else if o.Arg(2) == 1 {
			r.Logf("spurious disconnect notification p%d", id)
			k.Disconnected(s.peer(id, c24ModeLight), "libp2p event")
		}
	case "dforce":
		if !needPeer() {
			return
		}
		s.mu.Lock()
		g0 := s.gen[id]
		s.mu.Unlock()
		err := k.DisconnectForce(w.al.addr(id), c24UserDisconnect)
		s.mu.Lock()
		if s.gen[id] != g0 {
			s.forceRace[id] = true
			r.Count("probe_reconnected_during_force_disconnect")
		}
		s.mu.Unlock()
		r.Logf("disconnect-force p%d -> %v", id, err)
	case "protect":
		var list []boson.Address
		set := map[int]bool{}
		for _, x := range o.A[1:] {
			if w.al.validID(x) {
				list = append(list, w.al.addr(int(x)))
				set[int(x)] = true
			}
		}
		w.mu.Lock()
		w.protect = set
		w.protGen++
		w.mu.Unlock()
		k.RefreshProtectPeer(list)
		w.mu.Lock()
		w.protGen++
		w.mu.Unlock()
		r.Logf("protect %v", o.A[1:])
	case "reach":
		if !needPeer() {
			return
		}
		w.mu.Lock()
		w.reach[id] = o.Arg(2) % 3
		w.mu.Unlock()
		k.Reachable(w.al.addr(id), c24Status(o.Arg(2)))
		r.Logf("reachable p%d %d", id, o.Arg(2)%3)
	case "sat":
		w.mu.Lock()
		w.overFlag[o.Arg(1)&31] = o.Arg(2) == 1
		w.mu.Unlock()
		r.Logf("sat bin %d over=%d", o.Arg(1)&31, o.Arg(2))
	case "sleep":
		ms := o.Arg(1)
		if ms < 0 || ms > 3600_000 {
			ms = 1000
		}
		time.Sleep(time.Duration(ms) * time.Millisecond)
	case "pingfail":
		w.node.ping.mu.Lock()
		w.node.ping.fail[id] = o.Arg(2) == 1
		w.node.ping.mu.Unlock()
		r.Logf("pingfail p%d %d", id, o.Arg(2))
	case "busy":
		s.mu.Lock()
		s.busy[id] = o.Arg(2) == 1
		s.mu.Unlock()
	case "bfail":
		w.node.disc.mu.Lock()
		w.node.disc.failTo[id] = o.Arg(2) == 1
		w.node.disc.mu.Unlock()
		r.Logf("broadcast-fail p%d %d", id, o.Arg(2))
	case "net":
		s.mu.Lock()
		s.netDown = o.Arg(1) == 1
		s.mu.Unlock()
		r.Logf("network down=%d", o.Arg(1))
	case "apiconn":
		if !needPeer() {
			return
		}
		ctx, cancel := context.WithTimeout(context.Background(), 20*time.Second)
		p, err := s.Connect(ctx, w.al.underlay(id))
		cancel()
		r.Logf("api connect p%d -> %v", id, err)
		if err == nil {
			k.Outbound(*p)
		}
	case "conn":
		if !needPeer() {
			return
		}
		ctx, cancel := context.WithTimeout(context.Background(), 20*time.Second)
		err := k.Connection(ctx, &aurora.Address{Underlay: w.al.underlay(id), Overlay: w.al.addr(id), Signature: []byte{1}})
		cancel()
		r.Logf("Connection p%d -> %v", id, err)
	case "self":
		w.mu.Lock()
		w.self = o.Arg(1) % 3
		w.mu.Unlock()
		k.UpdateReachability(c24Status(o.Arg(1)))
		r.Logf("own reachability %d", o.Arg(1)%3)
	}
}

// quiet: executed by the main goroutine while everything else is blocked.
func (w *c24World) execQuiet(o gosim.Op) {
	switch o.K {
	case "inq":
		id := int(o.Arg(0))
		if !w.al.validID(o.Arg(0)) || id >= c24BootBase {
			return
		}
		w.inbound(id, o.Arg(1) == 1, false, true)
		gosim.Idle()
		w.checkQuiescent("inq")
	case "q1", "qn":
		if w.c23On {
			c23Query(w.r, w.c23Env(), o)
		}
	}
}

func (w *c24World) c23Env() *c23Env {
	w.mu.Lock()
	reach := map[int]int64{}
	for k, v := range w.reach {
		reach[k] = v
	}
	self := w.self
	w.mu.Unlock()
	return &c23Env{al: w.al, kad: w.node.kad, connected: w.node.connectedIDs(w.r),
		reachable: func(id int) bool { return reach[id] == 1 }, selfPublic: self == 1}
}

func (w *c24World) checkQuiescent(at string) {
	r := w.r
	live := w.node.p2p.live()
	var want []int
	nboot := 0
	for id, c := range live {
		switch {
		case c.mode == c24ModeFull:
			want = append(want, id)
		case c.mode == c24ModeBoot:
			nboot++
		}
	}
	sort.Ints(want)
	got := w.node.connectedIDs(r)
	r.Logf("quiescent(%s) t=%v topology=%v live-full=%v live-boot=%d depth=%d", at, r.Now(), got, want, nboot, w.node.kad.NeighborhoodDepth())
	if nboot > 0 {
		r.Count("probe_outbound_bootnode_live")
	}
	if len(want) >= 6 {
		r.Count("probe_six_or_more_connected")
	}
	if !w.c24On {
		return
	}
	if fmt.Sprint(got) != fmt.Sprint(want) {
		var extra, missing []int
		ws, gs := map[int]bool{}, map[int]bool{}
		for _, id := range want {
			ws[id] = true
		}
		for _, id := range got {
			gs[id] = true
			if !ws[id] {
				extra = append(extra, id)
			}
		}
		for _, id := range want {
			if !gs[id] {
				missing = append(missing, id)
			}
		}
		if len(extra) > 0 {
			c, isLive := live[extra[0]]
			if isLive && c.mode == c24ModeBoot {
				r.Violate("bootnode-counted", "topology reports outbound boot node p%d as connected (topology %v, live full nodes %v)", extra[0], got, want)
			}
			if w.node.p2p.outboundAfterEnd(extra[0]) {
				r.Violate("reports-dead-peer-outbound-after-disconnect", "topology reports %v as connected but p%d has no live connection: a dial to it had returned, then the connection ended and the topology was notified, and only then the topology ran Outbound for it (topology %v, live full nodes %v)", extra, extra[0], got, want)
			}
			r.Violate("reports-dead-peer", "topology reports %v as connected but they have no live connection (topology %v, live full nodes %v)", extra, got, want)
		}
		if c := live[missing[0]]; c.outbound && w.node.p2p.NetworkStatus() == p2p.NetworkStatusUnavailable {
			r.Violate("misses-live-peer-network-unavailable", "the dial to p%d succeeded and the connection is live, but the topology does not report it; network status is 'unavailable' now (topology %v, live %v)", missing[0], got, want)
		}
		w.node.p2p.mu.Lock()
		fr := w.node.p2p.forceRace[missing[0]]
		w.node.p2p.mu.Unlock()
		if fr {
			r.Violate("misses-live-peer-reconnected-during-force-disconnect", "p%d has a live connection made while DisconnectForce of its previous connection was still running; the topology does not report it (topology %v, live %v)", missing[0], got, want)
		}
		r.Violate("misses-live-peer", "live full-node connections %v are not reported by the topology (topology %v, live %v)", missing, got, want)
	}
	known := w.node.knownIDs()
	for _, id := range got {
		if !known[id] {
			w.node.p2p.mu.Lock()
			fl := w.node.p2p.failLive[id]
			w.node.p2p.mu.Unlock()
			if fl {
				r.Violate("connected-not-known-after-failed-dial", "p%d is connected but not among the known peers; a dial to it failed while it was connected", id)
			}
			r.Violate("connected-not-known", "p%d is connected but not among the known peers", id)
		}
	}
	ss := w.node.kad.Snapshot()
	if ss.Connected != len(got) {
		r.Violate("snapshot-mismatch", "Snapshot.Connected=%d, EachPeer reports %d", ss.Connected, len(got))
	}
	n, peers := w.node.kad.SnapshotConnected()
	if n != len(got) || len(peers) != len(got) {
		r.Violate("snapshot-mismatch", "SnapshotConnected=%d/%d, EachPeer reports %d", n, len(peers), len(got))
	}
}

func c24Run(r *gosim.Run, c24On, c23On bool) {
	w := c24NewWorld(r, c24On, c23On)
	for _, o := range r.Plan.Ops {
		if o.K == "pre" && w.al.validID(o.Arg(1)) {
			w.book(int(o.Arg(1)))
		}
	}
	if err := w.node.kad.Start(context.Background()); err != nil {
		r.Violate("start-error", "Start: %v", err)
	}
	ops := r.Plan.Ops
	phase := 0
	for i := 0; i <= len(ops); {
		j := i
		for j < len(ops) && ops[j].K != "barrier" {
			j++
		}
		var clients []int64
		by := map[int64][]gosim.Op{}
		var quiet []gosim.Op
		for _, o := range ops[i:j] {
			switch o.K {
			case "pre":
				continue
			case "inq", "q1", "qn":
				quiet = append(quiet, o)
				continue
			}
			c := o.Arg(0)
			if _, ok := by[c]; !ok {
				clients = append(clients, c)
			}
			by[c] = append(by[c], o)
		}
		done := make(chan struct{})
		var wg sync.WaitGroup
		for _, c := range clients {
			wg.Add(1)
			go func(list []gosim.Op) {
				defer wg.Done()
				for _, o := range list {
					w.exec(o)
					r.OpDone()
				}
			}(by[c])
		}
		go func() { wg.Wait(); close(done) }()
		select {
		case <-done:
		case <-time.After(6 * time.Hour):
			r.Violate("hang", "phase %d did not finish within 6 simulated hours", phase)
		}
		gosim.Idle()
		w.checkQuiescent(fmt.Sprintf("phase %d", phase))
		for _, o := range quiet {
			w.execQuiet(o)
			r.OpDone()
		}
		phase++
		i = j + 1
	}
	// let retry windows and the periodic loops run once more
	time.Sleep(time.Duration(r.Plan.P("final_sleep_s", 90)) * time.Second)
	gosim.Idle()
	w.checkQuiescent("final")
}

// ---- generation ----

type c24Gen struct {
	rng     *rand.Rand
	p       *gosim.Plan
	bins    int
	perBin  int
	clients int
	faulty  bool
	live    map[int]bool // peers the generator believes connected
	quietQ  func(g *c24Gen) []gosim.Op
}

func (g *c24Gen) peer() int {
	rng := g.rng
	b := rng.Intn(g.bins)
	if rng.Intn(3) == 0 {
		b = rng.Intn(2)
	}
	return b*c24PerBin + rng.Intn(g.perBin)
}

func (g *c24Gen) livePeer() int {
	if len(g.live) == 0 || g.rng.Intn(5) == 0 {
		return g.peer()
	}
	ids := make([]int, 0, len(g.live))
	for id := range g.live {
		ids = append(ids, id)
	}
	sort.Ints(ids)
	return ids[g.rng.Intn(len(ids))]
}

func c24GenOps(rng *rand.Rand, tier string, p *gosim.Plan, quietQ func(g *c24Gen) []gosim.Op) {
	g := &c24Gen{rng: rng, p: p, live: map[int]bool{}, quietQ: quietQ}
	p.Params["addr_seed"] = int64(rng.Intn(1 << 30))
	p.Params["binmax"] = gosim.Pick(rng, 5, 5, 5, 10)
	p.Params["satmode"] = int64(rng.Intn(3))
	p.Params["satlimit"] = int64(2 + rng.Intn(4))
	if rng.Intn(10) == 0 {
		p.Params["bootmode"] = 1
	}
	p.Params["nboot"] = int64(rng.Intn(3))
	p.Params["disc_start"] = int64(rng.Intn(2))
	p.Params["final_sleep_s"] = gosim.Pick(rng, 1, 20, 90, 400)
	// never 0: the manage loop re-notifies itself without blocking until its
	// connection handlers have started, which needs pre-emption to end
	p.Params["yield_pct"] = gosim.Pick(rng, 5, 20, 50, 100)
	g.bins = 3 + rng.Intn(4)
	g.perBin = 5 + rng.Intn(8)
	g.clients = 1 + rng.Intn(2)
	g.faulty = rng.Intn(10) >= 4
	if g.faulty {
		p.Params["faulty"] = 1
	}
	for i, n := 0, rng.Intn(6); i < n; i++ {
		p.Ops = append(p.Ops, gosim.Op{K: "pre", A: []int64{0, int64(g.peer())}})
	}
	nPhase := 3 + rng.Intn(5)
	perPhase := 8
	if tier == "thorough" {
		nPhase = 4 + rng.Intn(10)
		perPhase = 14
	}
	mkPublic := func(c int64, id int) {
		if rng.Intn(4) > 0 {
			p.Ops = append(p.Ops, gosim.Op{K: "reach", A: []int64{c, int64(id), 1}})
		}
	}
	for ph := 0; ph < nPhase; ph++ {
		n := 2 + rng.Intn(perPhase)
		for i := 0; i < n; i++ {
			c := int64(rng.Intn(g.clients))
			switch x := rng.Intn(100); {
			case x < 20:
				id := g.peer()
				if g.faulty && rng.Intn(3) == 0 {
					p.Ops = append(p.Ops, gosim.Op{K: "script", A: []int64{c, int64(id), int64(rng.Intn(c24NDial)), gosim.Pick(rng, 0, 0, 50, 2000, 14000)}})
				}
				p.Ops = append(p.Ops, gosim.Op{K: "add", A: []int64{c, int64(id), int64(min(rng.Intn(6), 1))}})
				mkPublic(c, id)
				g.live[id] = true
			case x < 42:
				id := g.peer()
				force := int64(0)
				if rng.Intn(5) == 0 {
					force = 1
				}
				p.Ops = append(p.Ops, gosim.Op{K: "in", A: []int64{c, int64(id), force, int64(rng.Intn(2))}})
				mkPublic(c, id)
				g.live[id] = true
			case x < 54:
				id := g.livePeer()
				p.Ops = append(p.Ops, gosim.Op{K: "drop", A: []int64{c, int64(id), int64(rng.Intn(2))}})
				delete(g.live, id)
			case x < 63:
				beh := int64(c24DialOK)
				if g.faulty {
					beh = int64(rng.Intn(c24NDial))
				} else if rng.Intn(4) == 0 {
					beh = c24DialBoot
				}
				id := g.peer()
				if rng.Intn(6) == 0 {
					id = c24BootBase + rng.Intn(2)
				}
				p.Ops = append(p.Ops, gosim.Op{K: "script", A: []int64{c, int64(id), beh, gosim.Pick(rng, 0, 0, 50, 2000, 14000, 20000)}})
			case x < 73:
				p.Ops = append(p.Ops, gosim.Op{K: "sleep", A: []int64{c, gosim.Pick(rng, 10, 1000, 16000, 31000, 61000, 61000, 130000, 400000)}})
			case x < 77:
				id := g.livePeer()
				p.Ops = append(p.Ops, gosim.Op{K: "dforce", A: []int64{c, int64(id)}})
				delete(g.live, id)
			case x < 81:
				a := []int64{c}
				for k, m := 0, rng.Intn(4); k < m; k++ {
					a = append(a, int64(g.peer()))
				}
				p.Ops = append(p.Ops, gosim.Op{K: "protect", A: a})
			case x < 87:
				p.Ops = append(p.Ops, gosim.Op{K: "reach", A: []int64{c, int64(g.livePeer()), gosim.Pick(rng, 1, 1, 2, 0)}})
			case x < 91:
				p.Ops = append(p.Ops, gosim.Op{K: "sat", A: []int64{c, int64(rng.Intn(g.bins)), int64(rng.Intn(2))}})
			case x < 93:
				if g.faulty {
					p.Ops = append(p.Ops, gosim.Op{K: []string{"pingfail", "bfail", "busy"}[rng.Intn(3)], A: []int64{c, int64(g.livePeer()), int64(min(rng.Intn(4), 1))}})
				}
			case x < 94:
				if g.faulty {
					p.Ops = append(p.Ops, gosim.Op{K: "net", A: []int64{c, int64(rng.Intn(2))}})
				}
			case x < 97:
				id := g.peer()
				if rng.Intn(4) == 0 {
					id = c24BootBase + rng.Intn(2)
				}
				p.Ops = append(p.Ops, gosim.Op{K: "apiconn", A: []int64{c, int64(id)}})
				g.live[id] = true
			case x < 99:
				id := g.peer()
				p.Ops = append(p.Ops, gosim.Op{K: "conn", A: []int64{c, int64(id)}})
				g.live[id] = true
			default:
				p.Ops = append(p.Ops, gosim.Op{K: "self", A: []int64{c, gosim.Pick(rng, 1, 2, 0)}})
			}
		}
		p.Ops = append(p.Ops, gosim.Op{K: "barrier"})
		for k, m := 0, rng.Intn(3); k < m; k++ {
			id := g.peer()
			force := int64(0)
			if rng.Intn(6) == 0 {
				force = 1
			}
			p.Ops = append(p.Ops, gosim.Op{K: "inq", A: []int64{int64(id), force}})
			g.live[id] = true
		}
		if quietQ != nil {
			p.Ops = append(p.Ops, quietQ(g)...)
		}
	}
}

func c24GenPlan(rng *rand.Rand, tier string) *gosim.Plan {
	p := &gosim.Plan{Params: map[string]int64{}}
	c24GenOps(rng, tier, p, nil)
	return p
}

func c24Exec(r *gosim.Run) { c24Run(r, true, false) }

var _ = ma.StringCast

func init() {
	gosim.Register(&gosim.World{
		Prop: "C24", Gen: c24GenPlan, Exec: c24Exec,
		Real: []string{"pkg/topology/kademlia (Kad started: manage loop, connectBalanced/connectNeighbours, connection handlers, bootnode dialling, Connected/Pick/Outbound/Disconnected/DisconnectForce/RefreshProtectPeer, pruning, ping loop)",
			"pkg/topology/pslice", "pkg/topology/kademlia/internal/{metrics,waitnext}", "pkg/blocker", "pkg/addressbook over statestore/mock", "pkg/shed + shed/leveldb (in-memory metrics DB)", "pkg/subscribe"},
		Stubs: []string{"p2p service (scripted dial results, libp2p-like peer registry, blocklist, resource manager)", "discovery (broadcast sink, failures scripted)", "pinger (scripted)"},
	})
}
