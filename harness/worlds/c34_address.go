package worlds

import (
	"bytes"
	"context"
	"crypto/elliptic"
	"encoding/binary"
	"errors"
	"fmt"
	"math/big"
	"math/bits"
	"math/rand"
	"sync"
	"time"

	"github.com/btcsuite/btcd/btcec"
	"github.com/gauss-project/aurorafs/pkg/addressbook"
	"github.com/gauss-project/aurorafs/pkg/aurora"
	"github.com/gauss-project/aurorafs/pkg/boson"
	"github.com/gauss-project/aurorafs/pkg/crypto"
	"github.com/gauss-project/aurorafs/pkg/p2p"
	"github.com/gauss-project/aurorafs/pkg/p2p/libp2p/verifx"
	"github.com/gauss-project/aurorafs/pkg/p2p/protobuf"
	"github.com/gauss-project/aurorafs/pkg/routetab"
	rpb "github.com/gauss-project/aurorafs/pkg/routetab/pb"
	ldbstate "github.com/gauss-project/aurorafs/pkg/statestore/leveldb"
	"github.com/gauss-project/aurorafs/pkg/topology/kademlia"
	"github.com/gauss-project/aurorafs/pkg/topology/lightnode"
	ma "github.com/multiformats/go-multiaddr"
	"golang.org/x/crypto/sha3"

	"verifharness/gosim"
	"verifharness/simnet"
)

// C34 — Peer address records are authenticated.
//
// Real: pkg/aurora (NewAddress, ParseAddress), pkg/crypto (signer, Recover,
// overlay derivation), the libp2p handshake service (Handshake / Handle, through
// pkg/p2p/libp2p/verifx), pkg/routetab Service (FindUnderlay, onFindUnderlay,
// onRouteReq / onRouteResp -> saveUnderlay, convUnderlayList), kademlia,
// pkg/addressbook over the leveldb state store.
// Stub: the libp2p host: the world opens the handshake stream itself (simnet raw
// stream), runs both ends and does what libp2p.go does with the result (store the
// record, register the peer, notify kademlia). Relay streams are direct streams
// to a chosen neighbour. routetab.FindRoute (process-global gcache on real time)
// is not called: route requests are written on the stream the way doRouteReq does.
//
// Nodes 0..n-1 are honest nodes of network N; an optional last node lives on
// another network id. Further identities only exist as keys / records.
//
// Ops (A[0] = client goroutine = acting node):
//   hs    [a, b, kind, dir, arg, other]    a dials b: real handshake; the link mutates
//                                          (kind) the record in b's SynAck (dir 0) or in a's Ack (dir 1)
//   fu    [a, via, target, kind, arg, other] a.FindUnderlay(target) served by neighbour via; the
//                                          link mutates the reply
//   ul    [s, h, isResp, target, kind, arg, other] s writes a route request / response carrying
//                                          target's (mutated) record in its UList to h
//   route [x, b, t, kind, arg, other]      x asks b for a route to b's neighbour t the way FindRoute
//                                          does; the response b->x (UList: t's record) is mutated
//   pa    [c, id, netsel, kind, arg, other] pure function: ParseAddress on id's record
//   barrier
// Mutation kinds: 0 none, 1 underlay, 2 overlay, 3 signature, 4 network id,
// 5 partial swap (underlay+signature of another peer under the own overlay),
// 6 whole-record swap (another peer's valid record), 7 observed address in the Syn
// changed (benign: the peer signs another underlay itself), 8 hide a foreign
// network id (the id field is rewritten to the receiver's, the record stays as signed).

const (
	c34None = iota
	c34Underlay
	c34Overlay
	c34Signature
	c34NetID
	c34SwapPartial
	c34SwapWhole
	c34Observed
	c34HideNet
)

var c34KindName = []string{"none", "underlay", "overlay", "signature", "netid", "swap-partial", "swap-whole", "observed", "hide-netid"}

// ---- the independent verifier (from the statement) ----

// c34SignedData is the byte string a record signature covers: a domain prefix,
// the underlay bytes, the overlay, the network id as 8 big-endian bytes.
func c34SignedData(underlay, overlay []byte, networkID uint64) []byte {
	out := []byte("aurorafs-handshake-")
	out = append(out, underlay...)
	out = append(out, overlay...)
	var n [8]byte
	for i := 0; i < 8; i++ {
		n[i] = byte(networkID >> uint(56-8*i))
	}
	return append(out, n[:]...)
}

// c34Verify: the signature (Ethereum signed-message convention, recovered with
// the repository's trusted secp256k1 recover) must come from a key whose overlay
// (sha3-256 of the keccak-256 of the uncompressed public key coordinates) is the
// claimed overlay.
func c34Verify(underlay, overlay, sig []byte, networkID uint64) (bool, string) {
	pub, err := crypto.Recover(sig, c34SignedData(underlay, overlay, networkID))
	if err != nil || pub == nil || pub.X == nil {
		return false, fmt.Sprintf("no key recovered (%v)", err)
	}
	xy := elliptic.Marshal(pub.Curve, pub.X, pub.Y)[1:]
	k := sha3.NewLegacyKeccak256()
	k.Write(xy)
	ov := sha3.Sum256(k.Sum(nil))
	if !bytes.Equal(ov[:], overlay) {
		return false, fmt.Sprintf("signing key has overlay %x, claimed %x", ov[:6], overlay[:c34min(6, len(overlay))])
	}
	return true, ""
}

func c34min(a, b int) int {
	if a < b {
		return a
	}
	return b
}

// ---- checking address book ----

// c34Book wraps the real address book of an honest node: every record that is
// stored — by whoever — is verified at that moment (the invariant "each stored
// record verifies" after every delivery).
type c34Book struct {
	addressbook.Interface
	w    *c34World
	node int
	net  uint64
}

func (b *c34Book) Put(overlay boson.Address, addr aurora.Address) error {
	b.w.verifyStored(b.node, b.net, overlay, &addr, "put")
	return b.Interface.Put(overlay, addr)
}

func (w *c34World) verifyStored(node int, net uint64, key boson.Address, addr *aurora.Address, where string) {
	w.r.Count("probe_record_stored")
	if addr.Underlay == nil {
		w.r.Violate("unverified-record-stored", "node %d (%s): record for %s without underlay", node, where, key)
	}
	if !key.Equal(addr.Overlay) {
		w.r.Violate("unverified-record-stored", "node %d (%s): record of overlay %s stored under key %s", node, where, addr.Overlay, key)
	}
	if ok, why := c34Verify(addr.Underlay.Bytes(), addr.Overlay.Bytes(), addr.Signature, net); !ok {
		w.r.Violate("unverified-record-stored", "node %d (%s): address book holds a record for %s (underlay %s) that does not verify for network %d: %s",
			node, where, addr.Overlay, addr.Underlay, net, why)
	}
	// cross-check with the identity table: the key that signed is the identity's key
	if id := w.byOverlay(addr.Overlay); id != nil {
		pub, err := crypto.Recover(addr.Signature, c34SignedData(addr.Underlay.Bytes(), addr.Overlay.Bytes(), net))
		if err != nil || pub.X.Cmp(id.Key.PublicKey.X) != 0 || pub.Y.Cmp(id.Key.PublicKey.Y) != 0 {
			w.r.Violate("unverified-record-stored", "node %d (%s): record for identity %d not signed by its key", node, where, id.Idx)
		}
	}
}

// ---- world ----

type c34Resolver struct{}

// Resolve: the advertised address is the observed one (no NAT mapping configured).
func (c34Resolver) Resolve(observed ma.Multiaddr) (ma.Multiaddr, error) { return observed, nil }

type c34Node struct {
	idx     int
	id      *c2934Ident
	netID   uint64
	foreign bool
	net     *simnet.Node
	p2p     *c2934P2P
	book    *c34Book
	kad     *kademlia.Kad
	hs      *verifx.HandshakeService
	rt      *routetab.Service

	mu  sync.Mutex
	via map[string]boson.Address
}

type c34Mut struct {
	kind, arg, other int64
	dir              int64
	fired            bool
	changed          bool
	nDir0            int
	recvNet          [2]uint64 // network id of the receiver of dir-0 / dir-1 frames (hide-netid)
}

type c34World struct {
	r      *gosim.Run
	sn     *simnet.Net
	netID  uint64
	netID2 uint64
	idents []*c2934Ident
	nodes  []*c34Node

	mu   sync.Mutex
	muts map[string]*c34Mut // by stream name (handshake) or "fu|a" / "rr|b|x"
	seq  int64
	// first violation of the malleability family, reported at the end of the run
	deferredClass, deferredMsg string
}

func (w *c34World) byOverlay(o boson.Address) *c2934Ident {
	for _, id := range w.idents {
		if id.Overlay.Equal(o) {
			return id
		}
	}
	return nil
}

func (w *c34World) known(class, format string, a ...interface{}) {
	msg := fmt.Sprintf(format, a...)
	w.r.Logf("DEFERRED %s: %s", class, msg)
	w.mu.Lock()
	if w.deferredClass == "" {
		w.deferredClass, w.deferredMsg = class, msg
	}
	w.mu.Unlock()
}

func (w *c34World) node(i int64) *c34Node {
	if i < 0 || int(i) >= len(w.nodes) {
		return nil
	}
	return w.nodes[i]
}

func (w *c34World) ident(i int64) *c2934Ident {
	if i < 0 {
		i = -i
	}
	return w.idents[int(i)%len(w.idents)]
}

// mutate applies one single-field mutation to a record triple. signer is the
// identity the genuine record belongs to (nil if unknown), net the network id the
// receiver will verify with. changed=false when the result equals the input.
func (w *c34World) mutate(m *c34Mut, underlay, overlay, sig []byte, owner *c2934Ident, net uint64) (u, o, s []byte, changed bool) {
	u, o, s = append([]byte(nil), underlay...), append([]byte(nil), overlay...), append([]byte(nil), sig...)
	other := w.ident(m.other)
	if owner != nil && other == owner {
		other = w.ident(m.other + 1)
	}
	flip := func(b []byte, bit int64) {
		if len(b) == 0 {
			return
		}
		k := int(bit) % (len(b) * 8)
		if k < 0 {
			k = -k
		}
		b[k/8] ^= 0x80 >> uint(k%8)
	}
	switch m.kind {
	case c34Underlay:
		if m.arg%2 == 0 {
			u = other.FullUnderlay().Bytes()
		} else {
			flip(u, m.arg/2)
		}
	case c34Overlay:
		if m.arg%2 == 0 {
			o = append([]byte(nil), other.Overlay.Bytes()...)
		} else {
			flip(o, m.arg/2)
		}
	case c34Signature:
		switch m.arg % 4 {
		case 0: // one bit of r, of s or of the recovery byte (a third each)
			if len(s) == 65 {
				switch x := m.arg / 4; x % 3 {
				case 0:
					flip(s[:32], x/3)
				case 1:
					flip(s[32:64], x/3)
				default:
					flip(s[64:], x/3)
				}
			}
		case 1: // the other signature of the same key over the same data: (r, n-s), recovery bit flipped
			if len(s) == 65 {
				n := btcec.S256().N
				t := new(big.Int).Sub(n, new(big.Int).SetBytes(s[32:64]))
				t.FillBytes(s[32:64])
				s[64] = 27 + ((s[64] - 27) ^ 1)
			}
		case 2: // another peer's signature over its own record
			if rec, err := other.Record(net); err == nil {
				s = rec.Signature
			}
		default: // a genuine signature over exactly this data, by another key
			if um, err := ma.NewMultiaddrBytes(underlay); err == nil {
				if rec, err := aurora.NewAddress(other.Signer, um, boson.NewAddress(overlay), net); err == nil {
					s = rec.Signature
				}
			}
		}
	case c34NetID, c34HideNet: // the record as its owner signs it for another network
		if owner != nil {
			if um, err := ma.NewMultiaddrBytes(underlay); err == nil {
				alt := net + 1 + uint64(m.arg%3)
				if m.arg%5 == 4 {
					alt = bits.ReverseBytes64(net)
				}
				if alt != net {
					if rec, err := aurora.NewAddress(owner.Signer, um, boson.NewAddress(overlay), alt); err == nil {
						s = rec.Signature
					}
				}
			}
		}
	case c34SwapPartial:
		if rec, err := other.Record(net); err == nil {
			u, s = rec.Underlay.Bytes(), rec.Signature
		}
	case c34SwapWhole:
		if rec, err := other.Record(net); err == nil {
			u, o, s = rec.Underlay.Bytes(), rec.Overlay.Bytes(), rec.Signature
		}
	}
	changed = !bytes.Equal(u, underlay) || !bytes.Equal(o, overlay) || !bytes.Equal(s, sig)
	return
}

// mutateHook is the byzantine link.
func (w *c34World) mutateHook(f *simnet.Frame) ([]byte, bool) {
	switch {
	case f.Protocol == "handshake":
		w.mu.Lock()
		m := w.muts[f.Stream]
		w.mu.Unlock()
		if m == nil || m.kind == c34None {
			return f.Data, false
		}
		return w.mutateHandshake(f, m), false
	case f.Protocol == routetab.ProtocolName && f.Stream == "onFindUnderlay" && f.Dir == 1:
		w.mu.Lock()
		m := w.muts["fu|"+f.To.String()]
		w.mu.Unlock()
		if m == nil || m.kind == c34None {
			return f.Data, false
		}
		body, ok := c34Undelimit(f.Data)
		if !ok {
			return f.Data, false
		}
		resp := &rpb.UnderlayResp{}
		if resp.Unmarshal(body) != nil {
			return f.Data, false
		}
		u, o, s, ch := w.mutate(m, resp.Underlay, resp.Dest, resp.Signature, w.byOverlay(boson.NewAddress(resp.Dest)), w.netID)
		resp.Underlay, resp.Dest, resp.Signature = u, o, s
		w.mu.Lock()
		m.fired, m.changed = true, ch
		w.mu.Unlock()
		out, _ := resp.Marshal()
		w.r.Count("fault_mutated_underlay_reply")
		return c2934Delimit(out), false
	case f.Protocol == routetab.ProtocolName && f.Stream == "onRouteResp" && f.Dir == 0:
		body, ok := c34Undelimit(f.Data)
		if !ok {
			return f.Data, false
		}
		resp := &rpb.RouteResp{}
		if resp.Unmarshal(body) != nil || len(resp.UList) == 0 {
			return f.Data, false
		}
		w.mu.Lock()
		m := w.muts["rr|"+f.From.String()+"|"+f.To.String()+"|"+boson.NewAddress(resp.Dest).String()]
		w.mu.Unlock()
		if m == nil {
			return f.Data, false
		}
		if m.kind == c34None {
			w.mu.Lock()
			m.fired = true
			w.mu.Unlock()
			return f.Data, false
		}
		for _, e := range resp.UList {
			u, o, s, ch := w.mutate(m, e.Underlay, e.Dest, e.Signature, w.byOverlay(boson.NewAddress(e.Dest)), w.netID)
			e.Underlay, e.Dest, e.Signature = u, o, s
			w.mu.Lock()
			m.fired = true
			m.changed = m.changed || ch
			w.mu.Unlock()
		}
		out, _ := resp.Marshal()
		w.r.Count("fault_mutated_route_resp")
		return c2934Delimit(out), false
	}
	return f.Data, false
}

func c34Undelimit(b []byte) ([]byte, bool) {
	n, k := binary.Uvarint(b)
	if k <= 0 || uint64(len(b)-k) != n {
		return nil, false
	}
	return b[k:], true
}

func (w *c34World) mutateHandshake(f *simnet.Frame, m *c34Mut) []byte {
	body, ok := c34Undelimit(f.Data)
	if !ok {
		return f.Data
	}
	w.mu.Lock()
	frameNo := 0
	if f.Dir == 0 {
		frameNo = m.nDir0
		m.nDir0++
	}
	w.mu.Unlock()
	sender := w.byOverlay(f.From)
	mutAck := func(ack *verifx.Ack, recvNet uint64) {
		if ack == nil || ack.Address == nil {
			return
		}
		ch := false
		switch m.kind {
		case c34NetID:
			if m.arg%2 == 0 { // only the id field
				ack.NetworkID += 1 + uint64(m.arg%7)
				ch = true
			} else { // field left alone, record signed for another network
				ack.Address.Underlay, ack.Address.Overlay, ack.Address.Signature, ch =
					w.mutate(m, ack.Address.Underlay, ack.Address.Overlay, ack.Address.Signature, sender, recvNet)
			}
		case c34HideNet:
			if ack.NetworkID != recvNet {
				ack.NetworkID = recvNet
				ch = true
			}
		default:
			ack.Address.Underlay, ack.Address.Overlay, ack.Address.Signature, ch =
				w.mutate(m, ack.Address.Underlay, ack.Address.Overlay, ack.Address.Signature, sender, recvNet)
		}
		w.mu.Lock()
		m.fired = true
		m.changed = m.changed || ch
		w.mu.Unlock()
		w.r.Count("fault_mutated_handshake")
	}
	switch {
	case f.Dir == 0 && frameNo == 0: // Syn
		if m.kind != c34Observed {
			return f.Data
		}
		syn := &verifx.Syn{}
		if syn.Unmarshal(body) != nil {
			return f.Data
		}
		// another transport address in front of the receiver's own /p2p id
		other := w.ident(m.other)
		recv := w.byOverlay(f.To)
		if recv == nil {
			return f.Data
		}
		alt, err := ma.NewMultiaddr(fmt.Sprintf("%s/p2p/%s", other.Underlay.String(), recv.PeerID.Pretty()))
		if err != nil {
			return f.Data
		}
		syn.ObservedUnderlay = alt.Bytes()
		out, _ := syn.Marshal()
		w.mu.Lock()
		m.fired = true
		w.mu.Unlock()
		w.r.Count("fault_mutated_observed")
		return c2934Delimit(out)
	case f.Dir == 1: // SynAck
		if m.dir != 0 && m.kind != c34HideNet {
			return f.Data
		}
		sa := &verifx.SynAck{}
		if sa.Unmarshal(body) != nil {
			return f.Data
		}
		mutAck(sa.Ack, m.recvNet[1])
		out, _ := sa.Marshal()
		return c2934Delimit(out)
	case f.Dir == 0 && frameNo == 1: // Ack
		if m.dir != 1 && m.kind != c34HideNet {
			return f.Data
		}
		ack := &verifx.Ack{}
		if ack.Unmarshal(body) != nil {
			return f.Data
		}
		mutAck(ack, m.recvNet[0])
		out, _ := ack.Marshal()
		return c2934Delimit(out)
	}
	return f.Data
}

func c34Gen(rng *rand.Rand, tier string) *gosim.Plan {
	p := &gosim.Plan{Params: map[string]int64{}}
	nNodes := 3 + rng.Intn(3)
	foreign := int64(rng.Intn(2))
	extra := 2 + rng.Intn(4)
	p.Params["nodes"] = int64(nNodes)
	p.Params["foreign"] = foreign
	p.Params["extra"] = int64(extra)
	p.Params["net_id"] = gosim.Pick(rng, 0, 1, 5, 255, 256, 1<<32, 1<<56+3)
	p.Params["net_id2"] = gosim.Pick(rng, 1, 2, 3, 77)
	nAll := nNodes + int(foreign)
	nId := nAll + extra
	honest := rng.Intn(10) < 4 // 40 % of the runs: no mutation at all
	add := func(k string, a ...int64) { p.Ops = append(p.Ops, gosim.Op{K: k, A: a}) }
	kind := func(allowed ...int64) int64 {
		if honest || rng.Intn(10) < 4 {
			return c34None
		}
		return allowed[rng.Intn(len(allowed))]
	}
	// connectivity first: a line plus a few chords, mostly clean handshakes
	for a := 0; a+1 < nNodes; a++ {
		x, y := int64(a), int64(a+1)
		if rng.Intn(2) == 0 {
			x, y = y, x
		}
		k := int64(c34None)
		if !honest && rng.Intn(5) == 0 {
			k = c34Observed
		}
		add("hs", x, y, k, 0, int64(rng.Intn(1000)), int64(rng.Intn(nId)))
	}
	add("barrier")
	nPhase := 2 + rng.Intn(3)
	for ph := 0; ph < nPhase; ph++ {
		n := 3 + rng.Intn(8)
		if tier == "thorough" {
			n += rng.Intn(12)
		}
		near := func(x int64) int64 { // mostly a neighbour on the line built in phase 0
			if rng.Intn(10) < 7 {
				y := x + int64(1-2*rng.Intn(2))
				if y >= 0 && y < int64(nNodes) {
					return y
				}
			}
			return int64(rng.Intn(nNodes))
		}
		for i := 0; i < n; i++ {
			a := int64(rng.Intn(nNodes))
			arg, other := int64(rng.Intn(1<<14)), int64(rng.Intn(nId))
			all := []int64{c34Underlay, c34Overlay, c34Signature, c34Signature, c34NetID, c34SwapPartial, c34SwapWhole}
			switch x := rng.Intn(20); {
			case x < 5:
				b := int64(rng.Intn(nAll))
				k := kind(append(all, c34Observed)...)
				if int(b) >= nNodes {
					k = gosim.Pick(rng, c34None, c34HideNet, c34HideNet)
				}
				if rng.Intn(2) == 0 {
					a, b = b, a
				}
				add("hs", a, b, k, int64(rng.Intn(2)), arg, other)
			case x < 9:
				via := near(a)
				tgt := near(via)
				if rng.Intn(4) == 0 {
					tgt = int64(rng.Intn(nId))
				}
				add("fu", a, via, tgt, kind(all...), arg, other)
			case x < 13:
				tgt := int64(rng.Intn(nId))
				add("ul", near(a), a, int64(rng.Intn(2)), tgt, kind(all...), arg, other)
			case x < 16:
				b := near(a)
				add("route", a, b, near(b), kind(all...), arg, other)
			default:
				add("pa", a, int64(rng.Intn(nId)), int64(rng.Intn(4)), kind(all...), arg, other)
			}
		}
		add("barrier")
	}
	return p
}

var c34ULs = []string{"/ip4/1.2.3.%d/tcp/1634", "/ip4/10.0.0.%d/tcp/1634", "/ip4/192.168.7.%d/udp/1634", "/ip6/2001:4860::%x/tcp/7070", "/ip4/52.1.%d.9/tcp/1634", "/dns4/n%d.example.org/tcp/1634"}

func c34Exec(r *gosim.Run) {
	pl := r.Plan
	w := &c34World{r: r, netID: uint64(pl.P("net_id", 1)), muts: map[string]*c34Mut{}}
	w.netID2 = w.netID + uint64(pl.P("net_id2", 1))
	nNodes := int(pl.P("nodes", 3))
	nAll := nNodes + int(pl.P("foreign", 0))
	nId := nAll + int(pl.P("extra", 2))
	w.sn = simnet.New(r, int64(pl.Seed)^0x34)
	w.sn.Mutate = w.mutateHook
	for i := 0; i < nId; i++ {
		id, err := c2934NewIdent(pl.Seed, i, w.netID, fmt.Sprintf(c34ULs[i%len(c34ULs)], 1+i))
		if err != nil {
			r.Violate("setup", "identity %d: %v", i, err)
		}
		w.idents = append(w.idents, id)
	}
	rtCtx, rtCancel := context.WithCancel(context.Background())
	defer rtCancel()
	for i := 0; i < nAll; i++ {
		id := w.idents[i]
		n := &c34Node{idx: i, id: id, netID: w.netID, foreign: i >= nNodes, via: map[string]boson.Address{}}
		if n.foreign {
			n.netID = w.netID2
		}
		n.net = w.sn.AddNode(id.Overlay, c2934FullMode())
		n.p2p = &c2934P2P{Node: n.net}
		n.p2p.RelayVia = func(target boson.Address) (boson.Address, bool) {
			n.mu.Lock()
			defer n.mu.Unlock()
			v, ok := n.via[target.String()]
			return v, ok
		}
		inner, err := c2934NewBook()
		if err != nil {
			r.Violate("setup", "address book: %v", err)
		}
		n.book = &c34Book{Interface: inner, w: w, node: i, net: n.netID}
		if n.kad, err = c2934NewKad(id.Overlay, n.book, c2934Disc{}, n.p2p); err != nil {
			r.Violate("setup", "kademlia: %v", err)
		}
		light := lightnode.NewContainer(id.Overlay)
		n.hs, err = verifx.NewHandshake(id.Signer, c34Resolver{}, id.Overlay, n.netID, c2934FullMode(), fmt.Sprintf("hello from %d", i), id.PeerID, c2934Logger(), light, lightnode.DefaultLightNodeLimit)
		if err != nil {
			r.Violate("setup", "handshake service: %v", err)
		}
		n.hs.SetPicker(n.kad)
		st, err := ldbstate.NewInMemoryStateStore(c2934Logger())
		if err != nil {
			r.Violate("setup", "state store: %v", err)
		}
		n.rt = routetab.New(id.Overlay, rtCtx, n.p2p, n.p2p, n.book, n.netID, light, n.kad, st, c2934Logger(), routetab.Options{})
		if err := n.net.AddProtocol(n.rt.Protocol()); err != nil {
			r.Violate("setup", "%v", err)
		}
		n.net.SetPickyNotifier(n.kad)
		w.nodes = append(w.nodes, n)
	}

	r.RunPhases(pl.Ops, func(phase int, o gosim.Op) {
		a := w.node(o.Arg(0))
		if a == nil {
			return
		}
		switch o.K {
		case "hs":
			if b := w.node(o.Arg(1)); b != nil && b != a {
				w.doHandshake(a, b, &c34Mut{kind: o.Arg(2), dir: o.Arg(3) % 2, arg: o.Arg(4), other: o.Arg(5)})
			}
		case "fu":
			if via := w.node(o.Arg(1)); via != nil && via != a && !a.foreign {
				w.doFindUnderlay(a, via, w.ident(o.Arg(2)), &c34Mut{kind: o.Arg(3), arg: o.Arg(4), other: o.Arg(5)})
			}
		case "ul":
			if h := w.node(o.Arg(1)); h != nil && h != a && !h.foreign {
				w.doUList(a, h, o.Arg(2) == 1, w.ident(o.Arg(3)), &c34Mut{kind: o.Arg(4), arg: o.Arg(5), other: o.Arg(6)})
			}
		case "route":
			b, t := w.node(o.Arg(1)), w.node(o.Arg(2))
			if b != nil && t != nil && b != a && t != a && t != b && !a.foreign {
				w.doRoute(a, b, t, &c34Mut{kind: o.Arg(3), arg: o.Arg(4), other: o.Arg(5)})
			}
		case "pa":
			w.doParse(w.ident(o.Arg(1)), o.Arg(2), &c34Mut{kind: o.Arg(3), arg: o.Arg(4), other: o.Arg(5)})
		}
	}, func(phase int) {
		time.Sleep(10 * time.Second)
		gosim.Idle()
		w.audit()
	})
	if w.deferredClass != "" {
		r.Violate(w.deferredClass, "%s", w.deferredMsg)
	}
}

// audit re-verifies every record of every honest address book.
func (w *c34World) audit() {
	for _, n := range w.nodes {
		addrs, err := n.book.Addresses()
		if err != nil {
			w.r.Violate("addressbook-error", "node %d: %v", n.idx, err)
		}
		for i := range addrs {
			w.verifyStored(n.idx, n.netID, addrs[i].Overlay, &addrs[i], "audit")
		}
		w.r.Logf("audit node=%d records=%d", n.idx, len(addrs))
	}
}

// expectRejected decides what a receiver of a mutated record must do:
// +1 must reject, 0 the statement is silent, -1 must accept.
func (w *c34World) expectation(m *c34Mut) int {
	if m.kind == c34None || m.kind == c34Observed {
		return -1
	}
	if !m.fired || !m.changed {
		return 0 // the mutation did not touch a record (e.g. reply never sent)
	}
	if m.kind == c34SwapWhole {
		return 0 // a complete valid record of another peer: authentic for its own overlay
	}
	return 1
}

type c34HSResult struct {
	info *aurora.AddressInfo
	err  error
}

func (w *c34World) doHandshake(a, b *c34Node, m *c34Mut) {
	r := w.r
	w.mu.Lock()
	w.seq++
	name := fmt.Sprintf("hs%d", w.seq)
	m.recvNet = [2]uint64{b.netID, a.netID}
	w.muts[name] = m
	w.mu.Unlock()
	sa, sb, err := w.sn.RawStream(a.net, b.net, "handshake", name)
	if err != nil {
		return
	}
	r.Logf("hs %s %d -> %d kind=%s dir=%d arg=%d other=%d", name, a.idx, b.idx, c34KindName[m.kind%int64(len(c34KindName))], m.dir, m.arg, m.other)
	ctx := context.Background()
	resB := make(chan c34HSResult, 1)
	go func() {
		i, err := b.hs.Handle(ctx, sb, a.id.Underlay, a.id.PeerID)
		if err != nil {
			_ = sb.Reset()
		} else {
			_ = sb.FullClose()
		}
		resB <- c34HSResult{i, err}
	}()
	iA, errA := a.hs.Handshake(ctx, sa, b.id.Underlay, b.id.PeerID)
	if errA != nil {
		_ = sa.Reset()
	} else {
		_ = sa.FullClose()
	}
	var rB c34HSResult
	select {
	case rB = <-resB:
	case <-time.After(5 * time.Minute):
		r.Violate("hang", "handshake %s: Handle did not return within 5 simulated minutes", name)
	}
	r.Logf("hs %s result dialer=%v listener=%v", name, errA, rB.err)
	sameNet := a.netID == b.netID
	exp := w.expectation(m)
	// what each side had to do
	check := func(side string, n, peer *c34Node, info *aurora.AddressInfo, err error, receivedMutated bool) {
		if err == nil {
			// whatever was accepted must verify (independently), for the receiver's network
			if ok, why := c34Verify(info.Address.Underlay.Bytes(), info.Address.Overlay.Bytes(), info.Address.Signature, n.netID); !ok {
				r.Violate("handshake-accepted-invalid", "%s: %s (node %d) accepted a record that does not verify: %s (mutation %s)", name, side, n.idx, why, c34KindName[m.kind])
			}
			if !sameNet {
				r.Violate("handshake-accepted-foreign-network", "%s: %s (node %d, network %d) completed a handshake with node %d of network %d", name, side, n.idx, n.netID, peer.idx, peer.netID)
			}
			if receivedMutated && exp == 1 {
				if m.kind == c34Signature {
					w.known("mutated-signature-still-accepted", "%s: %s (node %d) accepted a record whose signature bytes were changed (arg %d); it still recovers the owner's key", name, side, n.idx, m.arg)
				} else {
					r.Violate("mutated-record-accepted", "%s: %s (node %d) accepted a record with mutated %s", name, side, n.idx, c34KindName[m.kind])
				}
			}
			if !(receivedMutated && m.kind == c34SwapWhole) && !info.Address.Overlay.Equal(peer.id.Overlay) {
				r.Violate("handshake-wrong-peer", "%s: %s (node %d) got overlay %s, the peer is %s", name, side, n.idx, info.Address.Overlay, peer.id.Overlay)
			}
			if receivedMutated && m.kind == c34SwapWhole && m.changed {
				// statement silent: a replayed genuine record of another peer completes the handshake
				r.Count("probe_hs_replayed_record_accepted")
			}
			r.Count("probe_hs_side_ok")
		} else if receivedMutated && exp == 1 {
			r.Count("probe_hs_mutation_rejected")
		}
	}
	mutatedForA := m.kind == c34HideNet || (m.dir == 0 && m.kind != c34Observed && m.kind != c34None)
	mutatedForB := m.kind == c34HideNet || (m.dir == 1 && m.kind != c34Observed && m.kind != c34None)
	if m.kind == c34HideNet {
		// hide-netid only changes something between different networks
		if sameNet {
			exp = -1
		} else {
			exp = 1
		}
	}
	check("dialer", a, b, iA, errA, mutatedForA)
	check("listener", b, a, rB.info, rB.err, mutatedForB)
	if sameNet && exp == -1 {
		if errA != nil || rB.err != nil {
			r.Violate("honest-handshake-failed", "%s: unmutated handshake %d -> %d failed: dialer=%v listener=%v", name, a.idx, b.idx, errA, rB.err)
		}
		r.Count("probe_hs_clean_ok")
	}
	if errA != nil && rB.err == nil && mutatedForA {
		// the dialer rejected and never acknowledged: the listener cannot have a record of it
		r.Violate("handshake-without-ack", "%s: listener completed although the dialer rejected the SynAck (%v)", name, errA)
	}
	if !sameNet {
		r.Count("probe_hs_foreign_rejected")
	}
	// what libp2p.go does with a completed handshake
	if errA == nil && iA.NodeMode.IsFull() {
		if err := a.book.Put(iA.Address.Overlay, *iA.Address); err != nil {
			r.Violate("addressbook-error", "%v", err)
		}
	}
	if rB.err == nil && rB.info.NodeMode.IsFull() {
		if err := b.book.Put(rB.info.Address.Overlay, *rB.info.Address); err != nil {
			r.Violate("addressbook-error", "%v", err)
		}
	}
	if errA == nil && rB.err == nil && iA.Address.Overlay.Equal(b.id.Overlay) && rB.info.Address.Overlay.Equal(a.id.Overlay) && !a.net.IsPeer(b.id.Overlay) {
		if err := w.sn.Link(a.net, b.net); err == nil {
			_ = a.kad.Connected(ctx, p2p.Peer{Address: b.id.Overlay, Mode: iA.NodeMode}, true)
			_ = b.kad.Connected(ctx, p2p.Peer{Address: a.id.Overlay, Mode: rB.info.NodeMode}, true)
			r.Count("probe_connected")
		}
	}
	w.mu.Lock()
	delete(w.muts, name)
	w.mu.Unlock()
}

func (w *c34World) doFindUnderlay(a, via *c34Node, target *c2934Ident, m *c34Mut) {
	r := w.r
	if !a.net.IsPeer(via.id.Overlay) || target == a.id {
		return
	}
	// a directly connected target is asked itself (and holds no record of itself);
	// otherwise the chosen neighbour serves. What the server holds before the call
	// stays (records are never removed).
	server := via
	if a.net.IsPeer(target.Overlay) {
		if tn := w.node(int64(target.Idx)); tn != nil {
			server = tn
		}
	}
	held, _ := server.book.Get(target.Overlay)
	a.mu.Lock()
	a.via[target.Overlay.String()] = via.id.Overlay
	a.mu.Unlock()
	key := "fu|" + a.id.Overlay.String()
	w.mu.Lock()
	w.muts[key] = m
	w.mu.Unlock()
	r.Logf("fu %d via %d target=%d held=%v kind=%s arg=%d other=%d", a.idx, via.idx, target.Idx, held != nil, c34KindName[m.kind%int64(len(c34KindName))], m.arg, m.other)
	ctx, cancel := context.WithTimeout(context.Background(), time.Minute)
	addr, err := a.rt.FindUnderlay(ctx, target.Overlay)
	cancel()
	w.mu.Lock()
	delete(w.muts, key)
	w.mu.Unlock()
	r.Logf("fu %d via %d target=%d err=%v", a.idx, via.idx, target.Idx, err)
	exp := w.expectation(m)
	if err == nil {
		if ok, why := c34Verify(addr.Underlay.Bytes(), addr.Overlay.Bytes(), addr.Signature, a.netID); !ok {
			r.Violate("lookup-accepted-invalid", "FindUnderlay of node %d returned a record that does not verify: %s (mutation %s)", a.idx, why, c34KindName[m.kind])
		}
		if exp == 1 {
			if m.kind == c34Signature {
				w.known("mutated-signature-still-accepted", "FindUnderlay of node %d accepted a record whose signature bytes were changed (arg %d); it still recovers the owner's key", a.idx, m.arg)
			} else {
				r.Violate("mutated-record-accepted", "FindUnderlay of node %d accepted a reply with mutated %s", a.idx, c34KindName[m.kind])
			}
		}
		if !addr.Overlay.Equal(target.Overlay) {
			r.Count("probe_fu_other_peer_returned") // statement silent: a valid record of another peer
		}
		r.Count("probe_fu_ok")
	} else {
		if exp == -1 && held != nil && server.netID == a.netID {
			r.Violate("honest-lookup-failed", "FindUnderlay of node %d for identity %d served by node %d (which holds the record) failed: %v", a.idx, target.Idx, server.idx, err)
		}
		if exp == 1 {
			r.Count("probe_fu_mutation_rejected")
		}
	}
}

// doUList: s hands h a route message whose UList carries target's record.
func (w *c34World) doUList(s, h *c34Node, isResp bool, target *c2934Ident, m *c34Mut) {
	r := w.r
	if !s.net.IsPeer(h.id.Overlay) || target == h.id {
		return
	}
	rec, err := target.Record(h.netID)
	if err != nil {
		r.Violate("setup", "%v", err)
	}
	u, o, sig, changed := w.mutate(m, rec.Underlay.Bytes(), rec.Overlay.Bytes(), rec.Signature, target, h.netID)
	m.fired, m.changed = true, changed
	if m.kind != c34None {
		r.Count("fault_mutated_ulist")
	}
	entry := &rpb.UnderlayResp{Dest: o, Underlay: u, Signature: sig}
	// a path as generatePaths builds it: originator first, the sender last
	origin := w.ident(m.other + 3)
	items := [][]byte{origin.Overlay.Bytes(), s.id.Overlay.Bytes()}
	if origin == s.id || origin == h.id {
		items = [][]byte{s.id.Overlay.Bytes()}
	}
	path := &rpb.Path{Sign: []byte{1}, Bodys: [][]byte{{1}}, Items: items}
	// the route destination is never a live node (live destinations belong to the route ops)
	dest := w.idents[len(w.nodes)+int(m.other+5)%(len(w.idents)-len(w.nodes))].Overlay.Bytes()
	var msg protobuf.Message
	stream := "onRouteReq"
	if isResp {
		stream = "onRouteResp"
		msg = &rpb.RouteResp{Dest: dest, Paths: []*rpb.Path{path}, UType: 1, UList: []*rpb.UnderlayResp{entry}}
	} else {
		msg = &rpb.RouteReq{Dest: dest, Alpha: 2, Paths: []*rpb.Path{path}, UType: 1, UList: []*rpb.UnderlayResp{entry}}
	}
	r.Logf("ul %d -> %d %s target=%d kind=%s arg=%d other=%d changed=%v", s.idx, h.idx, stream, target.Idx, c34KindName[m.kind%int64(len(c34KindName))], m.arg, m.other, changed)
	ctx, cancel := context.WithTimeout(context.Background(), time.Minute)
	defer cancel()
	st, err := s.net.NewStream(ctx, h.id.Overlay, nil, routetab.ProtocolName, routetab.ProtocolVersion, stream)
	if err != nil {
		return
	}
	if err := protobuf.NewWriter(st).WriteMsgWithContext(ctx, msg); err != nil {
		_ = st.Reset()
		return
	}
	go st.FullClose()
	time.Sleep(2 * time.Second) // the handler stores synchronously after reading
	got, gerr := h.book.Get(boson.NewAddress(o))
	isMutated := got != nil && bytes.Equal(got.Underlay.Bytes(), u) && bytes.Equal(got.Signature, sig)
	switch exp := w.expectation(m); {
	case exp == -1:
		// a record made by the peer's own signer is always accepted
		if gerr != nil || got == nil {
			r.Violate("honest-record-not-accepted", "node %d did not store the genuine record of identity %d delivered in a %s UList: %v", h.idx, target.Idx, stream, gerr)
		}
		r.Count("probe_ul_clean_stored")
	case exp == 1 && isMutated:
		if ok, _ := c34Verify(u, o, sig, h.netID); ok && m.kind == c34Signature {
			w.known("mutated-signature-still-accepted", "node %d stored a UList record whose signature bytes were changed (arg %d); it still recovers the owner's key", h.idx, m.arg)
		} else {
			r.Violate("mutated-record-accepted", "node %d stored a UList record with mutated %s", h.idx, c34KindName[m.kind])
		}
	case exp == 1:
		r.Count("probe_ul_mutation_rejected")
	}
}

// doRoute: x asks its neighbour b for a route to b's neighbour t; the response
// b -> x carries t's record from b's address book.
func (w *c34World) doRoute(x, b, t *c34Node, m *c34Mut) {
	r := w.r
	if !x.net.IsPeer(b.id.Overlay) || !b.net.IsPeer(t.id.Overlay) {
		return
	}
	key := "rr|" + b.id.Overlay.String() + "|" + x.id.Overlay.String() + "|" + t.id.Overlay.String()
	w.mu.Lock()
	w.muts[key] = m
	w.mu.Unlock()
	had, _ := x.book.Get(t.id.Overlay)
	r.Logf("route %d via %d to %d kind=%s arg=%d other=%d had=%v", x.idx, b.idx, t.idx, c34KindName[m.kind%int64(len(c34KindName))], m.arg, m.other, had != nil)
	ctx, cancel := context.WithTimeout(context.Background(), time.Minute)
	defer cancel()
	st, err := x.net.NewStream(ctx, b.id.Overlay, nil, routetab.ProtocolName, routetab.ProtocolVersion, "onRouteReq")
	if err == nil {
		req := &rpb.RouteReq{Dest: t.id.Overlay.Bytes(), Alpha: 2, UType: 1,
			Paths: []*rpb.Path{{Sign: []byte{1}, Bodys: [][]byte{{1}}, Items: [][]byte{x.id.Overlay.Bytes()}}}}
		if err := protobuf.NewWriter(st).WriteMsgWithContext(ctx, req); err != nil {
			_ = st.Reset()
		} else {
			go st.FullClose()
		}
	}
	time.Sleep(3 * time.Second)
	w.mu.Lock()
	delete(w.muts, key)
	fired := m.fired
	w.mu.Unlock()
	got, _ := x.book.Get(t.id.Overlay)
	if fired {
		r.Count("probe_route_resp_with_ulist")
	}
	if got != nil && had == nil {
		r.Count("probe_route_learnt_underlay")
	}
	r.Logf("route %d via %d to %d fired=%v learnt=%v", x.idx, b.idx, t.idx, fired, got != nil && had == nil)
	// safety is the address book wrapper's job (every stored record verifies);
	// a mutated record that verifies can only be a whole-record swap or a signature variant
	if fired && w.expectation(m) == 1 && m.kind != c34Signature && got != nil && had == nil && m.kind != c34Overlay {
		// dest mutated entries are stored under another key; for the others the only
		// way t's record can have appeared is a concurrent genuine delivery
		r.Count("probe_route_concurrent_learn")
	}
}

// doParse: the pure function.
func (w *c34World) doParse(id *c2934Ident, netSel int64, m *c34Mut) {
	r := w.r
	net := []uint64{w.netID, w.netID2, 0, 1<<64 - 1}[int(netSel)%4]
	rec, err := id.Record(net)
	if err != nil {
		r.Violate("setup", "%v", err)
	}
	u0, o0, s0 := rec.Underlay.Bytes(), rec.Overlay.Bytes(), rec.Signature
	u, o, s := u0, o0, s0
	pnet := net
	changed := false
	if m.kind == c34NetID && m.arg%2 == 0 {
		// the verifier's network id differs from the signed one
		switch (m.arg / 2) % 3 {
		case 0:
			pnet = net + 1
		case 1:
			pnet = net ^ (1 << uint((m.arg/6)%64))
		default:
			pnet = bits.ReverseBytes64(net)
		}
		changed = pnet != net
	} else if m.kind != c34None && m.kind != c34Observed && m.kind != c34HideNet {
		u, o, s, changed = w.mutate(m, u0, o0, s0, id, net)
	}
	m.fired, m.changed = true, changed
	got, perr := aurora.ParseAddress(u, o, s, pnet)
	r.Logf("pa id=%d net=%d kind=%s arg=%d other=%d changed=%v err=%v", id.Idx, net, c34KindName[m.kind%int64(len(c34KindName))], m.arg, m.other, changed, perr)
	if perr != nil && !errors.Is(perr, aurora.ErrInvalidAddress) {
		r.Violate("parse-unexpected-error", "ParseAddress returned %v", perr)
	}
	ok, why := c34Verify(u, o, s, pnet)
	if perr == nil && !ok {
		r.Violate("parse-accepted-invalid", "ParseAddress accepted (mutation %s arg %d) a record that does not verify: %s", c34KindName[m.kind], m.arg, why)
	}
	switch {
	case !changed:
		if perr != nil {
			r.Violate("own-record-rejected", "ParseAddress rejected the record identity %d signed itself (network %d): %v", id.Idx, net, perr)
		}
		if !got.Overlay.Equal(id.Overlay) || !bytes.Equal(got.Underlay.Bytes(), u0) || !bytes.Equal(got.Signature, s0) {
			r.Violate("parse-wrong-result", "ParseAddress returned other values than it was given")
		}
		r.Count("probe_pa_clean_ok")
	case m.kind == c34SwapWhole:
		if perr != nil {
			r.Violate("own-record-rejected", "ParseAddress rejected the complete genuine record of another identity: %v", perr)
		}
	case perr == nil:
		if m.kind == c34Signature {
			w.known("mutated-signature-still-accepted", "ParseAddress accepted a record whose signature bytes were changed (arg %d: %x -> %x); it still recovers the owner's key", m.arg, s0[60:], s[60:])
		} else {
			r.Violate("mutated-record-accepted", "ParseAddress accepted a record with mutated %s (arg %d)", c34KindName[m.kind], m.arg)
		}
	default:
		r.Count("probe_pa_mutation_rejected")
	}
}

func init() {
	gosim.Register(&gosim.World{
		Prop: "C34", Gen: c34Gen, Exec: c34Exec,
		Real: []string{"pkg/aurora NewAddress / ParseAddress", "pkg/crypto signer, Recover, NewOverlayAddress",
			"pkg/p2p/libp2p/internal/handshake Service (Handshake, Handle, parseCheckAck) through pkg/p2p/libp2p/verifx",
			"pkg/routetab Service (FindUnderlay, onFindUnderlay, onRouteReq, onRouteResp, saveUnderlay, convUnderlayList, route table, pending calls)",
			"pkg/topology/kademlia Kad (Pick, Connected; no manage loop)", "pkg/addressbook over statestore/leveldb (in memory)"},
		Stubs: []string{"libp2p host: the world opens the handshake stream (simnet raw stream), runs both ends and stores / links / notifies as libp2p.go does",
			"relay layer: a relay stream is a direct stream to a chosen neighbour", "routetab.FindRoute is not called (process-global gcache on real time): the route request is written on the stream as doRouteReq does",
			"advertisable-address resolver: identity", "byzantine link: simnet Mutate hook re-encoding one field"},
	})
}
