package worlds

import (
	"fmt"
	"math/big"
	"math/rand"
	"sync"

	"github.com/ethereum/go-ethereum/common"
	"github.com/gauss-project/aurorafs/pkg/boson"
	chequePkg "github.com/gauss-project/aurorafs/pkg/settlement/traffic/cheque"

	"verifharness/gosim"
)

// C30 — Cheques are credited once and to the right peer.
//
// One node under test (real traffic.Service + cheque store + trafficprotocol)
// and 2-3 registered issuers with real keys, one unregistered peer and one
// foreign (never registered) key. Every cheque reaches the node through the
// real protocol: issuer-side trafficprotocol.EmitCheque -> in-memory stream ->
// node-side handler -> Service.ReceiveCheque -> ChequeStore.ReceiveCheque.
//
// Ops (A[0] = client goroutine; clients of one phase run concurrently):
//   chq  [client, sender, issuer, amount, rcpt, sig, id]
//        sender: 0..n-1 registered peer i, n = unregistered peer
//        issuer: 0..n-1 registered issuer i, n = foreign key (Beneficiary field)
//        rcpt:   0 this node, 1 the sender's address, 2 a third address
//        sig:    0 by the stated issuer, 1 by another key, 2 one byte flipped,
//                3 truncated, 4 issuer's signature over another amount
//   rep  [client, sender, id]     re-deliver the cheque built by chq op `id` (no-op if that op has not run)
//   barrier | restart             restart = new Service + Init over the same store
//   snap                          (separator) back up the state store
//   restore [cashmask, k]         (separator) data loss: on chain the node has cashed the highest
//                                 cheque it ever accepted from every issuer in cashmask; then the node
//                                 stops, its state store is replaced by backup k (0 = taken right after
//                                 set-up, i.e. all cheque records lost) and it starts again (Init reads
//                                 the chain totals, which may now be AHEAD of the local cheque records)

type c30Meta struct {
	issuer int // index into issuers; n = foreign
	amount int64
	rcpt   int64
	sig    int64
	ch     *chequePkg.SignedCheque
}

type c30Delivery struct {
	meta     *c30Meta
	sender   int
	start    int64
	end      int64
	accepted bool
	phase    int
}

func c30Gen(rng *rand.Rand, tier string) *gosim.Plan {
	p := &gosim.Plan{Params: map[string]int64{}}
	n := 2 + rng.Intn(2)
	nCli := 1 + rng.Intn(3)
	p.Params["issuers"] = int64(n)
	p.Params["keyseed"] = int64(rng.Intn(1 << 20))
	// swarm: which adversarial kinds this run contains
	en := func(name string, pct int) bool {
		v := rng.Intn(100) < pct
		if v {
			p.Params["en_"+name] = 1
		} else {
			p.Params["en_"+name] = 0
		}
		return v
	}
	wrongPeer := en("wrongpeer", 35)
	unreg := en("unreg", 50)
	badSig := en("badsig", 60)
	badRcpt := en("badrcpt", 50)
	nonIncr := en("nonincr", 70)
	replay := en("replay", 70)
	restart := en("restart", 40)
	foreign := en("foreign", 30)
	dataloss := en("dataloss", 35)
	snaps := 0

	cursor := make([]int64, n+1)
	built := 0
	var senders []int
	nPhase := 2 + rng.Intn(4)
	if tier == "thorough" {
		nPhase += rng.Intn(4)
	}
	for ph := 0; ph < nPhase; ph++ {
		k := 1 + rng.Intn(7)
		for i := 0; i < k; i++ {
			cli := int64(rng.Intn(nCli))
			if replay && built > 0 && rng.Intn(100) < 25 {
				id := rng.Intn(built)
				sender := int64(senders[id]) // replayed by whoever delivered it first
				if wrongPeer && rng.Intn(100) < 30 {
					sender = int64(rng.Intn(n)) // or by another registered peer that saw it
				}
				p.Ops = append(p.Ops, gosim.Op{K: "rep", A: []int64{cli, sender, int64(id)}})
				continue
			}
			iss := rng.Intn(n)
			if foreign && rng.Intn(100) < 15 {
				iss = n
			}
			sender := iss
			if iss == n {
				sender = rng.Intn(n)
			}
			if wrongPeer && rng.Intn(100) < 25 {
				sender = rng.Intn(n)
			}
			if unreg && rng.Intn(100) < 12 {
				sender = n
			}
			var amount int64
			switch x := rng.Intn(100); {
			case nonIncr && x < 12:
				amount = cursor[iss] // equal to the highest built so far
			case nonIncr && x < 24 && cursor[iss] > 1:
				amount = 1 + rng.Int63n(cursor[iss]) // lower or equal
			default:
				cursor[iss] += 1 + rng.Int63n(50)
				amount = cursor[iss]
			}
			if amount == 0 {
				cursor[iss] = 1 + rng.Int63n(50)
				amount = cursor[iss]
			}
			rc, sg := int64(0), int64(0)
			if badRcpt && rng.Intn(100) < 15 {
				rc = 1 + int64(rng.Intn(2))
			}
			if badSig && rng.Intn(100) < 20 {
				sg = 1 + int64(rng.Intn(4))
			}
			p.Ops = append(p.Ops, gosim.Op{K: "chq", A: []int64{cli, int64(sender), int64(iss), amount, rc, sg, int64(built)}})
			senders = append(senders, sender)
			built++
		}
		x := rng.Intn(100)
		switch {
		case dataloss && x < 30:
			mask := int64(rng.Intn(1 << uint(n)))
			if rng.Intn(100) < 60 {
				mask = int64(1<<uint(n)) - 1
			}
			p.Ops = append(p.Ops, gosim.Op{K: "restore", A: []int64{mask, int64(rng.Intn(snaps + 1))}})
			if ph == nPhase-1 {
				nPhase++ // cheques must follow the data loss
			}
		case dataloss && x < 50:
			p.Ops = append(p.Ops, gosim.Op{K: "snap"})
			snaps++
		case restart && x < 65:
			p.Ops = append(p.Ops, gosim.Op{K: "restart"})
		default:
			p.Ops = append(p.Ops, gosim.Op{K: "barrier"})
		}
	}
	return p
}

func c30Exec(r *gosim.Run) {
	n := int(r.Plan.P("issuers", 2))
	if n < 1 {
		n = 1
	}
	env := c30NewEnv(r, r.Plan.P("keyseed", 1), n+2) // peers: 0..n-1 registered, n unregistered, n+1 foreign key
	env.chain.setBalance(env.self.addr, 1_000_000)
	node, err := env.start()
	if err != nil {
		r.Violate("init-error", "Init on an empty store failed: %v", err)
	}
	for i := 0; i < n; i++ {
		p := env.peers[i]
		c30Guard(r, "handshake", func() {
			if err := node.register(p); err != nil {
				r.Violate("handshake-error", "init handshake of peer %d failed: %v", i, err)
			}
		})
		if a, ok := node.book.Beneficiary(p.overlay); !ok || a != p.addr {
			r.Violate("handshake-error", "peer %d not registered under its chain address after the handshake", i)
		}
		// the peer consumed traffic from the node (that is what it pays for)
		if err := node.svc.PutTransferTraffic(p.overlay, big.NewInt(1_000_000)); err != nil {
			r.Violate("api-error", "PutTransferTraffic: %v", err)
		}
	}
	unregPeer := env.peers[n]
	third := common.HexToAddress("0x00000000000000000000000000000000000c30c3")

	var mu sync.Mutex
	var seq int64
	built := map[int64]*c30Meta{}
	var dels []*c30Delivery
	tick := func() int64 { mu.Lock(); seq++; v := seq; mu.Unlock(); return v }

	senderOf := func(i int64) (boson.Address, common.Address, bool) {
		if i >= 0 && int(i) < n {
			return env.peers[i].overlay, env.peers[i].addr, true
		}
		return unregPeer.overlay, unregPeer.addr, false
	}
	issuerParty := func(i int) *c30Party {
		if i >= 0 && i < n {
			return env.peers[i].c30Party
		}
		return env.peers[n+1].c30Party // foreign key
	}

	build := func(o gosim.Op) *c30Meta {
		iss := int(o.Arg(2))
		if iss < 0 || iss > n {
			iss = n
		}
		amount := o.Arg(3)
		if amount < 0 {
			amount = 0
		}
		ip := issuerParty(iss)
		_, sAddr, _ := senderOf(o.Arg(1))
		rcpt := env.self.addr
		switch o.Arg(4) {
		case 1:
			rcpt = sAddr
			if rcpt == env.self.addr {
				rcpt = third
			}
		case 2:
			rcpt = third
		}
		var ch *chequePkg.SignedCheque
		switch o.Arg(5) {
		case 1: // another key signs a cheque stating ip as issuer
			other := issuerParty((iss + 1) % (n + 1))
			ch = other.sign(rcpt, ip.addr, amount)
		case 2:
			ch = ip.sign(rcpt, ip.addr, amount)
			ch.Signature[7] ^= 0x40
		case 3:
			ch = ip.sign(rcpt, ip.addr, amount)
			ch.Signature = ch.Signature[:20]
		case 4:
			ch = ip.sign(rcpt, ip.addr, amount+1)
			ch.CumulativePayout = big.NewInt(amount)
		default:
			ch = ip.sign(rcpt, ip.addr, amount)
		}
		m := &c30Meta{issuer: iss, amount: amount, rcpt: o.Arg(4), sig: o.Arg(5), ch: ch}
		if m.rcpt < 0 || m.rcpt > 2 {
			m.rcpt = 0
		}
		if m.sig < 0 || m.sig > 4 {
			m.sig = 0
		}
		return m
	}

	deliver := func(phase int, m *c30Meta, sender int64, how string) {
		sOv, sAddr, registered := senderOf(sender)
		sIdx := int(sender)
		if !registered {
			sIdx = n
		}
		d := &c30Delivery{meta: m, sender: sIdx, phase: phase}
		// a private copy: the wire gets JSON anyway
		cp := &chequePkg.SignedCheque{Cheque: chequePkg.Cheque{Recipient: m.ch.Recipient, Beneficiary: m.ch.Beneficiary,
			CumulativePayout: new(big.Int).Set(m.ch.CumulativePayout)}, Signature: append([]byte(nil), m.ch.Signature...)}
		d.start = tick()
		var acc bool
		var herr error
		nd := node
		c30Guard(r, "deliver", func() { acc, herr = nd.deliver(sOv, sAddr, cp) })
		d.end = tick()
		d.accepted = acc
		r.Logf("%s sender=%d issuer=%d amount=%d rcpt=%d sig=%d -> accepted=%v err=%v", how, sIdx, m.issuer, m.amount, m.rcpt, m.sig, acc, herr)
		mu.Lock()
		dels = append(dels, d)
		mu.Unlock()
		if !acc {
			switch {
			case m.rcpt != 0:
				r.Count("probe_rejected_wrong_recipient")
			case m.sig != 0:
				r.Count("probe_rejected_bad_signature")
			case sIdx == n:
				r.Count("probe_rejected_unregistered")
			case sIdx != m.issuer:
				r.Count("probe_rejected_wrong_peer")
			default:
				r.Count("probe_rejected_other")
			}
			return
		}
		r.Count("probe_accepted")
		// accepted => the four conditions of the statement
		if m.rcpt != 0 {
			r.Violate("accepted-wrong-recipient", "cheque naming %s as recipient (node is %s) was accepted: issuer=%d amount=%d sender=%d",
				m.ch.Recipient.Hex(), env.self.addr.Hex(), m.issuer, m.amount, sIdx)
		}
		if m.sig != 0 {
			r.Violate("accepted-bad-signature", "cheque without a valid signature of its stated issuer was accepted: issuer=%d amount=%d sigkind=%d sender=%d",
				m.issuer, m.amount, m.sig, sIdx)
		}
		if sIdx == n {
			r.Violate("accepted-unregistered-peer", "cheque of issuer %d (amount %d) arriving from an unregistered peer was accepted", m.issuer, m.amount)
		}
		if sIdx != m.issuer {
			r.Violate("accepted-wrong-peer", "cheque issued by %d (%s, amount %d) arriving from peer %d, whose registered chain address is %s, was accepted",
				m.issuer, m.ch.Beneficiary.Hex(), m.amount, sIdx, sAddr.Hex())
		}
	}

	// Model. An "epoch" is the time between two data losses (restore ops). Within an
	// epoch the store's last received cheque of an issuer starts at base[i] (what the
	// restored backup held) and follows the accepted cheques (best[i]). high[i] is the
	// highest cumulative payout ever accepted from issuer i in the whole run.
	best := map[int]*c30Meta{}
	base := map[int]*c30Meta{}
	high := map[int]int64{}
	exact := map[int]bool{} // the node's credit for issuer i must EQUAL high[i] (else only <=)
	for i := 0; i <= n; i++ {
		exact[i] = true
	}
	epochDel, epochCredit := 0, 0
	type c30Snap struct {
		data map[string][]byte
		best map[int]*c30Meta
	}
	copyBest := func(m map[int]*c30Meta) map[int]*c30Meta {
		o := map[int]*c30Meta{}
		for k, v := range m {
			o[k] = v
		}
		return o
	}
	snaps := []c30Snap{{env.store.snapshot(), map[int]*c30Meta{}}}

	checkPhase := func(phase int) {
		mu.Lock()
		ds := append([]*c30Delivery(nil), dels[epochDel:]...)
		mu.Unlock()
		// monotonicity with the real-time order of deliveries
		for _, a := range ds {
			if !a.accepted {
				continue
			}
			if b := base[a.meta.issuer]; b != nil && a.meta.amount <= b.amount {
				r.Violate("accepted-not-increasing", "issuer %d: cheque %d accepted although the store holds cheque %d", a.meta.issuer, a.meta.amount, b.amount)
			}
			for _, b := range ds {
				if b == a || !b.accepted || a.meta.issuer != b.meta.issuer {
					continue
				}
				if a.meta.amount == b.meta.amount && a.start < b.start {
					r.Violate("credited-twice", "issuer %d: two deliveries with cumulative payout %d were both accepted", a.meta.issuer, a.meta.amount)
				}
				if a.end < b.start && a.meta.amount >= b.meta.amount {
					r.Violate("accepted-not-increasing", "issuer %d: cheque %d accepted after cheque %d had been accepted (delivery finished before)",
						a.meta.issuer, b.meta.amount, a.meta.amount)
				}
			}
		}
		for _, d := range ds {
			if !d.accepted {
				continue
			}
			i := d.meta.issuer
			if best[i] == nil || d.meta.amount > best[i].amount {
				best[i] = d.meta
			}
			if d.meta.amount > high[i] {
				high[i] = d.meta.amount
			}
			if best[i].amount == high[i] {
				exact[i] = true // the store is level with everything ever accepted again
			}
		}
		// credited sum per issuer == highest accepted cumulative payout (on top of what the store held)
		env.mu.Lock()
		credits := append([]c30Credit(nil), env.credits[epochCredit:]...)
		env.mu.Unlock()
		sum := map[common.Address]*big.Int{}
		for _, c := range credits {
			if sum[c.issuer] == nil {
				sum[c.issuer] = big.NewInt(0)
			}
			sum[c.issuer].Add(sum[c.issuer], c.amount)
		}
		for i := 0; i <= n; i++ {
			addr := issuerParty(i).addr
			want := big.NewInt(0)
			if best[i] != nil {
				want = big.NewInt(best[i].amount)
			}
			if base[i] != nil {
				want.Sub(want, big.NewInt(base[i].amount))
			}
			got := sum[addr]
			if got == nil {
				got = big.NewInt(0)
			}
			if got.Cmp(want) != 0 {
				r.Violate("credited-sum", "issuer %d: total credited by the cheque store since the last data loss is %s, highest accepted cumulative payout minus the restored one is %s", i, got, want)
			}
		}
		// what the node reports
		sent := map[string]*big.Int{}
		tcs, err := node.svc.TrafficCheques()
		if err != nil {
			r.Violate("api-error", "TrafficCheques: %v", err)
		}
		for _, tc := range tcs {
			sent[tc.Peer.String()] = tc.ReceivedSettlements
		}
		for i := 0; i < n; i++ {
			p := env.peers[i]
			last, err := node.svc.LastReceivedCheque(p.overlay)
			want := best[i]
			if want == nil {
				if err == nil && last != nil && last.CumulativePayout != nil && last.CumulativePayout.Sign() != 0 {
					r.Violate("last-received", "peer %d: no cheque accepted but LastReceivedCheque reports %s", i, last.CumulativePayout)
				}
			} else {
				r.Count("probe_last_received_checked")
				if err != nil || last == nil || last.CumulativePayout == nil {
					r.Violate("last-received", "peer %d: LastReceivedCheque failed (%v) although cheque %d was accepted", i, err, want.amount)
				}
				if last.CumulativePayout.Cmp(big.NewInt(want.amount)) != 0 || !last.Equal(want.ch) || last.Recipient != want.ch.Recipient {
					r.Violate("last-received", "peer %d: LastReceivedCheque has payout %s beneficiary %s, highest accepted cheque is %d of %s",
						i, c30Big(last.CumulativePayout), last.Beneficiary.Hex(), want.amount, want.ch.Beneficiary.Hex())
				}
			}
			got := sent[p.overlay.String()]
			if got == nil {
				got = big.NewInt(0)
			}
			// never more than the highest cumulative payout ever accepted; exactly that
			// unless a data loss left the local records behind and no newer cheque came yet
			if got.Cmp(big.NewInt(high[i])) > 0 || (exact[i] && got.Cmp(big.NewInt(high[i])) != 0) {
				if !exact[i] {
					r.Count("probe_overcredit_checked_after_dataloss")
				}
				r.Violate("received-settlements", "peer %d: node reports received settlements %s, highest accepted cumulative payout is %d", i, got, high[i])
			}
			if epochDel > 0 && exact[i] && high[i] > 0 {
				r.Count("probe_credit_checked_after_dataloss")
			}
		}
		_ = phase
	}

	c30Phases(r, r.Plan.Ops, func(o gosim.Op) bool { return o.K == "restart" || o.K == "snap" || o.K == "restore" }, func(phase int, o gosim.Op) {
		switch o.K {
		case "chq":
			m := build(o)
			mu.Lock()
			built[o.Arg(6)] = m
			mu.Unlock()
			deliver(phase, m, o.Arg(1), "chq")
		case "rep":
			mu.Lock()
			m := built[o.Arg(2)]
			mu.Unlock()
			if m == nil {
				return
			}
			r.Count("probe_replayed")
			deliver(phase, m, o.Arg(1), "rep")
		}
	}, func(phase int, s *gosim.Op) {
		checkPhase(phase)
		if s == nil {
			return
		}
		switch s.K {
		case "restart":
			node.stop()
			nn, err := env.start()
			if err != nil {
				r.Violate("init-error", "Init after restart failed: %v", err)
			}
			node = nn
			r.Count("probe_restarted")
			r.Logf("restart")
			checkPhase(phase)
		case "snap":
			snaps = append(snaps, c30Snap{env.store.snapshot(), copyBest(best)})
			r.Logf("snap #%d", len(snaps)-1)
		case "restore":
			// before it lost its data the node cashed, on chain, the best cheque it ever held
			for i := 0; i < n; i++ {
				if s.Arg(0)&(1<<uint(i)) != 0 && high[i] > 0 {
					paid := env.chain.cash(env.peers[i].addr, env.self.addr, big.NewInt(high[i]))
					r.Logf("chain: node cashed cheque %d of issuer %d (paid %s)", high[i], i, paid)
				}
			}
			k := int(s.Arg(1))
			if k < 0 {
				k = -k
			}
			sn := snaps[k%len(snaps)]
			node.stop()
			env.store.restore(sn.data)
			nn, err := env.start()
			if err != nil {
				r.Violate("init-error", "Init after restoring the state store failed: %v", err)
			}
			node = nn
			best, base = copyBest(sn.best), copyBest(sn.best)
			mu.Lock()
			epochDel = len(dels)
			mu.Unlock()
			env.mu.Lock()
			epochCredit = len(env.credits)
			env.mu.Unlock()
			for i := 0; i <= n; i++ {
				exact[i] = false
			}
			r.Count("probe_dataloss")
			r.Logf("restore backup #%d cashmask=%d", k%len(snaps), s.Arg(0))
			checkPhase(phase)
		}
	})
	r.Add("deliveries", int64(len(dels)))
	_ = fmt.Sprint
}

func init() {
	gosim.Register(&gosim.World{
		Prop: "C30", Gen: c30Gen, Exec: c30Exec,
		Real: []string{
			"pkg/settlement/traffic (Service.ReceiveCheque, Handshake, Init, LastReceivedCheque, TrafficCheques, address book)",
			"pkg/settlement/traffic/cheque (chequeStore.ReceiveCheque, EIP-712 ChequeSigner, RecoverCheque; real secp256k1 keys)",
			"pkg/settlement/traffic/trafficprotocol (EmitCheque, handler, init handshake; both ends over p2p/streamtest stream pairs)",
			"pkg/crypto, pkg/crypto/eip712, pkg/subscribe, pkg/statestore/mock",
		},
		Stubs: []string{"chain.Traffic (scripted balances)", "cheque.CashoutService (unused)", "p2p.Service (repository mock)", "streams: p2p/streamtest in-memory recorder instead of libp2p"},
	})
}
