#!/bin/sh
# usage: mkagentdir.sh <name>  -> /tmp/w-<name> with a private copy of the harness
set -e
D=/tmp/w-$1
rm -rf $D; mkdir -p $D/.gosim/bin $D/.gosim/tmp $D/evidence $D/replays
ln -s /verif/.gosim/goroot $D/.gosim/goroot
cp -r /verif/harness $D/harness
cp /verif/check /verif/props.py /verif/known-findings.json /verif/properties.jsonl $D/
echo $D
