#!/usr/bin/env python3
"""Regenerates the generated tables of DESIGN.md (between BEGIN/END markers):
findings from known-findings.json, seeded changes from seeded/*/meta.json."""
import json, glob, os, re
D='/verif/DESIGN.md'
NEEDS=json.load(open('/verif/seeded/needs.json'))
s=open(D).read()
kf=json.load(open('/verif/known-findings.json'))['findings']
rows=["| id | property | status | class | what |","|---|---|---|---|---|"]
for f in sorted(kf,key=lambda f:(f['property'],f['id'])):
    what=(f.get('what') or '').replace('|','/').replace('\n',' ')
    st=f['status']
    if st=='fixed':
        m=re.search(r'property=\S+ (\w+)',f.get('fixed',''))
        st='fixed ('+(m.group(1) if m else '?')+')'
    rows.append("| %s | %s | %s | %s | %s |"%(f['id'],f['property'],st,(f.get('class') or f.get('class_re') or '').replace('|','/'),what[:260]))
ft="\n".join(rows)
srows=["| change | property | needs | demo fails with / passes without | quick check on the changed tree |","|---|---|---|---|---|"]
for m in sorted(glob.glob('/verif/seeded/C*-m*/meta.json')):
    j=json.load(open(m)); d=os.path.dirname(m)
    needs=NEEDS.get(os.path.basename(d), j.get('needs','see notes.md'))
    res={0:'NOT caught',1:'caught (VIOLATION)',2:'harness error'}.get(j.get('check_quick_exit'),str(j.get('check_quick_exit')))
    if j.get('caught_by') and j.get('check_quick_exit')!=1: res+=' — '+j['caught_by']
    srows.append("| %s | %s | %s | %s / %s | %s |"%(os.path.basename(d),j['property'],needs.replace('|','/')[:200],'yes' if j.get('demo_exit_with_patch') else 'NO','yes' if j.get('demo_exit_without_patch')==0 else 'NO',res))
st="\n".join(srows)
def put(s,name,body):
    b='<!-- BEGIN %s -->'%name; e='<!-- END %s -->'%name
    if b in s:
        return s[:s.index(b)+len(b)]+"\n"+body+"\n"+s[s.index(e):]
    return s+"\n"+b+"\n"+body+"\n"+e+"\n"
import sys
sys.path.insert(0,'/verif')
from props import PROPS
crows=["| property | level | binary | quick runs / budget | rule (what is generated) | probes |","|---|---|---|---|---|---|"]
HEAVY={"C01","C02","C03","C06","C07","C09","C10","C11","C12","C13","C14","C15","C16","C17","C37"}
for pid in sorted(PROPS):
    c=PROPS[pid]
    crows.append("| %s | %s | %s | %s / %ss | %s | %s |"%(pid,c.get('level','exploration'),'heavy' if pid in HEAVY else 'light',c['quick']['runs'],c['quick'].get('budget'),(c.get('rule','') or '').replace('|','/').replace('\n',' ')[:420],', '.join(c.get('probes',[]))[:200]))
s=put(s,'FINDINGS',ft); s=put(s,'SEEDED',st); s=put(s,'CHECKS',"\n".join(crows))
open(D,'w').write(s)
print(len(rows)-2,'findings,',len(srows)-2,'seeded changes')
