# Per-property check configuration for ./check (tiers, budgets, evidence notes).

def tiers(qr=400, qb=60, tr=20000, tb=900, timeout=120, **kw):
    q = {"runs": qr, "budget": qb, "timeout": timeout}
    t = {"runs": tr, "budget": tb, "timeout": timeout}
    for k, v in kw.items():
        if k.startswith("q_"):
            q[k[2:]] = v
        elif k.startswith("t_"):
            t[k[2:]] = v
    return {"quick": q, "thorough": t}

PROPS = {
    "C40": dict(tiers(qr=1500, qb=45, tr=60000, tb=600),
                level="exploration",
                level_text="Seeded exploration of schedules and histories of the real subPub under the deterministic scheduler; every notification is checked against the phase-level reference model (must-deliver, never-after-leave, order). Exploration is the right level: the property quantifies over schedules of an unbounded goroutine system.",
                rule="Seeded histories of subscribe / publish / unsubscribe(close of the error channel) issued by 1-3 concurrent client goroutines in 2-5 barrier-separated phases against the real subPub; schedules (incl. the select between the subscribe and unsubscribe queues) chosen by the seeded scheduler.",
                probes=["must_deliver"],
                assumptions=["'registration has taken effect' / 'after its error channel fires' are read as: the system quiesced (no runnable goroutine) after Subscribe returned / after the channel was closed"]),
}

NOT_APPLICABLE = {
    "C04": "pure function of (payload, address): no schedule, clock, fault or interleaving for a simulator to control (DESIGN.md section 6)",
    "C05": "pure function of (key, id, payload): signing/validation has no schedule, clock or fault dimension (DESIGN.md section 6)",
    "C08": "encryption round-trip and padding arithmetic are pure functions of key and payload; the decrypting reader is exercised (not claimed) by the encrypted files of C01",
    "C20": "proximity and XOR distance are pure functions of two byte strings",
    "C36": "keystore create/get/export/import is a sequential function of (name, password) over os files with no seam for faults; the statement has no crash, clock or concurrency in it",
    "C39": "bit vectors are a sequential in-memory structure; nothing depends on a schedule, clock or fault",
}
PENDING = {}
