# Per-property check configuration for ./check (tiers, budgets, evidence notes).

def tiers(qr=400, qb=60, tr=20000, tb=900, timeout=120, **kw):
    q = {"runs": qr, "budget": qb, "timeout": timeout}
    t = {"runs": tr, "budget": tb, "timeout": timeout}
    for k, v in kw.items():
        if k.startswith("q_"):
            q[k[2:]] = v
        elif k.startswith("t_"):
            t[k[2:]] = v
    return {"quick": q, "thorough": t}

PROPS = {
    "C40": dict(tiers(qr=1500, qb=45, tr=60000, tb=600),
                level="exploration",
                level_text="Seeded exploration of schedules and histories of the real subPub under the deterministic scheduler; every notification is checked against the phase-level reference model (must-deliver, never-after-leave, order). Exploration is the right level: the property quantifies over schedules of an unbounded goroutine system.",
                rule="Seeded histories of subscribe / publish / unsubscribe(close of the error channel) issued by 1-3 concurrent client goroutines in 2-5 barrier-separated phases against the real subPub; schedules (incl. the select between the subscribe and unsubscribe queues) chosen by the seeded scheduler.",
                probes=["must_deliver"],
                assumptions=["'registration has taken effect' / 'after its error channel fires' are read as: the system quiesced (no runnable goroutine) after Subscribe returned / after the channel was closed"]),
    "C12": dict(tiers(qr=300, qb=50, tr=6000, tb=900, timeout=300),
                level="exploration",
                level_text="Seeded exploration of upload / download(cache) / pin / unpin / delete / get histories on a real node (api, netstore, localstore with its collection worker, chunkinfo, retrieval, traversal, pinning) next to a provider node on the simulated network; around every exclusive collection run the full index dumps are compared: pinned chunks and locally uploaded chunks survive, the pin index is unchanged.",
                rule="Random files over a small chunk alphabet (shared and repeated 256 KiB chunks), 1-2 client goroutines, 2-4 phases, capacity 4-20 chunks; an exclusive collection run at every barrier.",
                probes=["c12_gc_runs", "c12_gc_deleted", "c12_pinned_seen", "cached"],
                assumptions=["chunk set of a file = addresses written by its upload (recorded between API and netstore)", "operations that do not return within 90 simulated seconds are abandoned and their file is excluded from assertions"]),
    "C13": dict(tiers(qr=300, qb=50, tr=6000, tb=900, timeout=300),
                level="exploration",
                level_text="Same node world with 1-3 concurrent clients (gets of the file being evicted, pins/unpins, deletes concurrent with the collection worker and with synchronous collection runs); at every quiescent barrier, and after clean restarts, the persisted counter is compared with the sum of per-file cached counts from the index dump, and the total with the capacity.",
                rule="As C12 with up to 3 clients; checks at quiescent points (all clients joined, no runnable goroutine, collection worker idle and no trigger pending).",
                probes=["c13_checked", "c13_nonzero", "cached", "restart"],
                assumptions=["'collection has quiesced' = worker idle, no trigger queued, no goroutine runnable; bounded liveness budget 10 simulated seconds"]),
    "C15": dict(tiers(qr=300, qb=50, tr=6000, tb=900, timeout=300),
                level="exploration",
                level_text="Same node world, one client (plus the concurrent pin pairs of cpin): around every pin / unpin / pinned upload the full pin index is dumped and the pin's measured effect (its delta on every chunk's count) is compared: first pin marks every stored chunk and lists the reference, a repeated pin changes nothing, an unpin subtracts exactly its pin's delta, a repeated unpin changes nothing, listing follows the last operation; also across clean restarts.",
                rule="Every file is made known first (upload or real download), then 3-8 operations per phase: 20 % pin, 20 % unpin, 18 % cpin (two stored, unpinned files pinned concurrently, every stored chunk pinned in between, then unpinned one after the other: all counts back at their value from before, neither listed), uploads with / without Aurora-Pin, downloads, deletes, collections, reads; a third of the runs use a hot chunk shared between files and repeated inside files; restarts. Oracle evaluated at quiescence (collection worker idle) before and after each pin-changing operation; an operation during which a collection removed chunks is not compared.",
                probes=["c15_first_pin", "c15_repeat_pin", "c15_unpin", "c15_repeat_unpin", "c15_concurrent_pins", "restart"],
                assumptions=["the effect of a pin is measured, not predicted: only idempotence and exact inversion are demanded", "an unpin of a pinned reference must succeed if every chunk of the reference was stored when it was pinned and is stored now, the file was not deleted through the API since (DELETE removes pin counters, not the listed reference) and no collection ran during the operation; any other failing unpin makes the file uncertain (the statement is silent)"]),
    "C17": dict(tiers(qr=300, qb=50, tr=6000, tb=900, timeout=300),
                level="exploration",
                level_text="Same node world (uploads, real downloads through discovery + retrieval, local reads under a file context, deletes, evictions, restarts with InitChunkInfo from the state store): at every quiescent barrier every availability record the node keeps for itself is compared bit by bit with the local store (bit i set => i-th data chunk in protocol order stored; all set => all stored), and after a delete no in-memory or persisted availability / discovery / source record of the file may remain.",
                rule="As C12; the protocol order of data chunks is taken from GetChunkHashes on a node holding the whole file. In a third of the runs one or two files are directories (tar collections of 2-3 members) and downloads fetch single members, mostly starting with a member that is not the first.",
                probes=["c17_record_checked", "c17_bit_checked", "c17_full", "c17_deleted_checked", "cached", "restart", "dir_member_downloaded"],
                assumptions=["data-chunk order = first occurrence in traversal.GetChunkHashes (trusted as the protocol's definition)"]),
    "C16": dict(tiers(qr=300, qb=50, tr=6000, tb=900, timeout=300),
                level="exploration",
                level_text="Same node world; after every barrier (deletes through DELETE /aurora/{ref}) and after an exclusive collection run (eviction) every chunk of every other locally known file must still be stored and no unpinned chunk used only by deleted/evicted files may remain.",
                rule="As C12; files share chunk-aligned content so that deletion of one file touches chunks of another.",
                probes=["deleted", "c16_deleted_checked", "c16_evicted", "cached"],
                assumptions=["chunk set of a file = addresses written by its upload"]),
}

NOT_APPLICABLE = {
    "C04": "pure function of (payload, address): no schedule, clock, fault or interleaving for a simulator to control (DESIGN.md section 6)",
    "C05": "pure function of (key, id, payload): signing/validation has no schedule, clock or fault dimension (DESIGN.md section 6)",
    "C08": "encryption round-trip and padding arithmetic are pure functions of key and payload; the decrypting reader is exercised (not claimed) by the encrypted files of C01",
    "C20": "proximity and XOR distance are pure functions of two byte strings",
    "C36": "keystore create/get/export/import is a sequential function of (name, password) over os files with no seam for faults; the statement has no crash, clock or concurrency in it",
    "C39": "bit vectors are a sequential in-memory structure; nothing depends on a schedule, clock or fault",
}
PENDING = {}

# entries contributed as JSON files (one per property) in props.d/
import glob as _glob, json as _json, os as _os
for _f in sorted(_glob.glob(_os.path.join(_os.path.dirname(_os.path.abspath(__file__)), "props.d", "*.json"))):
    PROPS[_os.path.basename(_f)[:-5]] = _json.load(open(_f))
