#!/bin/sh
# Offline setup: patched copy of the pre-installed go1.26.8 toolchain + world binary.
set -e
cd /verif
SRC=/opt/veriftools/go1.26.8
if [ ! -x .gosim/goroot/bin/go ] || ! cmp -s toolchain/gosim-runtime.patch .gosim/patch.applied; then
  rm -rf .gosim/goroot
  mkdir -p .gosim/bin .gosim/tmp
  cp -a "$SRC" .gosim/goroot
  (cd .gosim/goroot && patch -s -p1 < /verif/toolchain/gosim-runtime.patch)
  cp toolchain/gosim-runtime.patch .gosim/patch.applied
fi
mkdir -p .gosim/bin .gosim/tmp evidence replays
./check build
./check build --heavy
